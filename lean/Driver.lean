import Srtla.Drv.Util
import Srtla.Drv.Codec
/-!
# srtla_driver: executable model behind a line protocol

`srtla_driver <component>` reads one op per line on stdin and answers every op
with exactly one line on stdout.  `case N` starts a new case (state reset).
-/
open Srtla.Drv

def main (args : List String) : IO UInt32 := do
  let stdin ← IO.getStdin
  let stdout ← IO.getStdout
  match args with
  | ["codec"] => runLoop () Codec.step stdin stdout (); return 0
  | _ =>
    IO.eprintln "usage: srtla_driver <component>"
    return 2
