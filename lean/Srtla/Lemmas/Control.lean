import Srtla.Model.Control
/-!
# Helper lemmas for the control protocol model (C18)

`HM` lists every way `handle_method` can go; `handleMethod_HM` shows the list is complete.  All
property theorems case on it instead of unfolding the `if` chain again.
-/
namespace Srtla.Control
open Srtla.Gen

theorem version_lit : Control.JSONRPC_VERSION = "2.0" := rfl

theorem parseMode_classic : parseMode "classic" = .ok .classic := by simp [parseMode]
theorem parseMode_enhanced : parseMode "enhanced" = .ok .enhanced := by simp [parseMode]
theorem parseMode_other (s : String) (h1 : s ≠ "classic") (h2 : s ≠ "enhanced") :
    parseMode s = .error (ErrObj.new (-32602) ("unknown mode '" ++ s ++ "': use classic or enhanced")) := by
  simp [parseMode, h1, h2]

/-- Every way `handle_method` can go: (method, parameter condition, new config, outcome). -/
inductive HM (env : Env) (c : Config) (m : String) (p : Json) : Config × Except ErrObj Json → Prop
  | modeMissing : m = "set_mode" → (p.get "mode").bind Json.asStr = none →
      HM env c m p (c, .error (ErrObj.new (-32602) "expected params.mode: string"))
  | modeUnknown (s : String) : m = "set_mode" → (p.get "mode").bind Json.asStr = some s →
      s ≠ "classic" → s ≠ "enhanced" →
      HM env c m p (c, .error (ErrObj.new (-32602) ("unknown mode '" ++ s ++ "': use classic or enhanced")))
  | modeOk (md : Mode) : m = "set_mode" → (p.get "mode").bind Json.asStr = some md.toStr →
      HM env c m p (c.setMode md, .ok (.obj [("mode", .str md.toStr)]))
  | qualityBad : m = "set_quality" → (p.get "enabled").bind Json.asBool = none →
      HM env c m p (c, .error (ErrObj.new (-32602) "expected params.enabled: bool"))
  | qualityOk (b : Bool) : m = "set_quality" → (p.get "enabled").bind Json.asBool = some b →
      HM env c m p (c.setQuality b, .ok (.obj [("enabled", .bool b)]))
  | stallBad : m = "set_stall_deselect" → (p.get "enabled").bind Json.asBool = none →
      HM env c m p (c, .error (ErrObj.new (-32602) "expected params.enabled: bool"))
  | stallOk (b : Bool) : m = "set_stall_deselect" → (p.get "enabled").bind Json.asBool = some b →
      HM env c m p (c.setStall b, .ok (.obj [("enabled", .bool b)]))
  | timeoutBad : m = "set_conn_timeout" → (p.get "ms").bind Json.asU64 = none →
      HM env c m p (c, .error (ErrObj.new (-32602) "expected params.ms: u64"))
  | timeoutOk (ms : Nat) : m = "set_conn_timeout" → (p.get "ms").bind Json.asU64 = some ms →
      HM env c m p ((c.setConnTimeout ms).1, .ok (.obj [("ms", Json.ofNat (c.setConnTimeout ms).2)]))
  | status : m = "get_status" → HM env c m p (c, .ok (statusJson c.snapshot env.cw))
  | statsNone : m = "get_stats" → env.stats = none →
      HM env c m p (c, .error (ErrObj.new (-32603) "stats provider not registered"))
  | statsSome (j : Json) : m = "get_stats" → env.stats = some j → HM env c m p (c, .ok j)
  | reserved : m = "subscribe" ∨ m = "unsubscribe" →
      HM env c m p (c, .error (ErrObj.new (-32601)
        (m ++ " is reserved for a future streaming protocol, not yet implemented")))
  | unknown : m ≠ "set_mode" → m ≠ "set_quality" → m ≠ "set_stall_deselect" → m ≠ "set_conn_timeout" →
      m ≠ "get_status" → m ≠ "get_stats" → m ≠ "subscribe" → m ≠ "unsubscribe" →
      HM env c m p (c, .error (ErrObj.new (-32601) ("unknown method: " ++ m)))

theorem handleMethod_HM (env : Env) (c : Config) (m : String) (p : Json) :
    HM env c m p (handleMethod env c m p) := by
  unfold handleMethod
  simp only [Control.INVALID_PARAMS_eq, Control.METHOD_NOT_FOUND_eq, Control.INTERNAL_ERROR_eq]
  by_cases h1 : m = "set_mode"
  · subst h1
    simp only [if_true]
    cases hs : (p.get "mode").bind Json.asStr with
    | none => exact .modeMissing rfl hs
    | some s =>
      by_cases hc : s = "classic"
      · subst hc; simp only [parseMode_classic]; exact .modeOk .classic rfl hs
      · by_cases he : s = "enhanced"
        · subst he; simp only [parseMode_enhanced]; exact .modeOk .enhanced rfl hs
        · simp only [parseMode_other s hc he]; exact .modeUnknown s rfl hs hc he
  simp only [h1, if_false]
  by_cases h2 : m = "set_quality"
  · subst h2
    simp only [if_true]
    cases hs : (p.get "enabled").bind Json.asBool with
    | none => exact .qualityBad rfl hs
    | some b => exact .qualityOk b rfl hs
  simp only [h2, if_false]
  by_cases h3 : m = "set_stall_deselect"
  · subst h3
    simp only [if_true]
    cases hs : (p.get "enabled").bind Json.asBool with
    | none => exact .stallBad rfl hs
    | some b => exact .stallOk b rfl hs
  simp only [h3, if_false]
  by_cases h4 : m = "set_conn_timeout"
  · subst h4
    simp only [if_true]
    cases hs : (p.get "ms").bind Json.asU64 with
    | none => exact .timeoutBad rfl hs
    | some ms => exact .timeoutOk ms rfl hs
  simp only [h4, if_false]
  by_cases h5 : m = "get_status"
  · subst h5
    simp only [if_true]
    exact .status rfl
  simp only [h5, if_false]
  by_cases h6 : m = "get_stats"
  · subst h6
    simp only [if_true]
    cases hs : env.stats with
    | none => exact .statsNone rfl hs
    | some j => exact .statsSome j rfl hs
  simp only [h6, if_false]
  by_cases h7 : m = "subscribe" ∨ m = "unsubscribe"
  · simp only [h7, if_true]
    exact .reserved h7
  simp only [h7, if_false]
  have h7' : m ≠ "subscribe" ∧ m ≠ "unsubscribe" := by
    constructor <;> intro h <;> exact h7 (by simp [h])
  exact .unknown h1 h2 h3 h4 h5 h6 h7'.1 h7'.2


/-! ### dispatch_inner on a decoded request -/

theorem dispatchInner_v2 (env : Env) (c : Config) (r : Request) (hv : r.jsonrpc = "2.0") :
    dispatchInner env c (.request r) =
      ((handleMethod env c r.method r.params).1, finish r.id (handleMethod env c r.method r.params).2) := by
  simp [dispatchInner, version_lit, hv]

theorem dispatchInner_badVersion (env : Env) (c : Config) (r : Request) (hv : r.jsonrpc ≠ "2.0") :
    dispatchInner env c (.request r) = (c, r.id.map versionError) := by
  simp [dispatchInner, version_lit, hv]

/-- What `handle_method` can do to the configuration. -/
theorem HM.config {env : Env} {c : Config} {m : String} {p : Json} {out : Config × Except ErrObj Json}
    (h : HM env c m p out) :
    out.1 = c ∨ (m = "set_mode" ∧ ∃ md, out.1 = c.setMode md) ∨
      (m = "set_quality" ∧ ∃ b, out.1 = c.setQuality b) ∨
      (m = "set_stall_deselect" ∧ ∃ b, out.1 = c.setStall b) ∨
      (m = "set_conn_timeout" ∧ ∃ ms, out.1 = (c.setConnTimeout ms).1) := by
  cases h with
  | modeOk md h1 _ => exact .inr (.inl ⟨h1, md, rfl⟩)
  | qualityOk b h1 _ => exact .inr (.inr (.inl ⟨h1, b, rfl⟩))
  | stallOk b h1 _ => exact .inr (.inr (.inr (.inl ⟨h1, b, rfl⟩)))
  | timeoutOk ms h1 _ => exact .inr (.inr (.inr (.inr ⟨h1, ms, rfl⟩)))
  | _ => exact .inl rfl

theorem Mode.fromU8_asU8 (m : Mode) : Mode.fromU8 m.asU8 = m := by cases m <;> rfl

theorem clampU64_range (v lo hi : Nat) (h : lo ≤ hi) :
    lo ≤ clampU64 v lo hi ∧ clampU64 v lo hi ≤ hi := by
  unfold clampU64
  split
  · omega
  · split <;> omega

end Srtla.Control
