import Srtla.Model.Control
/-!
# Helper lemmas for the control protocol model (C18)

`HM` lists every way `handle_method` can go; `handleMethod_HM` shows the list is complete.  All
property theorems case on it instead of unfolding the `if` chain again.
-/
namespace Srtla.Control
open Srtla.Gen

theorem version_lit : Control.JSONRPC_VERSION = "2.0" := rfl

theorem parseMode_classic : parseMode "classic" = .ok .classic := by simp [parseMode]
theorem parseMode_enhanced : parseMode "enhanced" = .ok .enhanced := by simp [parseMode]
theorem parseMode_other (s : String) (h1 : s ≠ "classic") (h2 : s ≠ "enhanced") :
    parseMode s = .error (ErrObj.new (-32602) ("unknown mode '" ++ s ++ "': use classic or enhanced")) := by
  simp [parseMode, h1, h2]

/-- Every way `handle_method` can go: (method, parameter condition, new config, outcome). -/
inductive HM (env : Env) (c : Config) (m : String) (p : Json) : Config × Except ErrObj Json → Prop
  | modeMissing : m = "set_mode" → (p.get "mode").bind Json.asStr = none →
      HM env c m p (c, .error (ErrObj.new (-32602) "expected params.mode: string"))
  | modeUnknown (s : String) : m = "set_mode" → (p.get "mode").bind Json.asStr = some s →
      s ≠ "classic" → s ≠ "enhanced" →
      HM env c m p (c, .error (ErrObj.new (-32602) ("unknown mode '" ++ s ++ "': use classic or enhanced")))
  | modeOk (md : Mode) : m = "set_mode" → (p.get "mode").bind Json.asStr = some md.toStr →
      HM env c m p (c.setMode md, .ok (.obj [("mode", .str md.toStr)]))
  | qualityBad : m = "set_quality" → (p.get "enabled").bind Json.asBool = none →
      HM env c m p (c, .error (ErrObj.new (-32602) "expected params.enabled: bool"))
  | qualityOk (b : Bool) : m = "set_quality" → (p.get "enabled").bind Json.asBool = some b →
      HM env c m p (c.setQuality b, .ok (.obj [("enabled", .bool b)]))
  | stallBad : m = "set_stall_deselect" → (p.get "enabled").bind Json.asBool = none →
      HM env c m p (c, .error (ErrObj.new (-32602) "expected params.enabled: bool"))
  | stallOk (b : Bool) : m = "set_stall_deselect" → (p.get "enabled").bind Json.asBool = some b →
      HM env c m p (c.setStall b, .ok (.obj [("enabled", .bool b)]))
  | timeoutBad : m = "set_conn_timeout" → (p.get "ms").bind Json.asU64 = none →
      HM env c m p (c, .error (ErrObj.new (-32602) "expected params.ms: u64"))
  | timeoutOk (ms : Nat) : m = "set_conn_timeout" → (p.get "ms").bind Json.asU64 = some ms →
      HM env c m p ((c.setConnTimeout ms).1, .ok (.obj [("ms", Json.ofNat (c.setConnTimeout ms).2)]))
  | status : m = "get_status" → HM env c m p (c, .ok (statusJson c.snapshot env.cw))
  | statsNone : m = "get_stats" → env.stats = none →
      HM env c m p (c, .error (ErrObj.new (-32603) "stats provider not registered"))
  | statsSome (j : Json) : m = "get_stats" → env.stats = some j → HM env c m p (c, .ok j)
  | reserved : m = "subscribe" ∨ m = "unsubscribe" →
      HM env c m p (c, .error (ErrObj.new (-32601)
        (m ++ " is reserved for a future streaming protocol, not yet implemented")))
  | unknown : m ≠ "set_mode" → m ≠ "set_quality" → m ≠ "set_stall_deselect" → m ≠ "set_conn_timeout" →
      m ≠ "get_status" → m ≠ "get_stats" → m ≠ "subscribe" → m ≠ "unsubscribe" →
      HM env c m p (c, .error (ErrObj.new (-32601) ("unknown method: " ++ m)))

theorem handleMethod_HM (env : Env) (c : Config) (m : String) (p : Json) :
    HM env c m p (handleMethod env c m p) := by
  unfold handleMethod
  simp only [Control.INVALID_PARAMS_eq, Control.METHOD_NOT_FOUND_eq, Control.INTERNAL_ERROR_eq]
  by_cases h1 : m = "set_mode"
  · subst h1
    simp only [if_true]
    cases hs : (p.get "mode").bind Json.asStr with
    | none => exact .modeMissing rfl hs
    | some s =>
      by_cases hc : s = "classic"
      · subst hc; simp only [parseMode_classic]; exact .modeOk .classic rfl hs
      · by_cases he : s = "enhanced"
        · subst he; simp only [parseMode_enhanced]; exact .modeOk .enhanced rfl hs
        · simp only [parseMode_other s hc he]; exact .modeUnknown s rfl hs hc he
  simp only [h1, if_false]
  by_cases h2 : m = "set_quality"
  · subst h2
    simp only [if_true]
    cases hs : (p.get "enabled").bind Json.asBool with
    | none => exact .qualityBad rfl hs
    | some b => exact .qualityOk b rfl hs
  simp only [h2, if_false]
  by_cases h3 : m = "set_stall_deselect"
  · subst h3
    simp only [if_true]
    cases hs : (p.get "enabled").bind Json.asBool with
    | none => exact .stallBad rfl hs
    | some b => exact .stallOk b rfl hs
  simp only [h3, if_false]
  by_cases h4 : m = "set_conn_timeout"
  · subst h4
    simp only [if_true]
    cases hs : (p.get "ms").bind Json.asU64 with
    | none => exact .timeoutBad rfl hs
    | some ms => exact .timeoutOk ms rfl hs
  simp only [h4, if_false]
  by_cases h5 : m = "get_status"
  · subst h5
    simp only [if_true]
    exact .status rfl
  simp only [h5, if_false]
  by_cases h6 : m = "get_stats"
  · subst h6
    simp only [if_true]
    cases hs : env.stats with
    | none => exact .statsNone rfl hs
    | some j => exact .statsSome j rfl hs
  simp only [h6, if_false]
  by_cases h7 : m = "subscribe" ∨ m = "unsubscribe"
  · simp only [h7, if_true]
    exact .reserved h7
  simp only [h7, if_false]
  have h7' : m ≠ "subscribe" ∧ m ≠ "unsubscribe" := by
    constructor <;> intro h <;> exact h7 (by simp [h])
  exact .unknown h1 h2 h3 h4 h5 h6 h7'.1 h7'.2


/-! ### dispatch_inner on a decoded request -/

theorem dispatchInner_v2 (env : Env) (c : Config) (r : Request) (hv : r.jsonrpc = "2.0") :
    dispatchInner env c (.request r) =
      ((handleMethod env c r.method r.params).1, finish r.id (handleMethod env c r.method r.params).2) := by
  simp [dispatchInner, version_lit, hv]

theorem dispatchInner_badVersion (env : Env) (c : Config) (r : Request) (hv : r.jsonrpc ≠ "2.0") :
    dispatchInner env c (.request r) = (c, r.id.map versionError) := by
  simp [dispatchInner, version_lit, hv]

/-- What `handle_method` can do to the configuration. -/
theorem HM.config {env : Env} {c : Config} {m : String} {p : Json} {out : Config × Except ErrObj Json}
    (h : HM env c m p out) :
    out.1 = c ∨ (m = "set_mode" ∧ ∃ md, out.1 = c.setMode md) ∨
      (m = "set_quality" ∧ ∃ b, out.1 = c.setQuality b) ∨
      (m = "set_stall_deselect" ∧ ∃ b, out.1 = c.setStall b) ∨
      (m = "set_conn_timeout" ∧ ∃ ms, out.1 = (c.setConnTimeout ms).1) := by
  cases h with
  | modeOk md h1 _ => exact .inr (.inl ⟨h1, md, rfl⟩)
  | qualityOk b h1 _ => exact .inr (.inr (.inl ⟨h1, b, rfl⟩))
  | stallOk b h1 _ => exact .inr (.inr (.inr (.inl ⟨h1, b, rfl⟩)))
  | timeoutOk ms h1 _ => exact .inr (.inr (.inr (.inr ⟨h1, ms, rfl⟩)))
  | _ => exact .inl rfl

theorem Mode.fromU8_asU8 (m : Mode) : Mode.fromU8 m.asU8 = m := by cases m <;> rfl

theorem clampU64_range (v lo hi : Nat) (h : lo ≤ hi) :
    lo ≤ clampU64 v lo hi ∧ clampU64 v lo hi ≤ hi := by
  unfold clampU64
  split
  · omega
  · split <;> omega


/-! ## Vocabulary of the property statement (used by `Props/C18.lean`) -/

/-- The documented timeout range, with the property's literal numbers. -/
def InRange (t : Nat) : Prop := 1000 ≤ t ∧ t ≤ 60000

/-- "with either a result or an error": exactly one of the two members is present. -/
def ExactlyOne (r : Response) : Prop := r.result.isSome = !r.error.isSome

/-- The error code of a (possibly absent) response. -/
def code? (o : Option Response) : Option Int := o.bind fun r => r.error.map (·.code)

/-- Response shape demanded for one line. -/
def ShapeOK (l : Line) (o : Option Response) : Prop :=
  match l with
  | .blank => o = none
  | .unparsable =>
    ∃ e, o = some { jsonrpc := "2.0", result := none, error := some e, id := .null } ∧ e.code = -32700
  | .request r =>
    match r.id with
    | some i => ∃ resp, o = some resp ∧ resp.id = i ∧ ExactlyOne resp
    | none => o = none

/-- Position-wise relation between the input lines and the outputs (same length, related at
every index). -/
inductive Pointwise {α β : Type} (R : α → β → Prop) : List α → List β → Prop
  | nil : Pointwise R [] []
  | cons {a : α} {b : β} {as : List α} {bs : List β} :
      R a b → Pointwise R as bs → Pointwise R (a :: as) (b :: bs)

/-- A `get_status` request (any params, any id). -/
def statusReq (p i : Json) : Line :=
  .request { jsonrpc := "2.0", method := "get_status", params := p, id := some i }

/-- The six built-in methods of the stdin entry point. -/
def builtin : List String :=
  ["set_mode", "set_quality", "set_stall_deselect", "set_conn_timeout", "get_status", "get_stats"]

/-- "bad parameters" for the four setters, spelled out. -/
def BadParams (m : String) (p : Json) : Prop :=
  (m = "set_mode" ∧
      ∀ s, (p.get "mode").bind Json.asStr = some s → s ≠ "classic" ∧ s ≠ "enhanced") ∨
  ((m = "set_quality" ∨ m = "set_stall_deselect") ∧ (p.get "enabled").bind Json.asBool = none) ∨
  (m = "set_conn_timeout" ∧ (p.get "ms").bind Json.asU64 = none)

/-! ## Classification of `handle_method` outcomes -/

theorem HM.ok_class {env : Env} {c : Config} {m : String} {p : Json} {out : Config × Except ErrObj Json}
    (h : HM env c m p out) {v : Json} (hv : out.2 = .ok v) :
    ¬ BadParams m p ∧ m ∈ builtin ∧ ¬ (m = "get_stats" ∧ env.stats = none) := by
  cases h with
  | modeOk md h1 h2 =>
    subst h1
    refine ⟨?_, by simp [builtin], by simp⟩
    rintro (⟨_, hb⟩ | ⟨hb, _⟩ | ⟨hb, _⟩)
    · have := hb _ h2
      cases md <;> simp [Mode.toStr] at this
    · simp at hb
    · simp at hb
  | qualityOk b h1 h2 =>
    subst h1
    refine ⟨?_, by simp [builtin], by simp⟩
    rintro (⟨hb, _⟩ | ⟨_, hb⟩ | ⟨hb, _⟩)
    · simp at hb
    · simp [h2] at hb
    · simp at hb
  | stallOk b h1 h2 =>
    subst h1
    refine ⟨?_, by simp [builtin], by simp⟩
    rintro (⟨hb, _⟩ | ⟨_, hb⟩ | ⟨hb, _⟩)
    · simp at hb
    · simp [h2] at hb
    · simp at hb
  | timeoutOk ms h1 h2 =>
    subst h1
    refine ⟨?_, by simp [builtin], by simp⟩
    rintro (⟨hb, _⟩ | ⟨hb, _⟩ | ⟨_, hb⟩)
    · simp at hb
    · simp at hb
    · simp [h2] at hb
  | status h1 =>
    subst h1
    refine ⟨?_, by simp [builtin], by simp⟩
    rintro (⟨hb, _⟩ | ⟨hb, _⟩ | ⟨hb, _⟩) <;> simp at hb
  | statsSome j h1 h2 =>
    subst h1
    refine ⟨?_, by simp [builtin], by simp [h2]⟩
    rintro (⟨hb, _⟩ | ⟨hb, _⟩ | ⟨hb, _⟩) <;> simp at hb
  | _ => simp at hv

theorem HM.error_class {env : Env} {c : Config} {m : String} {p : Json} {out : Config × Except ErrObj Json}
    (h : HM env c m p out) {e : ErrObj} (he : out.2 = .error e) :
    (e.code = -32602 ∧ BadParams m p) ∨ (e.code = -32601 ∧ m ∉ builtin) ∨
      (e.code = -32603 ∧ m = "get_stats" ∧ env.stats = none) := by
  cases h with
  | modeMissing h1 h2 =>
    simp at he; subst he
    exact .inl ⟨rfl, .inl ⟨h1, by simp [h2]⟩⟩
  | modeUnknown s h1 h2 h3 h4 =>
    simp at he; subst he
    refine .inl ⟨rfl, .inl ⟨h1, ?_⟩⟩
    intro s' hs'
    rw [h2] at hs'
    cases hs'
    exact ⟨h3, h4⟩
  | qualityBad h1 h2 =>
    simp at he; subst he
    exact .inl ⟨rfl, .inr (.inl ⟨.inl h1, h2⟩)⟩
  | stallBad h1 h2 =>
    simp at he; subst he
    exact .inl ⟨rfl, .inr (.inl ⟨.inr h1, h2⟩)⟩
  | timeoutBad h1 h2 =>
    simp at he; subst he
    exact .inl ⟨rfl, .inr (.inr ⟨h1, h2⟩)⟩
  | statsNone h1 h2 =>
    simp at he; subst he
    exact .inr (.inr ⟨rfl, h1, h2⟩)
  | reserved h1 =>
    simp at he; subst he
    refine .inr (.inl ⟨rfl, ?_⟩)
    rcases h1 with h1 | h1 <;> simp [builtin, h1]
  | unknown h1 h2 h3 h4 h5 h6 _ _ =>
    simp at he; subst he
    exact .inr (.inl ⟨rfl, by simp [builtin, h1, h2, h3, h4, h5, h6]⟩)
  | _ => simp at he


/-! ## Response plumbing -/

theorem finish_shape (id : Option Json) (res : Except ErrObj Json) :
    match id with
    | some i => ∃ resp, finish id res = some resp ∧ resp.id = i ∧ ExactlyOne resp
    | none => finish id res = none := by
  cases id with
  | none => rfl
  | some i =>
    cases res with
    | ok v => exact ⟨_, rfl, rfl, rfl⟩
    | error e => exact ⟨_, rfl, rfl, rfl⟩

theorem map_versionError_shape (id : Option Json) :
    match id with
    | some i => ∃ resp, id.map versionError = some resp ∧ resp.id = i ∧ ExactlyOne resp
    | none => id.map versionError = none := by
  cases id with
  | none => rfl
  | some i => exact ⟨_, rfl, rfl, rfl⟩

theorem async_resp_finish (env : Env) (c : Config) (ctx : Option Ctx) (r : Request)
    (hv : r.jsonrpc = Control.JSONRPC_VERSION) :
    ∃ res, (dispatchAsync env c ctx (.request r)).2.2 = finish r.id res := by
  unfold dispatchAsync
  simp only [hv, ne_eq, not_true_eq_false, if_false]
  cases ctx with
  | none => exact ⟨_, rfl⟩
  | some x =>
    simp only
    by_cases h1 : r.method = "subscribe"
    · rw [if_pos h1]; exact ⟨_, rfl⟩
    · rw [if_neg h1]
      by_cases h2 : r.method = "unsubscribe"
      · rw [if_pos h2]; exact ⟨_, rfl⟩
      · rw [if_neg h2]
        by_cases h3 : r.method = "get_subscription_count"
        · rw [if_pos h3]
          exact ⟨.ok (.obj [("count", Json.ofNat x.hub.entries.length)]), rfl⟩
        · rw [if_neg h3]; exact ⟨_, rfl⟩

theorem code_finish (id : Option Json) (res : Except ErrObj Json) (k : Int) :
    code? (finish id res) = some k ↔ ∃ i e, id = some i ∧ res = .error e ∧ e.code = k := by
  cases id with
  | none => simp [finish, code?]
  | some i =>
    cases res with
    | ok v => simp [finish, code?, Response.ok]
    | error e => simp [finish, code?, Response.err]

theorem code_version (id : Option Json) (k : Int) :
    code? (id.map versionError) = some k ↔ (∃ i, id = some i) ∧ k = -32600 := by
  cases id with
  | none => simp [code?]
  | some i =>
    simp [code?, versionError, Response.err, ErrObj.new, Control.INVALID_REQUEST_eq]
    omega

/-! ## Exact outcomes of the well-typed calls -/

theorem handleMethod_set_mode (env : Env) (c : Config) (p : Json) (md : Mode)
    (hp : (p.get "mode").bind Json.asStr = some md.toStr) :
    handleMethod env c "set_mode" p = (c.setMode md, .ok (.obj [("mode", .str md.toStr)])) := by
  unfold handleMethod
  simp only [if_true, hp]
  cases md <;> simp [parseMode, Mode.toStr]

theorem handleMethod_set_quality (env : Env) (c : Config) (p : Json) (b : Bool)
    (hp : (p.get "enabled").bind Json.asBool = some b) :
    handleMethod env c "set_quality" p = (c.setQuality b, .ok (.obj [("enabled", .bool b)])) := by
  simp [handleMethod, hp]

theorem handleMethod_set_stall (env : Env) (c : Config) (p : Json) (b : Bool)
    (hp : (p.get "enabled").bind Json.asBool = some b) :
    handleMethod env c "set_stall_deselect" p = (c.setStall b, .ok (.obj [("enabled", .bool b)])) := by
  simp [handleMethod, hp]

theorem handleMethod_set_conn_timeout (env : Env) (c : Config) (p : Json) (ms : Nat)
    (hp : (p.get "ms").bind Json.asU64 = some ms) :
    handleMethod env c "set_conn_timeout" p =
      ((c.setConnTimeout ms).1, .ok (.obj [("ms", Json.ofNat (c.setConnTimeout ms).2)])) := by
  simp [handleMethod, hp]

theorem status_reply (env : Env) (c : Config) (p i : Json) :
    dispatchInner env c (statusReq p i) = (c, some (Response.ok i (statusJson c.snapshot env.cw))) := by
  simp [statusReq, dispatchInner, version_lit, handleMethod, finish]

/-! ## Frames: which lines can touch which cell -/

theorem dispatchInner_frame {α : Type} (f : Config → α) (nm : String)
    (hmode : nm ≠ "set_mode" → ∀ (c : Config) md, f (c.setMode md) = f c)
    (hq : nm ≠ "set_quality" → ∀ (c : Config) b, f (c.setQuality b) = f c)
    (hs : nm ≠ "set_stall_deselect" → ∀ (c : Config) b, f (c.setStall b) = f c)
    (ht : nm ≠ "set_conn_timeout" → ∀ (c : Config) ms, f (c.setConnTimeout ms).1 = f c)
    (env : Env) (c : Config) (l : Line) (h : ∀ r, l = .request r → r.method ≠ nm) :
    f (dispatchInner env c l).1 = f c := by
  cases l with
  | blank => rfl
  | unparsable => rfl
  | request r =>
    have hne := h r rfl
    by_cases hv : r.jsonrpc = "2.0"
    · rw [dispatchInner_v2 env c r hv]
      rcases (handleMethod_HM env c r.method r.params).config with
        h0 | ⟨hm, md, h0⟩ | ⟨hm, b, h0⟩ | ⟨hm, b, h0⟩ | ⟨hm, ms, h0⟩
      · simp only [h0]
      · simp only [h0]; exact hmode (fun e => hne (hm.trans e.symm)) c md
      · simp only [h0]; exact hq (fun e => hne (hm.trans e.symm)) c b
      · simp only [h0]; exact hs (fun e => hne (hm.trans e.symm)) c b
      · simp only [h0]; exact ht (fun e => hne (hm.trans e.symm)) c ms
    · rw [dispatchInner_badVersion env c r hv]

theorem runSync_frame {α : Type} (f : Config → α) (nm : String)
    (hmode : nm ≠ "set_mode" → ∀ (c : Config) md, f (c.setMode md) = f c)
    (hq : nm ≠ "set_quality" → ∀ (c : Config) b, f (c.setQuality b) = f c)
    (hs : nm ≠ "set_stall_deselect" → ∀ (c : Config) b, f (c.setStall b) = f c)
    (ht : nm ≠ "set_conn_timeout" → ∀ (c : Config) ms, f (c.setConnTimeout ms).1 = f c)
    (c : Config) (ls : List (Env × Line))
    (h : ∀ el ∈ ls, ∀ q, el.2 = .request q → q.method ≠ nm) :
    f (runSync c ls).1 = f c := by
  induction ls generalizing c with
  | nil => rfl
  | cons el rest ih =>
    simp only [runSync]
    rw [ih _ (fun el' hel => h el' (List.mem_cons_of_mem _ hel))]
    exact dispatchInner_frame f nm hmode hq hs ht el.1 c el.2 (h el (List.mem_cons_self ..))


/-! ## Which calls give which error code -/

theorem BadParams.setter {m : String} {p : Json} (h : BadParams m p) :
    m ∈ builtin ∧ m ≠ "get_stats" := by
  rcases h with ⟨h, _⟩ | ⟨h | h, _⟩ | ⟨h, _⟩ <;> subst h <;> simp [builtin]

theorem hm_code_602 (env : Env) (c : Config) (m : String) (p : Json) :
    (∃ e, (handleMethod env c m p).2 = .error e ∧ e.code = -32602) ↔ BadParams m p := by
  have H := handleMethod_HM env c m p
  constructor
  · rintro ⟨e, he, hc⟩
    rcases H.error_class he with ⟨_, hb⟩ | ⟨h, _⟩ | ⟨h, _⟩
    · exact hb
    · omega
    · omega
  · intro hb
    cases hout : (handleMethod env c m p).2 with
    | ok v => exact absurd hb (H.ok_class hout).1
    | error e =>
      refine ⟨e, rfl, ?_⟩
      rcases H.error_class hout with ⟨h, _⟩ | ⟨_, h⟩ | ⟨_, h, _⟩
      · exact h
      · exact absurd hb.setter.1 h
      · exact absurd h hb.setter.2

theorem hm_code_601 (env : Env) (c : Config) (m : String) (p : Json) :
    (∃ e, (handleMethod env c m p).2 = .error e ∧ e.code = -32601) ↔ m ∉ builtin := by
  have H := handleMethod_HM env c m p
  constructor
  · rintro ⟨e, he, hc⟩
    rcases H.error_class he with ⟨h, _⟩ | ⟨_, hb⟩ | ⟨h, _⟩
    · omega
    · exact hb
    · omega
  · intro hb
    cases hout : (handleMethod env c m p).2 with
    | ok v => exact absurd (H.ok_class hout).2.1 hb
    | error e =>
      refine ⟨e, rfl, ?_⟩
      rcases H.error_class hout with ⟨_, h⟩ | ⟨h, _⟩ | ⟨_, h, _⟩
      · exact absurd h.setter.1 hb
      · exact h
      · subst h; simp [builtin] at hb

theorem hm_code_603 (env : Env) (c : Config) (m : String) (p : Json) :
    (∃ e, (handleMethod env c m p).2 = .error e ∧ e.code = -32603) ↔
      (m = "get_stats" ∧ env.stats = none) := by
  have H := handleMethod_HM env c m p
  constructor
  · rintro ⟨e, he, hc⟩
    rcases H.error_class he with ⟨h, _⟩ | ⟨h, _⟩ | ⟨_, hb⟩
    · omega
    · omega
    · exact hb
  · intro hb
    cases hout : (handleMethod env c m p).2 with
    | ok v => exact absurd hb (H.ok_class hout).2.2
    | error e =>
      refine ⟨e, rfl, ?_⟩
      rcases H.error_class hout with ⟨_, h⟩ | ⟨_, h⟩ | ⟨h, _⟩
      · exact absurd hb.1 h.setter.2
      · rw [hb.1] at h; simp [builtin] at h
      · exact h

theorem hm_codes (env : Env) (c : Config) (m : String) (p : Json) (e : ErrObj)
    (he : (handleMethod env c m p).2 = .error e) :
    e.code = -32602 ∨ e.code = -32601 ∨ e.code = -32603 := by
  rcases (handleMethod_HM env c m p).error_class he with ⟨h, _⟩ | ⟨h, _⟩ | ⟨h, _⟩
  · exact .inl h
  · exact .inr (.inl h)
  · exact .inr (.inr h)

/-- The error code of the stdin entry point on a version-2.0 request. -/
theorem code_v2 (env : Env) (c : Config) (r : Request) (hv : r.jsonrpc = "2.0") (k : Int) :
    code? (dispatchInner env c (.request r)).2 = some k ↔
      (∃ i, r.id = some i) ∧
        ∃ e, (handleMethod env c r.method r.params).2 = .error e ∧ e.code = k := by
  rw [dispatchInner_v2 env c r hv, code_finish]
  constructor
  · rintro ⟨i, e, hi, he, hc⟩; exact ⟨⟨i, hi⟩, e, he, hc⟩
  · rintro ⟨⟨i, hi⟩, e, he, hc⟩; exact ⟨i, e, hi, he, hc⟩

theorem code_badVersion (env : Env) (c : Config) (r : Request) (hv : r.jsonrpc ≠ "2.0") (k : Int) :
    code? (dispatchInner env c (.request r)).2 = some k ↔ (∃ i, r.id = some i) ∧ k = -32600 := by
  rw [dispatchInner_badVersion env c r hv, code_version]

theorem code_blank (env : Env) (c : Config) (k : Int) :
    code? (dispatchInner env c .blank).2 ≠ some k := by
  simp [dispatchInner, code?]

theorem code_unparsable (env : Env) (c : Config) :
    code? (dispatchInner env c .unparsable).2 = some (-32700) := by
  simp [dispatchInner, code?, parseErrorResponse, Response.err, Control.PARSE_ERROR_eq]


/-! ## Concurrent view: the step invariant -/

def Conc.CellsOK (s : Conc) : Prop := ∀ v ∈ s.cells.timeout, InRange v
def Conc.TasksOK (s : Conc) : Prop :=
  ∀ t p, s.tasks t = .snapping p → ∀ v, p.timeout = some v → InRange v
def Conc.Inv (s : Conc) : Prop := s.CellsOK ∧ s.TasksOK

def EventOK : Event → Prop
  | .timeoutApplied _ ms a => a = clampU64 ms 1000 60000 ∧ InRange a
  | .snapshot _ snap => InRange snap.timeout

theorem clamp_inRange (ms : Nat) :
    InRange (clampU64 ms Cfg.CONN_TIMEOUT_MS_MIN Cfg.CONN_TIMEOUT_MS_MAX) := by
  simp only [Cfg.CONN_TIMEOUT_MS_MIN_eq, Cfg.CONN_TIMEOUT_MS_MAX_eq]
  exact clampU64_range ms 1000 60000 (by omega)

theorem setTask_same (tasks : Nat → Task) (t : Nat) (x : Task) : setTask tasks t x t = x := by
  simp [setTask]

theorem setTask_snapping {tasks : Nat → Task} {t : Nat} {x : Task} {t' : Nat} {p : Partial}
    (h : setTask tasks t x t' = .snapping p) :
    (t' = t ∧ x = .snapping p) ∨ (t' ≠ t ∧ tasks t' = .snapping p) := by
  unfold setTask at h
  split at h
  · exact .inl ⟨‹_›, h⟩
  · exact .inr ⟨‹_›, h⟩

theorem Partial.complete_timeout {p : Partial} {snap : Snapshot} (h : p.complete = some snap) :
    p.timeout = some snap.timeout := by
  unfold Partial.complete at h
  split at h
  · rename_i ht; cases h; simp [ht]
  · cases h

theorem Conc.step_inv {s s' : Conc} {a : Act} {ev : Option Event} (hinv : s.Inv)
    (h : s.step a = some (s', ev)) : s'.Inv ∧ ∀ e, ev = some e → EventOK e := by
  obtain ⟨hc, ht⟩ := hinv
  cases a with
  | call t op =>
    simp only [Conc.step] at h
    split at h
    · -- idle
      have key : ∀ x : Task, (∀ p, x = .snapping p → p.timeout = none) →
          (Conc.mk s.cells (setTask s.tasks t x) s.seen).Inv := by
        intro x hx
        refine ⟨hc, ?_⟩
        intro t' p hp v hv
        rcases setTask_snapping hp with ⟨_, hx'⟩ | ⟨_, hold⟩
        · rw [hx p hx'] at hv; cases hv
        · exact ht t' p hold v hv
      cases op <;> simp only [Option.some.injEq, Prod.mk.injEq] at h <;> obtain ⟨rfl, rfl⟩ := h
      all_goals refine ⟨key _ ?_, by simp⟩
      all_goals intro p hp
      all_goals first
        | (cases hp; rfl)
        | cases hp
    · cases h
  | store t =>
    simp only [Conc.step] at h
    split at h
    · -- storing op
      have tasks_ok : ∀ t' p, setTask s.tasks t .idle t' = .snapping p →
          ∀ v, p.timeout = some v → InRange v := by
        intro t' p hp v hv
        rcases setTask_snapping hp with ⟨_, hx⟩ | ⟨_, hold⟩
        · cases hx
        · exact ht t' p hold v hv
      rename_i op _
      cases op <;> simp only [Option.some.injEq, Prod.mk.injEq, reduceCtorEq] at h
      case setMode m _ => obtain ⟨rfl, rfl⟩ := h; exact ⟨⟨hc, tasks_ok⟩, by simp⟩
      case setQuality b _ => obtain ⟨rfl, rfl⟩ := h; exact ⟨⟨hc, tasks_ok⟩, by simp⟩
      case setStall b _ => obtain ⟨rfl, rfl⟩ := h; exact ⟨⟨hc, tasks_ok⟩, by simp⟩
      case setTimeout ms _ =>
        obtain ⟨rfl, rfl⟩ := h
        have hr := clamp_inRange ms
        refine ⟨⟨?_, tasks_ok⟩, ?_⟩
        · intro v hv
          simp only [List.mem_cons] at hv
          rcases hv with rfl | hv
          · exact hr
          · exact hc v hv
        · intro e he
          cases he
          exact ⟨by simp [Cfg.CONN_TIMEOUT_MS_MIN_eq, Cfg.CONN_TIMEOUT_MS_MAX_eq], hr⟩
    · cases h
  | load t f k =>
    simp only [Conc.step] at h
    split at h
    · rename_i p hp
      have key : ∀ (p' : Partial) (sn : Nat → Field → Nat), (∀ v, p'.timeout = some v → InRange v) →
          (Conc.mk s.cells (setTask s.tasks t (.snapping p')) sn).Inv := by
        intro p' sn hp'
        refine ⟨hc, ?_⟩
        intro t' q hq v hv
        rcases setTask_snapping hq with ⟨_, hx⟩ | ⟨_, hold⟩
        · cases hx; exact hp' v hv
        · exact ht t' q hold v hv
      have old := ht t p hp
      split at h
      · cases f <;> simp only [Option.bind_eq_some_iff, Option.some.injEq, Prod.mk.injEq] at h <;>
          obtain ⟨x, hx, rfl, rfl⟩ := h
        case timeout =>
          refine ⟨key _ _ ?_, by simp⟩
          intro v hv
          simp only [Option.some.injEq] at hv
          subst hv
          exact hc x (List.mem_of_getElem? hx)
        all_goals exact ⟨key _ _ old, by simp⟩
      · cases h
    · cases h
  | ret t =>
    simp only [Conc.step] at h
    split at h
    · rename_i p hp
      split at h
      · rename_i snap hsnap
        simp only [Option.some.injEq, Prod.mk.injEq] at h
        obtain ⟨rfl, rfl⟩ := h
        refine ⟨⟨hc, ?_⟩, ?_⟩
        · intro t' q hq v hv
          rcases setTask_snapping hq with ⟨_, hx⟩ | ⟨_, hold⟩
          · cases hx
          · exact ht t' q hold v hv
        · intro e he
          cases he
          exact ht t p hp _ (Partial.complete_timeout hsnap)
      · cases h
    · cases h


theorem Conc.run_inv (s : Conc) (acts : List Act) (hinv : s.Inv) :
    (s.run acts).1.Inv ∧ ∀ e ∈ (s.run acts).2, EventOK e := by
  induction acts generalizing s with
  | nil => exact ⟨hinv, by simp [Conc.run]⟩
  | cons a rest ih =>
    simp only [Conc.run]
    cases hstep : s.step a with
    | none => exact ih s hinv
    | some r =>
      obtain ⟨s', ev⟩ := r
      obtain ⟨hinv', hev⟩ := Conc.step_inv hinv hstep
      obtain ⟨h1, h2⟩ := ih s' hinv'
      refine ⟨h1, ?_⟩
      cases ev with
      | none => exact h2
      | some e =>
        intro e' he'
        simp only [List.mem_cons] at he'
        rcases he' with rfl | he'
        · exact hev _ rfl
        · exact h2 e' he'

theorem Conc.init_inv (c : Config) (h : InRange c.timeout) : (Conc.init c).Inv := by
  refine ⟨?_, ?_⟩
  · intro v hv
    simp only [Conc.init, Cells.ofConfig, List.mem_singleton] at hv
    subst hv
    exact h
  · intro t p hp
    simp [Conc.init] at hp

end Srtla.Control

namespace Srtla.Control
open Srtla.Gen

/-! ## Round 2: the `jsonrpc` member of every response -/

theorem Response.ok_jsonrpc (i v : Json) : (Response.ok i v).jsonrpc = "2.0" := rfl
theorem Response.err_jsonrpc (i : Json) (e : ErrObj) : (Response.err i e).jsonrpc = "2.0" := rfl

theorem finish_jsonrpc (id : Option Json) (res : Except ErrObj Json) (resp : Response)
    (h : finish id res = some resp) : resp.jsonrpc = "2.0" := by
  cases id with
  | none => cases h
  | some i =>
    cases res with
    | ok v => simp only [finish, Option.some.injEq] at h; rw [← h]; rfl
    | error e => simp only [finish, Option.some.injEq] at h; rw [← h]; rfl

theorem map_versionError_jsonrpc (id : Option Json) (resp : Response)
    (h : id.map versionError = some resp) : resp.jsonrpc = "2.0" := by
  cases id with
  | none => cases h
  | some i => simp only [Option.map_some, Option.some.injEq] at h; rw [← h]; rfl

theorem dispatchInner_jsonrpc (env : Env) (c : Config) (l : Line) (resp : Response)
    (h : (dispatchInner env c l).2 = some resp) : resp.jsonrpc = "2.0" := by
  cases l with
  | blank => cases h
  | unparsable => simp only [dispatchInner, Option.some.injEq] at h; rw [← h]; rfl
  | request r =>
    unfold dispatchInner at h
    by_cases hv : r.jsonrpc = Control.JSONRPC_VERSION
    · simp only [hv, ne_eq, not_true_eq_false, if_false] at h
      exact finish_jsonrpc _ _ _ h
    · simp only [hv, ne_eq, not_false_eq_true, if_true] at h
      exact map_versionError_jsonrpc _ _ h

theorem dispatchAsync_jsonrpc (env : Env) (c : Config) (ctx : Option Ctx) (l : Line) (resp : Response)
    (h : (dispatchAsync env c ctx l).2.2 = some resp) : resp.jsonrpc = "2.0" := by
  cases l with
  | blank => cases h
  | unparsable => simp only [dispatchAsync, Option.some.injEq] at h; rw [← h]; rfl
  | request r =>
    by_cases hv : r.jsonrpc = Control.JSONRPC_VERSION
    · obtain ⟨res, hres⟩ := async_resp_finish env c ctx r hv
      rw [hres] at h
      exact finish_jsonrpc _ _ _ h
    · unfold dispatchAsync at h
      simp only [hv, ne_eq, not_false_eq_true, if_true] at h
      exact map_versionError_jsonrpc _ _ h

theorem runSync_jsonrpc (c : Config) (ls : List (Env × Line)) (resp : Response)
    (h : some resp ∈ (runSync c ls).2) : resp.jsonrpc = "2.0" := by
  induction ls generalizing c with
  | nil => simp [runSync] at h
  | cons el rest ih =>
    obtain ⟨env, l⟩ := el
    simp only [runSync, List.mem_cons] at h
    rcases h with h | h
    · exact dispatchInner_jsonrpc env c l resp h.symm
    · exact ih _ h

theorem runAsync_jsonrpc (c : Config) (ctx : Option Ctx) (ls : List (Env × Line)) (resp : Response)
    (h : some resp ∈ (runAsync c ctx ls).2.2) : resp.jsonrpc = "2.0" := by
  induction ls generalizing c ctx with
  | nil => simp [runAsync] at h
  | cons el rest ih =>
    obtain ⟨env, l⟩ := el
    simp only [runAsync, List.mem_cons] at h
    rcases h with h | h
    · exact dispatchAsync_jsonrpc env c ctx l resp h.symm
    · exact ih _ _ h

end Srtla.Control

namespace Srtla.Control
open Srtla.Gen

/-! ## Round 4 (P-C item 5): subscription calls and the configuration

`subscribe`, `unsubscribe`, `get_subscription_count` never touch `DynamicConfig`: with a
`SubscriptionContext` the socket entry point answers them itself from the hub; without one (and on
stdin) they fall through to `handle_method`, where they are "method not found".  Hence the
CONFIGURATION component of the socket entry point equals the stdin one on every line, whatever the
context, and sessions with subscription calls have the same configuration trajectory. -/

/-- `handle_method` on one of the three subscription method names leaves the configuration alone. -/
theorem handleMethod_sub_config (env : Env) (c : Config) (m : String) (p : Json)
    (hm : m = "subscribe" ∨ m = "unsubscribe" ∨ m = "get_subscription_count") :
    (handleMethod env c m p).1 = c := by
  rcases hm with rfl | rfl | rfl <;> simp [handleMethod]

/-- The three subscription methods leave the `Config` unchanged on the socket entry point, with or
without a `SubscriptionContext` (and whatever the params / id / version). -/
theorem dispatchAsync_sub_config (env : Env) (c : Config) (ctx : Option Ctx) (r : Request)
    (hm : r.method = "subscribe" ∨ r.method = "unsubscribe" ∨ r.method = "get_subscription_count") :
    (dispatchAsync env c ctx (.request r)).1 = c := by
  unfold dispatchAsync
  by_cases hv : r.jsonrpc = Control.JSONRPC_VERSION
  · simp only [hv, ne_eq, not_true_eq_false, if_false]
    cases ctx with
    | none => exact handleMethod_sub_config env c _ _ hm
    | some x =>
      simp only
      by_cases h1 : r.method = "subscribe"
      · rw [if_pos h1]
      · rw [if_neg h1]
        by_cases h2 : r.method = "unsubscribe"
        · rw [if_pos h2]
        · rw [if_neg h2]
          by_cases h3 : r.method = "get_subscription_count"
          · rw [if_pos h3]
          · exact absurd hm (by simp [h1, h2, h3])
  · simp only [hv, ne_eq, not_false_eq_true, if_true]

/-- … and on stdin (where they are reserved / unknown names). -/
theorem dispatchInner_sub_config (env : Env) (c : Config) (r : Request)
    (hm : r.method = "subscribe" ∨ r.method = "unsubscribe" ∨ r.method = "get_subscription_count") :
    (dispatchInner env c (.request r)).1 = c := by
  unfold dispatchInner
  by_cases hv : r.jsonrpc = Control.JSONRPC_VERSION
  · simp only [hv, ne_eq, not_true_eq_false, if_false]
    exact handleMethod_sub_config env c _ _ hm
  · simp only [hv, ne_eq, not_false_eq_true, if_true]

/-- **Every line, every context**: the configuration after the socket entry point is the
configuration after the stdin entry point. -/
theorem dispatchAsync_config_eq (env : Env) (c : Config) (ctx : Option Ctx) (l : Line) :
    (dispatchAsync env c ctx l).1 = (dispatchInner env c l).1 := by
  cases l with
  | blank => rfl
  | unparsable => rfl
  | request r =>
    by_cases hm : r.method = "subscribe" ∨ r.method = "unsubscribe" ∨ r.method = "get_subscription_count"
    · rw [dispatchAsync_sub_config env c ctx r hm, dispatchInner_sub_config env c r hm]
    · have h1 : r.method ≠ "subscribe" := fun h => hm (.inl h)
      have h2 : r.method ≠ "unsubscribe" := fun h => hm (.inr (.inl h))
      have h3 : r.method ≠ "get_subscription_count" := fun h => hm (.inr (.inr h))
      unfold dispatchAsync dispatchInner
      by_cases hv : r.jsonrpc = Control.JSONRPC_VERSION
      · cases ctx with
        | none => simp [hv]
        | some x => simp [hv, h1, h2, h3]
      · simp [hv]

/-- A line that is not a version-2.0 subscription call gets the same response on both entry points
and leaves the context alone — for an OPTIONAL context (`C18_sync_eq_async` + `_no_ctx` in one). -/
theorem dispatchAsync_nonsub (env : Env) (c : Config) (ctx : Option Ctx) (l : Line)
    (h : ∀ r, l = .request r → r.jsonrpc = "2.0" →
      r.method ≠ "subscribe" ∧ r.method ≠ "unsubscribe" ∧ r.method ≠ "get_subscription_count") :
    dispatchAsync env c ctx l = ((dispatchInner env c l).1, ctx, (dispatchInner env c l).2) := by
  cases l with
  | blank => rfl
  | unparsable => rfl
  | request r =>
    unfold dispatchAsync dispatchInner
    by_cases hv : r.jsonrpc = Control.JSONRPC_VERSION
    · obtain ⟨h1, h2, h3⟩ := h r rfl hv
      cases ctx with
      | none => simp [hv]
      | some x => simp [hv, h1, h2, h3]
    · simp [hv]

/-- Whole sessions, ANY lines (subscription calls included), any context: same final configuration
as the stdin entry point on the same lines. -/
theorem runAsync_config_eq (c : Config) (ctx : Option Ctx) (ls : List (Env × Line)) :
    (runAsync c ctx ls).1 = (runSync c ls).1 := by
  induction ls generalizing c ctx with
  | nil => rfl
  | cons el rest ih =>
    simp only [runAsync, runSync]
    rw [ih, dispatchAsync_config_eq]

/-- The k-th response of a session: a line that is not a version-2.0 subscription call is answered
identically by both entry points, whatever OTHER lines of the session are. -/
theorem runAsync_resp_eq (c : Config) (ctx : Option Ctx) (ls : List (Env × Line)) (k : Nat)
    (h : ∀ el, ls[k]? = some el → ∀ r, el.2 = .request r → r.jsonrpc = "2.0" →
      r.method ≠ "subscribe" ∧ r.method ≠ "unsubscribe" ∧ r.method ≠ "get_subscription_count") :
    (runAsync c ctx ls).2.2[k]? = (runSync c ls).2[k]? := by
  induction ls generalizing c ctx k with
  | nil => rfl
  | cons el rest ih =>
    simp only [runAsync, runSync]
    cases k with
    | zero =>
      simp only [List.getElem?_cons_zero, Option.some.injEq]
      rw [dispatchAsync_nonsub el.1 c ctx el.2 (h el rfl)]
    | succ k =>
      simp only [List.getElem?_cons_succ]
      rw [dispatchAsync_config_eq]
      exact ih _ _ k (fun el' hel => h el' (by simpa using hel))

theorem runAsync_length (c : Config) (ctx : Option Ctx) (ls : List (Env × Line)) :
    (runAsync c ctx ls).2.2.length = ls.length ∧ (runSync c ls).2.length = ls.length := by
  induction ls generalizing c ctx with
  | nil => exact ⟨rfl, rfl⟩
  | cons el rest ih =>
    simp only [runAsync, runSync, List.length_cons]
    exact ⟨by rw [(ih _ _).1], by rw [(ih _ ctx).2]⟩

/-- `get_status` on the socket entry point, any context. -/
theorem status_reply_async (env : Env) (c : Config) (ctx : Option Ctx) (p i : Json) :
    dispatchAsync env c ctx (statusReq p i) =
      (c, ctx, some (Response.ok i (statusJson c.snapshot env.cw))) := by
  rw [dispatchAsync_nonsub env c ctx _ (by
    intro r hr _
    simp only [statusReq, Line.request.injEq] at hr
    subst hr
    simp)]
  rw [status_reply]

/-- Session shape "setter, then ANY lines on the socket (subscription calls allowed), then
`get_status`": everything the caller observes about the configuration coincides with the stdin
session on the same lines. -/
theorem async_session_lift (env : Env) (c : Config) (ctx : Option Ctx) (r : Request)
    (hsub : r.method ≠ "subscribe" ∧ r.method ≠ "unsubscribe" ∧ r.method ≠ "get_subscription_count")
    (mid : List (Env × Line)) (env' : Env) (p' i' : Json) :
    let o1 := dispatchAsync env c ctx (.request r)
    let o2 := runAsync o1.1 o1.2.1 mid
    o1.2.2 = (dispatchInner env c (.request r)).2 ∧ o1.2.1 = ctx ∧
    o1.1 = (dispatchInner env c (.request r)).1 ∧
    o2.1 = (runSync (dispatchInner env c (.request r)).1 mid).1 ∧
    (dispatchAsync env' o2.1 o2.2.1 (statusReq p' i')).2.2 =
      (dispatchInner env' (runSync (dispatchInner env c (.request r)).1 mid).1 (statusReq p' i')).2 := by
  intro o1 o2
  have e1 : o1 = ((dispatchInner env c (.request r)).1, ctx, (dispatchInner env c (.request r)).2) :=
    dispatchAsync_nonsub env c ctx _ (by intro q hq _; cases hq; exact hsub)
  have e2 : o2.1 = (runSync (dispatchInner env c (.request r)).1 mid).1 := by
    simp only [o2, e1]; exact runAsync_config_eq _ _ _
  refine ⟨by rw [e1], by rw [e1], by rw [e1], e2, ?_⟩
  rw [status_reply_async, status_reply, e2]

end Srtla.Control

namespace Srtla.Control
open Srtla.Gen

/-! ## Round 4 (P-C item 6): per-location coherence of the refined `Conc` model

Uniform (field-generic) characterisations of the four kinds of step, then the invariant `Conc.Vis`
"task `t` stored `v` on top of the history `old` of cell `f`" and its consequences. -/

theorem setSeen_same (seen : Nat → Field → Nat) (t : Nat) (f : Field) (p : Nat) :
    setSeen seen t f p t f = p := by simp [setSeen]

theorem setSeen_other (seen : Nat → Field → Nat) (t : Nat) (f : Field) (p : Nat) (t' : Nat) (g : Field)
    (h : ¬ (t' = t ∧ g = f)) : setSeen seen t f p t' g = seen t' g := by simp [setSeen, h]

theorem setTask_other (tasks : Nat → Task) (t : Nat) (x : Task) (t' : Nat) (h : t' ≠ t) :
    setTask tasks t x t' = tasks t' := by simp [setTask, h]

/-- entry at position `q` ↔ entry at index `len − 1 − q` of the newest-first list -/
theorem Cells.at?_eq (c : Cells) (f : Field) (q : Nat) (hq : q < c.len f) :
    c.at? f q = (c.view f)[c.len f - 1 - q]? := by
  unfold Cells.at? Cells.len at *
  exact List.getElem?_reverse hq

theorem Cells.at?_of_index (c : Cells) (f : Field) (k : Nat) (x : Val) (h : (c.view f)[k]? = some x) :
    k < c.len f ∧ c.at? f (c.len f - 1 - k) = some x := by
  have hk : k < (c.view f).length := by
    rcases List.getElem?_eq_some_iff.1 h with ⟨hk, -⟩; exact hk
  refine ⟨hk, ?_⟩
  rw [Cells.at?_eq c f _ (by unfold Cells.len; omega)]
  have : c.len f - 1 - (c.len f - 1 - k) = k := by unfold Cells.len; omega
  rw [this]; exact h

/-- `call`: only the calling task's control state changes; a fresh snapshot has loaded nothing. -/
theorem Conc.step_call_spec {s s' : Conc} {t : Nat} {op : Op} {ev : Option Event}
    (h : s.step (.call t op) = some (s', ev)) :
    s'.cells = s.cells ∧ s'.seen = s.seen ∧ ev = none ∧
    ∃ x, s'.tasks = setTask s.tasks t x ∧ ∀ part, x = .snapping part → ∀ g, part.at? g = none := by
  simp only [Conc.step] at h
  split at h
  · cases op <;> simp only [Option.some.injEq, Prod.mk.injEq] at h <;> obtain ⟨rfl, rfl⟩ := h
    all_goals refine ⟨rfl, rfl, rfl, _, rfl, ?_⟩
    all_goals intro part hp
    all_goals first
      | (cases hp; intro g; cases g <;> rfl)
      | cases hp
  · cases h

/-- `store`: one cell gets a new newest entry, the storing task has seen it and is idle again. -/
theorem Conc.step_store_spec {s s' : Conc} {t : Nat} {ev : Option Event}
    (h : s.step (.store t) = some (s', ev)) :
    ∃ op f v, s.tasks t = .storing op ∧ op.target = some (f, v) ∧
      (∀ g, s'.cells.view g = if g = f then v :: s.cells.view g else s.cells.view g) ∧
      s'.seen = setSeen s.seen t f (s.cells.len f) ∧ s'.tasks = setTask s.tasks t .idle := by
  simp only [Conc.step] at h
  split at h
  · rename_i op hop
    cases op <;> simp only [Option.some.injEq, Prod.mk.injEq, reduceCtorEq] at h
    case setMode m =>
      obtain ⟨rfl, -⟩ := h
      exact ⟨_, .mode, _, hop, rfl, fun g => by cases g <;> simp [Cells.view], rfl, rfl⟩
    case setQuality b =>
      obtain ⟨rfl, -⟩ := h
      exact ⟨_, .quality, _, hop, rfl, fun g => by cases g <;> simp [Cells.view], rfl, rfl⟩
    case setStall b =>
      obtain ⟨rfl, -⟩ := h
      exact ⟨_, .stall, _, hop, rfl, fun g => by cases g <;> simp [Cells.view], rfl, rfl⟩
    case setTimeout ms =>
      obtain ⟨rfl, -⟩ := h
      exact ⟨_, .timeout, _, hop, rfl, fun g => by cases g <;> simp [Cells.view], rfl, rfl⟩
  · cases h

/-- a setter that is about to store can always do so -/
theorem Conc.step_store_enabled {s : Conc} {t : Nat} {op : Op} {f : Field} {v : Val}
    (h : s.tasks t = .storing op) (hf : op.target = some (f, v)) :
    ∃ s' ev, s.step (.store t) = some (s', ev) := by
  simp only [Conc.step, h]
  cases op <;> simp [Op.target] at hf ⊢

/-- `load`: the cells do not change; the value read sits at index `k`, its position is not below
what the task had seen, becomes what the task has seen, and lands in the partial snapshot. -/
theorem Conc.step_load_spec {s s' : Conc} {t : Nat} {f : Field} {k : Nat} {ev : Option Event}
    (h : s.step (.load t f k) = some (s', ev)) :
    ∃ part part' x, s.tasks t = .snapping part ∧ (s.cells.view f)[k]? = some x ∧
      s.seen t f ≤ s.cells.len f - 1 - k ∧ s'.cells = s.cells ∧
      s'.seen = setSeen s.seen t f (s.cells.len f - 1 - k) ∧
      s'.tasks = setTask s.tasks t (.snapping part') ∧ part'.at? f = some x ∧
      (∀ g, g ≠ f → part'.at? g = part.at? g) ∧ ev = none := by
  simp only [Conc.step] at h
  split at h
  · rename_i part hp
    split at h
    · rename_i hle
      cases f <;> simp only [Option.bind_eq_some_iff, Option.some.injEq, Prod.mk.injEq] at h <;>
        obtain ⟨x, hx, rfl, rfl⟩ := h
      case mode =>
        exact ⟨part, _, Val.nat x, hp, by simp [Cells.view, hx], hle, rfl, rfl, rfl, rfl,
          fun g hg => by cases g <;> first | rfl | exact absurd rfl hg, rfl⟩
      case quality =>
        exact ⟨part, _, Val.bool x, hp, by simp [Cells.view, hx], hle, rfl, rfl, rfl, rfl,
          fun g hg => by cases g <;> first | rfl | exact absurd rfl hg, rfl⟩
      case stall =>
        exact ⟨part, _, Val.bool x, hp, by simp [Cells.view, hx], hle, rfl, rfl, rfl, rfl,
          fun g hg => by cases g <;> first | rfl | exact absurd rfl hg, rfl⟩
      case minInFlight =>
        exact ⟨part, _, Val.int x, hp, by simp [Cells.view, hx], hle, rfl, rfl, rfl, rfl,
          fun g hg => by cases g <;> first | rfl | exact absurd rfl hg, rfl⟩
      case ackStale =>
        exact ⟨part, _, Val.nat x, hp, by simp [Cells.view, hx], hle, rfl, rfl, rfl, rfl,
          fun g hg => by cases g <;> first | rfl | exact absurd rfl hg, rfl⟩
      case timeout =>
        exact ⟨part, _, Val.nat x, hp, by simp [Cells.view, hx], hle, rfl, rfl, rfl, rfl,
          fun g hg => by cases g <;> first | rfl | exact absurd rfl hg, rfl⟩
    · cases h
  · cases h

/-- `ret`: the snapshot returned is the completed partial; nothing else changes. -/
theorem Conc.step_ret_spec {s s' : Conc} {t : Nat} {ev : Option Event}
    (h : s.step (.ret t) = some (s', ev)) :
    ∃ part snap, s.tasks t = .snapping part ∧ part.complete = some snap ∧ s'.cells = s.cells ∧
      s'.seen = s.seen ∧ s'.tasks = setTask s.tasks t .idle ∧ ev = some (.snapshot t snap) := by
  simp only [Conc.step] at h
  split at h
  · rename_i part hp
    split at h
    · rename_i snap hsnap
      simp only [Option.some.injEq, Prod.mk.injEq] at h
      obtain ⟨rfl, rfl⟩ := h
      exact ⟨part, snap, hp, hsnap, rfl, rfl, rfl, rfl⟩
    · cases h
  · cases h

/-- The invariant that holds for task `t` from its store on: the history of cell `f` is
`newer ++ v :: old` (`v` = what `t` stored, `old` = the history it stored on top of, `newer` = later
stores by anybody); `t`'s coherence view of `f` is at or above the position of `v`; and whatever `t`'s
snapshot under construction holds for `f` is the entry at that view. -/
structure Conc.Vis (s : Conc) (t : Nat) (f : Field) (old : List Val) (v : Val) : Prop where
  hist : ∃ newer, s.cells.view f = newer ++ v :: old
  lo : old.length ≤ s.seen t f
  hi : s.seen t f < s.cells.len f
  part : ∀ part x, s.tasks t = .snapping part → part.at? f = some x →
    s.cells.at? f (s.seen t f) = some x

theorem Conc.Vis.step {s s' : Conc} {t : Nat} {f : Field} {old : List Val} {v : Val} {a : Act}
    {ev : Option Event} (hv : s.Vis t f old v) (h : s.step a = some (s', ev)) : s'.Vis t f old v := by
  obtain ⟨⟨newer, hh⟩, hlo, hhi, hpart⟩ := hv
  cases a with
  | call t' op =>
    obtain ⟨hc, hs, -, x, ht, hx⟩ := Conc.step_call_spec h
    refine ⟨⟨newer, by rw [hc]; exact hh⟩, by rw [hs]; exact hlo, by rw [hs, hc]; exact hhi, ?_⟩
    intro part y hp hy
    rw [ht] at hp
    rw [hs, hc]
    by_cases e : t = t'
    · subst e
      rw [setTask_same] at hp
      rw [hx part hp f] at hy; cases hy
    · rw [setTask_other _ _ _ _ e] at hp
      exact hpart part y hp hy
  | store t' =>
    obtain ⟨op, f', v', -, -, hview, hseen, htasks⟩ := Conc.step_store_spec h
    have hlen : s.cells.len f ≤ s'.cells.len f := by
      unfold Cells.len; rw [hview f]; split <;> simp
    have hat : ∀ q, q < s.cells.len f → s'.cells.at? f q = s.cells.at? f q := by
      intro q hq
      unfold Cells.at?; rw [hview f]
      split
      · rw [List.reverse_cons]
        exact List.getElem?_append_left (by simpa [Cells.len] using hq)
      · rfl
    by_cases e : t = t' ∧ f = f'
    · obtain ⟨rfl, rfl⟩ := e
      have hl' : s'.cells.len f = s.cells.len f + 1 := by
        unfold Cells.len; rw [hview f]; simp
      refine ⟨⟨v' :: newer, by rw [hview f, if_pos rfl, hh]; rfl⟩, ?_, ?_, ?_⟩
      · rw [hseen, setSeen_same]; omega
      · rw [hseen, setSeen_same, hl']; omega
      · intro part y hp
        rw [htasks, setTask_same] at hp; cases hp
    · have hs : s'.seen t f = s.seen t f := by
        rw [hseen]; exact setSeen_other _ _ _ _ _ _ e
      refine ⟨?_, by rw [hs]; exact hlo, by rw [hs]; omega, ?_⟩
      · rw [hview f]
        split
        · exact ⟨v' :: newer, by rw [hh]; rfl⟩
        · exact ⟨newer, hh⟩
      · intro part y hp hy
        rw [hs, hat _ hhi]
        rw [htasks] at hp
        by_cases e' : t = t'
        · subst e'; rw [setTask_same] at hp; cases hp
        · rw [setTask_other _ _ _ _ e'] at hp
          exact hpart part y hp hy
  | load t' f' k =>
    obtain ⟨part0, part', x, htask, hx, hle, hc, hseen, htasks, hpx, hpo, -⟩ := Conc.step_load_spec h
    by_cases e : t = t' ∧ f = f'
    · obtain ⟨rfl, rfl⟩ := e
      obtain ⟨hk, hatx⟩ := Cells.at?_of_index s.cells f k x hx
      refine ⟨⟨newer, by rw [hc]; exact hh⟩, ?_, ?_, ?_⟩
      · rw [hseen, setSeen_same]; omega
      · rw [hseen, setSeen_same, hc]; omega
      · intro part y hp hy
        rw [htasks, setTask_same] at hp
        cases hp
        rw [hpx] at hy; cases hy
        rw [hseen, setSeen_same, hc]; exact hatx
    · have hs : s'.seen t f = s.seen t f := by
        rw [hseen]; exact setSeen_other _ _ _ _ _ _ e
      refine ⟨⟨newer, by rw [hc]; exact hh⟩, by rw [hs]; exact hlo, by rw [hs, hc]; exact hhi, ?_⟩
      intro part y hp hy
      rw [hs, hc]
      rw [htasks] at hp
      by_cases e' : t = t'
      · subst e'
        rw [setTask_same] at hp; cases hp
        have hne : f ≠ f' := fun hf => e ⟨rfl, hf⟩
        rw [hpo f hne] at hy
        exact hpart part0 y htask hy
      · rw [setTask_other _ _ _ _ e'] at hp
        exact hpart part y hp hy
  | ret t' =>
    obtain ⟨part0, snap, -, -, hc, hs, htasks, -⟩ := Conc.step_ret_spec h
    refine ⟨⟨newer, by rw [hc]; exact hh⟩, by rw [hs]; exact hlo, by rw [hs, hc]; exact hhi, ?_⟩
    intro part y hp hy
    rw [hs, hc]
    rw [htasks] at hp
    by_cases e' : t = t'
    · subst e'; rw [setTask_same] at hp; cases hp
    · rw [setTask_other _ _ _ _ e'] at hp
      exact hpart part y hp hy

theorem Conc.Vis.run {t : Nat} {f : Field} {old : List Val} {v : Val} (acts : List Act) :
    ∀ {s : Conc}, s.Vis t f old v → (s.run acts).1.Vis t f old v := by
  induction acts with
  | nil => intro s hv; exact hv
  | cons a rest ih =>
    intro s hv
    simp only [Conc.run]
    cases hstep : s.step a with
    | none => exact ih hv
    | some r => obtain ⟨s', ev⟩ := r; exact ih (hv.step hstep)

/-- right after the store the invariant holds, whatever the state was before -/
theorem Conc.Vis.of_store {s s' : Conc} {t : Nat} {op : Op} {f : Field} {v : Val} {ev : Option Event}
    (htask : s.tasks t = .storing op) (hf : op.target = some (f, v))
    (h : s.step (.store t) = some (s', ev)) :
    s'.Vis t f (s.cells.view f) v ∧ s'.cells.view f = v :: s.cells.view f ∧ s'.tasks t = .idle := by
  obtain ⟨op', f', v', htask', htar, hview, hseen, htasks⟩ := Conc.step_store_spec h
  rw [htask] at htask'; cases htask'
  rw [hf] at htar; cases htar
  have hv : s'.cells.view f = v :: s.cells.view f := by rw [hview f, if_pos rfl]
  refine ⟨⟨⟨[], by rw [hv]; rfl⟩, ?_, ?_, ?_⟩, hv, by rw [htasks, setTask_same]⟩
  · rw [hseen, setSeen_same]; exact Nat.le_refl _
  · rw [hseen, setSeen_same]; unfold Cells.len; rw [hv]; simp
  · intro part y hp
    rw [htasks, setTask_same] at hp; cases hp

/-- an entry at index `k ≤ |newer|` of `newer ++ v :: old` is `v` or a member of `newer` -/
theorem index_newer_or_self {newer old : List Val} {v x : Val} {k : Nat}
    (hk : k ≤ newer.length) (h : (newer ++ v :: old)[k]? = some x) : x = v ∨ x ∈ newer := by
  by_cases hlt : k < newer.length
  · rw [List.getElem?_append_left hlt] at h
    exact .inr (List.mem_of_getElem? h)
  · have : k = newer.length := by omega
    subst this
    rw [List.getElem?_append_right (Nat.le_refl _)] at h
    simp at h
    exact .inl h.symm

/-- what the invariant says about an entry at a position at or above `t`'s store -/
theorem Conc.Vis.at_mem {s : Conc} {f : Field} {old newer : List Val} {v x : Val} {q : Nat}
    (hh : s.cells.view f = newer ++ v :: old) (hq : old.length ≤ q)
    (h : s.cells.at? f q = some x) : x = v ∨ x ∈ newer := by
  have hlen : s.cells.len f = newer.length + 1 + old.length := by
    unfold Cells.len; rw [hh]; simp; omega
  have hq2 : q < s.cells.len f := by
    unfold Cells.at? at h
    rcases List.getElem?_eq_some_iff.1 h with ⟨hq2, -⟩
    simpa [Cells.len] using hq2
  rw [Cells.at?_eq _ _ _ hq2, hh] at h
  exact index_newer_or_self (by omega) h

/-! ### from the uniform view back to the typed cells -/

theorem map_inj_list {α : Type} (g : α → Val) (hg : ∀ x y, g x = g y → x = y) :
    ∀ l l' : List α, l.map g = l'.map g → l = l'
  | [], [], _ => rfl
  | [], _ :: _, h => by simp at h
  | _ :: _, [], h => by simp at h
  | x :: l, y :: l', h => by
    simp only [List.map_cons, List.cons.injEq] at h
    rw [hg x y h.1, map_inj_list g hg l l' h.2]

/-- a typed newest-first history whose uniform view is `newerV ++ g a :: old.map g` is
`newer ++ a :: old` with `newerV = newer.map g` -/
theorem map_split {α : Type} (g : α → Val) (hg : ∀ x y, g x = g y → x = y) (old : List α) (a : α) :
    ∀ (newerV : List Val) (l : List α), l.map g = newerV ++ g a :: old.map g →
      ∃ newer, l = newer ++ a :: old ∧ newerV = newer.map g
  | [], l, h => ⟨[], map_inj_list g hg l (a :: old) (by simpa using h), rfl⟩
  | y :: ys, [], h => by simp at h
  | y :: ys, x :: l, h => by
    simp only [List.map_cons, List.cons_append, List.cons.injEq] at h
    obtain ⟨newer, h1, h2⟩ := map_split g hg old a ys l h.2
    exact ⟨x :: newer, by rw [h1]; rfl, by rw [h2, ← h.1]; rfl⟩

theorem Val.nat_inj : ∀ x y : Nat, Val.nat x = Val.nat y → x = y := fun _ _ h => by cases h; rfl
theorem Val.bool_inj : ∀ x y : Bool, Val.bool x = Val.bool y → x = y := fun _ _ h => by cases h; rfl

/-- the fields of a returned snapshot are the fields of the completed partial -/
theorem Partial.complete_at {p : Partial} {snap : Snapshot} (h : p.complete = some snap) :
    (∃ m, p.at? .mode = some (.nat m) ∧ snap.mode = Mode.fromU8 m) ∧
    p.at? .quality = some (.bool snap.quality) ∧ p.at? .stall = some (.bool snap.stall) ∧
    p.at? .timeout = some (.nat snap.timeout) := by
  unfold Partial.complete at h
  split at h
  · rename_i m q st mi a tm hm hq hst hmi ha htm
    cases h
    simp [Partial.at?, hm, hq, hst, htm]
  · cases h

/-! ### whole schedules: appending, locating an event, histories only grow -/

theorem Conc.run_append (s : Conc) (a b : List Act) :
    s.run (a ++ b) = (((s.run a).1.run b).1, (s.run a).2 ++ ((s.run a).1.run b).2) := by
  induction a generalizing s with
  | nil => simp [Conc.run]
  | cons x xs ih =>
    simp only [List.cons_append, Conc.run]
    cases hstep : s.step x with
    | none => exact ih s
    | some r =>
      obtain ⟨s', ev⟩ := r
      simp only [ih s']
      cases ev <;> simp

/-- every event of the trace was emitted by some step of the schedule -/
theorem Conc.run_event {s : Conc} {acts : List Act} {e : Event} (h : e ∈ (s.run acts).2) :
    ∃ a1 a a2 s', acts = a1 ++ a :: a2 ∧ (s.run a1).1.step a = some (s', some e) := by
  induction acts generalizing s with
  | nil => simp [Conc.run] at h
  | cons x xs ih =>
    simp only [Conc.run] at h
    cases hstep : s.step x with
    | none =>
      rw [hstep] at h
      obtain ⟨a1, a, a2, s', h1, h2⟩ := ih h
      refine ⟨x :: a1, a, a2, s', by rw [h1]; rfl, ?_⟩
      simp only [Conc.run, hstep]; exact h2
    | some r =>
      obtain ⟨s1, ev⟩ := r
      rw [hstep] at h
      have hrest : (∃ e', ev = some e' ∧ e = e') ∨ e ∈ (s1.run xs).2 := by
        cases ev with
        | none => exact .inr h
        | some e' =>
          simp only [List.mem_cons] at h
          rcases h with h | h
          · exact .inl ⟨e', rfl, h⟩
          · exact .inr h
      rcases hrest with ⟨e', rfl, rfl⟩ | hrest
      · exact ⟨[], x, xs, s1, rfl, by simpa [Conc.run] using hstep⟩
      · obtain ⟨a1, a, a2, s', h1, h2⟩ := ih hrest
        refine ⟨x :: a1, a, a2, s', by rw [h1]; rfl, ?_⟩
        simp only [Conc.run, hstep]; exact h2

/-- modification orders only grow (by prepending) -/
theorem Conc.step_view_grows {s s' : Conc} {a : Act} {ev : Option Event} (h : s.step a = some (s', ev))
    (f : Field) : ∃ ext, s'.cells.view f = ext ++ s.cells.view f := by
  cases a with
  | call t op => obtain ⟨hc, -⟩ := Conc.step_call_spec h; exact ⟨[], by rw [hc]; rfl⟩
  | store t =>
    obtain ⟨-, f', v', -, -, hview, -⟩ := Conc.step_store_spec h
    rw [hview f]; split
    · exact ⟨[v'], rfl⟩
    · exact ⟨[], rfl⟩
  | load t g k =>
    obtain ⟨-, -, -, -, -, -, hc, -⟩ := Conc.step_load_spec h; exact ⟨[], by rw [hc]; rfl⟩
  | ret t => obtain ⟨-, -, -, -, hc, -⟩ := Conc.step_ret_spec h; exact ⟨[], by rw [hc]; rfl⟩

theorem Conc.run_view_grows (s : Conc) (acts : List Act) (f : Field) :
    ∃ ext, (s.run acts).1.cells.view f = ext ++ s.cells.view f := by
  induction acts generalizing s with
  | nil => exact ⟨[], rfl⟩
  | cons x xs ih =>
    simp only [Conc.run]
    cases hstep : s.step x with
    | none => exact ih s
    | some r =>
      obtain ⟨s1, ev⟩ := r
      obtain ⟨e1, h1⟩ := Conc.step_view_grows hstep f
      obtain ⟨e2, h2⟩ := ih s1
      exact ⟨e2 ++ e1, by simp only; rw [h2, h1, List.append_assoc]⟩

/-- field `f` of a returned snapshot holds the value `x` (typed fields against the uniform `Val`;
`mode` is stored as a `u8` and read back through `SchedulingMode::from_u8`) -/
def Snapshot.has (snap : Snapshot) : Field → Val → Prop
  | .mode, .nat m => snap.mode = Mode.fromU8 m
  | .quality, .bool b => snap.quality = b
  | .stall, .bool b => snap.stall = b
  | .minInFlight, .int i => snap.minInFlight = i
  | .ackStale, .nat n => snap.ackStale = n
  | .timeout, .nat n => snap.timeout = n
  | _, _ => False

theorem Partial.complete_has {p : Partial} {snap : Snapshot} (h : p.complete = some snap) (f : Field) :
    ∃ x, p.at? f = some x ∧ snap.has f x := by
  unfold Partial.complete at h
  split at h
  · rename_i m q st mi a tm hm hq hst hmi ha htm
    cases h
    cases f
    · exact ⟨.nat m, by simp [Partial.at?, hm], rfl⟩
    · exact ⟨.bool q, by simp [Partial.at?, hq], rfl⟩
    · exact ⟨.bool st, by simp [Partial.at?, hst], rfl⟩
    · exact ⟨.int mi, by simp [Partial.at?, hmi], rfl⟩
    · exact ⟨.nat a, by simp [Partial.at?, ha], rfl⟩
    · exact ⟨.nat tm, by simp [Partial.at?, htm], rfl⟩
  · cases h

end Srtla.Control
