import Srtla.Model.Control
/-!
# Helper lemmas for the control protocol model (C18)

`HM` lists every way `handle_method` can go; `handleMethod_HM` shows the list is complete.  All
property theorems case on it instead of unfolding the `if` chain again.
-/
namespace Srtla.Control
open Srtla.Gen

theorem version_lit : Control.JSONRPC_VERSION = "2.0" := rfl

theorem parseMode_classic : parseMode "classic" = .ok .classic := by simp [parseMode]
theorem parseMode_enhanced : parseMode "enhanced" = .ok .enhanced := by simp [parseMode]
theorem parseMode_other (s : String) (h1 : s ≠ "classic") (h2 : s ≠ "enhanced") :
    parseMode s = .error (ErrObj.new (-32602) ("unknown mode '" ++ s ++ "': use classic or enhanced")) := by
  simp [parseMode, h1, h2]

/-- Every way `handle_method` can go: (method, parameter condition, new config, outcome). -/
inductive HM (env : Env) (c : Config) (m : String) (p : Json) : Config × Except ErrObj Json → Prop
  | modeMissing : m = "set_mode" → (p.get "mode").bind Json.asStr = none →
      HM env c m p (c, .error (ErrObj.new (-32602) "expected params.mode: string"))
  | modeUnknown (s : String) : m = "set_mode" → (p.get "mode").bind Json.asStr = some s →
      s ≠ "classic" → s ≠ "enhanced" →
      HM env c m p (c, .error (ErrObj.new (-32602) ("unknown mode '" ++ s ++ "': use classic or enhanced")))
  | modeOk (md : Mode) : m = "set_mode" → (p.get "mode").bind Json.asStr = some md.toStr →
      HM env c m p (c.setMode md, .ok (.obj [("mode", .str md.toStr)]))
  | qualityBad : m = "set_quality" → (p.get "enabled").bind Json.asBool = none →
      HM env c m p (c, .error (ErrObj.new (-32602) "expected params.enabled: bool"))
  | qualityOk (b : Bool) : m = "set_quality" → (p.get "enabled").bind Json.asBool = some b →
      HM env c m p (c.setQuality b, .ok (.obj [("enabled", .bool b)]))
  | stallBad : m = "set_stall_deselect" → (p.get "enabled").bind Json.asBool = none →
      HM env c m p (c, .error (ErrObj.new (-32602) "expected params.enabled: bool"))
  | stallOk (b : Bool) : m = "set_stall_deselect" → (p.get "enabled").bind Json.asBool = some b →
      HM env c m p (c.setStall b, .ok (.obj [("enabled", .bool b)]))
  | timeoutBad : m = "set_conn_timeout" → (p.get "ms").bind Json.asU64 = none →
      HM env c m p (c, .error (ErrObj.new (-32602) "expected params.ms: u64"))
  | timeoutOk (ms : Nat) : m = "set_conn_timeout" → (p.get "ms").bind Json.asU64 = some ms →
      HM env c m p ((c.setConnTimeout ms).1, .ok (.obj [("ms", Json.ofNat (c.setConnTimeout ms).2)]))
  | status : m = "get_status" → HM env c m p (c, .ok (statusJson c.snapshot env.cw))
  | statsNone : m = "get_stats" → env.stats = none →
      HM env c m p (c, .error (ErrObj.new (-32603) "stats provider not registered"))
  | statsSome (j : Json) : m = "get_stats" → env.stats = some j → HM env c m p (c, .ok j)
  | reserved : m = "subscribe" ∨ m = "unsubscribe" →
      HM env c m p (c, .error (ErrObj.new (-32601)
        (m ++ " is reserved for a future streaming protocol, not yet implemented")))
  | unknown : m ≠ "set_mode" → m ≠ "set_quality" → m ≠ "set_stall_deselect" → m ≠ "set_conn_timeout" →
      m ≠ "get_status" → m ≠ "get_stats" → m ≠ "subscribe" → m ≠ "unsubscribe" →
      HM env c m p (c, .error (ErrObj.new (-32601) ("unknown method: " ++ m)))

theorem handleMethod_HM (env : Env) (c : Config) (m : String) (p : Json) :
    HM env c m p (handleMethod env c m p) := by
  unfold handleMethod
  simp only [Control.INVALID_PARAMS_eq, Control.METHOD_NOT_FOUND_eq, Control.INTERNAL_ERROR_eq]
  by_cases h1 : m = "set_mode"
  · subst h1
    simp only [if_true]
    cases hs : (p.get "mode").bind Json.asStr with
    | none => exact .modeMissing rfl hs
    | some s =>
      by_cases hc : s = "classic"
      · subst hc; simp only [parseMode_classic]; exact .modeOk .classic rfl hs
      · by_cases he : s = "enhanced"
        · subst he; simp only [parseMode_enhanced]; exact .modeOk .enhanced rfl hs
        · simp only [parseMode_other s hc he]; exact .modeUnknown s rfl hs hc he
  simp only [h1, if_false]
  by_cases h2 : m = "set_quality"
  · subst h2
    simp only [if_true]
    cases hs : (p.get "enabled").bind Json.asBool with
    | none => exact .qualityBad rfl hs
    | some b => exact .qualityOk b rfl hs
  simp only [h2, if_false]
  by_cases h3 : m = "set_stall_deselect"
  · subst h3
    simp only [if_true]
    cases hs : (p.get "enabled").bind Json.asBool with
    | none => exact .stallBad rfl hs
    | some b => exact .stallOk b rfl hs
  simp only [h3, if_false]
  by_cases h4 : m = "set_conn_timeout"
  · subst h4
    simp only [if_true]
    cases hs : (p.get "ms").bind Json.asU64 with
    | none => exact .timeoutBad rfl hs
    | some ms => exact .timeoutOk ms rfl hs
  simp only [h4, if_false]
  by_cases h5 : m = "get_status"
  · subst h5
    simp only [if_true]
    exact .status rfl
  simp only [h5, if_false]
  by_cases h6 : m = "get_stats"
  · subst h6
    simp only [if_true]
    cases hs : env.stats with
    | none => exact .statsNone rfl hs
    | some j => exact .statsSome j rfl hs
  simp only [h6, if_false]
  by_cases h7 : m = "subscribe" ∨ m = "unsubscribe"
  · simp only [h7, if_true]
    exact .reserved h7
  simp only [h7, if_false]
  have h7' : m ≠ "subscribe" ∧ m ≠ "unsubscribe" := by
    constructor <;> intro h <;> exact h7 (by simp [h])
  exact .unknown h1 h2 h3 h4 h5 h6 h7'.1 h7'.2


/-! ### dispatch_inner on a decoded request -/

theorem dispatchInner_v2 (env : Env) (c : Config) (r : Request) (hv : r.jsonrpc = "2.0") :
    dispatchInner env c (.request r) =
      ((handleMethod env c r.method r.params).1, finish r.id (handleMethod env c r.method r.params).2) := by
  simp [dispatchInner, version_lit, hv]

theorem dispatchInner_badVersion (env : Env) (c : Config) (r : Request) (hv : r.jsonrpc ≠ "2.0") :
    dispatchInner env c (.request r) = (c, r.id.map versionError) := by
  simp [dispatchInner, version_lit, hv]

/-- What `handle_method` can do to the configuration. -/
theorem HM.config {env : Env} {c : Config} {m : String} {p : Json} {out : Config × Except ErrObj Json}
    (h : HM env c m p out) :
    out.1 = c ∨ (m = "set_mode" ∧ ∃ md, out.1 = c.setMode md) ∨
      (m = "set_quality" ∧ ∃ b, out.1 = c.setQuality b) ∨
      (m = "set_stall_deselect" ∧ ∃ b, out.1 = c.setStall b) ∨
      (m = "set_conn_timeout" ∧ ∃ ms, out.1 = (c.setConnTimeout ms).1) := by
  cases h with
  | modeOk md h1 _ => exact .inr (.inl ⟨h1, md, rfl⟩)
  | qualityOk b h1 _ => exact .inr (.inr (.inl ⟨h1, b, rfl⟩))
  | stallOk b h1 _ => exact .inr (.inr (.inr (.inl ⟨h1, b, rfl⟩)))
  | timeoutOk ms h1 _ => exact .inr (.inr (.inr (.inr ⟨h1, ms, rfl⟩)))
  | _ => exact .inl rfl

theorem Mode.fromU8_asU8 (m : Mode) : Mode.fromU8 m.asU8 = m := by cases m <;> rfl

theorem clampU64_range (v lo hi : Nat) (h : lo ≤ hi) :
    lo ≤ clampU64 v lo hi ∧ clampU64 v lo hi ≤ hi := by
  unfold clampU64
  split
  · omega
  · split <;> omega


/-! ## Vocabulary of the property statement (used by `Props/C18.lean`) -/

/-- The documented timeout range, with the property's literal numbers. -/
def InRange (t : Nat) : Prop := 1000 ≤ t ∧ t ≤ 60000

/-- "with either a result or an error": exactly one of the two members is present. -/
def ExactlyOne (r : Response) : Prop := r.result.isSome = !r.error.isSome

/-- The error code of a (possibly absent) response. -/
def code? (o : Option Response) : Option Int := o.bind fun r => r.error.map (·.code)

/-- Response shape demanded for one line. -/
def ShapeOK (l : Line) (o : Option Response) : Prop :=
  match l with
  | .blank => o = none
  | .unparsable =>
    ∃ e, o = some { jsonrpc := "2.0", result := none, error := some e, id := .null } ∧ e.code = -32700
  | .request r =>
    match r.id with
    | some i => ∃ resp, o = some resp ∧ resp.id = i ∧ ExactlyOne resp
    | none => o = none

/-- Position-wise relation between the input lines and the outputs (same length, related at
every index). -/
inductive Pointwise {α β : Type} (R : α → β → Prop) : List α → List β → Prop
  | nil : Pointwise R [] []
  | cons {a : α} {b : β} {as : List α} {bs : List β} :
      R a b → Pointwise R as bs → Pointwise R (a :: as) (b :: bs)

/-- A `get_status` request (any params, any id). -/
def statusReq (p i : Json) : Line :=
  .request { jsonrpc := "2.0", method := "get_status", params := p, id := some i }

/-- The six built-in methods of the stdin entry point. -/
def builtin : List String :=
  ["set_mode", "set_quality", "set_stall_deselect", "set_conn_timeout", "get_status", "get_stats"]

/-- "bad parameters" for the four setters, spelled out. -/
def BadParams (m : String) (p : Json) : Prop :=
  (m = "set_mode" ∧
      ∀ s, (p.get "mode").bind Json.asStr = some s → s ≠ "classic" ∧ s ≠ "enhanced") ∨
  ((m = "set_quality" ∨ m = "set_stall_deselect") ∧ (p.get "enabled").bind Json.asBool = none) ∨
  (m = "set_conn_timeout" ∧ (p.get "ms").bind Json.asU64 = none)

/-! ## Classification of `handle_method` outcomes -/

theorem HM.ok_class {env : Env} {c : Config} {m : String} {p : Json} {out : Config × Except ErrObj Json}
    (h : HM env c m p out) {v : Json} (hv : out.2 = .ok v) :
    ¬ BadParams m p ∧ m ∈ builtin ∧ ¬ (m = "get_stats" ∧ env.stats = none) := by
  cases h with
  | modeOk md h1 h2 =>
    subst h1
    refine ⟨?_, by simp [builtin], by simp⟩
    rintro (⟨_, hb⟩ | ⟨hb, _⟩ | ⟨hb, _⟩)
    · have := hb _ h2
      cases md <;> simp [Mode.toStr] at this
    · simp at hb
    · simp at hb
  | qualityOk b h1 h2 =>
    subst h1
    refine ⟨?_, by simp [builtin], by simp⟩
    rintro (⟨hb, _⟩ | ⟨_, hb⟩ | ⟨hb, _⟩)
    · simp at hb
    · simp [h2] at hb
    · simp at hb
  | stallOk b h1 h2 =>
    subst h1
    refine ⟨?_, by simp [builtin], by simp⟩
    rintro (⟨hb, _⟩ | ⟨_, hb⟩ | ⟨hb, _⟩)
    · simp at hb
    · simp [h2] at hb
    · simp at hb
  | timeoutOk ms h1 h2 =>
    subst h1
    refine ⟨?_, by simp [builtin], by simp⟩
    rintro (⟨hb, _⟩ | ⟨hb, _⟩ | ⟨_, hb⟩)
    · simp at hb
    · simp at hb
    · simp [h2] at hb
  | status h1 =>
    subst h1
    refine ⟨?_, by simp [builtin], by simp⟩
    rintro (⟨hb, _⟩ | ⟨hb, _⟩ | ⟨hb, _⟩) <;> simp at hb
  | statsSome j h1 h2 =>
    subst h1
    refine ⟨?_, by simp [builtin], by simp [h2]⟩
    rintro (⟨hb, _⟩ | ⟨hb, _⟩ | ⟨hb, _⟩) <;> simp at hb
  | _ => simp at hv

theorem HM.error_class {env : Env} {c : Config} {m : String} {p : Json} {out : Config × Except ErrObj Json}
    (h : HM env c m p out) {e : ErrObj} (he : out.2 = .error e) :
    (e.code = -32602 ∧ BadParams m p) ∨ (e.code = -32601 ∧ m ∉ builtin) ∨
      (e.code = -32603 ∧ m = "get_stats" ∧ env.stats = none) := by
  cases h with
  | modeMissing h1 h2 =>
    simp at he; subst he
    exact .inl ⟨rfl, .inl ⟨h1, by simp [h2]⟩⟩
  | modeUnknown s h1 h2 h3 h4 =>
    simp at he; subst he
    refine .inl ⟨rfl, .inl ⟨h1, ?_⟩⟩
    intro s' hs'
    rw [h2] at hs'
    cases hs'
    exact ⟨h3, h4⟩
  | qualityBad h1 h2 =>
    simp at he; subst he
    exact .inl ⟨rfl, .inr (.inl ⟨.inl h1, h2⟩)⟩
  | stallBad h1 h2 =>
    simp at he; subst he
    exact .inl ⟨rfl, .inr (.inl ⟨.inr h1, h2⟩)⟩
  | timeoutBad h1 h2 =>
    simp at he; subst he
    exact .inl ⟨rfl, .inr (.inr ⟨h1, h2⟩)⟩
  | statsNone h1 h2 =>
    simp at he; subst he
    exact .inr (.inr ⟨rfl, h1, h2⟩)
  | reserved h1 =>
    simp at he; subst he
    refine .inr (.inl ⟨rfl, ?_⟩)
    rcases h1 with h1 | h1 <;> simp [builtin, h1]
  | unknown h1 h2 h3 h4 h5 h6 _ _ =>
    simp at he; subst he
    exact .inr (.inl ⟨rfl, by simp [builtin, h1, h2, h3, h4, h5, h6]⟩)
  | _ => simp at he


/-! ## Response plumbing -/

theorem finish_shape (id : Option Json) (res : Except ErrObj Json) :
    match id with
    | some i => ∃ resp, finish id res = some resp ∧ resp.id = i ∧ ExactlyOne resp
    | none => finish id res = none := by
  cases id with
  | none => rfl
  | some i =>
    cases res with
    | ok v => exact ⟨_, rfl, rfl, rfl⟩
    | error e => exact ⟨_, rfl, rfl, rfl⟩

theorem map_versionError_shape (id : Option Json) :
    match id with
    | some i => ∃ resp, id.map versionError = some resp ∧ resp.id = i ∧ ExactlyOne resp
    | none => id.map versionError = none := by
  cases id with
  | none => rfl
  | some i => exact ⟨_, rfl, rfl, rfl⟩

theorem async_resp_finish (env : Env) (c : Config) (ctx : Option Ctx) (r : Request)
    (hv : r.jsonrpc = Control.JSONRPC_VERSION) :
    ∃ res, (dispatchAsync env c ctx (.request r)).2.2 = finish r.id res := by
  unfold dispatchAsync
  simp only [hv, ne_eq, not_true_eq_false, if_false]
  cases ctx with
  | none => exact ⟨_, rfl⟩
  | some x =>
    simp only
    by_cases h1 : r.method = "subscribe"
    · rw [if_pos h1]; exact ⟨_, rfl⟩
    · rw [if_neg h1]
      by_cases h2 : r.method = "unsubscribe"
      · rw [if_pos h2]; exact ⟨_, rfl⟩
      · rw [if_neg h2]
        by_cases h3 : r.method = "get_subscription_count"
        · rw [if_pos h3]
          exact ⟨.ok (.obj [("count", Json.ofNat x.hub.entries.length)]), rfl⟩
        · rw [if_neg h3]; exact ⟨_, rfl⟩

theorem code_finish (id : Option Json) (res : Except ErrObj Json) (k : Int) :
    code? (finish id res) = some k ↔ ∃ i e, id = some i ∧ res = .error e ∧ e.code = k := by
  cases id with
  | none => simp [finish, code?]
  | some i =>
    cases res with
    | ok v => simp [finish, code?, Response.ok]
    | error e => simp [finish, code?, Response.err]

theorem code_version (id : Option Json) (k : Int) :
    code? (id.map versionError) = some k ↔ (∃ i, id = some i) ∧ k = -32600 := by
  cases id with
  | none => simp [code?]
  | some i =>
    simp [code?, versionError, Response.err, ErrObj.new, Control.INVALID_REQUEST_eq]
    omega

/-! ## Exact outcomes of the well-typed calls -/

theorem handleMethod_set_mode (env : Env) (c : Config) (p : Json) (md : Mode)
    (hp : (p.get "mode").bind Json.asStr = some md.toStr) :
    handleMethod env c "set_mode" p = (c.setMode md, .ok (.obj [("mode", .str md.toStr)])) := by
  unfold handleMethod
  simp only [if_true, hp]
  cases md <;> simp [parseMode, Mode.toStr]

theorem handleMethod_set_quality (env : Env) (c : Config) (p : Json) (b : Bool)
    (hp : (p.get "enabled").bind Json.asBool = some b) :
    handleMethod env c "set_quality" p = (c.setQuality b, .ok (.obj [("enabled", .bool b)])) := by
  simp [handleMethod, hp]

theorem handleMethod_set_stall (env : Env) (c : Config) (p : Json) (b : Bool)
    (hp : (p.get "enabled").bind Json.asBool = some b) :
    handleMethod env c "set_stall_deselect" p = (c.setStall b, .ok (.obj [("enabled", .bool b)])) := by
  simp [handleMethod, hp]

theorem handleMethod_set_conn_timeout (env : Env) (c : Config) (p : Json) (ms : Nat)
    (hp : (p.get "ms").bind Json.asU64 = some ms) :
    handleMethod env c "set_conn_timeout" p =
      ((c.setConnTimeout ms).1, .ok (.obj [("ms", Json.ofNat (c.setConnTimeout ms).2)])) := by
  simp [handleMethod, hp]

theorem status_reply (env : Env) (c : Config) (p i : Json) :
    dispatchInner env c (statusReq p i) = (c, some (Response.ok i (statusJson c.snapshot env.cw))) := by
  simp [statusReq, dispatchInner, version_lit, handleMethod, finish]

/-! ## Frames: which lines can touch which cell -/

theorem dispatchInner_frame {α : Type} (f : Config → α) (nm : String)
    (hmode : nm ≠ "set_mode" → ∀ (c : Config) md, f (c.setMode md) = f c)
    (hq : nm ≠ "set_quality" → ∀ (c : Config) b, f (c.setQuality b) = f c)
    (hs : nm ≠ "set_stall_deselect" → ∀ (c : Config) b, f (c.setStall b) = f c)
    (ht : nm ≠ "set_conn_timeout" → ∀ (c : Config) ms, f (c.setConnTimeout ms).1 = f c)
    (env : Env) (c : Config) (l : Line) (h : ∀ r, l = .request r → r.method ≠ nm) :
    f (dispatchInner env c l).1 = f c := by
  cases l with
  | blank => rfl
  | unparsable => rfl
  | request r =>
    have hne := h r rfl
    by_cases hv : r.jsonrpc = "2.0"
    · rw [dispatchInner_v2 env c r hv]
      rcases (handleMethod_HM env c r.method r.params).config with
        h0 | ⟨hm, md, h0⟩ | ⟨hm, b, h0⟩ | ⟨hm, b, h0⟩ | ⟨hm, ms, h0⟩
      · simp only [h0]
      · simp only [h0]; exact hmode (fun e => hne (hm.trans e.symm)) c md
      · simp only [h0]; exact hq (fun e => hne (hm.trans e.symm)) c b
      · simp only [h0]; exact hs (fun e => hne (hm.trans e.symm)) c b
      · simp only [h0]; exact ht (fun e => hne (hm.trans e.symm)) c ms
    · rw [dispatchInner_badVersion env c r hv]

theorem runSync_frame {α : Type} (f : Config → α) (nm : String)
    (hmode : nm ≠ "set_mode" → ∀ (c : Config) md, f (c.setMode md) = f c)
    (hq : nm ≠ "set_quality" → ∀ (c : Config) b, f (c.setQuality b) = f c)
    (hs : nm ≠ "set_stall_deselect" → ∀ (c : Config) b, f (c.setStall b) = f c)
    (ht : nm ≠ "set_conn_timeout" → ∀ (c : Config) ms, f (c.setConnTimeout ms).1 = f c)
    (c : Config) (ls : List (Env × Line))
    (h : ∀ el ∈ ls, ∀ q, el.2 = .request q → q.method ≠ nm) :
    f (runSync c ls).1 = f c := by
  induction ls generalizing c with
  | nil => rfl
  | cons el rest ih =>
    simp only [runSync]
    rw [ih _ (fun el' hel => h el' (List.mem_cons_of_mem _ hel))]
    exact dispatchInner_frame f nm hmode hq hs ht el.1 c el.2 (h el (List.mem_cons_self ..))


/-! ## Which calls give which error code -/

theorem BadParams.setter {m : String} {p : Json} (h : BadParams m p) :
    m ∈ builtin ∧ m ≠ "get_stats" := by
  rcases h with ⟨h, _⟩ | ⟨h | h, _⟩ | ⟨h, _⟩ <;> subst h <;> simp [builtin]

theorem hm_code_602 (env : Env) (c : Config) (m : String) (p : Json) :
    (∃ e, (handleMethod env c m p).2 = .error e ∧ e.code = -32602) ↔ BadParams m p := by
  have H := handleMethod_HM env c m p
  constructor
  · rintro ⟨e, he, hc⟩
    rcases H.error_class he with ⟨_, hb⟩ | ⟨h, _⟩ | ⟨h, _⟩
    · exact hb
    · omega
    · omega
  · intro hb
    cases hout : (handleMethod env c m p).2 with
    | ok v => exact absurd hb (H.ok_class hout).1
    | error e =>
      refine ⟨e, rfl, ?_⟩
      rcases H.error_class hout with ⟨h, _⟩ | ⟨_, h⟩ | ⟨_, h, _⟩
      · exact h
      · exact absurd hb.setter.1 h
      · exact absurd h hb.setter.2

theorem hm_code_601 (env : Env) (c : Config) (m : String) (p : Json) :
    (∃ e, (handleMethod env c m p).2 = .error e ∧ e.code = -32601) ↔ m ∉ builtin := by
  have H := handleMethod_HM env c m p
  constructor
  · rintro ⟨e, he, hc⟩
    rcases H.error_class he with ⟨h, _⟩ | ⟨_, hb⟩ | ⟨h, _⟩
    · omega
    · exact hb
    · omega
  · intro hb
    cases hout : (handleMethod env c m p).2 with
    | ok v => exact absurd (H.ok_class hout).2.1 hb
    | error e =>
      refine ⟨e, rfl, ?_⟩
      rcases H.error_class hout with ⟨_, h⟩ | ⟨h, _⟩ | ⟨_, h, _⟩
      · exact absurd h.setter.1 hb
      · exact h
      · subst h; simp [builtin] at hb

theorem hm_code_603 (env : Env) (c : Config) (m : String) (p : Json) :
    (∃ e, (handleMethod env c m p).2 = .error e ∧ e.code = -32603) ↔
      (m = "get_stats" ∧ env.stats = none) := by
  have H := handleMethod_HM env c m p
  constructor
  · rintro ⟨e, he, hc⟩
    rcases H.error_class he with ⟨h, _⟩ | ⟨h, _⟩ | ⟨_, hb⟩
    · omega
    · omega
    · exact hb
  · intro hb
    cases hout : (handleMethod env c m p).2 with
    | ok v => exact absurd hb (H.ok_class hout).2.2
    | error e =>
      refine ⟨e, rfl, ?_⟩
      rcases H.error_class hout with ⟨_, h⟩ | ⟨_, h⟩ | ⟨h, _⟩
      · exact absurd hb.1 h.setter.2
      · rw [hb.1] at h; simp [builtin] at h
      · exact h

theorem hm_codes (env : Env) (c : Config) (m : String) (p : Json) (e : ErrObj)
    (he : (handleMethod env c m p).2 = .error e) :
    e.code = -32602 ∨ e.code = -32601 ∨ e.code = -32603 := by
  rcases (handleMethod_HM env c m p).error_class he with ⟨h, _⟩ | ⟨h, _⟩ | ⟨h, _⟩
  · exact .inl h
  · exact .inr (.inl h)
  · exact .inr (.inr h)

/-- The error code of the stdin entry point on a version-2.0 request. -/
theorem code_v2 (env : Env) (c : Config) (r : Request) (hv : r.jsonrpc = "2.0") (k : Int) :
    code? (dispatchInner env c (.request r)).2 = some k ↔
      (∃ i, r.id = some i) ∧
        ∃ e, (handleMethod env c r.method r.params).2 = .error e ∧ e.code = k := by
  rw [dispatchInner_v2 env c r hv, code_finish]
  constructor
  · rintro ⟨i, e, hi, he, hc⟩; exact ⟨⟨i, hi⟩, e, he, hc⟩
  · rintro ⟨⟨i, hi⟩, e, he, hc⟩; exact ⟨i, e, hi, he, hc⟩

theorem code_badVersion (env : Env) (c : Config) (r : Request) (hv : r.jsonrpc ≠ "2.0") (k : Int) :
    code? (dispatchInner env c (.request r)).2 = some k ↔ (∃ i, r.id = some i) ∧ k = -32600 := by
  rw [dispatchInner_badVersion env c r hv, code_version]

theorem code_blank (env : Env) (c : Config) (k : Int) :
    code? (dispatchInner env c .blank).2 ≠ some k := by
  simp [dispatchInner, code?]

theorem code_unparsable (env : Env) (c : Config) :
    code? (dispatchInner env c .unparsable).2 = some (-32700) := by
  simp [dispatchInner, code?, parseErrorResponse, Response.err, Control.PARSE_ERROR_eq]


/-! ## Concurrent view: the step invariant -/

def Conc.CellsOK (s : Conc) : Prop := ∀ v ∈ s.cells.timeout, InRange v
def Conc.TasksOK (s : Conc) : Prop :=
  ∀ t p, s.tasks t = .snapping p → ∀ v, p.timeout = some v → InRange v
def Conc.Inv (s : Conc) : Prop := s.CellsOK ∧ s.TasksOK

def EventOK : Event → Prop
  | .timeoutApplied _ ms a => a = clampU64 ms 1000 60000 ∧ InRange a
  | .snapshot _ snap => InRange snap.timeout

theorem clamp_inRange (ms : Nat) :
    InRange (clampU64 ms Cfg.CONN_TIMEOUT_MS_MIN Cfg.CONN_TIMEOUT_MS_MAX) := by
  simp only [Cfg.CONN_TIMEOUT_MS_MIN_eq, Cfg.CONN_TIMEOUT_MS_MAX_eq]
  exact clampU64_range ms 1000 60000 (by omega)

theorem setTask_same (tasks : Nat → Task) (t : Nat) (x : Task) : setTask tasks t x t = x := by
  simp [setTask]

theorem setTask_snapping {tasks : Nat → Task} {t : Nat} {x : Task} {t' : Nat} {p : Partial}
    (h : setTask tasks t x t' = .snapping p) :
    (t' = t ∧ x = .snapping p) ∨ (t' ≠ t ∧ tasks t' = .snapping p) := by
  unfold setTask at h
  split at h
  · exact .inl ⟨‹_›, h⟩
  · exact .inr ⟨‹_›, h⟩

theorem Partial.complete_timeout {p : Partial} {snap : Snapshot} (h : p.complete = some snap) :
    p.timeout = some snap.timeout := by
  unfold Partial.complete at h
  split at h
  · rename_i ht; cases h; simp [ht]
  · cases h

theorem Conc.step_inv {s s' : Conc} {a : Act} {ev : Option Event} (hinv : s.Inv)
    (h : s.step a = some (s', ev)) : s'.Inv ∧ ∀ e, ev = some e → EventOK e := by
  obtain ⟨hc, ht⟩ := hinv
  cases a with
  | call t op =>
    simp only [Conc.step] at h
    split at h
    · -- idle
      have key : ∀ x : Task, (∀ p, x = .snapping p → p.timeout = none) →
          (Conc.mk s.cells (setTask s.tasks t x)).Inv := by
        intro x hx
        refine ⟨hc, ?_⟩
        intro t' p hp v hv
        rcases setTask_snapping hp with ⟨_, hx'⟩ | ⟨_, hold⟩
        · rw [hx p hx'] at hv; cases hv
        · exact ht t' p hold v hv
      cases op <;> simp only [Option.some.injEq, Prod.mk.injEq] at h <;> obtain ⟨rfl, rfl⟩ := h
      all_goals refine ⟨key _ ?_, by simp⟩
      all_goals intro p hp
      all_goals first
        | (cases hp; rfl)
        | cases hp
    · cases h
  | store t =>
    simp only [Conc.step] at h
    split at h
    · -- storing op
      have tasks_ok : ∀ t' p, setTask s.tasks t .idle t' = .snapping p →
          ∀ v, p.timeout = some v → InRange v := by
        intro t' p hp v hv
        rcases setTask_snapping hp with ⟨_, hx⟩ | ⟨_, hold⟩
        · cases hx
        · exact ht t' p hold v hv
      rename_i op _
      cases op <;> simp only [Option.some.injEq, Prod.mk.injEq, reduceCtorEq] at h
      case setMode m _ => obtain ⟨rfl, rfl⟩ := h; exact ⟨⟨hc, tasks_ok⟩, by simp⟩
      case setQuality b _ => obtain ⟨rfl, rfl⟩ := h; exact ⟨⟨hc, tasks_ok⟩, by simp⟩
      case setStall b _ => obtain ⟨rfl, rfl⟩ := h; exact ⟨⟨hc, tasks_ok⟩, by simp⟩
      case setTimeout ms _ =>
        obtain ⟨rfl, rfl⟩ := h
        have hr := clamp_inRange ms
        refine ⟨⟨?_, tasks_ok⟩, ?_⟩
        · intro v hv
          simp only [List.mem_cons] at hv
          rcases hv with rfl | hv
          · exact hr
          · exact hc v hv
        · intro e he
          cases he
          exact ⟨by simp [Cfg.CONN_TIMEOUT_MS_MIN_eq, Cfg.CONN_TIMEOUT_MS_MAX_eq], hr⟩
    · cases h
  | load t f k =>
    simp only [Conc.step] at h
    split at h
    · rename_i p hp
      have key : ∀ p' : Partial, (∀ v, p'.timeout = some v → InRange v) →
          (Conc.mk s.cells (setTask s.tasks t (.snapping p'))).Inv := by
        intro p' hp'
        refine ⟨hc, ?_⟩
        intro t' q hq v hv
        rcases setTask_snapping hq with ⟨_, hx⟩ | ⟨_, hold⟩
        · cases hx; exact hp' v hv
        · exact ht t' q hold v hv
      have old := ht t p hp
      cases f <;> simp only [Option.bind_eq_some_iff, Option.some.injEq, Prod.mk.injEq] at h <;>
        obtain ⟨x, hx, rfl, rfl⟩ := h
      case timeout =>
        refine ⟨key _ ?_, by simp⟩
        intro v hv
        simp only [Option.some.injEq] at hv
        subst hv
        exact hc x (List.mem_of_getElem? hx)
      all_goals exact ⟨key _ old, by simp⟩
    · cases h
  | ret t =>
    simp only [Conc.step] at h
    split at h
    · rename_i p hp
      split at h
      · rename_i snap hsnap
        simp only [Option.some.injEq, Prod.mk.injEq] at h
        obtain ⟨rfl, rfl⟩ := h
        refine ⟨⟨hc, ?_⟩, ?_⟩
        · intro t' q hq v hv
          rcases setTask_snapping hq with ⟨_, hx⟩ | ⟨_, hold⟩
          · cases hx
          · exact ht t' q hold v hv
        · intro e he
          cases he
          exact ht t p hp _ (Partial.complete_timeout hsnap)
      · cases h
    · cases h


theorem Conc.run_inv (s : Conc) (acts : List Act) (hinv : s.Inv) :
    (s.run acts).1.Inv ∧ ∀ e ∈ (s.run acts).2, EventOK e := by
  induction acts generalizing s with
  | nil => exact ⟨hinv, by simp [Conc.run]⟩
  | cons a rest ih =>
    simp only [Conc.run]
    cases hstep : s.step a with
    | none => exact ih s hinv
    | some r =>
      obtain ⟨s', ev⟩ := r
      obtain ⟨hinv', hev⟩ := Conc.step_inv hinv hstep
      obtain ⟨h1, h2⟩ := ih s' hinv'
      refine ⟨h1, ?_⟩
      cases ev with
      | none => exact h2
      | some e =>
        intro e' he'
        simp only [List.mem_cons] at he'
        rcases he' with rfl | he'
        · exact hev _ rfl
        · exact h2 e' he'

theorem Conc.init_inv (c : Config) (h : InRange c.timeout) : (Conc.init c).Inv := by
  refine ⟨?_, ?_⟩
  · intro v hv
    simp only [Conc.init, Cells.ofConfig, List.mem_singleton] at hv
    subst hv
    exact h
  · intro t p hp
    simp [Conc.init] at hp

end Srtla.Control

namespace Srtla.Control
open Srtla.Gen

/-! ## Round 2: the `jsonrpc` member of every response -/

theorem Response.ok_jsonrpc (i v : Json) : (Response.ok i v).jsonrpc = "2.0" := rfl
theorem Response.err_jsonrpc (i : Json) (e : ErrObj) : (Response.err i e).jsonrpc = "2.0" := rfl

theorem finish_jsonrpc (id : Option Json) (res : Except ErrObj Json) (resp : Response)
    (h : finish id res = some resp) : resp.jsonrpc = "2.0" := by
  cases id with
  | none => cases h
  | some i =>
    cases res with
    | ok v => simp only [finish, Option.some.injEq] at h; rw [← h]; rfl
    | error e => simp only [finish, Option.some.injEq] at h; rw [← h]; rfl

theorem map_versionError_jsonrpc (id : Option Json) (resp : Response)
    (h : id.map versionError = some resp) : resp.jsonrpc = "2.0" := by
  cases id with
  | none => cases h
  | some i => simp only [Option.map_some, Option.some.injEq] at h; rw [← h]; rfl

theorem dispatchInner_jsonrpc (env : Env) (c : Config) (l : Line) (resp : Response)
    (h : (dispatchInner env c l).2 = some resp) : resp.jsonrpc = "2.0" := by
  cases l with
  | blank => cases h
  | unparsable => simp only [dispatchInner, Option.some.injEq] at h; rw [← h]; rfl
  | request r =>
    unfold dispatchInner at h
    by_cases hv : r.jsonrpc = Control.JSONRPC_VERSION
    · simp only [hv, ne_eq, not_true_eq_false, if_false] at h
      exact finish_jsonrpc _ _ _ h
    · simp only [hv, ne_eq, not_false_eq_true, if_true] at h
      exact map_versionError_jsonrpc _ _ h

theorem dispatchAsync_jsonrpc (env : Env) (c : Config) (ctx : Option Ctx) (l : Line) (resp : Response)
    (h : (dispatchAsync env c ctx l).2.2 = some resp) : resp.jsonrpc = "2.0" := by
  cases l with
  | blank => cases h
  | unparsable => simp only [dispatchAsync, Option.some.injEq] at h; rw [← h]; rfl
  | request r =>
    by_cases hv : r.jsonrpc = Control.JSONRPC_VERSION
    · obtain ⟨res, hres⟩ := async_resp_finish env c ctx r hv
      rw [hres] at h
      exact finish_jsonrpc _ _ _ h
    · unfold dispatchAsync at h
      simp only [hv, ne_eq, not_false_eq_true, if_true] at h
      exact map_versionError_jsonrpc _ _ h

theorem runSync_jsonrpc (c : Config) (ls : List (Env × Line)) (resp : Response)
    (h : some resp ∈ (runSync c ls).2) : resp.jsonrpc = "2.0" := by
  induction ls generalizing c with
  | nil => simp [runSync] at h
  | cons el rest ih =>
    obtain ⟨env, l⟩ := el
    simp only [runSync, List.mem_cons] at h
    rcases h with h | h
    · exact dispatchInner_jsonrpc env c l resp h.symm
    · exact ih _ h

theorem runAsync_jsonrpc (c : Config) (ctx : Option Ctx) (ls : List (Env × Line)) (resp : Response)
    (h : some resp ∈ (runAsync c ctx ls).2.2) : resp.jsonrpc = "2.0" := by
  induction ls generalizing c ctx with
  | nil => simp [runAsync] at h
  | cons el rest ih =>
    obtain ⟨env, l⟩ := el
    simp only [runAsync, List.mem_cons] at h
    rcases h with h | h
    · exact dispatchAsync_jsonrpc env c ctx l resp h.symm
    · exact ih _ _ h

end Srtla.Control
