import Srtla.Model.Sys
import Srtla.Lemmas.ReloadBasic
import Srtla.Lemmas.Conn
import Srtla.Lemmas.SelectFrame
/-!
# Housekeeping / reconnection lemmas (C08)

Everything is stated for an arbitrary scalar type `F` with an arbitrary `[Scalar F]` instance
(float comparisons stay opaque Booleans).
-/
namespace Srtla.Hk
open Srtla Srtla.Gen Srtla.Conn Srtla.Select Srtla.Rtt Srtla.Link Srtla.Sys Scalar

set_option linter.unusedSectionVars false
set_option linter.unusedVariables false

variable {F : Type} [Scalar F]
variable {fa : List (Nat × Nat)}

/-! ## 1. Reconnection arithmetic (reconnection.rs) -/

theorem backoff_table (l : FLink F) :
    l.backoffDelay =
      if l.failCount = 0 then 5000 else if l.failCount = 1 then 10000 else if l.failCount = 2 then 20000
      else if l.failCount = 3 then 40000 else if l.failCount = 4 then 80000 else 120000 := by
  unfold FLink.backoffDelay
  simp only [Reconn.MAX_BACKOFF_COUNT_eq, Reconn.BASE_RECONNECT_DELAY_MS_eq, Reconn.MAX_BACKOFF_DELAY_MS_eq]
  have h : min l.failCount 5 = 0 ∧ l.failCount = 0 ∨ min l.failCount 5 = 1 ∧ l.failCount = 1 ∨
      min l.failCount 5 = 2 ∧ l.failCount = 2 ∨ min l.failCount 5 = 3 ∧ l.failCount = 3 ∨
      min l.failCount 5 = 4 ∧ l.failCount = 4 ∨ min l.failCount 5 = 5 ∧ 5 ≤ l.failCount := by omega
  rcases h with ⟨h, e⟩ | ⟨h, e⟩ | ⟨h, e⟩ | ⟨h, e⟩ | ⟨h, e⟩ | ⟨h, e⟩
  · rw [h, e]; decide
  · rw [h, e]; decide
  · rw [h, e]; decide
  · rw [h, e]; decide
  · rw [h, e]; decide
  · rw [h]
    rw [if_neg (by omega), if_neg (by omega), if_neg (by omega), if_neg (by omega), if_neg (by omega)]
    decide

theorem backoff_bounds (l : FLink F) : 5000 ≤ l.backoffDelay ∧ l.backoffDelay ≤ 120000 := by
  rw [backoff_table]
  repeat' split
  all_goals omega

/-- What a `true` verdict of `should_attempt_reconnect` means. -/
theorem shouldAttempt_true (l : FLink F) (now : Nat) (h : l.shouldAttemptReconnect now = true) :
    (l.established = 0 ∧ l.graceDeadline < now ∧ (l.lastAttemptMs = 0 ∨ now - l.lastAttemptMs ≥ 1000)) ∨
    (l.established ≠ 0 ∧ (l.lastAttemptMs = 0 ∨ now - l.lastAttemptMs ≥ l.backoffDelay)) := by
  have hI := Lit.INITIAL_RETRY_MS_eq
  unfold FLink.shouldAttemptReconnect at h
  split at h
  · rename_i he
    have he' : l.established = 0 := by simpa using he
    left
    split at h
    · cases h
    · rename_i hg
      refine ⟨he', by omega, ?_⟩
      split at h
      · rename_i hl; left; simpa using hl
      · right; have := of_decide_eq_true h; omega
  · rename_i he
    have he' : l.established ≠ 0 := by simpa using he
    right
    refine ⟨he', ?_⟩
    split at h
    · rename_i hl; left; simpa using hl
    · right; exact of_decide_eq_true h

/-- The verdict is `true` whenever the link is past its grace (or was established before) and the
last attempt is either absent or at least the back-off cap old. -/
theorem shouldAttempt_of_old (l : FLink F) (now : Nat)
    (hg : l.established ≠ 0 ∨ l.graceDeadline < now)
    (ha : l.lastAttemptMs = 0 ∨ now - l.lastAttemptMs ≥ 120000) :
    l.shouldAttemptReconnect now = true := by
  have hI := Lit.INITIAL_RETRY_MS_eq
  have hb := (backoff_bounds l).2
  unfold FLink.shouldAttemptReconnect
  split
  · rename_i he
    have he' : l.established = 0 := by simpa using he
    rw [if_neg (by omega)]
    split
    · rfl
    · rename_i hl
      have : l.lastAttemptMs ≠ 0 := by simpa using hl
      exact decide_eq_true (by omega)
  · split
    · rfl
    · rename_i hl
      have : l.lastAttemptMs ≠ 0 := by simpa using hl
      exact decide_eq_true (by omega)

/-! ## 2. Pointwise list relation -/

inductive PW {α : Type} (R : α → α → Prop) : List α → List α → Prop
  | nil : PW R [] []
  | cons {a b : α} {as bs : List α} : R a b → PW R as bs → PW R (a :: as) (b :: bs)

theorem PW.length {α : Type} {R : α → α → Prop} {as bs : List α} (h : PW R as bs) : bs.length = as.length := by
  induction h with
  | nil => rfl
  | cons _ _ ih => simp [ih]

theorem PW.get {α : Type} {R : α → α → Prop} {as bs : List α} (h : PW R as bs) (j : Nat) (a : α)
    (ha : as[j]? = some a) : ∃ b, bs[j]? = some b ∧ R a b := by
  induction h generalizing j with
  | nil => simp at ha
  | cons hr _ ih =>
    cases j with
    | zero => simp at ha; subst ha; exact ⟨_, by simp, hr⟩
    | succ j => simp at ha; simpa using ih j ha

theorem PW.mono {α : Type} {R S : α → α → Prop} {as bs : List α} (h : PW R as bs)
    (hrs : ∀ a b, R a b → S a b) : PW S as bs := by
  induction h with
  | nil => exact .nil
  | cons hr _ ih => exact .cons (hrs _ _ hr) ih

theorem PW.refl {α : Type} {R : α → α → Prop} (hr : ∀ a, R a a) (as : List α) : PW R as as := by
  induction as with
  | nil => exact .nil
  | cons a as ih => exact .cons (hr a) ih

theorem PW.map {α : Type} {R : α → α → Prop} (f : α → α) (as : List α) (hr : ∀ a, R a (f a)) :
    PW R as (as.map f) := by
  induction as with
  | nil => exact .nil
  | cons a as ih => exact .cons (hr a) ih

/-! ## 3. What an event may do to one link: the `Evolves` relation -/

/-- Clean accounting of a torn-down link. -/
structure Clean (l : FLink F) : Prop where
  window : l.core.window = 20000
  log : l.core.log = []
  queue : l.queue = []
  inFlight : l.core.inFlight = 0
  connected : l.core.connected = false

/-- The per-link copy of the connection timeout is unchanged, or was stamped with `cto` (the
configured value, by a selection pass). -/
def TOk (cto : Option Nat) (a b : FLink F) : Prop :=
  b.connTimeoutMs = a.connTimeoutMs ∨ cto = some b.connTimeoutMs

theorem TOk.refl (cto : Option Nat) (a : FLink F) : TOk cto a a := Or.inl rfl

theorem TOk.trans {cto : Option Nat} {a b c : FLink F} (h1 : TOk cto a b) (h2 : TOk cto b c) : TOk cto a c := by
  rcases h2 with e | e
  · rcases h1 with e' | e'
    · exact Or.inl (e.trans e')
    · exact Or.inr (by rw [e]; exact e')
  · exact Or.inr e

/-- Everything that is NOT a tear-down, a reconnect attempt or a REG3 keeps these facts about a link.
`hc` = registration completed (`reg.has_connected`): only then is cleanliness of a `Registering`
link preserved (before, pre-registration forwarding uses `Registering` links). -/
structure Evolves (hc : Bool) (cto : Option Nat) (l l' : FLink F) : Prop where
  timeout : TOk cto l l'
  established : l'.established = l.established
  lastAttempt : l'.lastAttemptMs = l.lastAttemptMs
  failCount : l'.failCount = l.failCount
  connected : l'.core.connected = l.core.connected
  connId : l'.core.connId = l.core.connId
  phaseReg : l'.core.phase = .registering ↔ l.core.phase = .registering
  clean : hc = true → l.core.phase = .registering → Clean l → Clean l'

theorem Evolves.refl (hc : Bool) (cto : Option Nat) (l : FLink F) : Evolves hc cto l l :=
  ⟨Or.inl rfl, rfl, rfl, rfl, rfl, rfl, Iff.rfl, fun _ _ h => h⟩

theorem Evolves.trans {hc : Bool} {cto : Option Nat} {a b c : FLink F} (h1 : Evolves hc cto a b) (h2 : Evolves hc cto b c) :
    Evolves hc cto a c :=
  ⟨h1.timeout.trans h2.timeout, h2.established.trans h1.established, h2.lastAttempt.trans h1.lastAttempt,
   h2.failCount.trans h1.failCount, h2.connected.trans h1.connected, h2.connId.trans h1.connId,
   h2.phaseReg.trans h1.phaseReg,
   fun hc' hp hcl => h2.clean hc' (h1.phaseReg.mpr hp) (h1.clean hc' hp hcl)⟩

theorem Evolves.weaken {hc : Bool} {cto : Option Nat} {a b : FLink F} (h : Evolves hc cto a b) : Evolves false cto a b :=
  ⟨h.timeout, h.established, h.lastAttempt, h.failCount, h.connected, h.connId, h.phaseReg, fun h' => by cases h'⟩

/-- A change that touches neither the accounting core nor the queue nor the reconnection state. -/
theorem Evolves.of_soft {hc : Bool} {cto : Option Nat} {l l' : FLink F} (hcore : l'.core = l.core) (hq : l'.queue = l.queue)
    (he : l'.established = l.established) (ha : l'.lastAttemptMs = l.lastAttemptMs)
    (hf : l'.failCount = l.failCount) (ht : l'.connTimeoutMs = l.connTimeoutMs) : Evolves hc cto l l' :=
  ⟨Or.inl ht, he, ha, hf, by rw [hcore], by rw [hcore], by rw [hcore],
   fun _ _ h => ⟨by rw [hcore]; exact h.window, by rw [hcore]; exact h.log, by rw [hq]; exact h.queue,
     by rw [hcore]; exact h.inFlight, by rw [hcore]; exact h.connected⟩⟩

/-- A change of the core that keeps connected / id / phase-kind and leaves a clean core clean. -/
structure CoreEvolves (c c' : Conn) : Prop where
  connected : c'.connected = c.connected
  connId : c'.connId = c.connId
  phaseReg : c'.phase = .registering ↔ c.phase = .registering
  clean : c.window = 20000 → c.log = [] → c.inFlight = 0 → c.connected = false →
    c'.window = 20000 ∧ c'.log = [] ∧ c'.inFlight = 0

theorem CoreEvolves.refl (c : Conn) : CoreEvolves c c := ⟨rfl, rfl, Iff.rfl, fun a b d _ => ⟨a, b, d⟩⟩

theorem CoreEvolves.trans {a b c : Conn} (h1 : CoreEvolves a b) (h2 : CoreEvolves b c) : CoreEvolves a c :=
  ⟨h2.connected.trans h1.connected, h2.connId.trans h1.connId, h2.phaseReg.trans h1.phaseReg,
   fun w lg i cn => by
     obtain ⟨w', lg', i'⟩ := h1.clean w lg i cn
     exact h2.clean w' lg' i' (h1.connected.trans cn)⟩

theorem Evolves.of_core {hc : Bool} {cto : Option Nat} {l : FLink F} {c' : Conn} (h : CoreEvolves l.core c') :
    Evolves hc cto l { l with core := c' } :=
  ⟨Or.inl rfl, rfl, rfl, rfl, h.connected, h.connId, h.phaseReg,
   fun _ _ hcl => by
     obtain ⟨w', lg', i'⟩ := h.clean hcl.window hcl.log hcl.inFlight hcl.connected
     exact ⟨w', lg', hcl.queue, i', h.connected.trans hcl.connected⟩⟩

/-! ### core operations -/

theorem core_srtAck (c : Conn) (ack : Int) (now : Nat) : CoreEvolves c (c.srtAck ack now).1 := by
  unfold Conn.srtAck
  split
  · exact CoreEvolves.refl c
  · refine ⟨rfl, rfl, Iff.rfl, fun w lg i _ => ?_⟩
    simp [lg, w]

theorem core_srtlaAck (c : Conn) (seq : Int) (cl : Bool) (now : Nat) : CoreEvolves c (c.srtlaAck seq cl now).1 := by
  unfold Conn.srtlaAck
  split
  · rename_i h
    refine ⟨?_, ?_, ?_, fun w lg i _ => ?_⟩
    · cases cl <;> rfl
    · cases cl <;> rfl
    · cases cl <;> exact Iff.rfl
    · simp [lg] at h
  · exact CoreEvolves.refl c

theorem core_ackGlobal (c : Conn) : CoreEvolves c c.ackGlobal := by
  unfold Conn.ackGlobal
  split
  · rename_i h
    refine ⟨rfl, rfl, Iff.rfl, fun w lg i cn => ?_⟩
    simp [cn] at h
  · exact CoreEvolves.refl c

theorem core_nak (c : Conn) (seq : Int) (now : Nat) : CoreEvolves c (c.nak seq now).1 := by
  unfold Conn.nak
  split
  · rename_i h
    refine ⟨rfl, rfl, Iff.rfl, fun w lg i _ => ?_⟩
    simp [lg] at h
  · exact CoreEvolves.refl c

theorem core_register (c : Conn) (seq : Int) (t : Nat) :
    (c.register seq t).connected = c.connected ∧ (c.register seq t).connId = c.connId ∧
    (c.register seq t).phase = c.phase := ⟨rfl, rfl, rfl⟩

/-! ### fan-out over the cores -/

theorem pw_updateAt (cs : Links) (i : Nat) (f : Conn → Conn) (c : Conn) (hc : cs[i]? = some c)
    (hf : CoreEvolves c (f c)) : PW CoreEvolves cs (updateAt cs i f) := by
  unfold updateAt
  induction cs generalizing i with
  | nil => exact .nil
  | cons d rest ih =>
    rw [List.mapIdx_cons]
    cases i with
    | zero =>
      simp at hc; subst hc
      refine .cons (by simpa using hf) ?_
      have : (List.mapIdx (fun i c => if i + 1 = 0 then f c else c) rest) = rest := by
        apply List.ext_getElem?
        intro k
        simp
      rw [this]; exact PW.refl CoreEvolves.refl rest
    | succ i =>
      refine .cons (by simpa using CoreEvolves.refl d) ?_
      have hc' : rest[i]? = some c := by simpa using hc
      have := ih i hc'
      simpa using this

theorem pw_srtlaAckOthers (cs : Links) (j skip : Nat) (seq : Int) (cl : Bool) (now : Nat) :
    PW CoreEvolves cs (srtlaAckOthers cs j skip seq cl now) := by
  induction cs generalizing j with
  | nil => exact .nil
  | cons c rest ih =>
    unfold srtlaAckOthers
    split
    · exact .cons (CoreEvolves.refl c) (ih (j + 1))
    · dsimp only
      split
      · exact .cons (core_srtlaAck c seq cl now) (PW.refl CoreEvolves.refl rest)
      · exact .cons (CoreEvolves.refl c) (ih (j + 1))

theorem PW.trans {α : Type} {R : α → α → Prop} (ht : ∀ a b c, R a b → R b c → R a c) {as bs cs : List α}
    (h1 : PW R as bs) (h2 : PW R bs cs) : PW R as cs := by
  induction h1 generalizing cs with
  | nil => cases h2; exact .nil
  | cons hr _ ih =>
    cases h2 with
    | cons hr' h2' => exact .cons (ht _ _ _ hr hr') (ih h2')

theorem pwCore_trans {as bs cs : Links} (h1 : PW CoreEvolves as bs) (h2 : PW CoreEvolves bs cs) :
    PW CoreEvolves as cs := PW.trans (R := CoreEvolves) (fun _ _ _ h h' => CoreEvolves.trans h h') h1 h2

theorem pw_evSrtlaAck (cs : Links) (idx : Nat) (seq : Int) (cl : Bool) (now : Nat) :
    PW CoreEvolves cs (evSrtlaAck cs idx seq cl now) := by
  unfold evSrtlaAck
  refine pwCore_trans ?_ (PW.map Conn.ackGlobal _ core_ackGlobal)
  split
  · exact PW.refl CoreEvolves.refl cs
  · rename_i c hc
    dsimp only
    split
    · exact pw_updateAt cs idx _ c hc (core_srtlaAck c seq cl now)
    · exact pw_srtlaAckOthers cs 0 idx seq cl now

theorem pw_nakScan (cs : Links) (seq : Int) (now : Nat) : PW CoreEvolves cs (nakScan cs seq now).1 := by
  induction cs with
  | nil => exact .nil
  | cons c rest ih =>
    unfold nakScan
    dsimp only
    split
    · exact .cons (core_nak c seq now) (PW.refl CoreEvolves.refl rest)
    · exact .cons (CoreEvolves.refl c) ih

theorem pw_attributeNak (cs : Links) (trk : Tracker) (nak now : Nat) :
    PW CoreEvolves cs (attributeNak cs trk nak now).1 := by
  unfold attributeNak
  dsimp only
  split
  · split
    · split
      · rename_i c hc
        split
        · exact pw_updateAt cs _ _ c hc (core_nak c _ now)
        · exact PW.refl CoreEvolves.refl cs
      · exact PW.refl CoreEvolves.refl cs
    · exact pw_nakScan cs _ now
  · exact pw_nakScan cs _ now

theorem pw_foldl {α β : Type} {R : α → α → Prop} (hrefl : ∀ a, R a a) (ht : ∀ a b c, R a b → R b c → R a c)
    (f : List α → β → List α) (hf : ∀ as b, PW R as (f as b)) (as : List α) (bs : List β) :
    PW R as (bs.foldl f as) := by
  induction bs generalizing as with
  | nil => exact PW.refl hrefl as
  | cons b bs ih => exact PW.trans ht (hf as b) (ih (f as b))

/-! ### link operations -/

theorem ev_absorb (hc : Bool) (l : FLink F) (x : SLink F) :
    Evolves hc (some x.connTimeoutMs) l (l.absorb x) :=
  ⟨Or.inr rfl, rfl, rfl, rfl, rfl, rfl, Iff.rfl,
   fun _ _ h => ⟨h.window, h.log, h.queue, h.inFlight, h.connected⟩⟩

theorem ev_stallProbeDue (hc : Bool) (cto : Option Nat) (l : FLink F) : Evolves hc cto l l.stallProbeDue.1 := by
  unfold FLink.stallProbeDue
  dsimp only
  split <;> exact Evolves.of_soft rfl rfl rfl rfl rfl rfl

/-- Queueing a datagram: fine unless it is put on a clean `Registering` link after registration
completed (which the callers exclude: the selectors only return schedulable links, probes need a
connected link). -/
theorem ev_queue (hc : Bool) (cto : Option Nat) (l : FLink F) (data : Link.Bytes) (seq : Option Nat) (t : Nat)
    (hside : hc = true → l.core.phase ≠ .registering ∨ l.core.connected = true) :
    Evolves hc cto l (l.queueDataPacket data seq t).1 := by
  refine ⟨Or.inl rfl, rfl, rfl, rfl, rfl, rfl, Iff.rfl, fun h hp hcl => ?_⟩
  rcases hside h with h1 | h1
  · exact absurd hp h1
  · rw [hcl.connected] at h1; cases h1

def regFold (c : Conn) (it : QItem) : Conn :=
  match it.2.1 with
  | some s => c.register (toI32 s) it.2.2
  | none => c

theorem regFold_frame (c : Conn) (it : QItem) :
    (regFold c it).connected = c.connected ∧ (regFold c it).connId = c.connId ∧
    (regFold c it).phase = c.phase ∧ (regFold c it).window = c.window ∧
    (regFold c it).cong = c.cong ∧ (regFold c it).lastReceived = c.lastReceived := by
  unfold regFold
  split <;> exact ⟨rfl, rfl, rfl, rfl, rfl, rfl⟩

theorem foldl_register_frame (q : List QItem) (c : Conn) :
    (q.foldl regFold c).connected = c.connected ∧ (q.foldl regFold c).connId = c.connId ∧
    (q.foldl regFold c).phase = c.phase ∧ (q.foldl regFold c).window = c.window ∧
    (q.foldl regFold c).cong = c.cong ∧ (q.foldl regFold c).lastReceived = c.lastReceived := by
  induction q generalizing c with
  | nil => exact ⟨rfl, rfl, rfl, rfl, rfl, rfl⟩
  | cons it q ih =>
    simp only [List.foldl_cons]
    obtain ⟨a1, a2, a3, a4, a5, a6⟩ := ih (regFold c it)
    obtain ⟨b1, b2, b3, b4, b5, b6⟩ := regFold_frame c it
    exact ⟨a1.trans b1, a2.trans b2, a3.trans b3, a4.trans b4, a5.trans b5, a6.trans b6⟩

theorem takeBatch_eq (l : FLink F) (now : Nat) :
    l.takeBatch now =
      if l.queue.isEmpty then ({ l with lastFlushMs := now }, [])
      else ({ l with lastFlushMs := now, core := { l.queue.foldl regFold l.core with lastSent := some now },
                     queue := [] }, l.queue) := rfl

theorem ev_takeBatch (hc : Bool) (cto : Option Nat) (l : FLink F) (now : Nat) : Evolves hc cto l (l.takeBatch now).1 := by
  rw [takeBatch_eq]
  split
  · exact Evolves.of_soft rfl rfl rfl rfl rfl rfl
  · rename_i hq
    obtain ⟨h1, h2, h3, -, -, -⟩ := foldl_register_frame l.queue l.core
    refine ⟨Or.inl rfl, rfl, rfl, rfl, h1, h2, by simp only []; rw [h3], fun _ _ hcl => ?_⟩
    rw [hcl.queue] at hq; simp at hq

theorem takeBatch_window (l : FLink F) (now : Nat) :
    (l.takeBatch now).1.core.window = l.core.window ∧ (l.takeBatch now).1.core.cong = l.core.cong ∧
    (l.takeBatch now).1.connTimeoutMs = l.connTimeoutMs := by
  rw [takeBatch_eq]
  split
  · exact ⟨rfl, rfl, rfl⟩
  · obtain ⟨-, -, -, h4, h5, -⟩ := foldl_register_frame l.queue l.core
    exact ⟨h4, h5, rfl⟩

theorem ev_srtAck (hc : Bool) (cto : Option Nat) (l : FLink F) (ack : Int) (now : Nat) : Evolves hc cto l (l.srtAck ack now) := by
  unfold FLink.srtAck
  have h := core_srtAck l.core ack now
  generalize l.core.srtAck ack now = r at h
  obtain ⟨c, sample⟩ := r
  dsimp only at h ⊢
  cases sample with
  | none => exact Evolves.of_core h
  | some rtt =>
    exact (Evolves.of_core (hc := hc) (cto := cto) h).trans (Evolves.of_soft rfl rfl rfl rfl rfl rfl)

theorem ev_keepalivePacket (hc : Bool) (cto : Option Nat) (l : FLink F) (now : Nat) : Evolves hc cto l (l.keepalivePacket now).1 := by
  unfold FLink.keepalivePacket
  dsimp only
  exact ⟨Or.inl rfl, rfl, rfl, rfl, rfl, rfl, Iff.rfl, fun _ _ h => ⟨h.window, h.log, h.queue, h.inFlight, h.connected⟩⟩

theorem recover_disconnected (c : Cong) (w : Int) (v : Bool) (now : Nat) : c.recover w false v now = (c, w) := by
  unfold Cong.recover; simp

theorem ev_performWindowRecovery (hc : Bool) (cto : Option Nat) (l : FLink F) (now : Nat) :
    Evolves hc cto l (l.performWindowRecovery now) := by
  unfold FLink.performWindowRecovery
  dsimp only
  refine ⟨Or.inl rfl, rfl, rfl, rfl, rfl, rfl, Iff.rfl, fun _ _ h => ?_⟩
  have hcn := h.connected
  refine ⟨?_, h.log, h.queue, h.inFlight, h.connected⟩
  simp only [hcn, recover_disconnected]
  exact h.window

theorem ev_updatePhase (hc : Bool) (cto : Option Nat) (l : FLink F) (now : Nat) : Evolves hc cto l (l.updatePhase now) := by
  unfold FLink.updatePhase
  dsimp only
  split
  · rename_i p e hp
    split
    · exact ⟨Or.inl rfl, rfl, rfl, rfl, rfl, rfl, by simp [hp], fun _ h => by rw [hp] at h; cases h⟩
    · exact Evolves.refl hc cto l
  · rename_i hp
    split
    · exact ⟨Or.inl rfl, rfl, rfl, rfl, rfl, rfl, by simp [hp], fun _ h => by rw [hp] at h; cases h⟩
    · exact Evolves.refl hc cto l
  · rename_i hp
    split
    · exact ⟨Or.inl rfl, rfl, rfl, rfl, rfl, rfl, by simp [hp], fun _ h => by rw [hp] at h; cases h⟩
    · exact Evolves.refl hc cto l
  · exact Evolves.refl hc cto l

theorem ev_recomputeBatchRegime (hc : Bool) (cto : Option Nat) (l : FLink F) : Evolves hc cto l l.recomputeBatchRegime :=
  Evolves.of_soft rfl rfl rfl rfl rfl rfl

theorem ev_handleKeepaliveResponse (hc : Bool) (cto : Option Nat) (l : FLink F) (data : Link.Bytes) (now : Nat) :
    Evolves hc cto l (l.handleKeepaliveResponse data now).1 := by
  unfold FLink.handleKeepaliveResponse
  split
  · exact Evolves.refl hc cto l
  · split
    · dsimp only
      split <;> exact Evolves.of_soft rfl rfl rfl rfl rfl rfl
    · exact Evolves.of_soft rfl rfl rfl rfl rfl rfl

theorem ev_recordRttProbe (hc : Bool) (cto : Option Nat) (l : FLink F) : Evolves hc cto l l.recordRttProbe := by
  unfold FLink.recordRttProbe
  split
  · rename_i p e hp
    split
    · exact ⟨Or.inl rfl, rfl, rfl, rfl, rfl, rfl, by simp [hp], fun _ h => by rw [hp] at h; cases h⟩
    · exact ⟨Or.inl rfl, rfl, rfl, rfl, rfl, rfl, by simp [hp], fun _ h => by rw [hp] at h; cases h⟩
  · exact Evolves.refl hc cto l

/-- Stamps on fields outside the accounting: `last_received`, `last_sent`, the delivery proof. -/
theorem ev_stamps (hc : Bool) (cto : Option Nat) (l : FLink F) (lr ls : Option Nat) (pm : Nat) :
    Evolves hc cto l { l with core := { l.core with lastReceived := lr, lastSent := ls, proofMs := pm } } :=
  ⟨Or.inl rfl, rfl, rfl, rfl, rfl, rfl, Iff.rfl, fun _ _ h => ⟨h.window, h.log, h.queue, h.inFlight, h.connected⟩⟩

/-! ### tear-down and reconnect -/

/-- `l'` is a torn-down version of `l`: reconnection bookkeeping kept, accounting clean. -/
structure Torn (cto : Option Nat) (l l' : FLink F) : Prop where
  timeout : TOk cto l l'
  established : l'.established = l.established
  lastAttempt : l'.lastAttemptMs = l.lastAttemptMs
  failCount : l'.failCount = l.failCount
  connId : l'.core.connId = l.core.connId
  phase : l'.core.phase = .registering
  clean : Clean l'

theorem clean_markForRecovery (l : FLink F) : Clean l.markForRecovery := by
  have hI := wconsts.2.2.1
  exact ⟨hI, rfl, rfl, rfl, rfl⟩

theorem torn_markForRecovery (cto : Option Nat) (l : FLink F) : Torn cto l l.markForRecovery :=
  ⟨Or.inl rfl, rfl, rfl, rfl, rfl, rfl, clean_markForRecovery l⟩

theorem Torn.of_evolves {hc : Bool} {cto : Option Nat} {a b c : FLink F} (h1 : Evolves hc cto a b) (h2 : Torn cto b c) : Torn cto a c :=
  ⟨h1.timeout.trans h2.timeout, h2.established.trans h1.established, h2.lastAttempt.trans h1.lastAttempt,
   h2.failCount.trans h1.failCount, h2.connId.trans h1.connId, h2.phase, h2.clean⟩

theorem Torn.then_evolves {cto : Option Nat} {a b c : FLink F} (h1 : Torn cto a b) (h2 : Evolves true cto b c) : Torn cto a c :=
  ⟨h1.timeout.trans h2.timeout, h2.established.trans h1.established, h2.lastAttempt.trans h1.lastAttempt,
   h2.failCount.trans h1.failCount, h2.connId.trans h1.connId, h2.phaseReg.mpr h1.phase,
   h2.clean rfl h1.phase h1.clean⟩

theorem Torn.then_torn {cto : Option Nat} {a b c : FLink F} (h1 : Torn cto a b) (h2 : Torn cto b c) : Torn cto a c :=
  ⟨h1.timeout.trans h2.timeout, h2.established.trans h1.established, h2.lastAttempt.trans h1.lastAttempt,
   h2.failCount.trans h1.failCount, h2.connId.trans h1.connId, h2.phase, h2.clean⟩

/-- The link part of the reconnect branch of housekeeping (`record_attempt`, `reconnect_uplink` =
`reset_for_reconnect` + `mark_success` + `reset_startup_grace`), without the `last_sent` stamp. -/
def reconnectLink (l : FLink F) (now : Nat) : FLink F :=
  { ((l.recordAttempt now).resetForReconnect now) with
      failCount := 0, graceDeadline := now + Conn.STARTUP_GRACE_MS }

def withSent (l : FLink F) (t : Option Nat) : FLink F := { l with core := { l.core with lastSent := t } }

theorem ev_withSent (hc : Bool) (cto : Option Nat) (l : FLink F) (t : Option Nat) : Evolves hc cto l (withSent l t) :=
  ⟨Or.inl rfl, rfl, rfl, rfl, rfl, rfl, Iff.rfl, fun _ _ h => ⟨h.window, h.log, h.queue, h.inFlight, h.connected⟩⟩

theorem recordAttempt_fields (l : FLink F) (now : Nat) :
    (l.recordAttempt now).lastAttemptMs = now ∧ (l.recordAttempt now).established = l.established ∧
    (l.recordAttempt now).core = l.core ∧ (l.recordAttempt now).connTimeoutMs = l.connTimeoutMs := by
  unfold FLink.recordAttempt
  split <;> exact ⟨rfl, rfl, rfl, rfl⟩

theorem reconnectLink_fields (l : FLink F) (now : Nat) :
    (reconnectLink l now).lastAttemptMs = now ∧ (reconnectLink l now).failCount = 0 ∧
    (reconnectLink l now).established = l.established ∧
    (reconnectLink l now).graceDeadline = now + 5000 ∧
    (reconnectLink l now).core.connId = l.core.connId ∧
    (reconnectLink l now).core.phase = .registering ∧
    (reconnectLink l now).core.lastReceived = none ∧
    (reconnectLink l now).core.cong = {} ∧
    (reconnectLink l now).connTimeoutMs = l.connTimeoutMs ∧
    Clean (reconnectLink l now) := by
  have hI := wconsts.2.2.1
  have hG := Conn.STARTUP_GRACE_MS_eq
  obtain ⟨h1, h2, h3, h4⟩ := recordAttempt_fields l now
  unfold reconnectLink FLink.resetForReconnect FLink.resetCoreState
  dsimp only
  refine ⟨rfl, rfl, h2, by rw [hG], ?_, rfl, rfl, rfl, h4, ⟨hI, rfl, rfl, rfl, rfl⟩⟩
  show (l.recordAttempt now).core.connId = _
  rw [h3]

theorem reconnectLink_grace (l : FLink F) (g now : Nat) :
    reconnectLink { l with graceDeadline := g } now = reconnectLink l now := by
  unfold reconnectLink FLink.recordAttempt
  dsimp only
  split <;> rfl

/-- The link part of the reconnect branch when the socket re-creation FAILS (`reconnect_uplink` returns
`Err` before touching the connection): `record_attempt`, then the `mark_for_recovery` fallback — no
`reset_for_reconnect`, no `mark_success` (the failure counter `record_attempt` incremented stays), no
`reset_startup_grace`. -/
def failedLink (l : FLink F) (now : Nat) : FLink F := (l.recordAttempt now).markForRecovery

/-- The reconnect branch, the outcome of the socket re-creation being a parameter. -/
def attemptLink (fails : Bool) (l : FLink F) (now : Nat) : FLink F :=
  if fails then failedLink l now else reconnectLink l now

theorem failedLink_fields (l : FLink F) (now : Nat) :
    (failedLink l now).lastAttemptMs = now ∧
    (failedLink l now).failCount = (if l.established = 0 then l.failCount else min (l.failCount + 1) 4294967295) ∧
    (failedLink l now).established = l.established ∧
    (failedLink l now).graceDeadline = 0 ∧
    (failedLink l now).core.connId = l.core.connId ∧
    (failedLink l now).core.phase = .registering ∧
    (failedLink l now).core.lastReceived = none ∧
    (failedLink l now).connTimeoutMs = l.connTimeoutMs ∧
    Clean (failedLink l now) := by
  have hI := wconsts.2.2.1
  unfold failedLink FLink.recordAttempt
  by_cases he : l.established = 0
  · simp only [he, beq_self_eq_true, if_true]
    exact ⟨rfl, rfl, rfl, rfl, rfl, rfl, rfl, rfl, clean_markForRecovery _⟩
  · have : (l.established == 0) = false := by simpa using he
    simp only [this, Bool.false_eq_true, if_false, he]
    exact ⟨rfl, rfl, rfl, rfl, rfl, rfl, rfl, rfl, clean_markForRecovery _⟩

/-- What both outcomes of a reconnect attempt share. -/
theorem attemptLink_fields (fails : Bool) (l : FLink F) (now : Nat) :
    (attemptLink fails l now).lastAttemptMs = now ∧
    (attemptLink fails l now).established = l.established ∧
    (attemptLink fails l now).core.connId = l.core.connId ∧
    (attemptLink fails l now).core.phase = .registering ∧
    (attemptLink fails l now).core.lastReceived = none ∧
    (attemptLink fails l now).connTimeoutMs = l.connTimeoutMs ∧
    Clean (attemptLink fails l now) := by
  cases fails
  · obtain ⟨f1, -, f3, -, f5, f6, f7, -, f9, f10⟩ := reconnectLink_fields l now
    exact ⟨f1, f3, f5, f6, f7, f9, f10⟩
  · obtain ⟨f1, -, f3, -, f5, f6, f7, f8, f9⟩ := failedLink_fields l now
    exact ⟨f1, f3, f5, f6, f7, f8, f9⟩

theorem failedLink_grace (l : FLink F) (g now : Nat) :
    failedLink { l with graceDeadline := g } now = failedLink l now := by
  unfold failedLink FLink.recordAttempt
  dsimp only
  split <;> rfl

theorem attemptLink_grace (fails : Bool) (l : FLink F) (g now : Nat) :
    attemptLink fails { l with graceDeadline := g } now = attemptLink fails l now := by
  cases fails
  · exact reconnectLink_grace l g now
  · exact failedLink_grace l g now

/-! ## 4. The per-link loop of housekeeping as a map -/

/-- Link part of the not-timed-out branch (keepalives, window recovery unless classic, bitrate,
phase, batch regime). -/
def aliveLink (classic : Bool) (now : Nat) (l : FLink F) : FLink F :=
  let l1 := if l.needsKeepalive now then (l.keepalivePacket now).1 else l
  let l2 := if l1.needsRttMeasurement now then (l1.keepalivePacket now).1 else l1
  let l3 := if !classic then l2.performWindowRecovery now else l2
  let l4 := { l3 with bitrate := l3.bitrate.calculate now }
  (l4.updatePhase now).recomputeBatchRegime

/-- Wire output of the not-timed-out branch. -/
def aliveWire (now : Nat) (l : FLink F) : List (Nat × Sys.Bytes) :=
  let l1 := if l.needsKeepalive now then (l.keepalivePacket now).1 else l
  (if l.needsKeepalive now then [(l.core.connId, (l.keepalivePacket now).2)] else []) ++
  (if l1.needsRttMeasurement now then [(l.core.connId, (l1.keepalivePacket now).2)] else [])

/-- What one housekeeping pass does to the link at index `i`, given the pending-REG2 index and whether
the socket re-creation of a reconnect attempt of this link fails (`fails`: its conn id is in the
bind-failure list when the loop reaches it). -/
def hkLink (classic : Bool) (now : Nat) (pending : Option Nat) (fails : Bool) (i : Nat) (l : FLink F) : FLink F :=
  if l.isTimedOut now then
    if l.shouldAttemptReconnect now then
      match pending with
      | some p => if p = i then withSent (attemptLink fails l now) (some now) else attemptLink fails l now
      | none => withSent (attemptLink fails l now) (some now)
    else l
  else aliveLink classic now l

/-- The bind-failure list after one link was handled: a reconnect attempt of a link whose conn id is in
the list consumes one entry. -/
def hkFb (now : Nat) (fb : List Nat) (l : FLink F) : List Nat :=
  if l.isTimedOut now && l.shouldAttemptReconnect now && fb.contains l.core.connId then fb.erase l.core.connId
  else fb

theorem hkBindLeft_cons (now : Nat) (l : FLink F) (rest : List (FLink F)) (fb : List Nat) :
    hkBindLeft now (l :: rest) fb = hkBindLeft now rest (hkFb now fb l) := by
  rw [hkBindLeft]
  unfold hkFb
  split <;> rfl

/-- Injections are only ever consumed. -/
theorem hkBindLeft_mem (now : Nat) (ls : List (FLink F)) (fb : List Nat) (a : Nat)
    (h : a ∈ hkBindLeft now ls fb) : a ∈ fb := by
  induction ls generalizing fb with
  | nil => exact h
  | cons l rest ih =>
    rw [hkBindLeft_cons] at h
    have := ih _ h
    unfold hkFb at this
    split at this
    · exact List.mem_of_mem_erase this
    · exact this

/-- What it puts on the wire for that link. -/
def hkWire (now : Nat) (reg : Reg.Reg) (i : Nat) (l : FLink F) : List (Nat × Sys.Bytes) :=
  if l.isTimedOut now then
    if l.shouldAttemptReconnect now then
      match reg.pending with
      | some p => if p = i then [(l.core.connId, (Reg.buildReg1For reg i now).2)] else []
      | none => [(l.core.connId, Reg.buildReg2 reg)]
    else []
  else aliveWire now l

/-- The registration state after the link at index `i` was handled. -/
def hkReg (now : Nat) (reg : Reg.Reg) (i : Nat) (l : FLink F) : Reg.Reg :=
  if l.isTimedOut now && l.shouldAttemptReconnect now && (reg.pending == some i) then
    (Reg.buildReg1For reg i now).1
  else reg

theorem hkLinksGo_cons (classic : Bool) (now : Nat) (l : FLink F) (rest : List (FLink F)) (i : Nat)
    (reg : Reg.Reg) (fb : List Nat) :
    hkLinksGo classic now (l :: rest) i reg fb =
      (hkLink classic now reg.pending (fb.contains l.core.connId) i l ::
         (hkLinksGo classic now rest (i + 1) (hkReg now reg i l) (hkFb now fb l)).1,
       (hkLinksGo classic now rest (i + 1) (hkReg now reg i l) (hkFb now fb l)).2.1,
       hkWire now reg i l ++ (hkLinksGo classic now rest (i + 1) (hkReg now reg i l) (hkFb now fb l)).2.2) := by
  rw [hkLinksGo]
  unfold hkLink hkWire hkReg hkFb
  cases hto : l.isTimedOut now
  · simp only [Bool.false_eq_true, if_false, Bool.false_and]
    unfold aliveLink aliveWire
    cases hk1 : l.needsKeepalive now
    · simp only [Bool.false_eq_true, if_false]
      cases hk2 : l.needsRttMeasurement now
      · simp only [Bool.false_eq_true, if_false]
      · simp only [if_true]
    · simp only [if_true]
      cases hk2 : (l.keepalivePacket now).1.needsRttMeasurement now
      · simp only [Bool.false_eq_true, if_false]
      · simp only [if_true]
  · cases hsa : l.shouldAttemptReconnect now
    · simp only [if_true, Bool.false_eq_true, if_false, Bool.true_and, Bool.false_and, List.nil_append]
    · simp only [if_true, Bool.true_and]
      cases hf : fb.contains l.core.connId
      · simp only [Bool.false_eq_true, if_false]
        unfold attemptLink
        simp only [Bool.false_eq_true, if_false]
        cases hp : reg.pending with
        | none =>
          simp only [beq_iff_eq, reduceCtorEq, if_false]
          rfl
        | some p =>
          simp only [beq_iff_eq, Option.some.injEq]
          by_cases hpi : p = i
          · simp only [hpi, if_true]
            rfl
          · simp only [hpi, if_false, List.nil_append]
            rfl
      · simp only [if_true]
        unfold attemptLink
        simp only [if_true]
        cases hp : reg.pending with
        | none =>
          simp only [beq_iff_eq, reduceCtorEq, if_false]
          rfl
        | some p =>
          simp only [beq_iff_eq, Option.some.injEq]
          by_cases hpi : p = i
          · simp only [hpi, if_true]
            rfl
          · simp only [hpi, if_false, List.nil_append]
            rfl

theorem hkReg_fields (now : Nat) (reg : Reg.Reg) (i : Nat) (l : FLink F) :
    (hkReg now reg i l).pending = reg.pending ∧ (hkReg now reg i l).hasConnected = reg.hasConnected ∧
    (hkReg now reg i l).id = reg.id ∧ (hkReg now reg i l).active = reg.active ∧
    (hkReg now reg i l).probing = reg.probing := by
  unfold hkReg
  split
  · rename_i h
    simp only [Bool.and_eq_true, beq_iff_eq] at h
    exact ⟨by rw [h.2]; rfl, rfl, rfl, rfl, rfl⟩
  · exact ⟨rfl, rfl, rfl, rfl, rfl⟩

/-- **The loop is a map**: the record of link `j` after the pass is a function of that link's own
record, its index, the (loop-invariant) pending-REG2 index and whether a bind failure is injected for
its conn id when the loop reaches it (`hkBindLeft` over the links before it) only. -/
theorem hkLinksGo_links (classic : Bool) (now : Nat) (ls : List (FLink F)) (i : Nat) (reg : Reg.Reg)
    (fb : List Nat) :
    (hkLinksGo classic now ls i reg fb).1 =
      ls.mapIdx (fun j l => hkLink classic now reg.pending
        ((hkBindLeft now (ls.take j) fb).contains l.core.connId) (i + j) l) ∧
    (hkLinksGo classic now ls i reg fb).2.1.pending = reg.pending ∧
    (hkLinksGo classic now ls i reg fb).2.1.hasConnected = reg.hasConnected ∧
    (hkLinksGo classic now ls i reg fb).2.1.id = reg.id ∧
    (hkLinksGo classic now ls i reg fb).2.1.active = reg.active ∧
    (hkLinksGo classic now ls i reg fb).2.1.probing = reg.probing := by
  induction ls generalizing i reg fb with
  | nil => exact ⟨rfl, rfl, rfl, rfl, rfl, rfl⟩
  | cons l rest ih =>
    rw [hkLinksGo_cons]
    obtain ⟨h1, h2, h3, h4, h5, h6⟩ := ih (i + 1) (hkReg now reg i l) (hkFb now fb l)
    obtain ⟨g1, g2, g3, g4, g5⟩ := hkReg_fields now reg i l
    refine ⟨?_, h2.trans g1, h3.trans g2, h4.trans g3, h5.trans g4, h6.trans g5⟩
    dsimp only
    rw [List.mapIdx_cons, h1, g1]
    congr 1
    apply List.ext_getElem?
    intro k
    simp only [List.getElem?_mapIdx]
    cases rest[k]? with
    | none => rfl
    | some x =>
      simp only [Option.map_some, List.take_succ_cons, hkBindLeft_cons]
      congr 2; omega

/-! ## 5. `handle_housekeeping` in stages -/

/-- Stage 1: clear a timed-out pending REG2 wait, complete probing (which resets the grace window of
the chosen link). -/
def hkP1 (s : Sys F) (now : Nat) : Reg.Reg × List (FLink F) :=
  let reg0 := (Reg.clearPendingIfTimedOut s.reg now).1
  if Reg.isProbing reg0 then
    let r := (Reg.checkProbingComplete reg0 now).1
    if !Reg.isProbing r then
      match r.target with
      | some idx =>
        (r, s.links.mapIdx fun j l => if j = idx then { l with graceDeadline := now + Conn.STARTUP_GRACE_MS } else l)
      | none => (r, s.links)
    else (r, s.links)
  else (reg0, s.links)

/-- Stage 2: the per-link loop. -/
def hkP2 (s : Sys F) (now : Nat) : List (FLink F) × Reg.Reg × List (Nat × Sys.Bytes) :=
  hkLinksGo s.cfg.classic now (hkP1 s now).2 0 (hkP1 s now).1 s.failBind

def hkP4 (s : Sys F) (now : Nat) : Reg.Reg × Reg.DriverSends :=
  Reg.regDriverPendingSends
    (Reg.updateActiveConnections (hkP2 s now).2.1 ((hkP2 s now).1.map (·.core.connected))) now

def hkP5 (s : Sys F) (now : Nat) : List (FLink F) × List (Nat × Sys.Bytes) :=
  match (hkP4 s now).2.reg1 with
  | some (idx, pkt) =>
    match (hkP2 s now).1[idx]? with
    | some l => (setAt (hkP2 s now).1 idx { l with core := { l.core with lastSent := some now } }, [(l.core.connId, pkt)])
    | none => ((hkP2 s now).1, [])
  | none => ((hkP2 s now).1, [])

def hkP6 (s : Sys F) (now : Nat) : List (FLink F) × List (Nat × Sys.Bytes) :=
  match (hkP4 s now).2.broadcastReg2 with
  | some pkt => ((hkP5 s now).1.map fun (l : FLink F) => { l with core := { l.core with lastSent := some now } },
                 (hkP5 s now).1.map fun (l : FLink F) => (l.core.connId, pkt))
  | none => ((hkP5 s now).1, [])

theorem hk_eq (s : Sys F) (now : Nat) :
    (handleHousekeeping s now).1.links = (hkP6 s now).1 ∧
    (handleHousekeeping s now).1.reg = (hkP4 s now).1 ∧
    (handleHousekeeping s now).2.wire = (hkP2 s now).2.2 ++ (hkP5 s now).2 ++ (hkP6 s now).2 ∧
    (handleHousekeeping s now).1.cfg = s.cfg ∧ (handleHousekeeping s now).1.failNext = s.failNext ∧
    (handleHousekeeping s now).1.failBind = hkBindLeft now (hkP1 s now).2 s.failBind :=
  ⟨rfl, rfl, rfl, rfl, rfl, rfl⟩

/-- The link whose grace window stage 1 resets (probing completed in this very tick), if any. -/
def hkGraceIdx (s : Sys F) (now : Nat) : Option Nat :=
  let reg0 := (Reg.clearPendingIfTimedOut s.reg now).1
  if Reg.isProbing reg0 then
    let r := (Reg.checkProbingComplete reg0 now).1
    if !Reg.isProbing r then r.target else none
  else none

def graceFix (g : Option Nat) (now j : Nat) (l : FLink F) : FLink F :=
  if g = some j then { l with graceDeadline := now + Conn.STARTUP_GRACE_MS } else l

theorem mapIdx_id' {α : Type} (ls : List α) (f : Nat → α → α) (h : ∀ j a, f j a = a) : ls.mapIdx f = ls := by
  apply List.ext_getElem?
  intro k
  rw [List.getElem?_mapIdx]
  cases ls[k]? with
  | none => rfl
  | some a => simp [h]

theorem hkP1_links (s : Sys F) (now : Nat) :
    (hkP1 s now).2 = s.links.mapIdx (graceFix (hkGraceIdx s now) now) := by
  unfold hkP1 hkGraceIdx
  dsimp only
  split
  · split
    · split
      · rename_i idx hidx
        rw [hidx]
        dsimp only
        congr 1
        funext j l
        unfold graceFix
        by_cases h : j = idx
        · simp [h]
        · have : ¬ idx = j := fun e => h e.symm
          simp [h, this]
      · rename_i hidx
        rw [hidx]
        exact (mapIdx_id' _ _ (fun j a => by simp [graceFix])).symm
    · exact (mapIdx_id' _ _ (fun j a => by simp [graceFix])).symm
  · exact (mapIdx_id' _ _ (fun j a => by simp [graceFix])).symm

theorem clearPending_fields (r : Reg.Reg) (now : Nat) :
    (Reg.clearPendingIfTimedOut r now).1.hasConnected = r.hasConnected ∧
    (Reg.clearPendingIfTimedOut r now).1.probing = r.probing ∧
    (Reg.clearPendingIfTimedOut r now).1.id = r.id ∧
    (r.pending = none → (Reg.clearPendingIfTimedOut r now).1 = r) := by
  unfold Reg.clearPendingIfTimedOut
  split
  · split
    · exact ⟨rfl, rfl, rfl, fun h => by simp_all⟩
    · exact ⟨rfl, rfl, rfl, fun _ => rfl⟩
  · exact ⟨rfl, rfl, rfl, fun _ => rfl⟩

theorem checkProbing_fields (r : Reg.Reg) (now : Nat) :
    (Reg.checkProbingComplete r now).1.hasConnected = r.hasConnected ∧
    (Reg.checkProbingComplete r now).1.pending = r.pending ∧
    (Reg.checkProbingComplete r now).1.id = r.id := by
  unfold Reg.checkProbingComplete
  split
  · exact ⟨rfl, rfl, rfl⟩
  · dsimp only
    split <;> exact ⟨rfl, rfl, rfl⟩

theorem hkP1_reg (s : Sys F) (now : Nat) :
    (hkP1 s now).1.hasConnected = s.reg.hasConnected ∧
    (s.reg.pending = none → (hkP1 s now).1.pending = none) ∧
    (hkP1 s now).1.id = s.reg.id := by
  obtain ⟨c1, c2, c3, c4⟩ := clearPending_fields s.reg now
  obtain ⟨d1, d2, d3⟩ := checkProbing_fields (Reg.clearPendingIfTimedOut s.reg now).1 now
  have hp : s.reg.pending = none → (Reg.clearPendingIfTimedOut s.reg now).1.pending = none := by
    intro h; rw [c4 h]; exact h
  unfold hkP1
  dsimp only
  split
  · split
    · split
      · exact ⟨d1.trans c1, fun h => d2.trans (hp h), d3.trans c3⟩
      · exact ⟨d1.trans c1, fun h => d2.trans (hp h), d3.trans c3⟩
    · exact ⟨d1.trans c1, fun h => d2.trans (hp h), d3.trans c3⟩
  · exact ⟨c1, hp, c3⟩

/-- No grace reset unless the manager was still probing when the tick began. -/
theorem hkGraceIdx_none (s : Sys F) (now : Nat) (h : Reg.isProbing s.reg = false) : hkGraceIdx s now = none := by
  obtain ⟨-, c2, -, -⟩ := clearPending_fields s.reg now
  unfold hkGraceIdx
  dsimp only
  have : Reg.isProbing (Reg.clearPendingIfTimedOut s.reg now).1 = false := by
    unfold Reg.isProbing at h ⊢
    rw [c2]; exact h
  rw [this]
  simp

theorem driver_hasConnected (r : Reg.Reg) (now : Nat) :
    (Reg.regDriverPendingSends r now).1.hasConnected = r.hasConnected := by
  unfold Reg.regDriverPendingSends Reg.driverReg1 Reg.driverBroadcast
  dsimp only
  repeat' split
  all_goals rfl

/-- Does the socket re-creation of a reconnect attempt fail for the link at index `j` (conn id `cid`)
in the tick at `now`?  Yes iff `cid` is still in the bind-failure list after the links before `j` were
handled. -/
def hkFails (s : Sys F) (now j cid : Nat) : Bool :=
  (hkBindLeft now ((hkP1 s now).2.take j) s.failBind).contains cid

/-- No injected bind failure for that conn id, no failure. -/
theorem hkFails_false (s : Sys F) (now j cid : Nat) (h : cid ∉ s.failBind) : hkFails s now j cid = false := by
  unfold hkFails
  cases hc : (hkBindLeft now ((hkP1 s now).2.take j) s.failBind).contains cid
  · rfl
  · exact absurd (hkBindLeft_mem now _ _ cid (by simpa using hc)) h

theorem hkFails_mem (s : Sys F) (now j cid : Nat) (h : hkFails s now j cid = true) : cid ∈ s.failBind :=
  hkBindLeft_mem now _ _ cid (by simpa [hkFails] using h)

theorem graceFix_connId (g : Option Nat) (now j : Nat) (l : FLink F) :
    (graceFix g now j l).core.connId = l.core.connId := by
  unfold graceFix; split <;> rfl

/-- **Housekeeping, link by link**: the record of link `j` after a tick is `hkLink` of its own record
(after the possible grace reset), up to a `last_sent` stamp by the registration driver. -/
theorem hk_links (s : Sys F) (now : Nat) :
    ∃ τ : Nat → Option Nat → Option Nat,
      (handleHousekeeping s now).1.links =
        s.links.mapIdx (fun j l =>
          let x := hkLink s.cfg.classic now (hkP1 s now).1.pending (hkFails s now j l.core.connId) j
            (graceFix (hkGraceIdx s now) now j l)
          withSent x (τ j x.core.lastSent)) := by
  rw [(hk_eq s now).1]
  have h2 : (hkP2 s now).1 = s.links.mapIdx (fun j l =>
      hkLink s.cfg.classic now (hkP1 s now).1.pending (hkFails s now j l.core.connId) j
        (graceFix (hkGraceIdx s now) now j l)) := by
    unfold hkP2
    rw [(hkLinksGo_links _ _ _ _ _ _).1]
    conv => lhs; arg 2; rw [hkP1_links]
    rw [List.mapIdx_mapIdx]
    congr 1
    funext j l
    simp only [Function.comp, Nat.zero_add, graceFix_connId]
    rfl
  -- stage 5: at most one extra stamp
  have h5 : ∃ τ5 : Nat → Option Nat → Option Nat, (hkP5 s now).1 = (hkP2 s now).1.mapIdx (fun j l => withSent l (τ5 j l.core.lastSent)) := by
    unfold hkP5
    split
    · split
      · rename_i _ idx pkt hreg1 _ l hl
        refine ⟨fun j t => if j = idx then some now else t, ?_⟩
        dsimp only
        unfold setAt
        apply List.ext_getElem?
        intro k
        rw [List.getElem?_mapIdx, List.getElem?_mapIdx]
        cases hk : (hkP2 s now).1[k]? with
        | none => rfl
        | some x =>
          simp only [Option.map_some]
          by_cases hki : k = idx
          · subst hki
            rw [hl] at hk
            cases hk
            simp [withSent]
          · simp [hki, withSent]
      · exact ⟨fun _ t => t, (mapIdx_id' _ _ (fun j a => rfl)).symm⟩
    · exact ⟨fun _ t => t, (mapIdx_id' _ _ (fun j a => rfl)).symm⟩
  obtain ⟨τ5, h5⟩ := h5
  have h6 : ∃ τ6 : Nat → Option Nat → Option Nat, (hkP6 s now).1 = (hkP2 s now).1.mapIdx (fun j l => withSent l (τ6 j l.core.lastSent)) := by
    unfold hkP6
    split
    · refine ⟨fun _ _ => some now, ?_⟩
      dsimp only
      rw [h5]
      apply List.ext_getElem?
      intro k
      simp only [List.getElem?_map, List.getElem?_mapIdx]
      cases (hkP2 s now).1[k]? with
      | none => rfl
      | some x => rfl
    · exact ⟨τ5, h5⟩
  obtain ⟨τ6, h6⟩ := h6
  refine ⟨τ6, ?_⟩
  rw [h6, h2, List.mapIdx_mapIdx]
  rfl

theorem hk_hasConnected (s : Sys F) (now : Nat) :
    (handleHousekeeping s now).1.reg.hasConnected = s.reg.hasConnected := by
  rw [(hk_eq s now).2.1]
  unfold hkP4
  rw [driver_hasConnected]
  show (hkP2 s now).2.1.hasConnected = _
  unfold hkP2
  rw [(hkLinksGo_links _ _ _ _ _ _).2.2.1]
  exact (hkP1_reg s now).1

/-! ## 6. The data path: threshold flush, send-failure injection -/

/-- `fn'` is `fn` with some injected failures consumed. -/
def FnLe (fn fn' : List Nat) : Prop := ∀ a, fn'.count a ≤ fn.count a

theorem FnLe.refl (fn : List Nat) : FnLe fn fn := fun _ => Nat.le_refl _
theorem FnLe.trans {a b c : List Nat} (h1 : FnLe a b) (h2 : FnLe b c) : FnLe a c :=
  fun x => Nat.le_trans (h2 x) (h1 x)

theorem fnLe_erase (fn : List Nat) (a : Nat) : FnLe fn (fn.erase a) := by
  intro x
  rw [List.count_erase]
  omega

theorem count_erase_lt (fn : List Nat) (a : Nat) (h : fn.contains a = true) :
    (fn.erase a).count a < fn.count a := by
  rw [List.count_erase]
  have : 0 < fn.count a := List.count_pos_iff.2 (by simpa using h)
  simp
  omega

theorem sendBatch_cases (l : FLink F) (now : Nat) (fn : List Nat) :
    (sendConnectionBatch fa l now fn).1 = (l.takeBatch now).1 ∧
    (((sendConnectionBatch fa l now fn).2.2.1 = true ∧ (sendConnectionBatch fa l now fn).2.2.2 = fn) ∨
     ((sendConnectionBatch fa l now fn).2.2.1 = false ∧ fn.contains l.core.connId = true ∧
      (sendConnectionBatch fa l now fn).2.2.2 = fn.erase l.core.connId)) := by
  unfold sendConnectionBatch
  dsimp only
  split
  · exact ⟨rfl, Or.inl ⟨rfl, rfl⟩⟩
  · split
    · rename_i h
      exact ⟨rfl, Or.inr ⟨rfl, h, rfl⟩⟩
    · exact ⟨rfl, Or.inl ⟨rfl, rfl⟩⟩

/-- What the data path may do to a link: evolve, or tear it down after consuming an injected send
failure for its conn id. -/
def SendStep (hc : Bool) (cto : Option Nat) (fn fn' : List Nat) (l l' : FLink F) : Prop :=
  Evolves hc cto l l' ∨ (Torn cto l l' ∧ fn'.count l.core.connId < fn.count l.core.connId)

theorem SendStep.refl (hc : Bool) (cto : Option Nat) (fn fn' : List Nat) (l : FLink F) : SendStep hc cto fn fn' l l :=
  Or.inl (Evolves.refl hc cto l)

theorem SendStep.mono {hc : Bool} {cto : Option Nat} {fn0 fn fn' fn1 : List Nat} {l l' : FLink F}
    (h : SendStep hc cto fn fn' l l') (h0 : FnLe fn0 fn) (h1 : FnLe fn' fn1) : SendStep hc cto fn0 fn1 l l' := by
  rcases h with h | ⟨h, hlt⟩
  · exact Or.inl h
  · exact Or.inr ⟨h, Nat.lt_of_le_of_lt (h1 _) (Nat.lt_of_lt_of_le hlt (h0 _))⟩

theorem SendStep.of_evolves {hc : Bool} {cto : Option Nat} {fn fn' : List Nat} {a b c : FLink F}
    (h1 : Evolves hc cto a b) (h2 : SendStep hc cto fn fn' b c) : SendStep hc cto fn fn' a c := by
  rcases h2 with h | ⟨h, hlt⟩
  · exact Or.inl (h1.trans h)
  · exact Or.inr ⟨Torn.of_evolves h1 h, by rw [← h1.connId]; exact hlt⟩

theorem SendStep.comp {cto : Option Nat} {fn fn1 fn2 : List Nat} {a b c : FLink F}
    (h1 : SendStep true cto fn fn1 a b) (h2 : SendStep true cto fn1 fn2 b c)
    (l1 : FnLe fn fn1) (l2 : FnLe fn1 fn2) : SendStep true cto fn fn2 a c := by
  rcases h1 with h1 | ⟨h1, lt1⟩
  · exact (SendStep.of_evolves h1 h2).mono l1 (FnLe.refl _)
  · rcases h2 with h2 | ⟨h2, lt2⟩
    · exact Or.inr ⟨h1.then_evolves h2, Nat.lt_of_le_of_lt (l2 _) lt1⟩
    · exact Or.inr ⟨h1.then_torn h2, Nat.lt_of_le_of_lt (l2 _) lt1⟩

/-- Queue one datagram on a link, flush on the regime threshold, tear down on a failed flush. -/
def fwdLink (fa : List (Nat × Nat)) (l : FLink F) (pkt : Link.Bytes) (seq : Option Nat) (now : Nat) (fn : List Nat) :
    FLink F × List (Nat × Sys.Bytes) × List Nat :=
  if (l.queueDataPacket pkt seq now).2 then
    let r := sendConnectionBatch fa (l.queueDataPacket pkt seq now).1 now fn
    (if r.2.2.1 then r.1 else r.1.markForRecovery, r.2.1, r.2.2.2)
  else ((l.queueDataPacket pkt seq now).1, [], fn)

theorem fwdLink_step (hc : Bool) (cto : Option Nat) (l : FLink F) (pkt : Link.Bytes) (seq : Option Nat) (now : Nat)
    (fn : List Nat) (hside : hc = true → l.core.phase ≠ .registering ∨ l.core.connected = true) :
    SendStep hc cto fn (fwdLink fa l pkt seq now fn).2.2 l (fwdLink fa l pkt seq now fn).1 ∧
    FnLe fn (fwdLink fa l pkt seq now fn).2.2 := by
  have hq := ev_queue hc cto l pkt seq now hside
  unfold fwdLink
  split
  · dsimp only
    obtain ⟨e1, e2⟩ := sendBatch_cases (l.queueDataPacket pkt seq now).1 now fn
    have ht := ev_takeBatch hc cto (l.queueDataPacket pkt seq now).1 now
    rcases e2 with ⟨ok, efn⟩ | ⟨ok, hcont, efn⟩
    · rw [ok, efn, e1]
      exact ⟨Or.inl (hq.trans ht), FnLe.refl _⟩
    · rw [ok, efn, e1]
      refine ⟨Or.inr ⟨Torn.of_evolves (hq.trans ht) (torn_markForRecovery cto _), ?_⟩, fnLe_erase _ _⟩
      have hid : (l.queueDataPacket pkt seq now).1.core.connId = l.core.connId := rfl
      rw [hid] at hcont ⊢
      exact count_erase_lt fn _ hcont
  · exact ⟨Or.inl hq, FnLe.refl _⟩

theorem pw_setAt {R : FLink F → FLink F → Prop} (hr : ∀ a, R a a) (ls : List (FLink F)) (i : Nat)
    (l x : FLink F) (hl : ls[i]? = some l) (hx : R l x) : PW R ls (setAt ls i x) := by
  unfold setAt
  induction ls generalizing i with
  | nil => exact .nil
  | cons d rest ih =>
    rw [List.mapIdx_cons]
    cases i with
    | zero =>
      simp at hl; subst hl
      refine .cons (by simpa using hx) ?_
      have : (List.mapIdx (fun i c => if i + 1 = 0 then x else c) rest) = rest :=
        mapIdx_id' _ _ (fun j a => by simp)
      rw [this]; exact PW.refl hr rest
    | succ i =>
      refine .cons (by simpa using hr d) ?_
      have hl' : rest[i]? = some l := by simpa using hl
      simpa using ih i hl'

theorem forwardVia_eq (s : Sys F) (sel : Nat) (pkt : Sys.Bytes) (seq : Option Nat) (now : Nat) (l : FLink F)
    (hl : s.links[sel]? = some l) :
    (forwardVia s sel pkt seq now).1.links = setAt s.links sel (fwdLink s.failAfter l pkt seq now s.failNext).1 ∧
    (forwardVia s sel pkt seq now).1.failNext = (fwdLink s.failAfter l pkt seq now s.failNext).2.2 ∧
    (forwardVia s sel pkt seq now).1.reg = s.reg ∧ (forwardVia s sel pkt seq now).1.cfg = s.cfg := by
  unfold forwardVia fwdLink
  rw [hl]
  dsimp only
  split <;> exact ⟨rfl, rfl, rfl, rfl⟩

theorem forwardVia_none (s : Sys F) (sel : Nat) (pkt : Sys.Bytes) (seq : Option Nat) (now : Nat)
    (hl : s.links[sel]? = none) : (forwardVia s sel pkt seq now).1 = s := by
  unfold forwardVia
  rw [hl]

/-- The arms of the loop only READ the prefix table of the partial send failures. -/
theorem forwardVia_failAfter (s : Sys F) (sel : Nat) (pkt : Sys.Bytes) (seq : Option Nat) (now : Nat) :
    (forwardVia s sel pkt seq now).1.failAfter = s.failAfter := by
  unfold forwardVia
  split
  · rfl
  · dsimp only
    split <;> rfl

theorem forwardVia_runSelect_failAfter (s : Sys F) (sel : Nat) (pkt : Sys.Bytes) (seq : Option Nat) (now : Nat) :
    (forwardVia (runSelect s now).1 sel pkt seq now).1.failAfter = s.failAfter :=
  forwardVia_failAfter _ _ _ _ _

theorem forwardVia_pw (hc : Bool) (cto : Option Nat) (s : Sys F) (sel : Nat) (pkt : Sys.Bytes) (seq : Option Nat) (now : Nat)
    (hside : hc = true → ∀ l, s.links[sel]? = some l → l.core.phase ≠ .registering) :
    PW (SendStep hc cto s.failNext (forwardVia s sel pkt seq now).1.failNext) s.links
      (forwardVia s sel pkt seq now).1.links ∧
    FnLe s.failNext (forwardVia s sel pkt seq now).1.failNext ∧
    (forwardVia s sel pkt seq now).1.reg = s.reg ∧ (forwardVia s sel pkt seq now).1.cfg = s.cfg := by
  cases hl : s.links[sel]? with
  | none =>
    rw [forwardVia_none s sel pkt seq now hl]
    exact ⟨PW.refl (SendStep.refl _ _ _ _) _, FnLe.refl _, rfl, rfl⟩
  | some l =>
    obtain ⟨e1, e2, e3, e4⟩ := forwardVia_eq s sel pkt seq now l hl
    obtain ⟨f1, f2⟩ := fwdLink_step hc cto l pkt seq now s.failNext (fun h => Or.inl (hside h l hl))
    rw [e1, e2]
    exact ⟨pw_setAt (SendStep.refl _ _ _ _) _ _ l _ hl f1, f2, e3, e4⟩

/-- One iteration of `send_stall_probes` on a gated, connected link other than the chosen one. -/
def probeLink (fa : List (Nat × Nat)) (l : FLink F) (pkt : Link.Bytes) (seq : Option Nat) (now : Nat) (fn : List Nat) :
    FLink F × List (Nat × Sys.Bytes) × List Nat :=
  if !l.stallProbeDue.2 then (l.stallProbeDue.1, [], fn) else fwdLink fa l.stallProbeDue.1 pkt seq now fn

theorem stallProbeDue_core (l : FLink F) : l.stallProbeDue.1.core = l.core := by
  unfold FLink.stallProbeDue
  dsimp only
  split <;> rfl

theorem probeLink_step (hc : Bool) (cto : Option Nat) (l : FLink F) (pkt : Link.Bytes) (seq : Option Nat) (now : Nat)
    (fn : List Nat) (hconn : l.core.connected = true) :
    SendStep hc cto fn (probeLink fa l pkt seq now fn).2.2 l (probeLink fa l pkt seq now fn).1 ∧
    FnLe fn (probeLink fa l pkt seq now fn).2.2 := by
  have hp := ev_stallProbeDue hc cto l
  unfold probeLink
  split
  · exact ⟨Or.inl hp, FnLe.refl _⟩
  · obtain ⟨f1, f2⟩ := fwdLink_step hc cto l.stallProbeDue.1 pkt seq now fn
      (fun _ => Or.inr (by rw [stallProbeDue_core]; exact hconn))
    exact ⟨SendStep.of_evolves hp f1, f2⟩

theorem stallProbesGo_cons (pkt : Sys.Bytes) (seq : Option Nat) (now sel : Nat) (l : FLink F)
    (rest : List (FLink F)) (i : Nat) (fn : List Nat) :
    stallProbesGo fa pkt seq now sel (l :: rest) i fn =
      if i = sel || !l.stallGated || !l.core.connected then
        (l :: (stallProbesGo fa pkt seq now sel rest (i + 1) fn).1,
         (stallProbesGo fa pkt seq now sel rest (i + 1) fn).2.1,
         (stallProbesGo fa pkt seq now sel rest (i + 1) fn).2.2)
      else
        ((probeLink fa l pkt seq now fn).1 ::
            (stallProbesGo fa pkt seq now sel rest (i + 1) (probeLink fa l pkt seq now fn).2.2).1,
         (probeLink fa l pkt seq now fn).2.1 ++
            (stallProbesGo fa pkt seq now sel rest (i + 1) (probeLink fa l pkt seq now fn).2.2).2.1,
         (stallProbesGo fa pkt seq now sel rest (i + 1) (probeLink fa l pkt seq now fn).2.2).2.2) := by
  rw [stallProbesGo]
  split
  · rfl
  · unfold probeLink fwdLink
    dsimp only
    cases hdue : l.stallProbeDue.2
    · simp only [Bool.not_false, if_true, List.nil_append]
    · simp only [Bool.not_true, Bool.false_eq_true, if_false]
      cases hnf : (l.stallProbeDue.1.queueDataPacket pkt seq now).2
      · simp only [Bool.false_eq_true, if_false, List.nil_append]
      · simp only [if_true]

theorem stallProbes_pw (hc : Bool) (cto : Option Nat) (pkt : Sys.Bytes) (seq : Option Nat) (now sel : Nat)
    (ls : List (FLink F)) (i : Nat) (fn : List Nat) :
    PW (SendStep hc cto fn (stallProbesGo fa pkt seq now sel ls i fn).2.2) ls (stallProbesGo fa pkt seq now sel ls i fn).1 ∧
    FnLe fn (stallProbesGo fa pkt seq now sel ls i fn).2.2 := by
  induction ls generalizing i fn with
  | nil => exact ⟨.nil, FnLe.refl _⟩
  | cons l rest ih =>
    rw [stallProbesGo_cons]
    split
    · obtain ⟨h1, h2⟩ := ih (i + 1) fn
      exact ⟨.cons (SendStep.refl _ _ _ _ _) h1, h2⟩
    · rename_i hcond
      have hconn : l.core.connected = true := by
        simp only [Bool.or_eq_true, Bool.not_eq_true', not_or] at hcond
        simpa using hcond.2
      obtain ⟨p1, p2⟩ := probeLink_step hc cto l pkt seq now fn hconn
      obtain ⟨h1, h2⟩ := ih (i + 1) (probeLink fa l pkt seq now fn).2.2
      dsimp only
      exact ⟨.cons (p1.mono (FnLe.refl _) h2) (h1.mono (fun a b h => h.mono p2 (FnLe.refl _))), p2.trans h2⟩

/-! ## 7. The client arm (`handle_srt_packet`) -/

theorem PW.comp {α : Type} {R S T : α → α → Prop} {as bs cs : List α} (h1 : PW R as bs) (h2 : PW S bs cs)
    (ht : ∀ a b c, R a b → S b c → T a c) : PW T as cs := by
  induction h1 generalizing cs with
  | nil => cases h2; exact .nil
  | cons hr _ ih =>
    cases h2 with
    | cons hr' h2' => exact .cons (ht _ _ _ hr hr') (ih h2')

/-- The index `handle_srt_packet` forwards on, after registration. -/
def clientSel (s : Sys F) (pkt : Sys.Bytes) (now : Nat) : Option Nat :=
  if (Codec.getSrtSequenceNumberS pkt).isSome && !s.cfg.classic &&
      (decide (s.critDeadline > now) || Codec.isSrtDataRetransmitS pkt) then
    match bestQualityEligible ((runSelect s now).1.links.map FLink.toSLink) now with
    | some b => if (runSelect s now).2 != some b then some b else (runSelect s now).2
    | none => (runSelect s now).2
  else (runSelect s now).2

/-- State after `handle_srt_packet` forwarded on link `i` (after registration). -/
def clientFwd (s : Sys F) (pkt : Sys.Bytes) (now i : Nat) : Sys F :=
  let seq := Codec.getSrtSequenceNumberS pkt
  let s2 := (forwardVia (runSelect s now).1 i pkt seq now).1
  if seq.isSome then
    { s2 with links := (stallProbesGo s2.failAfter pkt seq now i s2.links 0 s2.failNext).1,
              failNext := (stallProbesGo s2.failAfter pkt seq now i s2.links 0 s2.failNext).2.2, clientKnown := true }
  else { s2 with clientKnown := true }

theorem handleSrtPacket_some (s : Sys F) (pkt : Sys.Bytes) (now i : Nat) (hne : pkt.isEmpty = false)
    (hc : s.reg.hasConnected = true) (hsel : clientSel s pkt now = some i) :
    (handleSrtPacket s pkt now).1 = clientFwd s pkt now i := by
  unfold handleSrtPacket clientFwd
  simp only [hne, hc, Bool.false_eq_true, if_false, Bool.not_true]
  split
  · rename_i j heq
    have hj : some j = some i := heq.symm.trans hsel
    cases hj
    split <;> rfl
  · rename_i heq
    have hj : none = some i := heq.symm.trans hsel
    cases hj

theorem handleSrtPacket_none (s : Sys F) (pkt : Sys.Bytes) (now : Nat) (hne : pkt.isEmpty = false)
    (hc : s.reg.hasConnected = true) (hsel : clientSel s pkt now = none) :
    (handleSrtPacket s pkt now).1 = { (runSelect s now).1 with clientKnown := true } := by
  unfold handleSrtPacket
  simp only [hne, hc, Bool.false_eq_true, if_false, Bool.not_true]
  split
  · rename_i j heq
    have hj : some j = none := heq.symm.trans hsel
    cases hj
  · rfl

theorem handleSrtPacket_pre (s : Sys F) (pkt : Sys.Bytes) (now : Nat) (hne : pkt.isEmpty = false)
    (hc : s.reg.hasConnected = false) :
    (handleSrtPacket s pkt now).1 =
      match selectPreRegistration s.links s.lastSelected now with
      | some i => { (forwardVia s i pkt (Codec.getSrtSequenceNumberS pkt) now).1 with clientKnown := true }
      | none => { s with clientKnown := true } := by
  unfold handleSrtPacket
  simp only [hne, hc, Bool.false_eq_true, if_false, Bool.not_false, if_true]
  split <;> (rename_i heq; rw [heq])

/-! ### the selection pass -/

theorem zip_map_self {α β γ : Type} (ls : List α) (h : α → β) (f : α × β → γ) :
    (ls.zip (ls.map h)).map f = ls.map (fun l => f (l, h l)) := by
  induction ls with
  | nil => rfl
  | cons a as ih => simp [ih]

omit [Scalar F] in
theorem usp_timeout (c : SLink F) (now : Nat) (m : Int) (ce : Nat) :
    (updateSilencePull c now m ce).connTimeoutMs = c.connTimeoutMs := by
  unfold updateSilencePull
  dsimp only
  repeat' split
  all_goals rfl

omit [Scalar F] in
theorem usl_timeout (c : SLink F) (now : Nat) (m : Int) (ce : Nat) :
    (updateStallLatch c now m ce).connTimeoutMs = c.connTimeoutMs := by
  unfold updateStallLatch
  dsimp only
  repeat' split
  all_goals rfl

omit [Scalar F] in
theorem applyStallGate_timeout (ls : List (SLink F)) (now : Nat) (cfg : Select.Cfg) :
    ∀ c ∈ applyStallGate ls now cfg, c.connTimeoutMs = cfg.connTimeoutMs := by
  intro c hc
  cases hs : cfg.stallDeselect
  · rw [applyStallGate_off ls now cfg hs] at hc
    obtain ⟨d, -, rfl⟩ := List.mem_map.1 hc
    rfl
  · rw [applyStallGate_on ls now cfg hs] at hc
    obtain ⟨d, hd, rfl⟩ := List.mem_map.1 hc
    obtain ⟨e, -, rfl⟩ := List.mem_map.1 hd
    show (guardStep now cfg e).connTimeoutMs = _
    unfold guardStep
    rw [usl_timeout, usp_timeout]

/-- After `select_connection_idx` every link carries the configured connection timeout. -/
theorem selectIdx_timeout (ls : List (SLink F)) (last : Option Nat) (now : Nat) (cfg : Select.Cfg) :
    ∀ c ∈ (selectIdx ls last now cfg).1, c.connTimeoutMs = cfg.connTimeoutMs := by
  obtain ⟨f, hf, e⟩ := selectIdx_fst ls last now cfg
  intro c hc
  rw [e] at hc
  obtain ⟨d, hd, rfl⟩ := List.mem_map.1 hc
  obtain ⟨q, t, hq⟩ := hf d
  rw [hq]
  exact applyStallGate_timeout ls now cfg d hd

/-- The selection pass, link by link: guard-private fields, quality cache and the timeout copy are
written back (`absorb`); the written timeout is the configured one. -/
theorem runSelect_links (s : Sys F) (now : Nat) :
    ∃ g : SLink F → SLink F,
      (runSelect s now).1.links = s.links.map (fun l => l.absorb (g l.toSLink)) ∧
      (∀ c, frame (g c) = frame c) ∧
      (∀ l ∈ s.links, (g l.toSLink).connTimeoutMs = s.cfg.connTimeoutMs) ∧
      (selectIdx (s.links.map FLink.toSLink) s.lastSelected now s.cfg).1 = (s.links.map FLink.toSLink).map g := by
  obtain ⟨g, hg, hp⟩ := selectIdx_map (s.links.map FLink.toSLink) s.lastSelected now s.cfg
  refine ⟨g, ?_, fun c => (hp c).1, ?_, hg⟩
  · unfold runSelect
    dsimp only
    rw [hg, List.map_map, zip_map_self]
    rfl
  · intro l hl
    apply selectIdx_timeout (s.links.map FLink.toSLink) s.lastSelected now s.cfg
    rw [hg]
    exact List.mem_map.2 ⟨l.toSLink, List.mem_map.2 ⟨l, hl, rfl⟩, rfl⟩

theorem runSelect_other (s : Sys F) (now : Nat) :
    (runSelect s now).1.reg = s.reg ∧ (runSelect s now).1.cfg = s.cfg ∧
    (runSelect s now).1.failNext = s.failNext := ⟨rfl, rfl, rfl⟩

theorem runSelect_pw (hc : Bool) (s : Sys F) (now : Nat) :
    PW (Evolves hc (some s.cfg.connTimeoutMs)) s.links (runSelect s now).1.links := by
  obtain ⟨g, h1, -, h3, -⟩ := runSelect_links s now
  rw [h1]
  have : ∀ ls : List (FLink F), (∀ l ∈ ls, (g l.toSLink).connTimeoutMs = s.cfg.connTimeoutMs) →
      PW (Evolves hc (some s.cfg.connTimeoutMs)) ls (ls.map (fun l => l.absorb (g l.toSLink))) := by
    intro ls
    induction ls with
    | nil => intro _; exact .nil
    | cons a as ih =>
      intro h
      refine .cons ?_ (ih (fun l hl => h l (List.mem_cons_of_mem _ hl)))
      have := ev_absorb hc a (g a.toSLink)
      rw [h a (List.mem_cons_self)] at this
      exact this
  exact this s.links h3

/-- (Copy of `C04_selector_eligible`, schedulable part, kept here so that this file depends on
`Lemmas/SelectFrame` only.) -/
theorem selector_schedulable (ls : List (SLink F)) (last : Option Nat) (now : Nat) (cfg : Select.Cfg) (i : Nat)
    (h : (selectIdx ls last now cfg).2 = some i) :
    ∃ c, (selectIdx ls last now cfg).1[i]? = some c ∧ schedulable c = true := by
  unfold selectIdx at h ⊢
  dsimp only at h ⊢
  split at h
  · rename_i hc
    rw [if_pos hc]
    obtain ⟨c, h1, h2, h3⟩ := classicSelect_eligible _ now i h
    simp only [Bool.or_eq_false_iff, Bool.not_eq_false'] at h2
    exact ⟨c, h1, h2.1.2⟩
  · rename_i hc
    rw [if_neg hc]
    obtain ⟨c, h1, h2⟩ := enhancedSelect_scored _ last now _ i h
    rw [enhancedSelect_fst]
    refine ⟨enhStep now (cfg.quality && !cfg.classic) (anyUnconstrained (applyStallGate ls now cfg) now) c,
      by simp [h1], ?_⟩
    have hq := cacheEq_enhStep now (cfg.quality && !cfg.classic)
      (anyUnconstrained (applyStallGate ls now cfg) now) c
    rw [hq.schedulable]
    simp only [enhSkip, Bool.or_eq_false_iff, Bool.not_eq_false'] at h2
    exact h2.1.1.1.2

theorem override_schedulable (ls : List (SLink F)) (now : Nat) (i : Nat)
    (h : bestQualityEligible ls now = some i) : ∃ c, ls[i]? = some c ∧ schedulable c = true := by
  unfold bestQualityEligible at h
  rcases bestQualityGo_inv now ls 0 none Scalar.negInf with h0 | ⟨j, c, h1, h2, h3⟩
  · rw [h0] at h; cases h
  · rw [h1] at h
    have : i = j := by simpa using h.symm
    subst this
    simp only [Bool.or_eq_false_iff, Bool.not_eq_false'] at h3
    exact ⟨c, h2, h3.1.1.2⟩

/-- Whatever index the shell forwards on after registration is a link that is not `Registering`
(selector: C04 eligibility; override: eligible filter). -/
theorem clientSel_schedulable (s : Sys F) (pkt : Sys.Bytes) (now i : Nat) (h : clientSel s pkt now = some i)
    (l : FLink F) (hl : (runSelect s now).1.links[i]? = some l) : l.core.phase ≠ .registering := by
  obtain ⟨g, h1, h2, -, h4⟩ := runSelect_links s now
  -- the selector's own result
  have hsel0 : ∀ j, (runSelect s now).2 = some j → ∀ l', (runSelect s now).1.links[j]? = some l' →
      l'.core.phase ≠ .registering := by
    intro j hj l' hl'
    have hj' : (selectIdx (s.links.map FLink.toSLink) s.lastSelected now s.cfg).2 = some j := hj
    obtain ⟨c, hc1, hc2⟩ := selector_schedulable _ _ _ _ _ hj'
    rw [h4, List.map_map, List.getElem?_map] at hc1
    rw [h1, List.getElem?_map] at hl'
    cases hsl : s.links[j]? with
    | none => rw [hsl] at hl'; cases hl'
    | some x =>
      rw [hsl] at hl' hc1
      simp only [Option.map_some, Option.some.injEq, Function.comp] at hl' hc1
      subst hl' hc1
      have hf := h2 x.toSLink
      have hph : (g x.toSLink).phase = x.core.phase := congrArg Frame.phase hf
      unfold schedulable at hc2
      rw [hph] at hc2
      show x.core.phase ≠ _
      simpa using hc2
  unfold clientSel at h
  split at h
  · split at h
    · rename_i b hb
      obtain ⟨c, hc1, hc3⟩ := override_schedulable _ _ _ hb
      split at h
      · have hib : b = i := by simpa using h
        subst hib
        rw [List.getElem?_map, hl] at hc1
        simp only [Option.map_some, Option.some.injEq] at hc1
        subst hc1
        unfold schedulable at hc3
        show l.core.phase ≠ _
        simpa [FLink.toSLink] using hc3
      · exact hsel0 i h l hl
    · exact hsel0 i h l hl
  · exact hsel0 i h l hl

/-- **Client event, link by link.** -/
theorem client_pw (s : Sys F) (pkt : Sys.Bytes) (now : Nat) :
    PW (SendStep s.reg.hasConnected (some s.cfg.connTimeoutMs) s.failNext (handleSrtPacket s pkt now).1.failNext)
      s.links (handleSrtPacket s pkt now).1.links ∧
    (handleSrtPacket s pkt now).1.reg = s.reg ∧ (handleSrtPacket s pkt now).1.cfg = s.cfg := by
  cases hne : pkt.isEmpty
  case true =>
    have : handleSrtPacket s pkt now = (s, {}) := by unfold handleSrtPacket; simp [hne]
    rw [this]
    exact ⟨PW.refl (SendStep.refl _ _ _ _) _, rfl, rfl⟩
  case false =>
  cases hc : s.reg.hasConnected
  case false =>
    rw [handleSrtPacket_pre s pkt now hne hc]
    split
    · rename_i i _
      obtain ⟨f1, -, f3, f4⟩ := forwardVia_pw false (some s.cfg.connTimeoutMs) s i pkt
        (Codec.getSrtSequenceNumberS pkt) now (fun h => by cases h)
      exact ⟨f1, f3, f4⟩
    · exact ⟨PW.refl (SendStep.refl _ _ _ _) _, rfl, rfl⟩
  case true =>
    have hsel1 := runSelect_pw true s now
    obtain ⟨r1, r2, r3⟩ := runSelect_other s now
    cases hsel : clientSel s pkt now with
    | none =>
      rw [handleSrtPacket_none s pkt now hne hc hsel]
      exact ⟨hsel1.mono (fun a b h => Or.inl h), r1, r2⟩
    | some i =>
      rw [handleSrtPacket_some s pkt now i hne hc hsel]
      obtain ⟨f1, f2, f3, f4⟩ := forwardVia_pw true (some s.cfg.connTimeoutMs) (runSelect s now).1 i pkt
        (Codec.getSrtSequenceNumberS pkt) now
        (fun _ l hl => clientSel_schedulable s pkt now i hsel l hl)
      rw [r3] at f1 f2
      have hstage2 : PW (SendStep true (some s.cfg.connTimeoutMs) s.failNext
          (forwardVia (runSelect s now).1 i pkt (Codec.getSrtSequenceNumberS pkt) now).1.failNext) s.links
          (forwardVia (runSelect s now).1 i pkt (Codec.getSrtSequenceNumberS pkt) now).1.links :=
        PW.comp hsel1 f1 (fun a b c h1 h2 => SendStep.of_evolves h1 h2)
      unfold clientFwd
      dsimp only
      split
      · obtain ⟨p1, p2⟩ := stallProbes_pw true (some s.cfg.connTimeoutMs) pkt (Codec.getSrtSequenceNumberS pkt) now i
          (forwardVia (runSelect s now).1 i pkt (Codec.getSrtSequenceNumberS pkt) now).1.links 0
          (forwardVia (runSelect s now).1 i pkt (Codec.getSrtSequenceNumberS pkt) now).1.failNext
        refine ⟨?_, f3.trans r1, f4.trans r2⟩
        exact PW.comp hstage2 p1 (fun a b c h1 h2 => SendStep.comp h1 h2 f2 p2)
      · exact ⟨hstage2, f3.trans r1, f4.trans r2⟩

/-! ## 8. The flush arm -/

theorem flushGo_pw (hc : Bool) (cto : Option Nat) (now : Nat) (ls : List (FLink F)) (fn : List Nat) :
    PW (Evolves hc cto) ls (flushGo fa now ls fn).1 := by
  induction ls generalizing fn with
  | nil => exact .nil
  | cons l rest ih =>
    rw [flushGo]
    split
    · dsimp only
      refine .cons ?_ (ih _)
      rw [(sendBatch_cases l now fn).1]
      exact ev_takeBatch hc cto l now
    · exact .cons (Evolves.refl hc cto l) (ih _)

theorem flush_pw (hc : Bool) (cto : Option Nat) (s : Sys F) (now : Nat) :
    PW (Evolves hc cto) s.links (flushAllBatches s now).1.links ∧
    (flushAllBatches s now).1.reg = s.reg ∧ (flushAllBatches s now).1.cfg = s.cfg := by
  unfold flushAllBatches
  split
  · exact ⟨PW.refl (Evolves.refl hc cto) _, rfl, rfl⟩
  · exact ⟨flushGo_pw hc cto now s.links s.failNext, rfl, rfl⟩

/-! ## 9. The uplink arm -/

/-- What REG3 does to the link it arrives on (`clear_pre_registration_state`, `connected = true`,
`last_received`, `mark_success`, first-establishment stamp). -/
def reg3Link (l : FLink F) (now : Nat) : FLink F :=
  let l1 := l.clearPreRegistration now
  { l1 with core := { l1.core with connected := true, lastReceived := some now },
            established := if l1.established == 0 then now else l1.established,
            failCount := 0 }

theorem procReg_hasConnected (r : Reg.Reg) (idx : Nat) (buf : Reg.Bytes) (now : Nat) :
    (Reg.processRegistrationPacket r idx buf now).1.hasConnected =
      (r.hasConnected || decide ((Reg.processRegistrationPacket r idx buf now).2 = some .reg3)) := by
  unfold Reg.processRegistrationPacket
  split
  · simp
  · split
    · unfold Reg.handleRegNgp Reg.handleProbeResponse
      repeat' split
      all_goals simp
    · split
      · unfold Reg.handleReg2
        repeat' split
        all_goals simp
      · split
        · simp [Reg.handleReg3]
        · split
          · simp [Reg.handleRegErr]
          · simp

theorem reg1Imm_hasConnected (r : Reg.Reg) (idx now : Nat) :
    (Reg.reg1IfNgpImmediate r idx now).1.hasConnected = r.hasConnected := by
  unfold Reg.reg1IfNgpImmediate
  split <;> rfl

/-- The outcome of `process_uplink_packet` on the link it arrived on. -/
inductive UpKind (hc : Bool) (cto : Option Nat) (reg : Reg.Reg) (idx : Nat) (data : Sys.Bytes) (now : Nat)
    (l l' : FLink F) : Prop
  | evolves (h : Evolves hc cto l l')
      (hev : (Reg.processRegistrationPacket reg idx data now).2 ≠ some .reg3)
  | reg3 (hev : (Reg.processRegistrationPacket reg idx data now).2 = some .reg3) (hl : l' = reg3Link l now)
  | regErr (hev : (Reg.processRegistrationPacket reg idx data now).2 = some .regErr)
      (hl : l' = l.markForRecovery)

theorem procUplink_cases (hc : Bool) (cto : Option Nat) (l : FLink F) (idx : Nat) (reg : Reg.Reg) (ck : Bool)
    (data : Sys.Bytes) (now : Nat) :
    UpKind hc cto reg idx data now l (processUplinkPacket l idx reg ck data now).1 ∧
    (processUplinkPacket l idx reg ck data now).2.1.hasConnected =
      (reg.hasConnected || decide ((Reg.processRegistrationPacket reg idx data now).2 = some .reg3)) ∧
    ((Reg.processRegistrationPacket reg idx data now).2 ≠ none →
      (processUplinkPacket l idx reg ck data now).2.2.acks = [] ∧
      (processUplinkPacket l idx reg ck data now).2.2.sacks = [] ∧
      (processUplinkPacket l idx reg ck data now).2.2.naks = []) ∧
    ((Reg.processRegistrationPacket reg idx data now).2 = some .reg3 ∨
      (Reg.processRegistrationPacket reg idx data now).2 = some .regErr →
      (processUplinkPacket l idx reg ck data now).2.2.reg1Send = none) := by
  have hhc := procReg_hasConnected reg idx data now
  unfold processUplinkPacket
  split
  · rename_i hpt
    have hnone : Reg.processRegistrationPacket reg idx data now = (reg, none) := by
      unfold Reg.processRegistrationPacket; rw [hpt]
    refine ⟨.evolves (Evolves.refl hc cto l) (by rw [hnone]; simp), by rw [hnone]; simp,
      fun h => absurd (by rw [hnone]) h, fun h => ?_⟩
    simp [hnone] at h
  · rename_i pt hpt
    rcases hr : Reg.processRegistrationPacket reg idx data now with ⟨reg1, ev⟩
    rw [hr] at hhc
    dsimp only at hhc ⊢
    cases ev with
    | none =>
      dsimp only
      have hne3 : (Reg.processRegistrationPacket reg idx data now).2 ≠ some .reg3 := by rw [hr]; simp
      have hhc' : reg1.hasConnected = (reg.hasConnected || decide ((none : Option Reg.RegEvent) = some .reg3)) := hhc
      have hvac : ((none : Option Reg.RegEvent) ≠ none → ([] : List Nat) = [] ∧ ([] : List Nat) = [] ∧ ([] : List Nat) = []) :=
        fun h => absurd rfl h
      have hst := ev_stamps hc cto l (some now) l.core.lastSent l.core.proofMs
      have hst' : Evolves hc cto l { l with core := { l.core with lastReceived := some now } } := hst
      split
      · exact ⟨.evolves hst' hne3, hhc', fun h => absurd rfl h, fun h => by simp at h⟩
      · split
        · exact ⟨.evolves hst' hne3, hhc', fun h => absurd rfl h, fun h => by simp at h⟩
        · split
          · exact ⟨.evolves hst' hne3, hhc', fun h => absurd rfl h, fun h => by simp at h⟩
          · split
            · have hk := ev_handleKeepaliveResponse hc cto
                ({ l with core := { l.core with lastReceived := some now } }) data now
              generalize FLink.handleKeepaliveResponse ({ l with core := { l.core with lastReceived := some now } } : FLink F) data now = kr at hk ⊢
              obtain ⟨l2, sample⟩ := kr
              dsimp only at hk ⊢
              cases sample with
              | none => exact ⟨.evolves (hst'.trans hk) hne3, hhc', fun h => absurd rfl h, fun h => by simp at h⟩
              | some v =>
                dsimp only
                have h3 := ev_recordRttProbe hc cto l2
                have h4 := ev_stamps hc cto l2.recordRttProbe l2.recordRttProbe.core.lastReceived
                  l2.recordRttProbe.core.lastSent now
                exact ⟨.evolves ((hst'.trans hk).trans (h3.trans h4)) hne3, hhc', fun h => absurd rfl h,
                  fun h => by simp at h⟩
            · exact ⟨.evolves hst' hne3, hhc', fun h => absurd rfl h, fun h => by simp at h⟩
    | some e =>
      cases e with
      | regNgp =>
        dsimp only
        refine ⟨.evolves (Evolves.refl hc cto l) (by rw [hr]; simp), ?_, fun _ => ⟨rfl, rfl, rfl⟩,
          fun h => by simp at h⟩
        rw [reg1Imm_hasConnected]; exact hhc
      | reg2 =>
        exact ⟨.evolves (Evolves.refl hc cto l) (by rw [hr]; simp), hhc, fun _ => ⟨rfl, rfl, rfl⟩,
          fun h => by simp at h⟩
      | reg3 =>
        exact ⟨.reg3 (by rw [hr]) rfl, hhc, fun _ => ⟨rfl, rfl, rfl⟩, fun _ => rfl⟩
      | regErr =>
        exact ⟨.regErr (by rw [hr]) rfl, hhc, fun _ => ⟨rfl, rfl, rfl⟩, fun _ => rfl⟩

theorem pw_withCores (hc : Bool) (cto : Option Nat) (ls : List (FLink F)) (cs : Links)
    (h : PW CoreEvolves (cores ls) cs) : PW (Evolves hc cto) ls (withCores ls cs) := by
  unfold withCores cores at *
  induction ls generalizing cs with
  | nil => cases h; exact .nil
  | cons l rest ih =>
    cases h with
    | cons hr h' => exact .cons (Evolves.of_core hr) (ih _ h')

theorem withCores_cores (ls : List (FLink F)) : withCores ls (cores ls) = ls := by
  unfold withCores cores
  induction ls with
  | nil => rfl
  | cons l rest ih => simp [ih]

theorem pwEv_trans {hc : Bool} {cto : Option Nat} {as bs cs : List (FLink F)}
    (h1 : PW (Evolves hc cto) as bs) (h2 : PW (Evolves hc cto) bs cs) : PW (Evolves hc cto) as cs :=
  PW.trans (R := Evolves hc cto) (fun _ _ _ h h' => Evolves.trans h h') h1 h2

theorem procEvents_pw (hc : Bool) (cto : Option Nat) (s : Sys F) (idx : Nat) (inc : Incoming) (now : Nat) :
    PW (Evolves hc cto) s.links (processConnectionEvents s idx inc now).1.links ∧
    (processConnectionEvents s idx inc now).1.reg = s.reg ∧
    (processConnectionEvents s idx inc now).1.cfg = s.cfg ∧
    (processConnectionEvents s idx inc now).1.failNext = s.failNext := by
  unfold processConnectionEvents
  dsimp only
  refine ⟨?_, rfl, rfl, rfl⟩
  have h1 : PW (Evolves hc cto) s.links
      (inc.acks.foldl (fun ls a => ls.map fun l => l.srtAck (toI32 a) now) s.links) :=
    pw_foldl (Evolves.refl hc cto) (fun _ _ _ h h' => Evolves.trans h h') _
      (fun as b => PW.map _ as (fun l => ev_srtAck hc cto l (toI32 b) now)) s.links inc.acks
  refine pwEv_trans h1 (pw_withCores hc cto _ _ ?_)
  generalize cores (inc.acks.foldl (fun ls a => ls.map fun l => l.srtAck (toI32 a) now) s.links) = cs0
  have h2 : PW CoreEvolves cs0
      (inc.sacks.foldl (fun cs a => evSrtlaAck cs idx (toI32 a) s.cfg.classic now) cs0) :=
    pw_foldl CoreEvolves.refl (fun _ _ _ h h' => CoreEvolves.trans h h') _
      (fun as b => pw_evSrtlaAck as idx (toI32 b) s.cfg.classic now) cs0 inc.sacks
  refine pwCore_trans h2 ?_
  exact pw_foldl CoreEvolves.refl (fun _ _ _ h h' => CoreEvolves.trans h h') _
    (fun as b => pw_attributeNak as s.trk b now) _ inc.naks

theorem procEvents_empty (s : Sys F) (idx : Nat) (inc : Incoming) (now : Nat)
    (h : inc.acks = [] ∧ inc.sacks = [] ∧ inc.naks = []) :
    (processConnectionEvents s idx inc now).1.links = s.links := by
  unfold processConnectionEvents
  dsimp only
  rw [h.1, h.2.1, h.2.2]
  simp only [List.foldl_nil]
  exact withCores_cores s.links

/-- What the uplink arm does to link `j`. -/
inductive UpStep (s : Sys F) (cid : Nat) (data : Sys.Bytes) (now : Nat) (hc' : Bool) (j : Nat) (l l' : FLink F) : Prop
  | evolves (h : Evolves s.reg.hasConnected none l l')
      (hne : s.links.findIdx? (·.core.connId == cid) = some j → data.isEmpty = false →
        (Reg.processRegistrationPacket s.reg j data now).2 ≠ some .reg3)
  | reg3 (hidx : s.links.findIdx? (·.core.connId == cid) = some j)
      (hev : (Reg.processRegistrationPacket s.reg j data now).2 = some .reg3) (hl : l' = reg3Link l now)
      (hhc : hc' = true)
  | regErr (hidx : s.links.findIdx? (·.core.connId == cid) = some j)
      (hev : (Reg.processRegistrationPacket s.reg j data now).2 = some .regErr) (hl : l' = l.markForRecovery)

theorem getElem?_setAt (ls : List (FLink F)) (i j : Nat) (x : FLink F) :
    (setAt ls i x)[j]? = if j = i then (ls[j]?).map (fun _ => x) else ls[j]? := by
  unfold setAt
  rw [List.getElem?_mapIdx]
  split
  · rfl
  · cases ls[j]? <;> rfl

theorem uplink_tail (s : Sys F) (cid : Nat) (data : Sys.Bytes) (now idx : Nat) (l l1 l2 : FLink F)
    (reg1 : Reg.Reg) (inc : Incoming)
    (hidx : s.links.findIdx? (·.core.connId == cid) = some idx) (hl : s.links[idx]? = some l)
    (hk : UpKind s.reg.hasConnected none s.reg idx data now l l1)
    (hinc : (Reg.processRegistrationPacket s.reg idx data now).2 ≠ none →
      inc.acks = [] ∧ inc.sacks = [] ∧ inc.naks = [])
    (h12 : Evolves s.reg.hasConnected none l1 l2)
    (h12' : (Reg.processRegistrationPacket s.reg idx data now).2 = some .reg3 ∨
      (Reg.processRegistrationPacket s.reg idx data now).2 = some .regErr → l2 = l1)
    (hreg1 : (Reg.processRegistrationPacket s.reg idx data now).2 = some .reg3 → reg1.hasConnected = true) :
    (∀ j x, s.links[j]? = some x →
      ∃ l', (processConnectionEvents ({ s with links := setAt s.links idx l2, reg := reg1 } : Sys F)
          idx inc now).1.links[j]? = some l' ∧ UpStep s cid data now reg1.hasConnected j x l') ∧
    (processConnectionEvents ({ s with links := setAt s.links idx l2, reg := reg1 } : Sys F)
          idx inc now).1.links.length = s.links.length ∧
    (processConnectionEvents ({ s with links := setAt s.links idx l2, reg := reg1 } : Sys F)
          idx inc now).1.reg = reg1 ∧
    (processConnectionEvents ({ s with links := setAt s.links idx l2, reg := reg1 } : Sys F)
          idx inc now).1.cfg = s.cfg := by
  obtain ⟨p1, p2, p3, p4⟩ := procEvents_pw s.reg.hasConnected none
    ({ s with links := setAt s.links idx l2, reg := reg1 } : Sys F) idx inc now
  refine ⟨?_, by rw [p1.length]; simp [setAt], p2, p3⟩
  intro j x hx
  have hj : (setAt s.links idx l2)[j]? = some (if j = idx then l2 else x) := by
    rw [getElem?_setAt, hx]; split <;> rfl
  obtain ⟨l', hl', hev⟩ := p1.get j _ hj
  refine ⟨l', hl', ?_⟩
  by_cases hji : j = idx
  · subst hji
    rw [hl] at hx; cases hx
    simp only [if_true] at hev
    cases hk with
    | evolves h hn3 => exact .evolves ((h.trans h12).trans hev) (fun _ _ => hn3)
    | reg3 hev3 hl3 =>
      have hemp := hinc (by rw [hev3]; simp)
      have hlinks := procEvents_empty ({ s with links := setAt s.links j l2, reg := reg1 } : Sys F) j inc now hemp
      have h1 : l' = l2 := by
        rw [hlinks, hj] at hl'; simpa using hl'.symm
      have h2 : l2 = l1 := h12' (Or.inl hev3)
      exact .reg3 hidx hev3 (by rw [h1, h2, hl3]) (hreg1 hev3)
    | regErr hevE hlE =>
      have hemp := hinc (by rw [hevE]; simp)
      have hlinks := procEvents_empty ({ s with links := setAt s.links j l2, reg := reg1 } : Sys F) j inc now hemp
      have h1 : l' = l2 := by
        rw [hlinks, hj] at hl'; simpa using hl'.symm
      have h2 : l2 = l1 := h12' (Or.inr hevE)
      exact .regErr hidx hevE (by rw [h1, h2, hlE])
  · simp only [hji, if_false] at hev
    exact .evolves hev (fun h => by rw [hidx] at h; exact absurd (Option.some.inj h).symm hji)

/-- **Uplink event, link by link.** -/
theorem uplink_links (s : Sys F) (cid : Nat) (data : Sys.Bytes) (now : Nat) :
    (∀ j l, s.links[j]? = some l →
      ∃ l', (handleUplinkPacket s cid data now).1.links[j]? = some l' ∧
        UpStep s cid data now (handleUplinkPacket s cid data now).1.reg.hasConnected j l l') ∧
    (handleUplinkPacket s cid data now).1.links.length = s.links.length ∧
    (s.reg.hasConnected = true → (handleUplinkPacket s cid data now).1.reg.hasConnected = true) ∧
    (∀ j, s.links.findIdx? (·.core.connId == cid) = some j →
      (Reg.processRegistrationPacket s.reg j data now).2 = some .reg3 → data.isEmpty = false →
      (handleUplinkPacket s cid data now).1.reg.hasConnected = true) ∧
    (handleUplinkPacket s cid data now).1.cfg = s.cfg := by
  have hsame : (data.isEmpty = true ∨ s.links.findIdx? (·.core.connId == cid) = none) →
      (∀ j l, s.links[j]? = some l → ∃ l', s.links[j]? = some l' ∧ UpStep s cid data now s.reg.hasConnected j l l') :=
    fun hd j l hl => ⟨l, hl, .evolves (Evolves.refl _ _ l) (fun h1 h2 => by
      rcases hd with hd | hd
      · rw [hd] at h2; cases h2
      · rw [hd] at h1; cases h1)⟩
  unfold handleUplinkPacket
  split
  · rename_i hemp
    exact ⟨hsame (Or.inl hemp), rfl, fun h => h, fun _ _ _ h => (by rw [hemp] at h; cases h), rfl⟩
  · split
    · rename_i hidx
      exact ⟨hsame (Or.inr hidx), rfl, fun h => h, fun j hj => (by rw [hidx] at hj; cases hj), rfl⟩
    · rename_i idx hidx
      split
      · rename_i hnone
        have hlt := (List.findIdx?_eq_some_iff_getElem.1 hidx).1
        rw [List.getElem?_eq_getElem hlt] at hnone; cases hnone
      · rename_i l hl
        obtain ⟨hk, hhc, hinc, hr1⟩ := procUplink_cases s.reg.hasConnected none l idx s.reg s.clientKnown data now
        generalize processUplinkPacket l idx s.reg s.clientKnown data now = r at hk hhc hinc hr1 ⊢
        obtain ⟨l1, reg1, inc⟩ := r
        dsimp only at hk hhc hinc hr1 ⊢
        have hfin : ∀ l2 : FLink F, Evolves s.reg.hasConnected none l1 l2 →
            ((Reg.processRegistrationPacket s.reg idx data now).2 = some .reg3 ∨
              (Reg.processRegistrationPacket s.reg idx data now).2 = some .regErr → l2 = l1) →
            (∀ j l, s.links[j]? = some l →
              ∃ l', (processConnectionEvents ({ s with links := setAt s.links idx l2, reg := reg1 } : Sys F)
                idx inc now).1.links[j]? = some l' ∧
                UpStep s cid data now (processConnectionEvents ({ s with links := setAt s.links idx l2, reg := reg1 } : Sys F)
                idx inc now).1.reg.hasConnected j l l') ∧
            (processConnectionEvents ({ s with links := setAt s.links idx l2, reg := reg1 } : Sys F)
                idx inc now).1.links.length = s.links.length ∧
            (s.reg.hasConnected = true →
              (processConnectionEvents ({ s with links := setAt s.links idx l2, reg := reg1 } : Sys F)
                idx inc now).1.reg.hasConnected = true) ∧
            (∀ j, s.links.findIdx? (·.core.connId == cid) = some j →
              (Reg.processRegistrationPacket s.reg j data now).2 = some .reg3 → data.isEmpty = false →
              (processConnectionEvents ({ s with links := setAt s.links idx l2, reg := reg1 } : Sys F)
                idx inc now).1.reg.hasConnected = true) ∧
            (processConnectionEvents ({ s with links := setAt s.links idx l2, reg := reg1 } : Sys F)
                idx inc now).1.cfg = s.cfg := by
          intro l2 h12 h12'
          obtain ⟨t1, t2, t3, t4⟩ := uplink_tail s cid data now idx l l1 l2 reg1 inc hidx hl hk hinc h12 h12'
            (fun h => by rw [hhc, h]; simp)
          rw [t3]
          refine ⟨t1, t2, ?_, ?_, t4⟩
          · intro h
            rw [hhc, h]; rfl
          · intro j hj hev3 _
            rw [hidx] at hj
            cases hj
            rw [hhc, hev3]; simp
        split
        · rename_i p hp
          exact hfin _ (ev_stamps _ _ l1 l1.core.lastReceived (some now) l1.core.proofMs)
            (fun h => by rw [hr1 h] at hp; cases hp)
        · exact hfin l1 (Evolves.refl _ _ _) (fun _ => rfl)

/-! ## 10. The housekeeping arm, link by link -/

theorem ev_aliveLink (hc : Bool) (cto : Option Nat) (classic : Bool) (now : Nat) (l : FLink F) :
    Evolves hc cto l (aliveLink classic now l) := by
  unfold aliveLink
  dsimp only
  have h1 : Evolves hc cto l (if l.needsKeepalive now then (l.keepalivePacket now).1 else l) := by
    split
    · exact ev_keepalivePacket hc cto l now
    · exact Evolves.refl hc cto l
  generalize (if l.needsKeepalive now then (l.keepalivePacket now).1 else l) = l1 at h1 ⊢
  have h2 : Evolves hc cto l1 (if l1.needsRttMeasurement now then (l1.keepalivePacket now).1 else l1) := by
    split
    · exact ev_keepalivePacket hc cto l1 now
    · exact Evolves.refl hc cto l1
  generalize (if l1.needsRttMeasurement now then (l1.keepalivePacket now).1 else l1) = l2 at h2 ⊢
  have h3 : Evolves hc cto l2 (if !classic then l2.performWindowRecovery now else l2) := by
    split
    · exact ev_performWindowRecovery hc cto l2 now
    · exact Evolves.refl hc cto l2
  generalize (if !classic then l2.performWindowRecovery now else l2) = l3 at h3 ⊢
  have h4 : Evolves hc cto l3 { l3 with bitrate := l3.bitrate.calculate now } :=
    Evolves.of_soft rfl rfl rfl rfl rfl rfl
  exact (((h1.trans h2).trans h3).trans h4).trans
    ((ev_updatePhase hc cto _ now).trans (ev_recomputeBatchRegime hc cto _))

theorem isTimedOut_grace (l : FLink F) (g now : Nat) (h : l.established ≠ 0) :
    ({ l with graceDeadline := g } : FLink F).isTimedOut now = l.isTimedOut now := by
  unfold FLink.isTimedOut Select.isTimedOut FLink.toSLink
  dsimp only
  have : (l.established == 0) = false := by simpa using h
  simp only [this, Bool.false_and]

theorem shouldAttempt_grace (l : FLink F) (g now : Nat) (h : l.established ≠ 0) :
    ({ l with graceDeadline := g } : FLink F).shouldAttemptReconnect now = l.shouldAttemptReconnect now := by
  unfold FLink.shouldAttemptReconnect FLink.backoffDelay
  dsimp only
  have : (l.established == 0) = false := by simpa using h
  simp only [this, Bool.false_eq_true, if_false]

theorem shouldAttempt_in_grace (l : FLink F) (now : Nat) (h : l.established = 0) :
    ({ l with graceDeadline := now + Conn.STARTUP_GRACE_MS } : FLink F).shouldAttemptReconnect now = false := by
  unfold FLink.shouldAttemptReconnect
  dsimp only
  have : (l.established == 0) = true := by simpa using h
  simp only [this, if_true]
  rw [if_pos (by omega)]

/-- The per-link view of the loop: the link record after the possible grace reset of stage 1. -/
theorem graceFix_cases (g : Option Nat) (now j : Nat) (l : FLink F) :
    graceFix g now j l = l ∨
    (g = some j ∧ graceFix g now j l = { l with graceDeadline := now + Conn.STARTUP_GRACE_MS }) := by
  unfold graceFix
  split
  · rename_i h; right; exact ⟨h, rfl⟩
  · left; rfl

/-- An attempt seen by the loop is an attempt on the record the tick started with. -/
theorem attempt_of_graceFix (g : Option Nat) (now j : Nat) (l : FLink F)
    (hto : (graceFix g now j l).isTimedOut now = true)
    (hsa : (graceFix g now j l).shouldAttemptReconnect now = true) :
    l.isTimedOut now = true ∧ l.shouldAttemptReconnect now = true ∧
    ∀ fails, attemptLink fails (graceFix g now j l) now = attemptLink fails l now := by
  rcases graceFix_cases g now j l with e | ⟨-, e⟩
  · rw [e] at hto hsa ⊢; exact ⟨hto, hsa, fun _ => rfl⟩
  · rw [e] at hto hsa ⊢
    by_cases he : l.established = 0
    · rw [shouldAttempt_in_grace l now he] at hsa; cases hsa
    · rw [isTimedOut_grace l _ now he] at hto
      rw [shouldAttempt_grace l _ now he] at hsa
      exact ⟨hto, hsa, fun fails => attemptLink_grace fails l _ now⟩

/-- What a housekeeping tick does to link `j` (`fb` = the bind-failure injections pending when the tick
starts). -/
inductive HkStep (hc : Bool) (now : Nat) (fb : List Nat) (l l' : FLink F) : Prop
  | evolves (h : Evolves hc none l l')
  | attempt (hto : l.isTimedOut now = true) (hsa : l.shouldAttemptReconnect now = true)
      (hl : ∃ t, l' = withSent (reconnectLink l now) t)
  /-- the reconnect attempt whose socket re-creation failed (an injected bind failure was pending) -/
  | attemptFailed (hto : l.isTimedOut now = true) (hsa : l.shouldAttemptReconnect now = true)
      (hfb : l.core.connId ∈ fb) (hl : ∃ t, l' = withSent (failedLink l now) t)

theorem withSent_withSent (l : FLink F) (a b : Option Nat) : withSent (withSent l a) b = withSent l b := rfl

theorem hkLink_step (hc : Bool) (classic : Bool) (now : Nat) (pending : Option Nat) (fails : Bool) (j : Nat)
    (g : Option Nat) (l : FLink F) (t : Option Nat) (fb : List Nat) (hf : fails = true → l.core.connId ∈ fb) :
    HkStep hc now fb l (withSent (hkLink classic now pending fails j (graceFix g now j l)) t) := by
  have hg : Evolves hc none l (graceFix g now j l) := by
    rcases graceFix_cases g now j l with e | ⟨-, e⟩ <;> rw [e]
    · exact Evolves.refl _ _ _
    · exact Evolves.of_soft rfl rfl rfl rfl rfl rfl
  unfold hkLink
  split
  · rename_i hto
    split
    · rename_i hsa
      obtain ⟨a1, a2, a3⟩ := attempt_of_graceFix g now j l hto hsa
      rw [a3]
      cases fails
      · refine .attempt a1 a2 ?_
        unfold attemptLink
        simp only [Bool.false_eq_true, if_false]
        split
        · split
          · exact ⟨t, rfl⟩
          · exact ⟨t, rfl⟩
        · exact ⟨t, rfl⟩
      · refine .attemptFailed a1 a2 (hf rfl) ?_
        unfold attemptLink
        simp only [if_true]
        split
        · split
          · exact ⟨t, rfl⟩
          · exact ⟨t, rfl⟩
        · exact ⟨t, rfl⟩
    · exact .evolves (hg.trans (ev_withSent hc none _ t))
  · exact .evolves ((hg.trans (ev_aliveLink hc none classic now _)).trans (ev_withSent hc none _ t))

/-- **Housekeeping event, link by link.** -/
theorem hk_step (s : Sys F) (now : Nat) :
    (∀ (j : Nat) (l : FLink F), s.links[j]? = some l →
      ∃ l', (handleHousekeeping s now).1.links[j]? = some l' ∧ HkStep s.reg.hasConnected now s.failBind l l') ∧
    (handleHousekeeping s now).1.links.length = s.links.length := by
  obtain ⟨τ, h⟩ := hk_links s now
  rw [h]
  refine ⟨fun (j : Nat) (l : FLink F) hl => ?_, by simp⟩
  rw [List.getElem?_mapIdx, hl]
  exact ⟨_, rfl, hkLink_step _ _ _ _ _ _ _ _ _ _ (hkFails_mem s now j l.core.connId)⟩

/-- The converse direction: a link the loop sees timed out and ready is re-attempted in this tick; the
socket re-creation fails iff a bind failure is pending for its conn id when the loop reaches it. -/
theorem hk_attempts (s : Sys F) (now j : Nat) (l : FLink F) (hl : s.links[j]? = some l)
    (hto : l.isTimedOut now = true) (hsa : l.shouldAttemptReconnect now = true)
    (hg : hkGraceIdx s now ≠ some j ∨ l.established ≠ 0) :
    ∃ t, (handleHousekeeping s now).1.links[j]? =
      some (withSent (attemptLink (hkFails s now j l.core.connId) l now) t) := by
  obtain ⟨τ, h⟩ := hk_links s now
  rw [h, List.getElem?_mapIdx, hl]
  simp only [Option.map_some]
  have hview : (graceFix (hkGraceIdx s now) now j l).isTimedOut now = true ∧
      (graceFix (hkGraceIdx s now) now j l).shouldAttemptReconnect now = true ∧
      ∀ fails, attemptLink fails (graceFix (hkGraceIdx s now) now j l) now = attemptLink fails l now := by
    rcases graceFix_cases (hkGraceIdx s now) now j l with e | ⟨hgj, e⟩
    · rw [e]; exact ⟨hto, hsa, fun _ => rfl⟩
    · rcases hg with hg | hg
      · exact absurd hgj hg
      · rw [e, isTimedOut_grace l _ now hg, shouldAttempt_grace l _ now hg]
        exact ⟨hto, hsa, fun fails => attemptLink_grace fails l _ now⟩
  obtain ⟨v1, v2, v3⟩ := hview
  unfold hkLink
  rw [if_pos v1, if_pos v2, v3]
  split
  · split
    · exact ⟨_, rfl⟩
    · exact ⟨_, rfl⟩
  · exact ⟨_, rfl⟩

/-- … in particular with no bind failure pending for the link's conn id the re-creation succeeds. -/
theorem hk_attempts_ok (s : Sys F) (now j : Nat) (l : FLink F) (hl : s.links[j]? = some l)
    (hto : l.isTimedOut now = true) (hsa : l.shouldAttemptReconnect now = true)
    (hg : hkGraceIdx s now ≠ some j ∨ l.established ≠ 0) (hfb : l.core.connId ∉ s.failBind) :
    ∃ t, (handleHousekeeping s now).1.links[j]? = some (withSent (reconnectLink l now) t) := by
  obtain ⟨t, ht⟩ := hk_attempts s now j l hl hto hsa hg
  rw [hkFails_false s now j _ hfb] at ht
  exact ⟨t, ht⟩

/-! ## 11. All events -/

/-- The verdict stamp of the event loop, per index. -/
def stampOne (idx : Nat) (weak ld ccb : Bool) (cct : Nat) (j : Nat) (l : FLink F) : FLink F :=
  if j = idx then { l with weak := weak, lossDegraded := ld, ccBackingOff := ccb, ccTarget := cct } else l

theorem stampLink_get (ls : List (FLink F)) (idx : Nat) (weak ld ccb : Bool) (cct : Nat) (j : Nat) :
    (stampLink ls idx weak ld ccb cct)[j]? = (ls[j]?).map (stampOne idx weak ld ccb cct j) := by
  unfold stampLink
  rw [List.getElem?_mapIdx]
  rfl

theorem stampLink_length (ls : List (FLink F)) (idx : Nat) (weak ld ccb : Bool) (cct : Nat) :
    (stampLink ls idx weak ld ccb cct).length = ls.length := by
  unfold stampLink; exact List.length_mapIdx

/-- `sync_conn_timeout` writes the configured timeout into the link's copy and nothing else. -/
theorem ev_syncOne (hc : Bool) (T : Nat) (l : FLink F) :
    Evolves hc (some T) l { l with connTimeoutMs := T } :=
  ⟨Or.inr rfl, rfl, rfl, rfl, rfl, rfl, Iff.rfl,
   fun _ _ h => ⟨h.window, h.log, h.queue, h.inFlight, h.connected⟩⟩

/-- A verdict stamp touches neither the accounting core nor the queue nor the reconnection state. -/
theorem ev_stampOne (hc : Bool) (cto : Option Nat) (idx : Nat) (weak ld ccb : Bool) (cct : Nat) (j : Nat)
    (l : FLink F) : Evolves hc cto l (stampOne idx weak ld ccb cct j l) := by
  unfold stampOne
  split
  · exact Evolves.of_soft rfl rfl rfl rfl rfl rfl
  · exact Evolves.refl _ _ _

/-- What one event does to link `j`. -/
inductive LinkStep (s : Sys F) (e : Ev) (j : Nat) (l l' : FLink F) : Prop
  /-- anything that is not a tear-down / attempt / REG3; the timeout copy may be refreshed by a
  client event (selection pass) or by `sync_conn_timeout` (`Ev.syncTimeout`) only -/
  | evolves (cto : Option Nat)
      (hcto : cto = none ∨
        (((∃ now pkt, e = .client now pkt) ∨ e = .syncTimeout) ∧ cto = some s.cfg.connTimeoutMs))
      (h : Evolves s.reg.hasConnected cto l l')
  | sendFail (now : Nat) (pkt : Sys.Bytes) (he : e = .client now pkt)
      (h : Torn (some s.cfg.connTimeoutMs) l l')
      (hcons : (step s e).1.failNext.count l.core.connId < s.failNext.count l.core.connId)
  | reg3 (now cid : Nat) (data : Sys.Bytes) (he : e = .uplink now cid data)
      (hidx : s.links.findIdx? (·.core.connId == cid) = some j)
      (hev : (Reg.processRegistrationPacket s.reg j data now).2 = some .reg3)
      (hl : l' = reg3Link l now) (hhc : (step s e).1.reg.hasConnected = true)
  | regErr (now cid : Nat) (data : Sys.Bytes) (he : e = .uplink now cid data)
      (hidx : s.links.findIdx? (·.core.connId == cid) = some j)
      (hev : (Reg.processRegistrationPacket s.reg j data now).2 = some .regErr)
      (hl : l' = l.markForRecovery)
  | attempt (now : Nat) (he : e = .hk now) (hto : l.isTimedOut now = true)
      (hsa : l.shouldAttemptReconnect now = true) (hl : ∃ t, l' = withSent (reconnectLink l now) t)
  /-- the reconnect attempt whose socket re-creation failed: an injected bind failure for this link's
  conn id was pending -/
  | attemptFailed (now : Nat) (he : e = .hk now) (hto : l.isTimedOut now = true)
      (hsa : l.shouldAttemptReconnect now = true) (hfb : l.core.connId ∈ s.failBind)
      (hl : ∃ t, l' = withSent (failedLink l now) t)

theorem step_link (s : Sys F) (e : Ev) (hnr : e.isReload = false) :
    (∀ (j : Nat) (l : FLink F), s.links[j]? = some l → ∃ l', (step s e).1.links[j]? = some l' ∧ LinkStep s e j l l') ∧
    (step s e).1.links.length = s.links.length ∧
    (s.reg.hasConnected = true → (step s e).1.reg.hasConnected = true) := by
  have hsame : ∀ s' : Sys F, s'.links = s.links →
      (∀ j l, s.links[j]? = some l → ∃ l', s'.links[j]? = some l' ∧ LinkStep s e j l l') :=
    fun s' h j l hl => ⟨l, by rw [h]; exact hl, .evolves none (Or.inl rfl) (Evolves.refl _ _ l)⟩
  cases e with
  | reload now addrs outs => cases hnr
  | client now pkt =>
    obtain ⟨h1, h2, h3⟩ := client_pw s pkt now
    refine ⟨fun j l hl => ?_, h1.length, fun h => by show (handleSrtPacket s pkt now).1.reg.hasConnected = true; rw [h2]; exact h⟩
    obtain ⟨l', hl', hs⟩ := h1.get j l hl
    refine ⟨l', hl', ?_⟩
    rcases hs with hs | ⟨hs, hlt⟩
    · exact .evolves _ (Or.inr ⟨.inl ⟨now, pkt, rfl⟩, rfl⟩) hs
    · exact .sendFail now pkt rfl hs hlt
  | uplink now cid data =>
    obtain ⟨h1, h2, h3, h4, h5⟩ := uplink_links s cid data now
    refine ⟨fun j l hl => ?_, h2, h3⟩
    obtain ⟨l', hl', hs⟩ := h1 j l hl
    refine ⟨l', hl', ?_⟩
    cases hs with
    | evolves h _ => exact .evolves none (Or.inl rfl) h
    | reg3 hidx hev hl3 hhc => exact .reg3 now cid data rfl hidx hev hl3 hhc
    | regErr hidx hev hlE => exact .regErr now cid data rfl hidx hev hlE
  | flush now =>
    obtain ⟨h1, h2, h3⟩ := flush_pw s.reg.hasConnected none s now
    refine ⟨fun j l hl => ?_, h1.length, fun h => by show (flushAllBatches s now).1.reg.hasConnected = true; rw [h2]; exact h⟩
    obtain ⟨l', hl', hs⟩ := h1.get j l hl
    exact ⟨l', hl', .evolves none (Or.inl rfl) hs⟩
  | hk now =>
    obtain ⟨h1, h2⟩ := hk_step s now
    refine ⟨fun j l hl => ?_, h2, fun h => by show (handleHousekeeping s now).1.reg.hasConnected = true; rw [hk_hasConnected]; exact h⟩
    obtain ⟨l', hl', hs⟩ := h1 j l hl
    refine ⟨l', hl', ?_⟩
    cases hs with
    | evolves h => exact .evolves none (Or.inl rfl) h
    | attempt hto hsa hl => exact .attempt now rfl hto hsa hl
    | attemptFailed hto hsa hfb hl => exact .attemptFailed now rfl hto hsa hfb hl
  | setCfg cfg => exact ⟨hsame _ rfl, rfl, fun h => h⟩
  | crit d => exact ⟨hsame _ rfl, rfl, fun h => h⟩
  | failNext cid => exact ⟨hsame _ rfl, rfl, fun h => h⟩
  | failAfter cid kfa => exact ⟨hsame _ rfl, rfl, fun h => h⟩
  | failBind cid => exact ⟨hsame _ rfl, rfl, fun h => h⟩
  | stamp idx weak ld ccb cct =>
    refine ⟨fun j l hl => ?_, stampLink_length _ _ _ _ _ _, fun h => h⟩
    refine ⟨stampOne idx weak ld ccb cct j l, ?_, .evolves none (Or.inl rfl) (ev_stampOne _ _ _ _ _ _ _ _ _)⟩
    show (stampLink s.links idx weak ld ccb cct)[j]? = _
    rw [stampLink_get, hl]; rfl
  | syncTimeout =>
    refine ⟨fun j l hl => ?_, by show (s.links.map _).length = _; exact List.length_map _, fun h => h⟩
    refine ⟨{ l with connTimeoutMs := s.cfg.connTimeoutMs }, ?_,
      .evolves (some s.cfg.connTimeoutMs) (Or.inr ⟨.inr rfl, rfl⟩) (ev_syncOne _ _ l)⟩
    show (s.links.map fun l => ({ l with connTimeoutMs := s.cfg.connTimeoutMs } : FLink F))[j]? = _
    rw [List.getElem?_map, hl]; rfl

/-! ## 12. Extras: REG2 on the wire, accounting of live links, REG_ERR recognition -/

theorem hkLinksGo_wire_reg2 (classic : Bool) (now : Nat) (ls : List (FLink F)) (i : Nat) (reg : Reg.Reg)
    (fb : List Nat)
    (hp : reg.pending = none) (j : Nat) (l : FLink F) (hl : ls[j]? = some l)
    (hto : l.isTimedOut now = true) (hsa : l.shouldAttemptReconnect now = true) :
    (l.core.connId, Reg.buildReg2 reg) ∈ (hkLinksGo classic now ls i reg fb).2.2 := by
  induction ls generalizing i j fb with
  | nil => simp at hl
  | cons x rest ih =>
    rw [hkLinksGo_cons]
    have hreg : hkReg now reg i x = reg := by
      unfold hkReg; rw [hp]; simp
    rw [hreg]
    dsimp only
    cases j with
    | zero =>
      simp at hl; subst hl
      apply List.mem_append_left
      unfold hkWire
      rw [if_pos hto, if_pos hsa, hp]
      simp
    | succ j =>
      apply List.mem_append_right
      exact ih (i + 1) _ j (by simpa using hl)

/-- Accounting fields a housekeeping tick never touches on a link that is not timed out. -/
def Acct (l l' : FLink F) : Prop :=
  l'.queue = l.queue ∧ l'.core.log = l.core.log ∧ l'.core.inFlight = l.core.inFlight ∧
  l'.core.connected = l.core.connected ∧ l'.core.connId = l.core.connId ∧ l'.established = l.established ∧
  l'.core.lastReceived = l.core.lastReceived

theorem Acct.refl (l : FLink F) : Acct l l := ⟨rfl, rfl, rfl, rfl, rfl, rfl, rfl⟩
theorem Acct.trans {a b c : FLink F} (h1 : Acct a b) (h2 : Acct b c) : Acct a c := by
  obtain ⟨a1, a2, a3, a4, a5, a6, a7⟩ := h1
  obtain ⟨b1, b2, b3, b4, b5, b6, b7⟩ := h2
  exact ⟨b1.trans a1, b2.trans a2, b3.trans a3, b4.trans a4, b5.trans a5, b6.trans a6, b7.trans a7⟩

theorem acct_keepalive (l : FLink F) (now : Nat) : Acct l (l.keepalivePacket now).1 := by
  unfold FLink.keepalivePacket; exact ⟨rfl, rfl, rfl, rfl, rfl, rfl, rfl⟩

theorem acct_recovery (l : FLink F) (now : Nat) : Acct l (l.performWindowRecovery now) := by
  unfold FLink.performWindowRecovery; exact ⟨rfl, rfl, rfl, rfl, rfl, rfl, rfl⟩

theorem acct_updatePhase (l : FLink F) (now : Nat) : Acct l (l.updatePhase now) := by
  unfold FLink.updatePhase
  dsimp only
  repeat' split
  all_goals exact ⟨rfl, rfl, rfl, rfl, rfl, rfl, rfl⟩

theorem aliveLink_accounting (classic : Bool) (now : Nat) (l : FLink F) : Acct l (aliveLink classic now l) := by
  unfold aliveLink
  dsimp only
  have h1 : Acct l (if l.needsKeepalive now then (l.keepalivePacket now).1 else l) := by
    split
    · exact acct_keepalive l now
    · exact Acct.refl l
  generalize (if l.needsKeepalive now then (l.keepalivePacket now).1 else l) = l1 at h1 ⊢
  have h2 : Acct l1 (if l1.needsRttMeasurement now then (l1.keepalivePacket now).1 else l1) := by
    split
    · exact acct_keepalive l1 now
    · exact Acct.refl l1
  generalize (if l1.needsRttMeasurement now then (l1.keepalivePacket now).1 else l1) = l2 at h2 ⊢
  have h3 : Acct l2 (if !classic then l2.performWindowRecovery now else l2) := by
    split
    · exact acct_recovery l2 now
    · exact Acct.refl l2
  generalize (if !classic then l2.performWindowRecovery now else l2) = l3 at h3 ⊢
  have h4 : Acct l3 { l3 with bitrate := l3.bitrate.calculate now } := ⟨rfl, rfl, rfl, rfl, rfl, rfl, rfl⟩
  have h5 := acct_updatePhase { l3 with bitrate := l3.bitrate.calculate now } now
  have h6 : Acct ((({ l3 with bitrate := l3.bitrate.calculate now } : FLink F)).updatePhase now)
      ((({ l3 with bitrate := l3.bitrate.calculate now } : FLink F)).updatePhase now).recomputeBatchRegime :=
    ⟨rfl, rfl, rfl, rfl, rfl, rfl, rfl⟩
  exact ((((h1.trans h2).trans h3).trans h4).trans h5).trans h6

theorem regEvent_of_type (r : Reg.Reg) (idx : Nat) (buf : Reg.Bytes) (now : Nat) :
    ((Reg.processRegistrationPacket r idx buf now).2 = some .regErr ↔ Codec.getPacketTypeS buf = some 37392) ∧
    ((Reg.processRegistrationPacket r idx buf now).2 = some .reg3 ↔ Codec.getPacketTypeS buf = some 37378) := by
  unfold Reg.processRegistrationPacket
  simp only [Proto.SRTLA_TYPE_REG_NGP_eq, Proto.SRTLA_TYPE_REG2_eq, Proto.SRTLA_TYPE_REG3_eq,
    Proto.SRTLA_TYPE_REG_ERR_eq]
  cases h : Codec.getPacketTypeS buf with
  | none => simp
  | some t =>
    dsimp only
    by_cases h1 : t = 37393
    · simp [h1]
    by_cases h2 : t = 37377
    · simp [h2]
    by_cases h3 : t = 37378
    · simp [h3]
    by_cases h4 : t = 37392
    · simp [h4]
    simp [h1, h2, h3, h4]

end Srtla.Hk
