import Srtla.Model.Sys
import Srtla.Lemmas.Conn
import Srtla.Lemmas.SelectFrame
/-!
# Housekeeping / reconnection lemmas (C08)

Everything is stated for an arbitrary scalar type `F` with an arbitrary `[Scalar F]` instance
(float comparisons stay opaque Booleans).
-/
namespace Srtla.Hk
open Srtla Srtla.Gen Srtla.Conn Srtla.Select Srtla.Rtt Srtla.Link Srtla.Sys Scalar

set_option linter.unusedSectionVars false
set_option linter.unusedVariables false

variable {F : Type} [Scalar F]

/-! ## 1. Reconnection arithmetic (reconnection.rs) -/

theorem backoff_table (l : FLink F) :
    l.backoffDelay =
      if l.failCount = 0 then 5000 else if l.failCount = 1 then 10000 else if l.failCount = 2 then 20000
      else if l.failCount = 3 then 40000 else if l.failCount = 4 then 80000 else 120000 := by
  unfold FLink.backoffDelay
  simp only [Reconn.MAX_BACKOFF_COUNT_eq, Reconn.BASE_RECONNECT_DELAY_MS_eq, Reconn.MAX_BACKOFF_DELAY_MS_eq]
  have h : min l.failCount 5 = 0 ∧ l.failCount = 0 ∨ min l.failCount 5 = 1 ∧ l.failCount = 1 ∨
      min l.failCount 5 = 2 ∧ l.failCount = 2 ∨ min l.failCount 5 = 3 ∧ l.failCount = 3 ∨
      min l.failCount 5 = 4 ∧ l.failCount = 4 ∨ min l.failCount 5 = 5 ∧ 5 ≤ l.failCount := by omega
  rcases h with ⟨h, e⟩ | ⟨h, e⟩ | ⟨h, e⟩ | ⟨h, e⟩ | ⟨h, e⟩ | ⟨h, e⟩
  · rw [h, e]; decide
  · rw [h, e]; decide
  · rw [h, e]; decide
  · rw [h, e]; decide
  · rw [h, e]; decide
  · rw [h]
    rw [if_neg (by omega), if_neg (by omega), if_neg (by omega), if_neg (by omega), if_neg (by omega)]
    decide

theorem backoff_bounds (l : FLink F) : 5000 ≤ l.backoffDelay ∧ l.backoffDelay ≤ 120000 := by
  rw [backoff_table]
  repeat' split
  all_goals omega

/-- What a `true` verdict of `should_attempt_reconnect` means. -/
theorem shouldAttempt_true (l : FLink F) (now : Nat) (h : l.shouldAttemptReconnect now = true) :
    (l.established = 0 ∧ l.graceDeadline < now ∧ (l.lastAttemptMs = 0 ∨ now - l.lastAttemptMs ≥ 1000)) ∨
    (l.established ≠ 0 ∧ (l.lastAttemptMs = 0 ∨ now - l.lastAttemptMs ≥ l.backoffDelay)) := by
  have hI := Lit.INITIAL_RETRY_MS_eq
  unfold FLink.shouldAttemptReconnect at h
  split at h
  · rename_i he
    have he' : l.established = 0 := by simpa using he
    left
    split at h
    · cases h
    · rename_i hg
      refine ⟨he', by omega, ?_⟩
      split at h
      · rename_i hl; left; simpa using hl
      · right; have := of_decide_eq_true h; omega
  · rename_i he
    have he' : l.established ≠ 0 := by simpa using he
    right
    refine ⟨he', ?_⟩
    split at h
    · rename_i hl; left; simpa using hl
    · right; exact of_decide_eq_true h

/-- The verdict is `true` whenever the link is past its grace (or was established before) and the
last attempt is either absent or at least the back-off cap old. -/
theorem shouldAttempt_of_old (l : FLink F) (now : Nat)
    (hg : l.established ≠ 0 ∨ l.graceDeadline < now)
    (ha : l.lastAttemptMs = 0 ∨ now - l.lastAttemptMs ≥ 120000) :
    l.shouldAttemptReconnect now = true := by
  have hI := Lit.INITIAL_RETRY_MS_eq
  have hb := (backoff_bounds l).2
  unfold FLink.shouldAttemptReconnect
  split
  · rename_i he
    have he' : l.established = 0 := by simpa using he
    rw [if_neg (by omega)]
    split
    · rfl
    · rename_i hl
      have : l.lastAttemptMs ≠ 0 := by simpa using hl
      exact decide_eq_true (by omega)
  · split
    · rfl
    · rename_i hl
      have : l.lastAttemptMs ≠ 0 := by simpa using hl
      exact decide_eq_true (by omega)

/-! ## 2. Pointwise list relation -/

inductive PW {α : Type} (R : α → α → Prop) : List α → List α → Prop
  | nil : PW R [] []
  | cons {a b : α} {as bs : List α} : R a b → PW R as bs → PW R (a :: as) (b :: bs)

theorem PW.length {α : Type} {R : α → α → Prop} {as bs : List α} (h : PW R as bs) : bs.length = as.length := by
  induction h with
  | nil => rfl
  | cons _ _ ih => simp [ih]

theorem PW.get {α : Type} {R : α → α → Prop} {as bs : List α} (h : PW R as bs) (j : Nat) (a : α)
    (ha : as[j]? = some a) : ∃ b, bs[j]? = some b ∧ R a b := by
  induction h generalizing j with
  | nil => simp at ha
  | cons hr _ ih =>
    cases j with
    | zero => simp at ha; subst ha; exact ⟨_, by simp, hr⟩
    | succ j => simp at ha; simpa using ih j ha

theorem PW.mono {α : Type} {R S : α → α → Prop} {as bs : List α} (h : PW R as bs)
    (hrs : ∀ a b, R a b → S a b) : PW S as bs := by
  induction h with
  | nil => exact .nil
  | cons hr _ ih => exact .cons (hrs _ _ hr) ih

theorem PW.refl {α : Type} {R : α → α → Prop} (hr : ∀ a, R a a) (as : List α) : PW R as as := by
  induction as with
  | nil => exact .nil
  | cons a as ih => exact .cons (hr a) ih

theorem PW.map {α : Type} {R : α → α → Prop} (f : α → α) (as : List α) (hr : ∀ a, R a (f a)) :
    PW R as (as.map f) := by
  induction as with
  | nil => exact .nil
  | cons a as ih => exact .cons (hr a) ih

/-! ## 3. What an event may do to one link: the `Evolves` relation -/

/-- Clean accounting of a torn-down link. -/
structure Clean (l : FLink F) : Prop where
  window : l.core.window = 20000
  log : l.core.log = []
  queue : l.queue = []
  inFlight : l.core.inFlight = 0
  connected : l.core.connected = false

/-- Everything that is NOT a tear-down, a reconnect attempt or a REG3 keeps these facts about a link.
`hc` = registration completed (`reg.has_connected`): only then is cleanliness of a `Registering`
link preserved (before, pre-registration forwarding uses `Registering` links). -/
structure Evolves (hc : Bool) (l l' : FLink F) : Prop where
  established : l'.established = l.established
  lastAttempt : l'.lastAttemptMs = l.lastAttemptMs
  failCount : l'.failCount = l.failCount
  connected : l'.core.connected = l.core.connected
  connId : l'.core.connId = l.core.connId
  phaseReg : l'.core.phase = .registering ↔ l.core.phase = .registering
  clean : hc = true → l.core.phase = .registering → Clean l → Clean l'

theorem Evolves.refl (hc : Bool) (l : FLink F) : Evolves hc l l :=
  ⟨rfl, rfl, rfl, rfl, rfl, Iff.rfl, fun _ _ h => h⟩

theorem Evolves.trans {hc : Bool} {a b c : FLink F} (h1 : Evolves hc a b) (h2 : Evolves hc b c) :
    Evolves hc a c :=
  ⟨h2.established.trans h1.established, h2.lastAttempt.trans h1.lastAttempt,
   h2.failCount.trans h1.failCount, h2.connected.trans h1.connected, h2.connId.trans h1.connId,
   h2.phaseReg.trans h1.phaseReg,
   fun hc' hp hcl => h2.clean hc' (h1.phaseReg.mpr hp) (h1.clean hc' hp hcl)⟩

theorem Evolves.weaken {hc : Bool} {a b : FLink F} (h : Evolves hc a b) : Evolves false a b :=
  ⟨h.established, h.lastAttempt, h.failCount, h.connected, h.connId, h.phaseReg, fun h' => by cases h'⟩

/-- A change that touches neither the accounting core nor the queue nor the reconnection state. -/
theorem Evolves.of_soft {hc : Bool} {l l' : FLink F} (hcore : l'.core = l.core) (hq : l'.queue = l.queue)
    (he : l'.established = l.established) (ha : l'.lastAttemptMs = l.lastAttemptMs)
    (hf : l'.failCount = l.failCount) : Evolves hc l l' :=
  ⟨he, ha, hf, by rw [hcore], by rw [hcore], by rw [hcore],
   fun _ _ h => ⟨by rw [hcore]; exact h.window, by rw [hcore]; exact h.log, by rw [hq]; exact h.queue,
     by rw [hcore]; exact h.inFlight, by rw [hcore]; exact h.connected⟩⟩

/-- A change of the core that keeps connected / id / phase-kind and leaves a clean core clean. -/
structure CoreEvolves (c c' : Conn) : Prop where
  connected : c'.connected = c.connected
  connId : c'.connId = c.connId
  phaseReg : c'.phase = .registering ↔ c.phase = .registering
  clean : c.window = 20000 → c.log = [] → c.inFlight = 0 → c.connected = false →
    c'.window = 20000 ∧ c'.log = [] ∧ c'.inFlight = 0

theorem CoreEvolves.refl (c : Conn) : CoreEvolves c c := ⟨rfl, rfl, Iff.rfl, fun a b d _ => ⟨a, b, d⟩⟩

theorem CoreEvolves.trans {a b c : Conn} (h1 : CoreEvolves a b) (h2 : CoreEvolves b c) : CoreEvolves a c :=
  ⟨h2.connected.trans h1.connected, h2.connId.trans h1.connId, h2.phaseReg.trans h1.phaseReg,
   fun w lg i cn => by
     obtain ⟨w', lg', i'⟩ := h1.clean w lg i cn
     exact h2.clean w' lg' i' (h1.connected.trans cn)⟩

theorem Evolves.of_core {hc : Bool} {l : FLink F} {c' : Conn} (h : CoreEvolves l.core c') :
    Evolves hc l { l with core := c' } :=
  ⟨rfl, rfl, rfl, h.connected, h.connId, h.phaseReg,
   fun _ _ hcl => by
     obtain ⟨w', lg', i'⟩ := h.clean hcl.window hcl.log hcl.inFlight hcl.connected
     exact ⟨w', lg', hcl.queue, i', h.connected.trans hcl.connected⟩⟩

/-! ### core operations -/

theorem core_srtAck (c : Conn) (ack : Int) (now : Nat) : CoreEvolves c (c.srtAck ack now).1 := by
  unfold Conn.srtAck
  split
  · exact CoreEvolves.refl c
  · refine ⟨rfl, rfl, Iff.rfl, fun w lg i _ => ?_⟩
    simp [lg, w]

theorem core_srtlaAck (c : Conn) (seq : Int) (cl : Bool) (now : Nat) : CoreEvolves c (c.srtlaAck seq cl now).1 := by
  unfold Conn.srtlaAck
  split
  · rename_i h
    refine ⟨?_, ?_, ?_, fun w lg i _ => ?_⟩
    · cases cl <;> rfl
    · cases cl <;> rfl
    · cases cl <;> exact Iff.rfl
    · simp [lg] at h
  · exact CoreEvolves.refl c

theorem core_ackGlobal (c : Conn) : CoreEvolves c c.ackGlobal := by
  unfold Conn.ackGlobal
  split
  · rename_i h
    refine ⟨rfl, rfl, Iff.rfl, fun w lg i cn => ?_⟩
    simp [cn] at h
  · exact CoreEvolves.refl c

theorem core_nak (c : Conn) (seq : Int) (now : Nat) : CoreEvolves c (c.nak seq now).1 := by
  unfold Conn.nak
  split
  · rename_i h
    refine ⟨rfl, rfl, Iff.rfl, fun w lg i _ => ?_⟩
    simp [lg] at h
  · exact CoreEvolves.refl c

theorem core_register (c : Conn) (seq : Int) (t : Nat) :
    (c.register seq t).connected = c.connected ∧ (c.register seq t).connId = c.connId ∧
    (c.register seq t).phase = c.phase := ⟨rfl, rfl, rfl⟩

/-! ### fan-out over the cores -/

theorem pw_updateAt (cs : Links) (i : Nat) (f : Conn → Conn) (c : Conn) (hc : cs[i]? = some c)
    (hf : CoreEvolves c (f c)) : PW CoreEvolves cs (updateAt cs i f) := by
  unfold updateAt
  induction cs generalizing i with
  | nil => exact .nil
  | cons d rest ih =>
    rw [List.mapIdx_cons]
    cases i with
    | zero =>
      simp at hc; subst hc
      refine .cons (by simpa using hf) ?_
      have : (List.mapIdx (fun i c => if i + 1 = 0 then f c else c) rest) = rest := by
        apply List.ext_getElem?
        intro k
        simp
      rw [this]; exact PW.refl CoreEvolves.refl rest
    | succ i =>
      refine .cons (by simpa using CoreEvolves.refl d) ?_
      have hc' : rest[i]? = some c := by simpa using hc
      have := ih i hc'
      simpa using this

theorem pw_srtlaAckOthers (cs : Links) (j skip : Nat) (seq : Int) (cl : Bool) (now : Nat) :
    PW CoreEvolves cs (srtlaAckOthers cs j skip seq cl now) := by
  induction cs generalizing j with
  | nil => exact .nil
  | cons c rest ih =>
    unfold srtlaAckOthers
    split
    · exact .cons (CoreEvolves.refl c) (ih (j + 1))
    · dsimp only
      split
      · exact .cons (core_srtlaAck c seq cl now) (PW.refl CoreEvolves.refl rest)
      · exact .cons (CoreEvolves.refl c) (ih (j + 1))

theorem PW.trans {α : Type} {R : α → α → Prop} (ht : ∀ a b c, R a b → R b c → R a c) {as bs cs : List α}
    (h1 : PW R as bs) (h2 : PW R bs cs) : PW R as cs := by
  induction h1 generalizing cs with
  | nil => cases h2; exact .nil
  | cons hr _ ih =>
    cases h2 with
    | cons hr' h2' => exact .cons (ht _ _ _ hr hr') (ih h2')

theorem pwCore_trans {as bs cs : Links} (h1 : PW CoreEvolves as bs) (h2 : PW CoreEvolves bs cs) :
    PW CoreEvolves as cs := PW.trans (fun _ _ _ h h' => CoreEvolves.trans h h') h1 h2

theorem pw_evSrtlaAck (cs : Links) (idx : Nat) (seq : Int) (cl : Bool) (now : Nat) :
    PW CoreEvolves cs (evSrtlaAck cs idx seq cl now) := by
  unfold evSrtlaAck
  refine pwCore_trans ?_ (PW.map Conn.ackGlobal _ core_ackGlobal)
  split
  · exact PW.refl CoreEvolves.refl cs
  · rename_i c hc
    dsimp only
    split
    · exact pw_updateAt cs idx _ c hc (core_srtlaAck c seq cl now)
    · exact pw_srtlaAckOthers cs 0 idx seq cl now

theorem pw_nakScan (cs : Links) (seq : Int) (now : Nat) : PW CoreEvolves cs (nakScan cs seq now).1 := by
  induction cs with
  | nil => exact .nil
  | cons c rest ih =>
    unfold nakScan
    dsimp only
    split
    · exact .cons (core_nak c seq now) (PW.refl CoreEvolves.refl rest)
    · exact .cons (CoreEvolves.refl c) ih

theorem pw_attributeNak (cs : Links) (trk : Tracker) (nak now : Nat) :
    PW CoreEvolves cs (attributeNak cs trk nak now).1 := by
  unfold attributeNak
  dsimp only
  split
  · split
    · split
      · rename_i c hc
        split
        · exact pw_updateAt cs _ _ c hc (core_nak c _ now)
        · exact PW.refl CoreEvolves.refl cs
      · exact PW.refl CoreEvolves.refl cs
    · exact pw_nakScan cs _ now
  · exact pw_nakScan cs _ now

theorem pw_foldl {α β : Type} {R : α → α → Prop} (hrefl : ∀ a, R a a) (ht : ∀ a b c, R a b → R b c → R a c)
    (f : List α → β → List α) (hf : ∀ as b, PW R as (f as b)) (as : List α) (bs : List β) :
    PW R as (bs.foldl f as) := by
  induction bs generalizing as with
  | nil => exact PW.refl hrefl as
  | cons b bs ih => exact PW.trans ht (hf as b) (ih (f as b))

end Srtla.Hk
