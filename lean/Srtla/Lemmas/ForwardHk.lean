import Srtla.Lemmas.ForwardFrame
import Srtla.Lemmas.Housekeeping
/-!
# `handle_housekeeping` seen from the batch queues (C01)

Housekeeping never moves a queued datagram: every queue is left untouched, or discarded as part of
the reconnect reset of a link that — in the state the tick started with — was timed out AND due for a
reconnect attempt (`reset_for_reconnect`, or `mark_for_recovery` when the socket re-creation fails).
-/
namespace Srtla.Sys
open Srtla Srtla.Gen Srtla.Conn Srtla.Select Srtla.Rtt Srtla.Link Scalar

set_option linter.unusedSectionVars false

variable {F : Type} [Scalar F]

/-- The link was reset by a housekeeping reconnect attempt at `now`: the CAUSE (the record the tick
started with, `l`, was timed out at `now` and `should_attempt_reconnect(now)` held) and the effect (attempt
stamped, not connected, phase registering). -/
def HkReset (now : Nat) (l l' : FLink F) : Prop :=
  l.isTimedOut now = true ∧ l.shouldAttemptReconnect now = true ∧
  l'.lastAttemptMs = now ∧ l'.core.connected = false ∧ l'.core.phase = .registering

/-- One link across a housekeeping tick. -/
def HkRel (now : Nat) (l l' : FLink F) : Prop :=
  l'.core.connId = l.core.connId ∧
  ((l'.queue = l.queue ∧ l'.probeCounter = l.probeCounter) ∨
   (l'.queue = [] ∧ l'.probeCounter = 0 ∧ HkReset now l l'))

/-- The record the per-link loop of housekeeping sees: the record the tick started with, or that record
with the start-up grace window re-armed (stage 1: probing completion resets the chosen link's grace). -/
def GraceSame (now : Nat) (l l' : FLink F) : Prop :=
  l' = l ∨ l' = { l with graceDeadline := now + Conn.STARTUP_GRACE_MS }

/-- An attempt the loop makes on the grace-re-armed record is an attempt on the record the tick started
with: a never-established link inside its (re-armed) grace is not attempted at all, and for an
established link neither `is_timed_out` nor `should_attempt_reconnect` reads the grace deadline. -/
theorem attempt_of_grace (l : FLink F) (now : Nat)
    (hto : ({ l with graceDeadline := now + Conn.STARTUP_GRACE_MS } : FLink F).isTimedOut now = true)
    (hsa : ({ l with graceDeadline := now + Conn.STARTUP_GRACE_MS } : FLink F).shouldAttemptReconnect now = true) :
    l.isTimedOut now = true ∧ l.shouldAttemptReconnect now = true := by
  by_cases he : l.established = 0
  · rw [Hk.shouldAttempt_in_grace l now he] at hsa; cases hsa
  · rw [Hk.isTimedOut_grace l _ now he] at hto
    rw [Hk.shouldAttempt_grace l _ now he] at hsa
    exact ⟨hto, hsa⟩

/-- Everything `HkRel` looks at. -/
def hview (l : FLink F) : (Nat × List QItem × Nat) × Nat × Bool × Phase :=
  (dview l, l.lastAttemptMs, l.core.connected, l.core.phase)

def Same (l l' : FLink F) : Prop := hview l' = hview l

theorem HkRel.of_same {now : Nat} {l l' : FLink F} (h : Same l l') : HkRel now l l' := by
  simp only [Same, hview, dview, Prod.mk.injEq] at h
  exact ⟨h.1.1, Or.inl ⟨h.1.2.1, h.1.2.2⟩⟩

theorem HkRel.same_right {now : Nat} {l l' l'' : FLink F} (h : HkRel now l l') (h2 : Same l' l'') :
    HkRel now l l'' := by
  simp only [Same, hview, dview, Prod.mk.injEq] at h2
  obtain ⟨⟨e1, e2, e3⟩, e4, e5, e6⟩ := h2
  obtain ⟨h1, h | h⟩ := h
  · exact ⟨by rw [e1, h1], Or.inl ⟨by rw [e2, h.1], by rw [e3, h.2]⟩⟩
  · exact ⟨by rw [e1, h1], Or.inr ⟨by rw [e2, h.1], by rw [e3, h.2.1], by
      unfold HkReset at *; rw [e4, e5, e6]; exact h.2.2⟩⟩

theorem HkRel.grace_left {now : Nat} {l l' l'' : FLink F} (h2 : GraceSame now l l') (h : HkRel now l' l'') :
    HkRel now l l'' := by
  rcases h2 with rfl | rfl
  · exact h
  · obtain ⟨h1, h | h⟩ := h
    · exact ⟨h1, Or.inl h⟩
    · obtain ⟨a, b, hto, hsa, c⟩ := h
      obtain ⟨hto', hsa'⟩ := attempt_of_grace l now hto hsa
      exact ⟨h1, Or.inr ⟨a, b, hto', hsa', c⟩⟩

theorem Pw.comp {R1 R2 R3 : FLink F → FLink F → Prop} {a b c : List (FLink F)}
    (h1 : Pw R1 a b) (h2 : Pw R2 b c) (h : ∀ x y z, R1 x y → R2 y z → R3 x z) : Pw R3 a c := by
  induction h1 generalizing c with
  | nil => cases h2; exact .nil
  | cons hr _ ih =>
    cases h2 with
    | cons hr2 hp2 => exact .cons (h _ _ _ hr hr2) (ih hp2)

theorem Pw.refl {R : FLink F → FLink F → Prop} (hr : ∀ l, R l l) (ls : List (FLink F)) : Pw R ls ls := by
  induction ls with
  | nil => exact .nil
  | cons l rest ih => exact .cons (hr l) ih

theorem Pw.of_mapIdx {R : FLink F → FLink F → Prop} (f : Nat → FLink F → FLink F) (hf : ∀ j l, R l (f j l))
    (ls : List (FLink F)) : Pw R ls (ls.mapIdx f) := by
  induction ls generalizing f with
  | nil => exact .nil
  | cons l rest ih =>
    rw [List.mapIdx_cons]
    exact .cons (hf 0 l) (ih _ fun j l => hf (j + 1) l)

theorem Pw.of_setAt {R : FLink F → FLink F → Prop} (hr : ∀ l, R l l) (ls : List (FLink F)) (i : Nat)
    (l0 l' : FLink F) (h0 : ls[i]? = some l0) (h : R l0 l') : Pw R ls (setAt ls i l') := by
  unfold setAt
  induction ls generalizing i with
  | nil => exact .nil
  | cons l rest ih =>
    rw [List.mapIdx_cons]
    cases i with
    | zero =>
      simp only [List.getElem?_cons_zero, Option.some.injEq] at h0
      subst h0
      refine .cons (by simpa using h) ?_
      have : (List.mapIdx (fun j x => if j + 1 = 0 then l' else x) rest) = rest := by
        apply List.ext_getElem?; intro j; simp [List.getElem?_mapIdx]
      rw [this]; exact Pw.refl hr rest
    | succ i =>
      simp only [List.getElem?_cons_succ] at h0
      refine .cons (by simpa using hr l) ?_
      have := ih i h0
      simpa using this

theorem keepalivePacket_hview (l : FLink F) (now : Nat) : hview (l.keepalivePacket now).1 = hview l := rfl

theorem updatePhase_dview (l : FLink F) (now : Nat) :
    dview (l.updatePhase now) = dview l ∧ (l.updatePhase now).lastAttemptMs = l.lastAttemptMs := by
  unfold FLink.updatePhase
  dsimp only
  split
  · split <;> exact ⟨rfl, rfl⟩
  · split <;> exact ⟨rfl, rfl⟩
  · split <;> exact ⟨rfl, rfl⟩
  · exact ⟨rfl, rfl⟩

theorem performWindowRecovery_dview (l : FLink F) (now : Nat) :
    dview (l.performWindowRecovery now) = dview l := rfl

theorem recomputeBatchRegime_dview (l : FLink F) : dview l.recomputeBatchRegime = dview l := rfl

theorem HkRel.of_dview {now : Nat} {l l' : FLink F} (h : dview l' = dview l) : HkRel now l l' := by
  simp only [dview, Prod.mk.injEq] at h
  exact ⟨h.1, Or.inl ⟨h.2.1, h.2.2⟩⟩

theorem hk_reset_rel (now : Nat) (l l' : FLink F) (hto : l.isTimedOut now = true)
    (hsa : l.shouldAttemptReconnect now = true) (hq : l'.queue = []) (hp : l'.probeCounter = 0)
    (hc : l'.core.connId = l.core.connId) (ha : l'.lastAttemptMs = now) (hcn : l'.core.connected = false)
    (hph : l'.core.phase = .registering) : HkRel now l l' :=
  ⟨hc, Or.inr ⟨hq, hp, hto, hsa, ha, hcn, hph⟩⟩

theorem recordAttempt_connId (l : FLink F) (now : Nat) : (l.recordAttempt now).core.connId = l.core.connId := by
  unfold FLink.recordAttempt; split <;> rfl

/-- The per-link pass of housekeeping. -/
theorem recordAttempt_lastAttempt (l : FLink F) (now : Nat) : (l.recordAttempt now).lastAttemptMs = now := by
  unfold FLink.recordAttempt; split <;> rfl

theorem hkLinksGo_pw (classic : Bool) (now : Nat) :
    ∀ (ls : List (FLink F)) (i : Nat) (reg : Reg.Reg) (fb : List Nat),
      Pw (HkRel now) ls (hkLinksGo classic now ls i reg fb).1 := by
  intro ls
  induction ls with
  | nil => intro i reg fb; exact .nil
  | cons l rest ih =>
    intro i reg fb
    unfold hkLinksGo
    have hc := recordAttempt_connId l now
    have ha := recordAttempt_lastAttempt l now
    split
    · rename_i hto
      split
      · -- reconnect: `reset_for_reconnect`, or `mark_for_recovery` when the socket re-creation fails
        rename_i hsa
        cases hf : fb.contains l.core.connId <;> simp only [Bool.false_eq_true, if_false, if_true]
        all_goals
          split
          · split
            all_goals
              first
                | exact .cons (hk_reset_rel now l _ hto hsa rfl rfl hc rfl rfl rfl) (ih _ _ _)
                | exact .cons (hk_reset_rel now l _ hto hsa rfl rfl hc ha rfl rfl) (ih _ _ _)
          · first
              | exact .cons (hk_reset_rel now l _ hto hsa rfl rfl hc rfl rfl rfl) (ih _ _ _)
              | exact .cons (hk_reset_rel now l _ hto hsa rfl rfl hc ha rfl rfl) (ih _ _ _)
      · exact .cons (HkRel.of_dview rfl) (ih _ _ _)
    · split
      rename_i l1 w1 h1
      have e1 : dview l1 = dview l := by
        split at h1
        · cases h1; rfl
        · cases h1; rfl
      split
      rename_i l2 w2 h2
      have e2 : dview l2 = dview l1 := by
        split at h2
        · cases h2; rfl
        · cases h2; rfl
      dsimp only
      refine .cons (HkRel.of_dview ?_) (ih _ _ _)
      rw [recomputeBatchRegime_dview, (updatePhase_dview _ _).1, ← e1, ← e2]
      split <;> rfl

theorem Same.trans {a b c : FLink F} (h1 : Same a b) (h2 : Same b c) : Same a c := by
  unfold Same at *; rw [h2, h1]

theorem hk_links (s : Sys F) (now : Nat) :
    (handleHousekeeping s now).1.failNext = s.failNext ∧ (handleHousekeeping s now).1.cfg = s.cfg ∧
    (handleHousekeeping s now).1.lastSelected = s.lastSelected ∧
    Pw (HkRel now) s.links (handleHousekeeping s now).1.links := by
  refine ⟨rfl, rfl, rfl, ?_⟩
  unfold handleHousekeeping
  dsimp only
  generalize hA : (if Reg.isProbing (Reg.clearPendingIfTimedOut s.reg now).fst = true then _ else _) = A
  have hA2 : Pw (GraceSame now) s.links A.2 := by
    rw [← hA]
    split
    · split
      · split
        · exact Pw.of_mapIdx (R := GraceSame now) _
            (fun j l => by split; exact Or.inr rfl; exact Or.inl rfl) _
        · exact Pw.refl (R := GraceSame now) (fun _ => Or.inl rfl) _
      · exact Pw.refl (R := GraceSame now) (fun _ => Or.inl rfl) _
    · exact Pw.refl (R := GraceSame now) (fun _ => Or.inl rfl) _
  clear hA
  generalize hG : hkLinksGo s.cfg.classic now A.2 0 A.1 s.failBind = G
  have hG2 : Pw (HkRel now) A.2 G.1 := by rw [← hG]; exact hkLinksGo_pw _ _ _ _ _ _
  clear hG
  have h02 : Pw (HkRel now) s.links G.1 := hA2.comp hG2 (fun _ _ _ => HkRel.grace_left)
  generalize (Reg.regDriverPendingSends _ now).2 = sends
  have fin : ∀ X, Pw Same G.1 X → Pw (HkRel now) s.links X :=
    fun X h => h02.comp h (fun _ _ _ => HkRel.same_right)
  split
  · dsimp only
    split
    · split
      · dsimp only
        rename_i l hl
        refine fin _ ?_
        refine Pw.comp (R1 := Same) (R2 := Same) ?_ (Pw.of_map (R := Same) _ ?_ _) (fun _ _ _ => Same.trans)
        · exact Pw.of_setAt (R := Same) (fun _ => rfl) _ _ l _ hl rfl
        · intro l; rfl
      · refine fin _ ?_
        apply Pw.of_map (R := Same); intro l; rfl
    · refine fin _ ?_
      apply Pw.of_map (R := Same); intro l; rfl
  · dsimp only
    split
    · split
      · rename_i l hl
        exact fin _ (Pw.of_setAt (R := Same) (fun _ => rfl) _ _ l _ hl rfl)
      · exact fin _ (Pw.refl (R := Same) (fun _ => rfl) _)
    · exact fin _ (Pw.refl (R := Same) (fun _ => rfl) _)

end Srtla.Sys
