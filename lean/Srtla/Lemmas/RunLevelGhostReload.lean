import Srtla.Lemmas.RunLevelGhost
import Srtla.Props.SysReload
/-!
# C01 over a run WITH reloads: the ghost follows the index renaming a reload induces

`Lemmas/RunLevelGhost.lean` mirrors the links by INDEX (`bins[i]` belongs to `links[i]`), which is only sound
between two reloads.  Here the instrumented run `runR` carries the renaming a reload induces instead of
re-keying everything by conn id: at `Ev.reload now addrs outs` the bins are walked next to the links with the
very predicate of `retained` (`addrs.contains l.addr`):

* the bins of a RETAINED link move with it to its new index (`keepBins`, same order as `retained`);
* the bins of a REMOVED link are retired into the graveyard `gone`, stamped with the index of the reload event
  and the link's conn id; whatever was still queued on it is filed under `lost` with that event index (`retire`):
  the new, recorded discard cause "queued on an uplink that a reload removed";
* every CREATED link gets empty bins.

Every other event is `stepG` of `RunLevelGhost.lean`, unchanged.  `RInv` (the state invariant: alignment, `BinOk`
of every current and every retired bin, exactly one unique copy per accepted tag among current ∪ retired ∪
dropped) and `HInv` (the invariant against the history: the wire bins ARE the real data-path output per conn id,
every `lost` entry names its event and cause) are preserved by EVERY event, reloads included, under the one
hypothesis `FreshRun` (the conn ids a reload draws are new among the present links; `Props/SysReload.lean`).
-/
namespace Srtla.Sys.Ghost
open Srtla Srtla.Gen Srtla.Conn Srtla.Select Srtla.Rtt Srtla.Link Srtla.Sys Scalar
open Srtla.Props.SysReload

set_option linter.unusedSectionVars false

variable {F : Type} [Scalar F]

/-! ## Ghost state with a graveyard -/

/-- The bins of an uplink a reload removed: `k` = index of the reload event, `cid` = the link's conn id. -/
structure Gone where
  k : Nat
  cid : Nat
  bins : Bins
deriving DecidableEq, Repr

/-- Instrumented state of a run with reloads: the ghost of `RunLevelGhost.lean` plus the retired bins. -/
structure GR (F : Type) where
  g : G F
  gone : List Gone := []

/-- Retire the bins of a removed link: what is still queued is discarded WITH the link, at event `k`. -/
def retire (k : Nat) (b : Bins) : Bins :=
  { b with queued := [], lost := b.lost ++ b.queued.map fun x => (k, x) }

/-- The bins of the retained links, in the order of `retained` (the index renaming of a reload). -/
def keepBins (addrs : List Nat) : List Bins → List (FLink F) → List Bins
  | b :: bs, l :: ls => if addrs.contains l.addr then b :: keepBins addrs bs ls else keepBins addrs bs ls
  | _, _ => []

/-- The retired bins of the removed links. -/
def goneBins (addrs : List Nat) (k : Nat) : List Bins → List (FLink F) → List Gone
  | b :: bs, l :: ls =>
    if addrs.contains l.addr then goneBins addrs k bs ls
    else ⟨k, l.core.connId, retire k b⟩ :: goneBins addrs k bs ls
  | _, _ => []

/-- The reload event on the instrumented state. -/
def reloadR (r : GR F) (now : Nat) (addrs : List Nat) (outs : List (Option Nat)) : GR F :=
  { g := { r.g with
      sys := (step r.g.sys (.reload now addrs outs)).1
      clock := r.g.clock + 1
      bins := keepBins addrs r.g.bins r.g.sys.links ++
        (createConnections now (neededAddrs r.g.sys.links addrs) outs : List (FLink F)).map fun _ => ({} : Bins) }
    gone := r.gone ++ goneBins addrs r.g.clock r.g.bins r.g.sys.links }

/-- One event on the instrumented state.  The real component is `Sys.step` in every case. -/
def stepR (r : GR F) : Ev → GR F
  | .reload now addrs outs => reloadR r now addrs outs
  | ev => { g := stepG r.g ev, gone := r.gone }

/-- The instrumented run. -/
def runR (r : GR F) : List Ev → GR F
  | [] => r
  | ev :: evs => runR (stepR r ev) evs

/-- The initial instrumented state: `ginit`, nothing retired. -/
def rinit (s : Sys F) : GR F := { g := ginit s }

theorem stepR_of_noReload (r : GR F) (ev : Ev) (hnr : ev.isReload = false) :
    stepR r ev = { g := stepG r.g ev, gone := r.gone } := by
  cases ev <;> first | rfl | cases hnr

theorem stepR_sys (r : GR F) (ev : Ev) : (stepR r ev).g.sys = (step r.g.sys ev).1 := by
  cases ev <;> rfl

theorem stepR_clock (r : GR F) (ev : Ev) : (stepR r ev).g.clock = r.g.clock + 1 := by
  cases ev <;> rfl

theorem runR_sys (r : GR F) (evs : List Ev) : (runR r evs).g.sys = (run r.g.sys evs).1 := by
  induction evs generalizing r with
  | nil => rfl
  | cons ev evs ih => simp only [runR, run]; rw [ih, stepR_sys]

/-! ## Lists walked in step: bins next to links -/

theorem mem_zip_iff_get {α β : Type} (as : List α) (bs : List β) (a : α) (b : β) :
    (a, b) ∈ as.zip bs ↔ ∃ i : Nat, as[i]? = some a ∧ bs[i]? = some b := by
  induction as generalizing bs with
  | nil => simp
  | cons x xs ih =>
    cases bs with
    | nil => simp
    | cons y ys =>
      simp only [List.zip_cons_cons, List.mem_cons, Prod.mk.injEq, ih]
      constructor
      · rintro (⟨rfl, rfl⟩ | ⟨i, h1, h2⟩)
        · exact ⟨0, rfl, rfl⟩
        · exact ⟨i + 1, by simpa using h1, by simpa using h2⟩
      · rintro ⟨i, h1, h2⟩
        cases i with
        | zero =>
          simp only [List.getElem?_cons_zero, Option.some.injEq] at h1 h2
          exact .inl ⟨h1.symm, h2.symm⟩
        | succ i => exact .inr ⟨i, by simpa using h1, by simpa using h2⟩

theorem keepBins_length (addrs : List Nat) (bs : List Bins) (ls : List (FLink F)) (h : bs.length = ls.length) :
    (keepBins addrs bs ls).length = (retained ls addrs).length := by
  induction bs generalizing ls with
  | nil =>
    cases ls with
    | nil => rfl
    | cons l ls => simp at h
  | cons b bs ih =>
    cases ls with
    | nil => simp at h
    | cons l ls =>
      have h' : bs.length = ls.length := by simpa using h
      have := ih ls h'
      unfold retained at this ⊢
      unfold keepBins
      rw [List.filter_cons]
      split <;> simp [this]

/-- The renaming is faithful: a (bins, link) pair after the walk is a pair before it. -/
theorem zip_keepBins (addrs : List Nat) (bs : List Bins) (ls : List (FLink F)) (b : Bins) (l : FLink F)
    (h : (b, l) ∈ (keepBins addrs bs ls).zip (retained ls addrs)) : (b, l) ∈ bs.zip ls := by
  induction bs generalizing ls with
  | nil => simp [keepBins] at h
  | cons b0 bs ih =>
    cases ls with
    | nil => simp [keepBins] at h
    | cons l0 ls =>
      unfold keepBins at h
      unfold retained at h ih
      rw [List.filter_cons] at h
      rw [List.zip_cons_cons, List.mem_cons]
      split at h
      · rename_i hc
        rw [List.zip_cons_cons, List.mem_cons] at h
        rcases h with h | h
        · exact .inl h
        · exact .inr (ih ls h)
      · exact .inr (ih ls h)

theorem mem_goneBins {addrs : List Nat} {k : Nat} {bs : List Bins} {ls : List (FLink F)} {e : Gone}
    (h : e ∈ goneBins addrs k bs ls) :
    ∃ b l, (b, l) ∈ bs.zip ls ∧ addrs.contains l.addr = false ∧ e = ⟨k, l.core.connId, retire k b⟩ := by
  induction bs generalizing ls with
  | nil => simp [goneBins] at h
  | cons b0 bs ih =>
    cases ls with
    | nil => simp [goneBins] at h
    | cons l0 ls =>
      unfold goneBins at h
      split at h
      · obtain ⟨b, l, h1, h2, h3⟩ := ih h
        exact ⟨b, l, by rw [List.zip_cons_cons]; exact List.mem_cons_of_mem _ h1, h2, h3⟩
      · rename_i hc
        rcases List.mem_cons.1 h with rfl | h
        · exact ⟨b0, l0, by rw [List.zip_cons_cons]; exact List.mem_cons_self, by simpa using hc, rfl⟩
        · obtain ⟨b, l, h1, h2, h3⟩ := ih h
          exact ⟨b, l, by rw [List.zip_cons_cons]; exact List.mem_cons_of_mem _ h1, h2, h3⟩

/-- Nothing is lost in the walk: a count that `retire` does not change, summed over the kept and the retired
bins, is the sum over all bins. -/
theorem sum_keep_gone (c : Bins → Nat) (addrs : List Nat) (k : Nat) (hc : ∀ b, c (retire k b) = c b)
    (bs : List Bins) (ls : List (FLink F)) (h : bs.length = ls.length) :
    ((keepBins addrs bs ls).map c).sum + ((goneBins addrs k bs ls).map fun e => c e.bins).sum = (bs.map c).sum := by
  induction bs generalizing ls with
  | nil => simp [keepBins, goneBins]
  | cons b bs ih =>
    cases ls with
    | nil => simp at h
    | cons l ls =>
      have h' : bs.length = ls.length := by simpa using h
      have := ih ls h'
      unfold keepBins goneBins
      split
      · simp only [List.map_cons, List.sum_cons]; omega
      · simp only [List.map_cons, List.sum_cons, hc]; omega

/-! ## `BinOk` of retired, empty and older bins -/

theorem retire_all_mem (k : Nat) (b : Bins) (x : GItem) : x ∈ (retire k b).all ↔ x ∈ b.all := by
  simp only [retire, Bins.all, List.append_nil, List.map_append, map_snd_pair, List.mem_append]
  constructor
  · rintro (h | h | h)
    · exact .inl (.inl h)
    · exact .inr h
    · exact .inl (.inr h)
  · rintro ((h | h) | h)
    · exact .inl h
    · exact .inr (.inr h)
    · exact .inr (.inl h)

theorem retire_all_count (k : Nat) (b : Bins) (p : GItem → Bool) : (retire k b).all.countP p = b.all.countP p := by
  simp only [retire, Bins.all, List.append_nil, List.map_append, map_snd_pair, List.countP_append]
  omega

theorem BinOk.retire {next : Nat} {acc : List (Nat × Bytes)} {b : Bins} (h : BinOk next acc b) (k : Nat) :
    BinOk next acc (retire k b) := by
  refine ⟨fun x hx => h.fresh x ((retire_all_mem k b x).1 hx), ?_,
    fun x hx => h.bytes x ((retire_all_mem k b x).1 hx), fun x hx => h.probe x ((retire_all_mem k b x).1 hx),
    fun x hx => h.unique x ((retire_all_mem k b x).1 hx)⟩
  show (b.wire ++ []).Pairwise _
  rw [List.append_nil]
  exact (List.pairwise_append.1 h.sorted).1

theorem BinOk.mono {next next' : Nat} {acc acc' : List (Nat × Bytes)} {b : Bins} (h : BinOk next acc b)
    (hn : next ≤ next') (ha : ∀ x ∈ acc, x ∈ acc') : BinOk next' acc' b :=
  ⟨fun x hx => Nat.lt_of_lt_of_le (h.fresh x hx) hn, h.sorted, fun x hx => ha _ (h.bytes x hx), h.probe, h.unique⟩

theorem BinOk.empty (next : Nat) (acc : List (Nat × Bytes)) : BinOk next acc {} :=
  ⟨fun x hx => by simp [Bins.all] at hx, by simp, fun x hx => by simp [Bins.all] at hx,
   fun x hx => by simp [Bins.all] at hx, fun x hx => by simp [Bins.all] at hx⟩

/-! ## The state invariant -/

/-- Unique copies of tag `t` in the retired bins. -/
def gcount (t : Nat) (gone : List Gone) : Nat := (gone.map fun e => e.bins.all.countP (isU t)).sum

/-- Number of unique copies of tag `t` among wire ∪ queued ∪ lost of all CURRENT links, wire ∪ lost of all
REMOVED links (their queue went to `lost` with them), plus dropped. -/
def ucountR (t : Nat) (r : GR F) : Nat := ucount t r.g + gcount t r.gone

/-- The ghost invariant of runs with reloads. -/
structure RInv (r : GR F) : Prop where
  inv : Inv r.g.sys
  len : r.g.bins.length = r.g.sys.links.length
  aligned : ∀ (i : Nat) (b : Bins), r.g.bins[i]? = some b → b.queued.map (·.item) = queueOf r.g.sys i
  ok : ∀ (i : Nat) (b : Bins), r.g.bins[i]? = some b → BinOk r.g.next r.g.accepted b
  /-- a retired bin satisfies the same conditions and holds nothing queued -/
  okGone : ∀ e ∈ r.gone, BinOk r.g.next r.g.accepted e.bins ∧ e.bins.queued = []
  acc : r.g.accepted.map (·.1) = List.range r.g.next
  /-- **exactly one unique copy per accepted tag** among current ∪ retired ∪ dropped -/
  once : ∀ t, t < r.g.next → ucountR t r = 1
  dropped : ∀ x ∈ r.g.dropped, x ∈ r.g.accepted

theorem rinit_inv (s : Sys F) (h : Inv s) : RInv (rinit s) := by
  have hg := ginit_inv s h
  exact ⟨hg.inv, hg.len, hg.aligned, hg.ok, fun e he => (by cases he), hg.acc,
    fun t ht => (by show ucount t (ginit s) + 0 = 1; rw [hg.once t ht]), hg.dropped⟩

theorem ucount_zero_of_fresh (g : G F) (t : Nat) (hb : ∀ b ∈ g.bins, ∀ x ∈ b.all, x.tag < t)
    (hd : ∀ x ∈ g.dropped, x.1 < t) : ucount t g = 0 := by
  unfold ucount
  have h1 : (g.bins.map fun b => b.all.countP (isU t)) = g.bins.map fun _ => 0 := by
    apply List.map_congr_left
    intro b hb'
    rw [List.countP_eq_zero]
    intro x hx
    have := hb b hb' x hx
    simp only [isU, Bool.and_eq_true, beq_iff_eq, not_and]
    intro h; omega
  have h2 : g.dropped.countP (·.1 == t) = 0 := by
    rw [List.countP_eq_zero]
    intro x hx
    have := hd x hx
    simp only [beq_iff_eq]; omega
  rw [h1, h2, sum_map_zero]

theorem gcount_zero_of_fresh (gone : List Gone) (t : Nat) (hb : ∀ e ∈ gone, ∀ x ∈ e.bins.all, x.tag < t) :
    gcount t gone = 0 := by
  unfold gcount
  have h1 : (gone.map fun e => e.bins.all.countP (isU t)) = gone.map fun _ => 0 := by
    apply List.map_congr_left
    intro e he
    rw [List.countP_eq_zero]
    intro x hx
    have := hb e he x hx
    simp only [isU, Bool.and_eq_true, beq_iff_eq, not_and]
    intro h; omega
  rw [h1, sum_map_zero]

/-- **The invariant is preserved by every event that keeps the link set** (the proof of `GInv.step`, with the
retired bins carried along). -/
theorem RInv.step_noReload {r : GR F} (h : RInv r) (ev : Ev) (hnr : ev.isReload = false) : RInv (stepR r ev) := by
  rw [stepR_of_noReload r ev hnr]
  have hlen' : (stepG r.g ev).bins.length = (stepG r.g ev).sys.links.length := by
    simp only [stepG, List.length_mapIdx]
    rw [h.len, (step_link r.g.sys ev h.inv.nodup hnr).1]
  have hsub : ∀ x ∈ r.g.accepted, x ∈ (stepG r.g ev).accepted := fun x hx => by
    simp only [stepG]; exact List.mem_append_left _ hx
  have hnext : (stepG r.g ev).next = r.g.next + (newAcc r.g.next ev).length := rfl
  refine ⟨h.inv.step ev hnr, hlen', ?_, ?_, ?_, ?_, ?_, ?_⟩
  · intro i b' hb'
    rw [stepG_bins_get] at hb'
    cases hb : r.g.bins[i]? with
    | none => rw [hb] at hb'; cases hb'
    | some b =>
      rw [hb] at hb'; simp only [Option.map_some, Option.some.injEq] at hb'
      have hi : i < r.g.sys.links.length := by
        rw [← h.len]; exact (List.getElem?_eq_some_iff.1 hb).1
      have hl : r.g.sys.links[i]? = some r.g.sys.links[i] := List.getElem?_eq_getElem hi
      obtain ⟨l', g1, -, hc⟩ := stepBins_cases r.g.sys ev h.inv.nodup hnr r.g.clock r.g.next i _ b hl
      have hal := h.aligned i b hb
      rw [queueOf_of_get hl] at hal
      show b'.queued.map (·.item) = queueOf (Sys.step r.g.sys ev).1 i
      rw [queueOf_of_get g1, ← hb']
      rcases hc with ⟨e, q, -⟩ | ⟨e, q, -⟩ | ⟨n, e, q, -⟩
      · rw [e, q, List.map_append, hal, newCopies_items]
      · rw [e, q]; rfl
      · rw [e, q]; rfl
  · intro i b' hb'
    rw [stepG_bins_get] at hb'
    cases hb : r.g.bins[i]? with
    | none => rw [hb] at hb'; cases hb'
    | some b =>
      rw [hb] at hb'; simp only [Option.map_some, Option.some.injEq] at hb'
      rw [← hb']
      exact (h.ok i b hb).step r.g.sys ev r.g.clock i
  · intro e he
    exact ⟨(h.okGone e he).1.mono (by rw [hnext]; omega) hsub, (h.okGone e he).2⟩
  · simp only [stepG, List.map_append, h.acc]
    rcases newAcc_cases r.g.next ev with ⟨-, e⟩ | ⟨pkt, -, e⟩
    · rw [e]; simp
    · rw [e]; simp [List.range_succ]
  · intro t ht
    show ucount t (stepG r.g ev) + gcount t r.gone = 1
    rw [ucount_step r.g h.len ev t]
    rw [hnext] at ht
    by_cases hlt : t < r.g.next
    · have := h.once t hlt
      unfold ucountR at this
      rw [if_neg (by omega)]; omega
    · have hnew : (newAcc r.g.next ev).length = 1 ∧ (accepts ev).isSome = true := by
        rcases newAcc_cases r.g.next ev with ⟨-, e⟩ | ⟨pkt, e1, e⟩
        · rw [e] at ht; simp at ht; omega
        · rw [e, e1]; simp
      have ht' : r.g.next = t := by omega
      have h0 : ucount t r.g = 0 := by
        apply ucount_zero_of_fresh
        · intro b hb x hx
          obtain ⟨i, hi, hget⟩ := List.getElem_of_mem hb
          have := (h.ok i b (by rw [List.getElem?_eq_getElem hi, hget])).fresh x hx
          omega
        · intro x hx
          have hm : x.1 ∈ r.g.accepted.map (·.1) := List.mem_map.2 ⟨x, h.dropped x hx, rfl⟩
          rw [h.acc, List.mem_range] at hm
          omega
      have h1 : gcount t r.gone = 0 := by
        apply gcount_zero_of_fresh
        intro e he x hx
        have := (h.okGone e he).1.fresh x hx
        omega
      rw [h0, h1, if_pos ⟨ht', hnew.2⟩]
  · intro x hx
    simp only [stepG, List.mem_append] at hx ⊢
    rcases hx with hx | hx
    · exact Or.inl (h.dropped x hx)
    · split at hx
      · exact Or.inr hx
      · cases hx

/-- The (bins, link) pairs after a reload: renamed old pairs of retained links, or empty bins next to a
freshly created link. -/
theorem reloadR_pairs (r : GR F) (hlen : r.g.bins.length = r.g.sys.links.length) (now : Nat) (addrs : List Nat)
    (outs : List (Option Nat)) (b : Bins) (l : FLink F)
    (h : (b, l) ∈ (reloadR r now addrs outs).g.bins.zip (reloadR r now addrs outs).g.sys.links) :
    ((b, l) ∈ r.g.bins.zip r.g.sys.links ∧ addrs.contains l.addr = true) ∨
    (b = {} ∧ ∃ id a, l = FLink.newUplink id a now) := by
  have h' : (b, l) ∈ (keepBins addrs r.g.bins r.g.sys.links ++
      (createConnections now (neededAddrs r.g.sys.links addrs) outs : List (FLink F)).map fun _ => ({} : Bins)).zip
      (retained r.g.sys.links addrs ++ createConnections now (neededAddrs r.g.sys.links addrs) outs) := h
  rw [List.zip_append (keepBins_length addrs _ _ hlen), List.mem_append] at h'
  rcases h' with h' | h'
  · have hm : l ∈ retained r.g.sys.links addrs := (List.of_mem_zip h').2
    exact .inl ⟨zip_keepBins addrs _ _ b l h', (mem_retained.1 hm).2⟩
  · obtain ⟨i, h1, h2⟩ := (mem_zip_iff_get _ _ _ _).1 h'
    rw [List.getElem?_map] at h1
    rw [h2] at h1
    simp only [Option.map_some, Option.some.injEq] at h1
    obtain ⟨id, a, -, -, e⟩ := mem_createConnections (List.mem_of_getElem? h2)
    exact .inr ⟨h1.symm, id, a, e⟩

theorem reloadR_len (r : GR F) (hlen : r.g.bins.length = r.g.sys.links.length) (now : Nat) (addrs : List Nat)
    (outs : List (Option Nat)) :
    (reloadR r now addrs outs).g.bins.length = (reloadR r now addrs outs).g.sys.links.length := by
  show (keepBins addrs r.g.bins r.g.sys.links ++ _).length =
    (retained r.g.sys.links addrs ++ createConnections now (neededAddrs r.g.sys.links addrs) outs).length
  rw [List.length_append, List.length_append, keepBins_length addrs _ _ hlen, List.length_map]

/-- **The invariant is preserved by a reload**, if the drawn conn ids are new. -/
theorem RInv.step_reload {r : GR F} (h : RInv r) (now : Nat) (addrs : List Nat) (outs : List (Option Nat))
    (hf : FreshOuts r.g.sys.links outs) : RInv (stepR r (.reload now addrs outs)) := by
  show RInv (reloadR r now addrs outs)
  have hlen' := reloadR_len r h.len now addrs outs
  have hpair : ∀ (i : Nat) (b : Bins), (reloadR r now addrs outs).g.bins[i]? = some b →
      ∃ l, (reloadR r now addrs outs).g.sys.links[i]? = some l ∧
        (((b, l) ∈ r.g.bins.zip r.g.sys.links ∧ addrs.contains l.addr = true) ∨
          (b = {} ∧ ∃ id a, l = FLink.newUplink id a now)) := by
    intro i b hb
    have hi : i < (reloadR r now addrs outs).g.sys.links.length := by
      rw [← hlen']; exact (List.getElem?_eq_some_iff.1 hb).1
    refine ⟨_, List.getElem?_eq_getElem hi, ?_⟩
    exact reloadR_pairs r h.len now addrs outs b _
      ((mem_zip_iff_get _ _ _ _).2 ⟨i, hb, List.getElem?_eq_getElem hi⟩)
  refine ⟨Inv_step_reload r.g.sys h.inv now addrs outs hf, hlen', ?_, ?_, ?_, h.acc, ?_, h.dropped⟩
  · intro i b hb
    obtain ⟨l, hl, hc⟩ := hpair i b hb
    rw [queueOf_of_get hl]
    rcases hc with ⟨hz, -⟩ | ⟨rfl, id, a, rfl⟩
    · obtain ⟨j, h1, h2⟩ := (mem_zip_iff_get _ _ _ _).1 hz
      rw [h.aligned j b h1, queueOf_of_get h2]
    · rfl
  · intro i b hb
    obtain ⟨l, -, hc⟩ := hpair i b hb
    rcases hc with ⟨hz, -⟩ | ⟨rfl, -⟩
    · obtain ⟨j, h1, -⟩ := (mem_zip_iff_get _ _ _ _).1 hz
      exact h.ok j b h1
    · exact BinOk.empty _ _
  · intro e he
    have he' : e ∈ r.gone ++ goneBins addrs r.g.clock r.g.bins r.g.sys.links := he
    rcases List.mem_append.1 he' with he' | he'
    · exact h.okGone e he'
    · obtain ⟨b, l, hz, -, rfl⟩ := mem_goneBins he'
      obtain ⟨j, h1, -⟩ := (mem_zip_iff_get _ _ _ _).1 hz
      exact ⟨(h.ok j b h1).retire _, rfl⟩
  · intro t ht
    have := h.once t ht
    unfold ucountR ucount gcount at this ⊢
    show (((keepBins addrs r.g.bins r.g.sys.links ++
        (createConnections now (neededAddrs r.g.sys.links addrs) outs : List (FLink F)).map
          fun _ => ({} : Bins)).map fun b => b.all.countP (isU t)).sum + r.g.dropped.countP (·.1 == t)) +
      ((r.gone ++ goneBins addrs r.g.clock r.g.bins r.g.sys.links).map fun e => e.bins.all.countP (isU t)).sum = 1
    have hsplit := sum_keep_gone (fun b => b.all.countP (isU t)) addrs r.g.clock
      (fun b => retire_all_count _ b _) r.g.bins r.g.sys.links h.len
    have hz : (((createConnections now (neededAddrs r.g.sys.links addrs) outs : List (FLink F)).map
        fun _ => ({} : Bins)).map fun b => b.all.countP (isU t)).sum = 0 := by
      rw [List.map_map]
      exact sum_map_zero _
    rw [List.map_append, List.sum_append, List.map_append, List.sum_append, hz]
    omega

/-- What `FreshRun` asks of one event. -/
def FreshEv (s : Sys F) (ev : Ev) : Prop := ∀ now addrs outs, ev = .reload now addrs outs → FreshOuts s.links outs

/-- **The invariant is preserved by EVERY event**, reloads included. -/
theorem RInv.step {r : GR F} (h : RInv r) (ev : Ev) (hf : FreshEv r.g.sys ev) : RInv (stepR r ev) := by
  cases hnr : ev.isReload with
  | false => exact h.step_noReload ev hnr
  | true =>
    cases ev with
    | reload now addrs outs => exact h.step_reload now addrs outs (hf now addrs outs rfl)
    | _ => cases hnr

theorem RInv.run {r : GR F} (h : RInv r) (evs : List Ev) (hf : FreshRun r.g.sys evs) : RInv (runR r evs) := by
  induction evs generalizing r with
  | nil => exact h
  | cons ev evs ih =>
    have := hf.2
    rw [← stepR_sys] at this
    exact ih (h.step ev hf.1) this

/-! ## The ghost against the history of the run: wire bins per conn id, `lost` entries with their cause -/

theorem run_append_fst (s : Sys F) (a b : List Ev) : (run s (a ++ b)).1 = (run (run s a).1 b).1 := by
  induction a generalizing s with
  | nil => rfl
  | cons e es ih => simp only [List.cons_append, run]; exact ih _

/-- **Wire log of a conn id** over a run, read off the real run alone (no ghost): the data-path datagrams the
events put on the socket of conn id `c` while `c` names a link PRESENT in the state the event starts from. -/
def wireLogId (s : Sys F) : List Ev → Nat → List Bytes
  | [], _ => []
  | ev :: evs, c =>
    (if c ∈ ids s.links then dataWire ev (step s ev).2 c else []) ++ wireLogId (step s ev).1 evs c

theorem wireLogId_append (s : Sys F) (a b : List Ev) (c : Nat) :
    wireLogId s (a ++ b) c = wireLogId s a c ++ wireLogId (run s a).1 b c := by
  induction a generalizing s with
  | nil => rfl
  | cons e es ih => simp only [List.cons_append, wireLogId, run, ih, List.append_assoc]

/-- The wire bins (as bytes) of the current links that carry conn id `c`. -/
def wcur (c : Nat) : List Bins → List (FLink F) → List Bytes
  | b :: bs, l :: ls => (if l.core.connId = c then b.wire.map (·.bytes) else []) ++ wcur c bs ls
  | _, _ => []

/-- The wire bins (as bytes) of the removed links that carried conn id `c`, in removal order. -/
def wgone (c : Nat) : List Gone → List Bytes
  | [] => []
  | e :: es => (if e.cid = c then e.bins.wire.map (·.bytes) else []) ++ wgone c es

/-- Everything the ghost filed under `wire` for conn id `c`: removed links first (removal order), then the
current link with that id (there is at most one: conn ids are pairwise distinct). -/
def wireOfId (c : Nat) (r : GR F) : List Bytes := wgone c r.gone ++ wcur c r.g.bins r.g.sys.links

theorem wgone_append (c : Nat) (a b : List Gone) : wgone c (a ++ b) = wgone c a ++ wgone c b := by
  induction a with
  | nil => rfl
  | cons e es ih => simp only [List.cons_append, wgone, ih, List.append_assoc]

theorem wcur_append (c : Nat) (as bs : List Bins) (ls ms : List (FLink F)) (h : as.length = ls.length) :
    wcur c (as ++ bs) (ls ++ ms) = wcur c as ls ++ wcur c bs ms := by
  induction as generalizing ls with
  | nil =>
    cases ls with
    | nil => simp [wcur]
    | cons l ls => simp at h
  | cons a as ih =>
    cases ls with
    | nil => simp at h
    | cons l ls =>
      simp only [List.cons_append, wcur, List.append_assoc]
      rw [ih ls (by simpa using h)]

theorem wcur_nil_of_not_mem (c : Nat) (bs : List Bins) (ls : List (FLink F)) (h : c ∉ ids ls) : wcur c bs ls = [] := by
  induction bs generalizing ls with
  | nil => simp [wcur]
  | cons b bs ih =>
    cases ls with
    | nil => simp [wcur]
    | cons l ls =>
      have h1 : l.core.connId ≠ c := fun e => h (by rw [← e]; exact List.mem_cons_self)
      have h2 : c ∉ ids ls := fun e => h (List.mem_cons_of_mem _ e)
      simp only [wcur, if_neg h1, List.nil_append]
      exact ih ls h2

theorem wcur_nil_of_wire_nil (c : Nat) (bs : List Bins) (ls : List (FLink F)) (h : ∀ b ∈ bs, b.wire = []) :
    wcur c bs ls = [] := by
  induction bs generalizing ls with
  | nil => simp [wcur]
  | cons b bs ih =>
    cases ls with
    | nil => simp [wcur]
    | cons l ls =>
      simp only [wcur, h b List.mem_cons_self, List.map_nil, ite_self, List.nil_append]
      exact ih ls fun x hx => h x (List.mem_cons_of_mem _ hx)

theorem wgone_goneBins_nil (c : Nat) (addrs : List Nat) (k : Nat) (bs : List Bins) (ls : List (FLink F))
    (h : c ∉ ids ls) : wgone c (goneBins addrs k bs ls) = [] := by
  induction bs generalizing ls with
  | nil => simp [goneBins, wgone]
  | cons b bs ih =>
    cases ls with
    | nil => simp [goneBins, wgone]
    | cons l ls =>
      have h1 : l.core.connId ≠ c := fun e => h (by rw [← e]; exact List.mem_cons_self)
      have h2 : c ∉ ids ls := fun e => h (List.mem_cons_of_mem _ e)
      unfold goneBins
      split
      · exact ih ls h2
      · simp only [wgone, if_neg h1, List.nil_append]
        exact ih ls h2

/-- The wire bins are only re-filed by a reload: retired then kept = what the links held before. -/
theorem wcur_split (c : Nat) (addrs : List Nat) (k : Nat) (bs : List Bins) (ls : List (FLink F))
    (hnd : (ids ls).Nodup) :
    wgone c (goneBins addrs k bs ls) ++ wcur c (keepBins addrs bs ls) (retained ls addrs) = wcur c bs ls := by
  induction bs generalizing ls with
  | nil => simp [goneBins, keepBins, wgone, wcur]
  | cons b bs ih =>
    cases ls with
    | nil => simp [goneBins, keepBins, wgone, wcur]
    | cons l ls =>
      have hnd' : l.core.connId ∉ ids ls ∧ (ids ls).Nodup := List.nodup_cons.1 hnd
      have := ih ls hnd'.2
      have hret : retained (l :: ls) addrs =
          if addrs.contains l.addr = true then l :: retained ls addrs else retained ls addrs := by
        unfold retained; rw [List.filter_cons]
      rw [hret]
      unfold goneBins keepBins
      split
      · rename_i hc
        simp only [wcur]
        by_cases hid : l.core.connId = c
        · have hnot : c ∉ ids ls := by rw [← hid]; exact hnd'.1
          rw [wgone_goneBins_nil c addrs k bs ls hnot, wcur_nil_of_not_mem c bs ls hnot,
            wcur_nil_of_not_mem c _ _ (fun hm => hnot ((retained_sublist ls addrs).map _ |>.subset hm))]
          simp
        · rw [if_neg hid, List.nil_append, List.nil_append]; exact this
      · simp only [wgone, wcur, retire, List.append_assoc]
        rw [this]

/-- One event that keeps the link set: every wire bin grows by exactly what the event put on its link's
socket; summed per conn id. -/
theorem wcur_step (c : Nat) (d : Nat → List Bytes) (bs bs' : List Bins) (ls ls' : List (FLink F))
    (hl1 : bs.length = ls.length) (hl2 : bs'.length = bs.length) (hl3 : ls'.length = ls.length)
    (hnd : (ids ls).Nodup)
    (h : ∀ (i : Nat) (b : Bins) (l : FLink F), bs[i]? = some b → ls[i]? = some l → ∃ b' l', bs'[i]? = some b' ∧
      ls'[i]? = some l' ∧ l'.core.connId = l.core.connId ∧
      b'.wire.map (·.bytes) = b.wire.map (·.bytes) ++ d l.core.connId) :
    wcur c bs' ls' = wcur c bs ls ++ (if c ∈ ids ls then d c else []) := by
  induction bs generalizing bs' ls ls' with
  | nil =>
    cases ls with
    | nil =>
      cases bs' with
      | nil => simp [wcur, ids]
      | cons _ _ => simp at hl2
    | cons _ _ => simp at hl1
  | cons b bs ih =>
    cases ls with
    | nil => simp at hl1
    | cons l ls =>
      cases bs' with
      | nil => simp at hl2
      | cons b' bs' =>
        cases ls' with
        | nil => simp at hl3
        | cons l' ls' =>
          have hnd' : l.core.connId ∉ ids ls ∧ (ids ls).Nodup := List.nodup_cons.1 hnd
          obtain ⟨b0, l0, e1, e2, e3, e4⟩ := h 0 b l rfl rfl
          simp only [List.getElem?_cons_zero, Option.some.injEq] at e1 e2
          subst e1 e2
          have ihh := ih bs' ls ls' (by simpa using hl1) (by simpa using hl2) (by simpa using hl3) hnd'.2
            (fun i b l hb hl => by
              obtain ⟨b1, l1, q1, q2, q3, q4⟩ := h (i + 1) b l (by simpa using hb) (by simpa using hl)
              exact ⟨b1, l1, by simpa using q1, by simpa using q2, q3, q4⟩)
          have hids : ids (l :: ls) = l.core.connId :: ids ls := rfl
          simp only [wcur, e3, e4, hids, List.mem_cons]
          by_cases hid : l.core.connId = c
          · have hnot : c ∉ ids ls := by rw [← hid]; exact hnd'.1
            rw [ihh, if_neg hnot, wcur_nil_of_not_mem c bs ls hnot, if_pos hid, if_pos (Or.inl hid.symm), hid]
            simp
          · have : (c = l.core.connId ∨ c ∈ ids ls) ↔ c ∈ ids ls :=
              ⟨fun h => h.elim (fun e => absurd e.symm hid) id, Or.inr⟩
            rw [ihh]
            simp only [if_neg hid, this, List.nil_append]

/-- **Why an entry sits in a `lost` bin.**  `kx = (k, x)` filed for the link with conn id `cid`: `evs[k]` exists
and, applied to the state `sk` the run had reached after its first `k` events, either discarded the queue of the
link that carried `cid` (at whatever index `j` it had then) for one of the four admissible reasons of
`LossCause`, or is a RELOAD whose address list no longer names that link — the link was removed and `x` was
queued on it (the additional recorded cause). -/
def LostOk (s0 : Sys F) (evs : List Ev) (cid : Nat) (kx : Nat × GItem) : Prop :=
  ∃ ev, evs[kx.1]? = some ev ∧
    ((∃ j l l', (run s0 (evs.take kx.1)).1.links[j]? = some l ∧ l.core.connId = cid ∧
        (step (run s0 (evs.take kx.1)).1 ev).1.links[j]? = some l' ∧
        LossCause (run s0 (evs.take kx.1)).1 ev j l l') ∨
     (∃ now addrs outs l, ev = .reload now addrs outs ∧ l ∈ (run s0 (evs.take kx.1)).1.links ∧
        l.core.connId = cid ∧ addrs.contains l.addr = false ∧ kx.2.item ∈ l.queue))

theorem LostOk.mono {s0 : Sys F} {pre : List Ev} {cid : Nat} {kx : Nat × GItem} (h : LostOk s0 pre cid kx)
    (post : List Ev) : LostOk s0 (pre ++ post) cid kx := by
  obtain ⟨ev, h1, h2⟩ := h
  have hk : kx.1 < pre.length := (List.getElem?_eq_some_iff.1 h1).1
  have ht : (pre ++ post).take kx.1 = pre.take kx.1 := List.take_append_of_le_length (Nat.le_of_lt hk)
  refine ⟨ev, by rw [List.getElem?_append_left hk]; exact h1, ?_⟩
  rw [ht]; exact h2

/-- The invariant against the history `pre` of the run from `s0`. -/
structure HInv (s0 : Sys F) (pre : List Ev) (r : GR F) : Prop where
  sys : r.g.sys = (run s0 pre).1
  clock : r.g.clock = pre.length
  /-- the wire bins are the real data-path output, per conn id -/
  wire : ∀ c, wireOfId c r = wireLogId s0 pre c
  lost : ∀ (b : Bins) (l : FLink F), (b, l) ∈ r.g.bins.zip r.g.sys.links → ∀ kx ∈ b.lost, LostOk s0 pre l.core.connId kx
  lostGone : ∀ e ∈ r.gone, ∀ kx ∈ e.bins.lost, LostOk s0 pre e.cid kx

theorem rinit_hinv (s : Sys F) : HInv s [] (rinit s) := by
  refine ⟨rfl, rfl, fun c => ?_, ?_, fun e he => by cases he⟩
  · show wgone c [] ++ wcur c (ginit s).bins s.links = []
    rw [wcur_nil_of_wire_nil]; · rfl
    intro b hb
    obtain ⟨i, hi, hget⟩ := List.getElem_of_mem hb
    exact (ginit_bins s i b (by rw [List.getElem?_eq_getElem hi, hget])).1
  · intro b l hz kx hkx
    obtain ⟨i, h1, -⟩ := (mem_zip_iff_get _ _ _ _).1 hz
    rw [(ginit_bins s i b h1).2.1] at hkx
    cases hkx

theorem HInv.step {s0 : Sys F} {pre : List Ev} {r : GR F} (hh : HInv s0 pre r) (h : RInv r) (ev : Ev) :
    HInv s0 (pre ++ [ev]) (stepR r ev) := by
  have hsys : (stepR r ev).g.sys = (run s0 (pre ++ [ev])).1 := by
    rw [stepR_sys, run_append_fst, ← hh.sys]; rfl
  have hlog : ∀ c, wireLogId s0 (pre ++ [ev]) c =
      wireLogId s0 pre c ++ (if c ∈ ids r.g.sys.links then dataWire ev (Sys.step r.g.sys ev).2 c else []) := by
    intro c
    rw [wireLogId_append, ← hh.sys]
    simp only [wireLogId, List.append_nil]
  -- a fresh `lost` entry, stamped with the clock, names this very event
  have hhere : (pre ++ [ev])[r.g.clock]? = some ev ∧ (run s0 ((pre ++ [ev]).take r.g.clock)).1 = r.g.sys := by
    rw [hh.clock, hh.sys]
    simp
  cases hnr : ev.isReload with
  | false =>
    rw [stepR_of_noReload r ev hnr] at hsys ⊢
    have hlen' : (stepG r.g ev).bins.length = r.g.bins.length := by simp only [stepG, List.length_mapIdx]
    obtain ⟨hlinks, -⟩ := step_link r.g.sys ev h.inv.nodup hnr
    -- one link, one event: the three shapes
    have hone : ∀ (i : Nat) (b : Bins) (l : FLink F), r.g.bins[i]? = some b → r.g.sys.links[i]? = some l →
        ∃ l', (stepG r.g ev).bins[i]? = some (stepBins r.g.sys ev r.g.clock r.g.next i b) ∧
          (Sys.step r.g.sys ev).1.links[i]? = some l' ∧ l'.core.connId = l.core.connId ∧
          (stepBins r.g.sys ev r.g.clock r.g.next i b).wire.map (·.bytes) =
            b.wire.map (·.bytes) ++ dataWire ev (Sys.step r.g.sys ev).2 l.core.connId ∧
          ((stepBins r.g.sys ev r.g.clock r.g.next i b).lost = b.lost ∨
           (∃ n, (stepBins r.g.sys ev r.g.clock r.g.next i b).lost =
              b.lost ++ ((b.queued ++ newCopies r.g.sys ev r.g.next i).drop n).map (fun x => (r.g.clock, x)) ∧
            LossCause r.g.sys ev i l l')) := by
      intro i b l hb hl
      obtain ⟨l', g1, g2, hc⟩ := stepBins_cases r.g.sys ev h.inv.nodup hnr r.g.clock r.g.next i l b hl
      have hal := h.aligned i b hb
      rw [queueOf_of_get hl] at hal
      refine ⟨l', by rw [stepG_bins_get, hb]; rfl, g1, g2, ?_, ?_⟩
      · rcases hc with ⟨e, -, w⟩ | ⟨e, -, w⟩ | ⟨n, e, -, w, -⟩
        · rw [e, w]; simp
        · rw [e, w, List.map_append, bytes_of_items (b.queued ++ _), List.map_append, hal, newCopies_items]
        · rw [e, w, List.map_append, List.map_take, bytes_of_items (b.queued ++ _), List.map_append, hal,
            newCopies_items]
      · rcases hc with ⟨e, -, -⟩ | ⟨e, -, -⟩ | ⟨n, e, -, -, hcause⟩
        · exact .inl (by rw [e])
        · exact .inl (by rw [e])
        · exact .inr ⟨n, by rw [e], hcause⟩
    refine ⟨hsys, by show r.g.clock + 1 = _; rw [hh.clock]; simp, fun c => ?_, ?_, ?_⟩
    · rw [hlog, ← hh.wire c]
      show wgone c r.gone ++ wcur c (stepG r.g ev).bins (Sys.step r.g.sys ev).1.links = _
      rw [wcur_step c (dataWire ev (Sys.step r.g.sys ev).2) r.g.bins (stepG r.g ev).bins r.g.sys.links
        (Sys.step r.g.sys ev).1.links h.len hlen' hlinks h.inv.nodup (fun i b l hb hl => by
          obtain ⟨l', q1, q2, q3, q4, -⟩ := hone i b l hb hl
          exact ⟨_, l', q1, q2, q3, q4⟩)]
      simp only [wireOfId, List.append_assoc]
    · intro b' l' hz kx hkx
      obtain ⟨i, h1, h2⟩ := (mem_zip_iff_get _ _ _ _).1 hz
      have hi : i < r.g.bins.length := by rw [← hlen']; exact (List.getElem?_eq_some_iff.1 h1).1
      have hb : r.g.bins[i]? = some r.g.bins[i] := List.getElem?_eq_getElem hi
      have hl : r.g.sys.links[i]? = some (r.g.sys.links[i]'(by rw [← h.len]; exact hi)) :=
        List.getElem?_eq_getElem _
      obtain ⟨l'', q1, q2, q3, -, q5⟩ := hone i _ _ hb hl
      rw [q1] at h1
      have h2' : (Sys.step r.g.sys ev).1.links[i]? = some l' := h2
      rw [q2] at h2'
      cases h1; cases h2'
      have hold := hh.lost _ _ ((mem_zip_iff_get _ _ _ _).2 ⟨i, hb, hl⟩)
      rw [q3]
      rcases q5 with e | ⟨n, e, hcause⟩
      · rw [e] at hkx; exact (hold kx hkx).mono _
      · rw [e] at hkx
        rcases List.mem_append.1 hkx with hkx | hkx
        · exact (hold kx hkx).mono _
        · obtain ⟨x, -, rfl⟩ := List.mem_map.1 hkx
          obtain ⟨a1, a2⟩ := hhere
          refine ⟨ev, a1, .inl ⟨i, _, l', ?_, rfl, ?_, ?_⟩⟩
          · show (run s0 ((pre ++ [ev]).take r.g.clock)).1.links[i]? = _
            rw [a2]; exact hl
          · show (Sys.step (run s0 ((pre ++ [ev]).take r.g.clock)).1 ev).1.links[i]? = _
            rw [a2]; exact q2
          · show LossCause (run s0 ((pre ++ [ev]).take r.g.clock)).1 ev i _ l'
            rw [a2]; exact hcause
    · intro e he kx hkx
      exact (hh.lostGone e he kx hkx).mono _
  | true =>
    cases ev with
    | reload now addrs outs =>
      refine ⟨hsys, by rw [stepR_clock, hh.clock]; simp, fun c => ?_, ?_, ?_⟩
      · rw [hlog, ← hh.wire c]
        show wgone c (r.gone ++ goneBins addrs r.g.clock r.g.bins r.g.sys.links) ++
          wcur c (keepBins addrs r.g.bins r.g.sys.links ++
            (createConnections now (neededAddrs r.g.sys.links addrs) outs : List (FLink F)).map fun _ => ({} : Bins))
            (retained r.g.sys.links addrs ++ createConnections now (neededAddrs r.g.sys.links addrs) outs) = _
        rw [wgone_append, wcur_append c _ _ _ _ (keepBins_length addrs _ _ h.len),
          wcur_nil_of_wire_nil c (List.map _ _) _ (fun b hb => by
            obtain ⟨_, -, rfl⟩ := List.mem_map.1 hb; rfl),
          List.append_nil, List.append_assoc, wcur_split c addrs _ _ _ h.inv.nodup]
        have : dataWire (.reload now addrs outs) (Sys.step r.g.sys (.reload now addrs outs)).2 c = [] := rfl
        rw [this]
        simp [wireOfId]
      · intro b l hz kx hkx
        rcases reloadR_pairs r h.len now addrs outs b l hz with ⟨hz', -⟩ | ⟨rfl, -⟩
        · exact (hh.lost b l hz' kx hkx).mono _
        · cases hkx
      · intro e he kx hkx
        have he' : e ∈ r.gone ++ goneBins addrs r.g.clock r.g.bins r.g.sys.links := he
        rcases List.mem_append.1 he' with he' | he'
        · exact (hh.lostGone e he' kx hkx).mono _
        · obtain ⟨b, l, hz, hc, rfl⟩ := mem_goneBins he'
          have hkx' : kx ∈ b.lost ++ b.queued.map fun x => (r.g.clock, x) := hkx
          rcases List.mem_append.1 hkx' with hkx' | hkx'
          · exact (hh.lost b l hz kx hkx').mono _
          · obtain ⟨x, hx, rfl⟩ := List.mem_map.1 hkx'
            obtain ⟨a1, a2⟩ := hhere
            obtain ⟨j, j1, j2⟩ := (mem_zip_iff_get _ _ _ _).1 hz
            have hal := h.aligned j b j1
            rw [queueOf_of_get j2] at hal
            refine ⟨_, a1, .inr ⟨now, addrs, outs, l, rfl, ?_, rfl, hc, ?_⟩⟩
            · show l ∈ (run s0 ((pre ++ [Ev.reload now addrs outs]).take r.g.clock)).1.links
              rw [a2]; exact List.mem_of_getElem? j2
            · show x.item ∈ l.queue
              rw [← hal]; exact List.mem_map.2 ⟨x, hx, rfl⟩
    | _ => cases hnr

/-- **Both invariants along every run, reloads included.** -/
theorem runR_inv (s0 : Sys F) (pre : List Ev) (r : GR F) (h : RInv r) (hh : HInv s0 pre r) (evs : List Ev)
    (hf : FreshRun r.g.sys evs) : RInv (runR r evs) ∧ HInv s0 (pre ++ evs) (runR r evs) := by
  induction evs generalizing pre r with
  | nil => simpa [runR] using ⟨h, hh⟩
  | cons ev evs ih =>
    have hf2 := hf.2
    rw [← stepR_sys] at hf2
    have := ih (pre ++ [ev]) (stepR r ev) (h.step ev hf.1) (hh.step h ev) hf2
    simpa [runR, List.append_assoc] using this

/-! ## What does not depend on the bins: acceptance log, tags, dropped list -/

theorem stepR_scalars (r : GR F) (ev : Ev) :
    (stepR r ev).g.next = r.g.next + (newAcc r.g.next ev).length ∧
    (stepR r ev).g.accepted = r.g.accepted ++ newAcc r.g.next ev ∧
    (stepR r ev).g.dropped = r.g.dropped ++ (if noTarget r.g.sys ev then newAcc r.g.next ev else []) := by
  cases ev <;> simp [stepR, reloadR, stepG, newAcc, accepts, noTarget]

/-- The acceptance log, the tag counter and the dropped list of the run with reloads are those of `runG`
(which never reads the bins for them): `C01_dropped_bookkeeping_run` / `C01_dropped_only_without_usable_link_run`
speak about the dropped list of THIS run as well. -/
theorem runR_scalars (r : GR F) (g : G F) (evs : List Ev) (h1 : g.sys = r.g.sys) (h2 : g.next = r.g.next)
    (h3 : g.accepted = r.g.accepted) (h4 : g.dropped = r.g.dropped) :
    (runR r evs).g.next = (runG g evs).next ∧ (runR r evs).g.accepted = (runG g evs).accepted ∧
    (runR r evs).g.dropped = (runG g evs).dropped := by
  induction evs generalizing r g with
  | nil => exact ⟨h2.symm, h3.symm, h4.symm⟩
  | cons ev evs ih =>
    obtain ⟨q1, q2, q3⟩ := stepR_scalars r ev
    simp only [runR, runG]
    apply ih
    · rw [stepR_sys, ← h1]; rfl
    · rw [q1, ← h2]; rfl
    · rw [q2, ← h2, ← h3]; rfl
    · rw [q3, ← h1, ← h2, ← h4]; rfl

end Srtla.Sys.Ghost
