import Srtla.Lemmas.RunLevelRelay
import Srtla.Lemmas.ReloadKeys
/-!
# C09 over a run WITH reloads, in closed form

`relayLog` (`Lemmas/RunLevelRelay.lean`) is a pure function of the events, the initial `clientKnown` and a
CONSTANT conn-id set.  With reloads the set of present conn ids changes — but by `Lemmas/ReloadKeys.lean` it is a
pure function of the initial keys (conn id, address) and the events (`keysAfter`).  `relayLogK` threads the key
list through the event list; `run_client_log_keys` shows the client log of ANY run is `relayLogK`, without any
hypothesis (no distinctness, no `NoReload`).
-/
namespace Srtla.Sys
open Srtla Srtla.Gen Srtla.Conn Srtla.Select Srtla.Rtt Srtla.Link Scalar

set_option linter.unusedSectionVars false

variable {F : Type} [Scalar F]

/-- The relay log of an event list with reloads: a pure function of the events, the initial keys
(conn id, address) of the links and the initial `clientKnown`.  An uplink datagram is judged against the conn ids
PRESENT when it arrives. -/
def relayLogK : List (Nat × Nat) → Bool → List Ev → List Bytes
  | _, _, [] => []
  | keys, ck, .uplink _ cid data :: evs => relayOf (keys.map (·.1)) ck cid data ++ relayLogK keys ck evs
  | keys, ck, ev :: evs => relayLogK (keysAfter keys ev) (ckAfter ck ev) evs

/-- The relayable uplink datagrams of an event list with reloads, in arrival order: relayable against the conn
ids present at the moment of arrival. -/
def relayablesK : List (Nat × Nat) → List Ev → List Bytes
  | _, [] => []
  | keys, .uplink _ cid data :: evs =>
    if relayable (keys.map (·.1)) cid data then data :: relayablesK keys evs else relayablesK keys evs
  | keys, ev :: evs => relayablesK (keysAfter keys ev) evs

/-- **The relay log of ANY run**, reloads included, no hypothesis: the concatenation of `Out.client` is
`relayLogK` of the initial keys, the initial `clientKnown` and the event list. -/
theorem run_client_log_keys (s : Sys F) (evs : List Ev) :
    clientLog (run s evs).2 = relayLogK (keysOf s.links) s.clientKnown evs := by
  induction evs generalizing s with
  | nil => rfl
  | cons ev evs ih =>
    obtain ⟨h1, h2⟩ := step_client s ev
    have hk := step_keysAfter s ev
    have := ih (step s ev).1
    simp only [run, clientLog, List.flatMap_cons] at this ⊢
    rw [this, hk, h1, h2, ← keysOf_ids]
    cases ev <;> rfl

theorem relayLogK_true (keys : List (Nat × Nat)) (evs : List Ev) :
    relayLogK keys true evs = (relayablesK keys evs).flatMap relayCopies := by
  induction evs generalizing keys with
  | nil => rfl
  | cons ev evs ih =>
    cases ev with
    | uplink now cid data =>
      simp only [relayLogK, relayablesK, relayOf_true, ih]
      split <;> simp
    | client now pkt => simpa [relayLogK, relayablesK, ckAfter] using ih _
    | flush now => simpa [relayLogK, relayablesK, ckAfter] using ih _
    | hk now => simpa [relayLogK, relayablesK, ckAfter] using ih _
    | setCfg c => simpa [relayLogK, relayablesK, ckAfter] using ih _
    | crit d => simpa [relayLogK, relayablesK, ckAfter] using ih _
    | failNext c => simpa [relayLogK, relayablesK, ckAfter] using ih _
    | failAfter c kfa => simpa [relayLogK, relayablesK, ckAfter] using ih _
    | failBind c => simpa [relayLogK, relayablesK, ckAfter] using ih _
    | syncTimeout => simpa [relayLogK, relayablesK, ckAfter] using ih _
    | stamp idx weak ld ccb cct => simpa [relayLogK, relayablesK, ckAfter] using ih _
    | reload rnow raddrs routs => simpa [relayLogK, relayablesK, ckAfter] using ih _

theorem keysRun_append (keys : List (Nat × Nat)) (a b : List Ev) :
    keysRun keys (a ++ b) = keysRun (keysRun keys a) b := by
  induction a generalizing keys with
  | nil => rfl
  | cons e es ih => simp only [List.cons_append, keysRun]; exact ih _

/-- Membership in `relayablesK`: the datagram is an uplink event `evs[k]` of the list and is relayable against the
conn ids present after the first `k` events. -/
theorem mem_relayablesK {keys : List (Nat × Nat)} {evs : List Ev} {d : Bytes} :
    d ∈ relayablesK keys evs ↔ ∃ k now cid, evs[k]? = some (Ev.uplink now cid d) ∧
      relayable ((keysRun keys (evs.take k)).map (·.1)) cid d = true := by
  induction evs generalizing keys with
  | nil => simp [relayablesK]
  | cons ev evs ih =>
    have shift : ∀ (keys' : List (Nat × Nat)), keysAfter keys ev = keys' →
        ((∃ k now cid, evs[k]? = some (Ev.uplink now cid d) ∧
            relayable ((keysRun keys' (evs.take k)).map (·.1)) cid d = true) ↔
          ∃ k now cid, (ev :: evs)[k + 1]? = some (Ev.uplink now cid d) ∧
            relayable ((keysRun keys ((ev :: evs).take (k + 1))).map (·.1)) cid d = true) := by
      intro keys' hk
      simp only [List.getElem?_cons_succ, List.take_succ_cons, keysRun, hk]
    have zero_or_succ : ∀ (P : Nat → Prop), (∃ k, P k) ↔ (P 0 ∨ ∃ k, P (k + 1)) := by
      intro P
      constructor
      · rintro ⟨k, hk⟩
        cases k with
        | zero => exact .inl hk
        | succ k => exact .inr ⟨k, hk⟩
      · rintro (h | ⟨k, hk⟩)
        · exact ⟨0, h⟩
        · exact ⟨k + 1, hk⟩
    rw [zero_or_succ]
    cases ev with
    | uplink now cid data =>
      have hka : keysAfter keys (.uplink now cid data) = keys := rfl
      rw [← shift keys hka, ← ih]
      simp only [relayablesK, List.getElem?_cons_zero, Option.some.injEq, Ev.uplink.injEq, List.take_zero, keysRun]
      split
      · rename_i hr
        simp only [List.mem_cons]
        constructor
        · rintro (rfl | h)
          · exact .inl ⟨now, cid, ⟨rfl, rfl, rfl⟩, hr⟩
          · exact .inr h
        · rintro (⟨n, c, ⟨-, rfl, rfl⟩, -⟩ | h)
          · exact .inl rfl
          · exact .inr h
      · rename_i hr
        constructor
        · exact fun h => .inr h
        · rintro (⟨n, c, ⟨-, rfl, rfl⟩, h2⟩ | h)
          · exact absurd h2 hr
          · exact h
    | client now pkt =>
      rw [← shift _ rfl, ← ih]; simp [relayablesK]
    | flush now => rw [← shift _ rfl, ← ih]; simp [relayablesK]
    | hk now => rw [← shift _ rfl, ← ih]; simp [relayablesK]
    | setCfg c => rw [← shift _ rfl, ← ih]; simp [relayablesK]
    | crit d' => rw [← shift _ rfl, ← ih]; simp [relayablesK]
    | failNext c => rw [← shift _ rfl, ← ih]; simp [relayablesK]
    | failAfter c kfa => rw [← shift _ rfl, ← ih]; simp [relayablesK]
    | failBind c => rw [← shift _ rfl, ← ih]; simp [relayablesK]
    | syncTimeout => rw [← shift _ rfl, ← ih]; simp [relayablesK]
    | stamp idx weak ld ccb cct => rw [← shift _ rfl, ← ih]; simp [relayablesK]
    | reload rnow raddrs routs => rw [← shift _ rfl, ← ih]; simp [relayablesK]

end Srtla.Sys
