import Srtla.Model.Sys
import Srtla.Lemmas.Conn
import Srtla.Lemmas.SelectFrame
import Srtla.Spec.ClassicRef
/-!
# Classic mode = the reference algorithm: helper lemmas for C10

Everything is stated for an arbitrary scalar type `F` with an arbitrary `[Scalar F]` instance; no
float (or ordered-field) reasoning is involved: classic mode never looks at a scalar.
-/
namespace Srtla.ClassicRef
open Srtla Srtla.Gen Srtla.Conn Srtla.Select Srtla.Link Srtla.Sys Srtla.Spec.ClassicRef

set_option linter.unusedSectionVars false

variable {F : Type}
variable {fa : List (Nat × Nat)}

/-! ## Score -/

/-- The domain on which the Rust score (saturating `i32` adds, `max(.., 1)`) is the reference's
`window / (in_flight + queued + 1)`. -/
def ScoreDom (inFlight queued : Int) : Prop :=
  0 ≤ inFlight ∧ 0 ≤ queued ∧ inFlight + queued + 1 ≤ 2147483647

theorem score_eq_ref (c : SLink F) (hc : c.connected = true) (hd : ScoreDom c.inFlight c.queued) :
    score c = c.window / (c.inFlight + c.queued + 1) := by
  obtain ⟨h1, h2, h3⟩ := hd
  unfold score
  rw [if_neg (by simp [hc])]
  have e : max (satAddI32 (satAddI32 c.inFlight c.queued) 1) 1 = c.inFlight + c.queued + 1 := by
    unfold satAddI32 I32_MIN I32_MAX
    omega
  rw [e]

/-! ## The selection loop -/

/-- The reference's view of a selection-state link: skipped iff timed out, not schedulable
(still registering), gated, or disconnected (the Rust score of a disconnected link is `-1`, which
never beats the initial best score `-1`). -/
def toRef (now : Nat) (c : SLink F) : RefLink :=
  { timedOut := isTimedOut c now || !schedulable c || c.stallGated || !c.connected,
    window := c.window, inFlight := c.inFlight + c.queued }

theorem classicGo_eq_refGo (ls : List (SLink F)) (i now : Nat) (best : Option Nat) (bs : Int)
    (hbs : -1 ≤ bs) (hd : ∀ c ∈ ls, ScoreDom c.inFlight c.queued) :
    classicGo ls i now best bs = refGo (ls.map (toRef now)) i best bs := by
  induction ls generalizing i best bs with
  | nil => rfl
  | cons c rest ih =>
    have hdr : ∀ c ∈ rest, ScoreDom c.inFlight c.queued := fun d hm => hd d (List.mem_cons_of_mem _ hm)
    have hdc := hd c List.mem_cons_self
    simp only [List.map_cons]
    unfold classicGo refGo
    by_cases hskip : (isTimedOut c now || !schedulable c || c.stallGated) = true
    · have ht : (toRef now c).timedOut = true := by simp only [toRef, hskip, Bool.true_or]
      rw [if_pos hskip, if_pos ht]
      exact ih _ _ _ hbs hdr
    · rw [if_neg hskip]
      have hskip' : (isTimedOut c now || !schedulable c || c.stallGated) = false := by simpa using hskip
      cases hconn : c.connected
      · -- disconnected: Rust score -1 never wins, the reference skips the link
        have ht : (toRef now c).timedOut = true := by simp [toRef, hconn]
        have hs : score c = -1 := by simp [score, hconn]
        rw [if_pos ht]
        dsimp only
        rw [if_neg (by omega)]
        exact ih _ _ _ hbs hdr
      · have ht : (toRef now c).timedOut = false := by simp only [toRef, hskip', hconn]; rfl
        have hs : score c = refScore (toRef now c) := by
          rw [score_eq_ref c hconn hdc]; rfl
        rw [if_neg (show ¬ (toRef now c).timedOut = true by simp [ht])]
        dsimp only
        rw [hs]
        split
        · exact ih _ _ _ (by omega) hdr
        · exact ih _ _ _ hbs hdr

theorem classicSelect_eq_refSelect (ls : List (SLink F)) (now : Nat)
    (hd : ∀ c ∈ ls, ScoreDom c.inFlight c.queued) :
    classicSelect ls now = refSelect (ls.map (toRef now)) :=
  classicGo_eq_refGo ls 0 now none (-1) (by omega) hd

/-! ## The reference view of a model link -/

/-- Exactly what a classic decision may depend on. -/
structure ChoiceKey where
  connected : Bool
  phase : Phase
  window : Int
  inFlight : Int
  queued : Nat
  lastReceived : Option Nat
  established : Nat
  graceDeadline : Nat
deriving DecidableEq, Repr

/-- `is_timed_out` on plain values, with the timeout `T` passed explicitly. -/
def timedOutAt (connected : Bool) (established graceDeadline : Nat) (lastReceived : Option Nat)
    (T now : Nat) : Bool :=
  if !connected then
    if established == 0 && decide (now < graceDeadline) then false
    else true
  else match lastReceived with
    | some lr => decide (now - lr ≥ T)
    | none => false

/-- How a reference link is built from the key: usable = connected ∧ phase ≠ registering ∧ not timed
out under the timeout `T`; in-flight = logged + queued. -/
def refOfKey (T now : Nat) (k : ChoiceKey) : RefLink :=
  { timedOut := !(k.connected && k.phase != .registering &&
                  !timedOutAt k.connected k.established k.graceDeadline k.lastReceived T now),
    window := k.window, inFlight := k.inFlight + k.queued }

section scalar
variable [Scalar F]

def keyOf (l : FLink F) : ChoiceKey :=
  { connected := l.core.connected, phase := l.core.phase, window := l.core.window,
    inFlight := l.core.inFlight, queued := l.queue.length, lastReceived := l.core.lastReceived,
    established := l.established, graceDeadline := l.graceDeadline }

/-- The reference view of the whole system at time `now`: the configured timeout is used. -/
def refView (s : Sys F) (now : Nat) : List RefLink :=
  s.links.map fun l => refOfKey s.cfg.connTimeoutMs now (keyOf l)

theorem toRef_guardOff (cfg : Select.Cfg) (now : Nat) (l : FLink F) :
    toRef now (guardOff cfg l.toSLink) = refOfKey cfg.connTimeoutMs now (keyOf l) := by
  have ht : isTimedOut (guardOff cfg l.toSLink) now =
      timedOutAt l.core.connected l.established l.graceDeadline l.core.lastReceived cfg.connTimeoutMs now := rfl
  have hs : schedulable (guardOff cfg l.toSLink) = (l.core.phase != .registering) := rfl
  have hg : (guardOff cfg l.toSLink).stallGated = false := rfl
  have hc : (guardOff cfg l.toSLink).connected = l.core.connected := rfl
  have hw : (guardOff cfg l.toSLink).window = l.core.window := rfl
  have hi : (guardOff cfg l.toSLink).inFlight = l.core.inFlight := rfl
  have hq : (guardOff cfg l.toSLink).queued = (l.queue.length : Int) := rfl
  unfold toRef refOfKey keyOf
  rw [ht, hs, hg, hc, hw, hi, hq]
  dsimp only
  congr 1
  cases l.core.connected <;> cases (l.core.phase != .registering) <;>
    cases timedOutAt _ l.established l.graceDeadline l.core.lastReceived cfg.connTimeoutMs now <;> rfl

/-! ## `runSelect` in classic mode with the guard off -/

/-- What the guard-off pass leaves on a link. -/
def clearGuard (cfg : Select.Cfg) (l : FLink F) : FLink F :=
  { l with stallGated := false, silencePulled := false, latchedSince := 0, recoverySince := 0,
           connTimeoutMs := cfg.connTimeoutMs }

theorem absorb_guardOff (cfg : Select.Cfg) (l : FLink F) :
    l.absorb (guardOff cfg l.toSLink) = clearGuard cfg l := rfl

theorem zip_map_map {α β γ : Type} (l : List α) (f : α → β) (g : α × β → γ) :
    (l.zip (l.map f)).map g = l.map fun x => g (x, f x) := by
  induction l with
  | nil => rfl
  | cons a t ih => simp only [List.map_cons, List.zip_cons_cons, ih]

theorem runSelect_classic (s : Sys F) (now : Nat) (hc : s.cfg.classic = true)
    (hg : s.cfg.stallDeselect = false) :
    runSelect s now =
      ({ s with links := s.links.map (clearGuard s.cfg) },
       classicSelect ((s.links.map FLink.toSLink).map (guardOff s.cfg)) now) := by
  unfold runSelect selectIdx
  simp only [hc, if_true]
  rw [applyStallGate_off _ _ _ hg, List.map_map, zip_map_map]
  rfl

/-! ## `forward_via_connection`, stall probes -/

theorem getElem?_setAt (ls : List (FLink F)) (i j : Nat) (l : FLink F) :
    (setAt ls i l)[j]? = if j = i then (ls[j]?).map (fun _ => l) else ls[j]? := by
  unfold setAt
  rw [List.getElem?_mapIdx]
  split
  · rfl
  · cases ls[j]? <;> rfl

theorem length_setAt (ls : List (FLink F)) (i : Nat) (l : FLink F) : (setAt ls i l).length = ls.length := by
  unfold setAt; exact List.length_mapIdx

theorem mem_setAt (ls : List (FLink F)) (i : Nat) (l x : FLink F) (h : x ∈ setAt ls i l) : x = l ∨ x ∈ ls := by
  obtain ⟨j, hj, e⟩ := List.getElem_of_mem h
  have h1 : (setAt ls i l)[j]? = some x := by rw [List.getElem?_eq_getElem hj, e]
  rw [getElem?_setAt] at h1
  split at h1
  · left
    cases h2 : ls[j]? with
    | none => rw [h2] at h1; cases h1
    | some y => rw [h2] at h1; simpa using h1.symm
  · right; exact List.mem_of_getElem? h1

/-- `register_packet` on a batch never touches the window, the liveness flags or the congestion state. -/
theorem registerFold_frame (q : List QItem) (c : Conn) :
    let c' := q.foldl (fun c (it : QItem) =>
      match it.2.1 with
      | some s => c.register (toI32 s) it.2.2
      | none => c) c
    c'.window = c.window ∧ c'.connected = c.connected ∧ c'.lastReceived = c.lastReceived ∧
      c'.cong = c.cong ∧ c'.phase = c.phase := by
  induction q generalizing c with
  | nil => exact ⟨rfl, rfl, rfl, rfl, rfl⟩
  | cons it rest ih =>
    simp only [List.foldl_cons]
    cases h : it.2.1 with
    | none => exact ih c
    | some sq =>
      obtain ⟨a, b, d, e, f⟩ := ih (c.register (toI32 sq) it.2.2)
      exact ⟨a, b, d, e, f⟩

/-- Where a datagram handed to `forward_via_connection` on link `l` ends up: `l'` = the link
afterwards, `wire` = what was put on the link's socket. -/
def Landed (l : FLink F) (pkt : List UInt8) (seq : Option Nat) (now : Nat) (failNext : List Nat)
    (l' : FLink F) (wire : List (Nat × List UInt8)) : Prop :=
  let q := l.queue ++ [(pkt, seq, now)]
  -- queued behind what was already waiting, below the batch threshold
  (q.length < l.regime.batchSize ∧ l'.queue = q ∧ l'.core = l.core ∧ wire = []) ∨
  -- threshold reached: the whole queue, this datagram last, is put on the link's socket
  (l.regime.batchSize ≤ q.length ∧ failNext.contains l.core.connId = false ∧ l'.queue = [] ∧
    l'.core.window = l.core.window ∧ l'.core.cong = l.core.cong ∧
    wire = q.map (fun it => (l.core.connId, it.1))) ∨
  -- threshold reached and the (injected) socket error: batch lost - apart from the prefix `send_all_datagrams`
  -- got out before the failing call (none for a plain `failNext` injection) -, link torn down for recovery
  (l.regime.batchSize ≤ q.length ∧ failNext.contains l.core.connId = true ∧ l'.queue = [] ∧
    l'.core.window = 20000 ∧ l'.core.connected = false ∧ l'.core.cong = l.core.cong ∧
    ∃ k, wire = (q.take k).map (fun it => (l.core.connId, it.1)))

theorem takeBatch_nonempty (l : FLink F) (now : Nat) (h : l.queue.isEmpty = false) :
    (l.takeBatch now).2 = l.queue ∧ (l.takeBatch now).1.queue = [] ∧
    (l.takeBatch now).1.core.window = l.core.window ∧ (l.takeBatch now).1.core.cong = l.core.cong ∧
    (l.takeBatch now).1.core.connected = l.core.connected ∧
    (l.takeBatch now).1.core.lastReceived = l.core.lastReceived ∧
    (l.takeBatch now).1.stallGated = l.stallGated := by
  have hfr := registerFold_frame l.queue l.core
  dsimp only at hfr
  obtain ⟨fw, fc, fl, fg, fp⟩ := hfr
  unfold FLink.takeBatch
  simp only [h, Bool.false_eq_true, if_false]
  refine ⟨?_, ?_, ?_, ?_, ?_, ?_, ?_⟩ <;> first | assumption | rfl | trivial

theorem sendConnectionBatch_nonempty (l : FLink F) (now : Nat) (fn : List Nat) (h : l.queue.isEmpty = false) :
    (sendConnectionBatch fa l now fn).1 = (l.takeBatch now).1 ∧
    ((fn.contains l.core.connId = false ∧ (sendConnectionBatch fa l now fn).2.2.1 = true ∧
        (sendConnectionBatch fa l now fn).2.1 = l.queue.map (fun it => (l.core.connId, it.1))) ∨
     (fn.contains l.core.connId = true ∧ (sendConnectionBatch fa l now fn).2.2.1 = false ∧
        ∃ k, (sendConnectionBatch fa l now fn).2.1 = (l.queue.take k).map (fun it => (l.core.connId, it.1)))) := by
  have ht := (takeBatch_nonempty l now h).1
  unfold sendConnectionBatch
  generalize l.takeBatch now = r at ht ⊢
  obtain ⟨l1, batch⟩ := r
  dsimp only at ht ⊢
  subst ht
  rw [if_neg (by simp [h])]
  cases hf : fn.contains l.core.connId
  · simp
  · simp only [if_true, true_and, Bool.true_eq_false, false_and, false_or]
    exact ⟨_, rfl⟩

omit [Scalar F] in
theorem markForRecovery_facts (l : FLink F) :
    l.markForRecovery.queue = [] ∧ l.markForRecovery.core.window = 20000 ∧
    l.markForRecovery.core.connected = false ∧ l.markForRecovery.core.cong = l.core.cong ∧
    l.markForRecovery.stallGated = false ∧ l.markForRecovery.core.phase = .registering :=
  ⟨rfl, wconsts.2.2.1, rfl, rfl, rfl, rfl⟩

theorem forwardVia_cases (s : Sys F) (sel : Nat) (pkt : List UInt8) (seq : Option Nat) (now : Nat)
    (l : FLink F) (h : s.links[sel]? = some l) :
    ∃ l' wire fn trk,
      forwardVia s sel pkt seq now =
        ({ s with lastSelected := some sel, trk := trk, links := setAt s.links sel l', failNext := fn },
         { wire := wire }) ∧
      Landed l pkt seq now s.failNext l' wire ∧ (l.stallGated = false → l'.stallGated = false) := by
  unfold forwardVia
  rw [h]
  dsimp only
  generalize hq : l.queueDataPacket pkt seq now = r
  obtain ⟨l1, needs⟩ := r
  have h1 : l1 = { l with bitrate := l.bitrate.onSend pkt.length, queue := l.queue ++ [(pkt, seq, now)] } := by
    have := congrArg Prod.fst hq; exact this.symm
  have h2 : needs = decide ((l.queue ++ [(pkt, seq, now)]).length ≥ l.regime.batchSize) := by
    have := congrArg Prod.snd hq; exact this.symm
  dsimp only
  have hne : l1.queue.isEmpty = false := by
    rw [h1]; dsimp only; cases l.queue <;> rfl
  have hq1 : l1.queue = l.queue ++ [(pkt, seq, now)] := by rw [h1]
  have hc1 : l1.core = l.core := by rw [h1]
  have hs1 : l1.stallGated = l.stallGated := by rw [h1]
  by_cases hb : l.regime.batchSize ≤ (l.queue ++ [(pkt, seq, now)]).length
  · have hn : needs = true := by rw [h2]; simpa using hb
    rw [if_pos hn]
    obtain ⟨e1, hcase⟩ := sendConnectionBatch_nonempty l1 now s.failNext hne
    obtain ⟨-, tq, tw, tg, -, -, ts⟩ := takeBatch_nonempty l1 now hne
    generalize sendConnectionBatch s.failAfter l1 now s.failNext = r at e1 hcase
    obtain ⟨l2, wire, ok, fn⟩ := r
    dsimp only at e1 hcase ⊢
    subst e1
    rcases hcase with ⟨hf, hok, hw⟩ | ⟨hf, hok, hw⟩
    · subst hok
      refine ⟨_, _, _, _, rfl, ?_, fun hs => by rw [if_pos rfl, ts, hs1, hs]⟩
      right; left
      rw [if_pos rfl]
      exact ⟨hb, by rw [← hc1]; exact hf, tq, by rw [tw, hc1], by rw [tg, hc1], by rw [hw, hq1, hc1]⟩
    · subst hok
      have hm := markForRecovery_facts (l1.takeBatch now).1
      refine ⟨_, _, _, _, rfl, ?_, fun _ => by rw [if_neg (by simp)]; exact hm.2.2.2.2.1⟩
      right; right
      rw [if_neg (by simp)]
      obtain ⟨k, hw⟩ := hw
      exact ⟨hb, by rw [← hc1]; exact hf, hm.1, hm.2.1, hm.2.2.1, by rw [hm.2.2.2.1, tg, hc1],
        ⟨k, by rw [hw, hq1, hc1]⟩⟩
  · have hn : needs = false := by rw [h2]; simpa using hb
    rw [if_neg (by simp [hn])]
    refine ⟨_, _, _, _, rfl, ?_, fun hs => by rw [hs1, hs]⟩
    left
    exact ⟨by omega, hq1, hc1, rfl⟩

omit [Scalar F] in
/-- No link is stall-gated ⇒ `send_stall_probes` does nothing. -/
theorem stallProbesGo_noop (pkt : List UInt8) (seq : Option Nat) (now sel : Nat) (ls : List (FLink F)) (i : Nat)
    (fn : List Nat) (h : ∀ l ∈ ls, l.stallGated = false) :
    stallProbesGo fa pkt seq now sel ls i fn = (ls, [], fn) := by
  induction ls generalizing i with
  | nil => rfl
  | cons l rest ih =>
    unfold stallProbesGo
    have hl : l.stallGated = false := h l List.mem_cons_self
    rw [if_pos (by simp [hl])]
    rw [ih (i + 1) fun x hx => h x (List.mem_cons_of_mem _ hx)]

omit [Scalar F] in
theorem clearGuard_stallGated (cfg : Select.Cfg) (ls : List (FLink F)) :
    ∀ l ∈ ls.map (clearGuard cfg), l.stallGated = false := by
  intro l hl
  obtain ⟨x, -, rfl⟩ := List.mem_map.1 hl
  rfl

/-- `handle_srt_packet` after registration, classic mode, guard off: run the classic selector on the
gate-cleared links, forward on its choice; no override, no probes. -/
theorem handleSrtPacket_classic (s : Sys F) (pkt : List UInt8) (now : Nat)
    (hc : s.cfg.classic = true) (hg : s.cfg.stallDeselect = false)
    (hr : s.reg.hasConnected = true) (hp : pkt ≠ []) :
    handleSrtPacket s pkt now =
      match classicSelect ((s.links.map FLink.toSLink).map (guardOff s.cfg)) now with
      | some i =>
        let r := forwardVia { s with links := s.links.map (clearGuard s.cfg) } i pkt
          (Codec.getSrtSequenceNumberS pkt) now
        ({ r.1 with clientKnown := true }, r.2)
      | none => ({ s with links := s.links.map (clearGuard s.cfg), clientKnown := true }, {}) := by
  have hpe : pkt.isEmpty = false := by cases pkt <;> simp_all
  unfold handleSrtPacket
  rw [if_neg (by simp [hpe]), if_neg (by simp [hr]), runSelect_classic s now hc hg]
  simp only [hc, Bool.not_true, Bool.and_false, Bool.false_and, Bool.false_eq_true, if_false]
  cases hsel : classicSelect ((s.links.map FLink.toSLink).map (guardOff s.cfg)) now with
  | none => rfl
  | some i =>
    dsimp only
    cases hl : (s.links.map (clearGuard s.cfg))[i]? with
    | none =>
      have e : forwardVia { s with links := s.links.map (clearGuard s.cfg) } i pkt
          (Codec.getSrtSequenceNumberS pkt) now = ({ s with links := s.links.map (clearGuard s.cfg) }, {}) := by
        unfold forwardVia; simp only [hl]
      rw [e]
      dsimp only
      split
      · rw [stallProbesGo_noop _ _ _ _ _ _ _ (clearGuard_stallGated s.cfg s.links)]
        rfl
      · rfl
    | some l =>
      obtain ⟨l', wire, fn, trk, e, -, hsg⟩ :=
        forwardVia_cases { s with links := s.links.map (clearGuard s.cfg) } i pkt
          (Codec.getSrtSequenceNumberS pkt) now l hl
      rw [e]
      dsimp only
      split
      · have hall : ∀ x ∈ setAt (s.links.map (clearGuard s.cfg)) i l', x.stallGated = false := by
          intro x hx
          rcases mem_setAt _ _ _ _ hx with rfl | hm
          · exact hsg (clearGuard_stallGated s.cfg s.links l (List.mem_of_getElem? hl))
          · exact clearGuard_stallGated s.cfg s.links x hm
        rw [stallProbesGo_noop _ _ _ _ _ _ _ hall]
        simp
      · rfl

end scalar

/-! ## Window rules on one connection -/

theorem satMul_gt_iff (inf w : Int) (h0 : 0 ≤ inf) (hw : w < 2147483647) :
    satMulI32 inf 1000 > w ↔ inf * 1000 > w := by
  unfold satMulI32 I32_MIN I32_MAX
  omega

theorem ackClassic_eq_refAck (w inf : Int) (h0 : 0 ≤ inf) (hw : w < 2147483647) :
    ackClassic w inf = refAck w inf := by
  obtain ⟨-, hC, -, hM, hI, -, -, -⟩ := wconsts
  have hiff := satMul_gt_iff inf w h0 hw
  unfold ackClassic refAck
  by_cases h : inf * 1000 > w
  · rw [if_pos (by rw [hM]; exact hiff.2 h), if_pos h]; omega
  · rw [if_neg (by rw [hM]; exact fun h' => h (hiff.1 h')), if_neg h]

/-- "connected and has received anything" (`c->last_rcvd != 0` in the reference). -/
def live (c : Conn) : Bool := c.connected && c.lastReceived.isSome

theorem srtlaAck_classic_found (c : Conn) (seq : Int) (now : Nat)
    (h : c.log.any (·.1 == seq) = true) (hw : c.window < 2147483647) :
    c.srtlaAck seq true now =
      ({ c with log := logErase c.log seq, inFlight := ((logErase c.log seq).length : Int), proofMs := now,
                window := refAck c.window ((logErase c.log seq).length : Int) }, true) := by
  unfold Conn.srtlaAck
  rw [if_pos h]
  simp only [if_true]
  rw [ackClassic_eq_refAck _ _ (by omega) hw]

theorem srtlaAck_notfound (c : Conn) (seq : Int) (cl : Bool) (now : Nat)
    (h : c.log.any (·.1 == seq) = false) : c.srtlaAck seq cl now = (c, false) := by
  unfold Conn.srtlaAck
  rw [if_neg (by simp [h])]

theorem srtlaAck_snd (c : Conn) (seq : Int) (cl : Bool) (now : Nat) :
    (c.srtlaAck seq cl now).2 = c.log.any (·.1 == seq) := by
  unfold Conn.srtlaAck
  split
  · rename_i h; rw [h]; cases cl <;> rfl
  · rename_i h; simp only [Bool.not_eq_true] at h; rw [h]

theorem ackGlobal_eq (c : Conn) :
    c.ackGlobal = if live c then { c with window := refGlobal c.window } else c := by
  obtain ⟨-, hC, -, -, -, -, -, -⟩ := wconsts
  unfold Conn.ackGlobal live refGlobal
  rw [hC]

theorem nak_found (c : Conn) (seq : Int) (now : Nat) (h : c.log.any (·.1 == seq) = true) :
    (c.nak seq now).2 = true ∧ (c.nak seq now).1.window = refNak c.window ∧
    (c.nak seq now).1.connected = c.connected ∧ (c.nak seq now).1.lastReceived = c.lastReceived ∧
    (c.nak seq now).1.log = logErase c.log seq ∧ (c.nak seq now).1.inFlight = ((logErase c.log seq).length : Int) := by
  obtain ⟨hF, -, -, -, -, hD, -, -⟩ := wconsts
  unfold Conn.nak
  rw [if_pos h]
  refine ⟨rfl, ?_, rfl, rfl, rfl, rfl⟩
  show max (c.window - W_DECR) WINDOW_FLOOR = refNak c.window
  rw [hF, hD]; rfl

theorem nak_notfound (c : Conn) (seq : Int) (now : Nat) (h : c.log.any (·.1 == seq) = false) :
    c.nak seq now = (c, false) := by
  unfold Conn.nak
  rw [if_neg (by simp [h])]

theorem nak_snd (c : Conn) (seq : Int) (now : Nat) : (c.nak seq now).2 = c.log.any (·.1 == seq) := by
  cases h : c.log.any (·.1 == seq)
  · rw [nak_notfound c seq now h]
  · exact (nak_found c seq now h).1

/-! ## Fan-out: at most one link is charged -/

theorem updateAt_const (ls : Links) (i : Nat) (c' : Conn) : updateAt ls i (fun _ => c') = ls.set i c' := by
  apply List.ext_getElem?
  intro j
  unfold updateAt
  rw [List.getElem?_mapIdx, List.getElem?_set]
  by_cases h : i = j
  · subst h
    cases hj : ls[i]? with
    | none =>
      have : ¬ i < ls.length := by
        intro hlt; rw [List.getElem?_eq_getElem hlt] at hj; cases hj
      simp [this]
    | some x =>
      have : i < ls.length := by
        rcases Nat.lt_or_ge i ls.length with hlt | hge
        · exact hlt
        · rw [List.getElem?_eq_none hge] at hj; cases hj
      simp [this]
  · have h' : ¬ j = i := fun e => h e.symm
    simp [h, h']

theorem srtlaAckOthers_cases (cs : Links) (j skip : Nat) (seq : Int) (cl : Bool) (now : Nat) :
    srtlaAckOthers cs j skip seq cl now = cs ∨
    ∃ k c, cs[k]? = some c ∧ (c.srtlaAck seq cl now).2 = true ∧
      srtlaAckOthers cs j skip seq cl now = cs.set k (c.srtlaAck seq cl now).1 := by
  induction cs generalizing j with
  | nil => left; rfl
  | cons c rest ih =>
    unfold srtlaAckOthers
    split
    · rcases ih (j + 1) with h | ⟨k, d, h1, h2, h3⟩
      · left; rw [h]
      · right; exact ⟨k + 1, d, by simpa using h1, h2, by rw [h3]; rfl⟩
    · generalize hr : c.srtlaAck seq cl now = r
      obtain ⟨c', found⟩ := r
      dsimp only
      split
      · rename_i hf
        right
        refine ⟨0, c, rfl, by rw [hr]; exact hf, ?_⟩
        rw [hr]; rfl
      · rcases ih (j + 1) with h | ⟨k, d, h1, h2, h3⟩
        · left; rw [h]
        · right; exact ⟨k + 1, d, by simpa using h1, h2, by rw [h3]; rfl⟩

/-- One SRTLA-acknowledged number: the earned rule on at most one link (one that holds the number),
then the global `+1` pass over every link — whether or not anybody held the number. -/
theorem evSrtlaAck_cases (cs : Links) (idx : Nat) (seq : Int) (cl : Bool) (now : Nat) :
    ∃ ls1, evSrtlaAck cs idx seq cl now = ls1.map Conn.ackGlobal ∧
      (ls1 = cs ∨ ∃ k c, cs[k]? = some c ∧ (c.srtlaAck seq cl now).2 = true ∧
        ls1 = cs.set k (c.srtlaAck seq cl now).1) := by
  unfold evSrtlaAck
  cases hi : cs[idx]? with
  | none => exact ⟨cs, rfl, Or.inl rfl⟩
  | some c =>
    dsimp only
    generalize hr : c.srtlaAck seq cl now = r
    obtain ⟨c', found⟩ := r
    dsimp only
    split
    · rename_i hf
      refine ⟨_, rfl, Or.inr ⟨idx, c, hi, by rw [hr]; exact hf, ?_⟩⟩
      rw [updateAt_const, hr]
    · exact ⟨_, rfl, srtlaAckOthers_cases cs 0 idx seq cl now⟩

theorem nakScan_cases (cs : Links) (seq : Int) (now : Nat) :
    nakScan cs seq now = (cs, none) ∨
    ∃ k c, cs[k]? = some c ∧ (c.nak seq now).2 = true ∧
      nakScan cs seq now = (cs.set k (c.nak seq now).1, some k) := by
  induction cs with
  | nil => left; rfl
  | cons c rest ih =>
    unfold nakScan
    generalize hr : c.nak seq now = r
    obtain ⟨c', found⟩ := r
    dsimp only
    split
    · rename_i hf
      right
      refine ⟨0, c, rfl, by rw [hr]; exact hf, ?_⟩
      rw [hr]; rfl
    · rcases ih with h | ⟨k, d, h1, h2, h3⟩
      · left; rw [h]; rfl
      · right; exact ⟨k + 1, d, by simpa using h1, h2, by rw [h3]; rfl⟩

/-- `attribute_nak` charges at most one link, one that holds the number in its log. -/
theorem attributeNak_cases (cs : Links) (trk : Tracker) (nak now : Nat) :
    attributeNak cs trk nak now = (cs, none) ∨
    ∃ k c, cs[k]? = some c ∧ (c.nak (toI32 nak) now).2 = true ∧
      attributeNak cs trk nak now = (cs.set k (c.nak (toI32 nak) now).1, some k) := by
  unfold attributeNak
  dsimp only
  split
  · split
    · rename_i pos _
      split
      · rename_i c hc
        generalize hr : c.nak (toI32 nak) now = r
        obtain ⟨c', found⟩ := r
        dsimp only
        split
        · rename_i hf
          right
          refine ⟨pos, c, hc, by rw [hr]; exact hf, ?_⟩
          rw [updateAt_const, hr]
        · left; rfl
      · left; rfl
    · exact nakScan_cases cs _ now
  · exact nakScan_cases cs _ now

/-! ## The window vector -/

/-- `(window, live)` of every link. -/
def wv (cs : Links) : WVec := cs.map fun c => (c.window, live c)

theorem length_applyAt (f : Int → Int) (ws : WVec) (k : Nat) : (applyAt f ws k).length = ws.length := by
  induction ws generalizing k with
  | nil => rfl
  | cons p rest ih =>
    obtain ⟨w, lv⟩ := p
    cases k with
    | zero => rfl
    | succ k => simp only [applyAt, List.length_cons, ih]

theorem wv_set (cs : Links) (k : Nat) (c c' : Conn) (f : Int → Int) (h : cs[k]? = some c)
    (hw : c'.window = f c.window) (hl : live c' = live c) : wv (cs.set k c') = applyAt f (wv cs) k := by
  induction cs generalizing k with
  | nil => cases h
  | cons d rest ih =>
    cases k with
    | zero =>
      have : d = c := by simpa using h
      subst this
      simp only [List.set_cons_zero, wv, List.map_cons, applyAt, hw, hl]
    | succ k =>
      have h' : rest[k]? = some c := by simpa using h
      have := ih k h'
      simp only [wv] at this
      simp only [List.set_cons_succ, wv, List.map_cons, applyAt, this]

theorem wv_map_ackGlobal (cs : Links) :
    wv (cs.map Conn.ackGlobal) = (wv cs).map fun p => if p.2 then (refGlobal p.1, p.2) else p := by
  unfold wv
  rw [List.map_map, List.map_map]
  apply List.map_congr_left
  intro c _
  simp only [Function.comp]
  rw [ackGlobal_eq]
  cases h : live c
  · simp [h]
  · simp
    exact h

def Bounded (ws : WVec) : Prop := ∀ p ∈ ws, p.1 ≤ 60000

theorem mem_applyAt (f : Int → Int) (ws : WVec) (k : Nat) (p : Int × Bool) (h : p ∈ applyAt f ws k) :
    p ∈ ws ∨ ∃ q ∈ ws, p = (f q.1, q.2) := by
  induction ws generalizing k with
  | nil => cases h
  | cons q rest ih =>
    obtain ⟨w, lv⟩ := q
    cases k with
    | zero =>
      simp only [applyAt, List.mem_cons] at h
      rcases h with h | h
      · right; exact ⟨(w, lv), List.mem_cons_self, h⟩
      · left; exact List.mem_cons_of_mem _ h
    | succ k =>
      simp only [applyAt, List.mem_cons] at h
      rcases h with h | h
      · left; rw [h]; exact List.mem_cons_self
      · rcases ih k h with h1 | ⟨q, hq, e⟩
        · left; exact List.mem_cons_of_mem _ h1
        · right; exact ⟨q, List.mem_cons_of_mem _ hq, e⟩

theorem bounded_sack (ws : WVec) (e : Option (Nat × Int)) (h : Bounded ws) : Bounded (refSackEvent ws e) := by
  have h1 : Bounded (match e with
      | some (k, n) => applyAt (fun w => refAck w n) ws k
      | none => ws) := by
    cases e with
    | none => exact h
    | some kn =>
      obtain ⟨k, n⟩ := kn
      intro p hp
      rcases mem_applyAt _ ws k p hp with hm | ⟨q, hq, rfl⟩
      · exact h p hm
      · have := h q hq
        show refAck q.1 n ≤ 60000
        unfold refAck; split <;> omega
  intro p hp
  unfold refSackEvent at hp
  obtain ⟨q, hq, rfl⟩ := List.mem_map.1 hp
  have := h1 q hq
  split
  · show refGlobal q.1 ≤ 60000
    unfold refGlobal; omega
  · exact this

theorem bounded_nak (ws : WVec) (k : Nat) (h : Bounded ws) : Bounded (refNakEvent ws k) := by
  intro p hp
  rcases mem_applyAt _ ws k p hp with hm | ⟨q, hq, rfl⟩
  · exact h p hm
  · have := h q hq
    show refNak q.1 ≤ 60000
    unfold refNak; omega

theorem bounded_wv (cs : Links) : Bounded (wv cs) ↔ ∀ c ∈ cs, c.window ≤ 60000 := by
  unfold Bounded wv
  constructor
  · intro h c hc; exact h (c.window, live c) (List.mem_map.2 ⟨c, hc, rfl⟩)
  · intro h p hp
    obtain ⟨c, hc, rfl⟩ := List.mem_map.1 hp
    exact h c hc

theorem length_wv (cs : Links) : (wv cs).length = cs.length := by unfold wv; exact List.length_map _

theorem length_sack (ws : WVec) (e : Option (Nat × Int)) : (refSackEvent ws e).length = ws.length := by
  unfold refSackEvent
  rw [List.length_map]
  cases e with
  | none => rfl
  | some kn => obtain ⟨k, n⟩ := kn; exact length_applyAt _ _ _

theorem length_nak (ws : WVec) (k : Nat) : (refNakEvent ws k).length = ws.length := length_applyAt _ _ _

/-- One SRTLA-acknowledged number in classic mode is one reference SACK event on the window vector. -/
theorem wv_evSrtlaAck (cs : Links) (idx : Nat) (seq : Int) (now : Nat) (hb : ∀ c ∈ cs, c.window ≤ 60000) :
    ∃ e, wv (evSrtlaAck cs idx seq true now) = refSackEvent (wv cs) e := by
  obtain ⟨ls1, e1, hcase⟩ := evSrtlaAck_cases cs idx seq true now
  rw [e1, wv_map_ackGlobal]
  rcases hcase with rfl | ⟨k, c, hk, hf, rfl⟩
  · exact ⟨none, rfl⟩
  · have hany : c.log.any (·.1 == seq) = true := by rw [← srtlaAck_snd c seq true now]; exact hf
    have hw : c.window < 2147483647 := by
      have := hb c (List.mem_of_getElem? hk); omega
    refine ⟨some (k, ((logErase c.log seq).length : Int)), ?_⟩
    unfold refSackEvent
    dsimp only
    rw [wv_set cs k c _ (fun w => refAck w ((logErase c.log seq).length : Int)) hk]
    · rw [srtlaAck_classic_found c seq now hany hw]
    · rw [srtlaAck_classic_found c seq now hany hw]; rfl

/-- One NAK is at most one reference NAK event on the window vector. -/
theorem wv_attributeNak (cs : Links) (trk : Tracker) (nak now : Nat) :
    wv (attributeNak cs trk nak now).1 = wv cs ∨
    ∃ k, wv (attributeNak cs trk nak now).1 = refNakEvent (wv cs) k := by
  rcases attributeNak_cases cs trk nak now with h | ⟨k, c, hk, hf, h⟩
  · left; rw [h]
  · right
    have hany : c.log.any (·.1 == toI32 nak) = true := by rw [← nak_snd c _ now]; exact hf
    obtain ⟨-, n2, n3, n4, -, -⟩ := nak_found c (toI32 nak) now hany
    refine ⟨k, ?_⟩
    rw [h]
    exact wv_set cs k c _ refNak hk n2 (by unfold live; rw [n3, n4])

theorem sacks_fold (sacks : List Nat) (cs : Links) (idx now : Nat) (hb : ∀ c ∈ cs, c.window ≤ 60000) :
    ∃ es : List (Option (Nat × Int)), es.length = sacks.length ∧
      wv (sacks.foldl (fun cs a => evSrtlaAck cs idx (toI32 a) true now) cs) = es.foldl refSackEvent (wv cs) := by
  induction sacks generalizing cs with
  | nil => exact ⟨[], rfl, rfl⟩
  | cons a rest ih =>
    obtain ⟨e, he⟩ := wv_evSrtlaAck cs idx (toI32 a) now hb
    have hb' : ∀ c ∈ evSrtlaAck cs idx (toI32 a) true now, c.window ≤ 60000 := by
      rw [← bounded_wv, he]
      exact bounded_sack _ e ((bounded_wv cs).2 hb)
    obtain ⟨es, hl, hes⟩ := ih (evSrtlaAck cs idx (toI32 a) true now) hb'
    refine ⟨e :: es, by simp [hl], ?_⟩
    simp only [List.foldl_cons]
    rw [hes, he]

theorem naks_fold (naks : List Nat) (cs : Links) (trk : Tracker) (now : Nat) :
    ∃ ns : List Nat, ns.length ≤ naks.length ∧
      wv (naks.foldl (fun cs n => (attributeNak cs trk n now).1) cs) = ns.foldl refNakEvent (wv cs) := by
  induction naks generalizing cs with
  | nil => exact ⟨[], Nat.le_refl _, rfl⟩
  | cons a rest ih =>
    obtain ⟨ns, hl, hns⟩ := ih (attributeNak cs trk a now).1
    simp only [List.foldl_cons]
    rcases wv_attributeNak cs trk a now with h | ⟨k, h⟩
    · exact ⟨ns, by simp only [List.length_cons]; omega, by rw [hns, h]⟩
    · exact ⟨k :: ns, by simp only [List.length_cons]; omega, by rw [hns, h]; rfl⟩

theorem length_foldl_sack (es : List (Option (Nat × Int))) (ws : WVec) :
    (es.foldl refSackEvent ws).length = ws.length := by
  induction es generalizing ws with
  | nil => rfl
  | cons e rest ih => simp only [List.foldl_cons]; rw [ih, length_sack]

theorem length_foldl_nak (ns : List Nat) (ws : WVec) : (ns.foldl refNakEvent ws).length = ws.length := by
  induction ns generalizing ws with
  | nil => rfl
  | cons e rest ih => simp only [List.foldl_cons]; rw [ih, length_nak]

theorem bounded_foldl_sack (es : List (Option (Nat × Int))) (ws : WVec) (h : Bounded ws) :
    Bounded (es.foldl refSackEvent ws) := by
  induction es generalizing ws with
  | nil => exact h
  | cons e rest ih => simp only [List.foldl_cons]; exact ih _ (bounded_sack ws e h)

theorem bounded_foldl_nak (ns : List Nat) (ws : WVec) (h : Bounded ws) : Bounded (ns.foldl refNakEvent ws) := by
  induction ns generalizing ws with
  | nil => exact h
  | cons e rest ih => simp only [List.foldl_cons]; exact ih _ (bounded_nak ws e h)

/-! ## `process_connection_events` on the window vector -/

section scalar2
variable [Scalar F]

theorem srtAck_frame (c : Conn) (ack : Int) (now : Nat) :
    (c.srtAck ack now).1.window = c.window ∧ live (c.srtAck ack now).1 = live c ∧
    (c.srtAck ack now).1.cong = c.cong := by
  unfold Conn.srtAck
  split
  · exact ⟨rfl, rfl, rfl⟩
  · exact ⟨rfl, rfl, rfl⟩

theorem flink_srtAck_core (l : FLink F) (ack : Int) (now : Nat) :
    (l.srtAck ack now).core = (l.core.srtAck ack now).1 := by
  unfold FLink.srtAck
  generalize l.core.srtAck ack now = r
  obtain ⟨c, sample⟩ := r
  cases sample <;> rfl

theorem wv_cores_srtAck (ls : List (FLink F)) (ack : Int) (now : Nat) :
    wv (cores (ls.map fun l => l.srtAck ack now)) = wv (cores ls) := by
  unfold wv cores
  rw [List.map_map, List.map_map, List.map_map]
  apply List.map_congr_left
  intro l _
  simp only [Function.comp]
  rw [flink_srtAck_core]
  obtain ⟨h1, h2, -⟩ := srtAck_frame l.core ack now
  rw [h1, h2]

theorem acks_fold (acks : List Nat) (ls : List (FLink F)) (now : Nat) :
    wv (cores (acks.foldl (fun ls a => ls.map fun l => l.srtAck (toI32 a) now) ls)) = wv (cores ls) := by
  induction acks generalizing ls with
  | nil => rfl
  | cons a rest ih =>
    simp only [List.foldl_cons]
    rw [ih, wv_cores_srtAck]

theorem cores_withCores (ls : List (FLink F)) (cs : Links) (h : cs.length = ls.length) :
    cores (withCores ls cs) = cs := by
  unfold cores withCores
  rw [List.map_map]
  induction ls generalizing cs with
  | nil =>
    cases cs with
    | nil => rfl
    | cons c t => simp at h
  | cons l rest ih =>
    cases cs with
    | nil => simp at h
    | cons c t =>
      simp only [List.zip_cons_cons, List.map_cons, Function.comp]
      rw [ih t (by simpa using h)]

theorem length_cores (ls : List (FLink F)) : (cores ls).length = ls.length := by
  unfold cores; exact List.length_map _

/-- The cumulative-ACK / SRTLA-ACK / NAK fan-out of one uplink datagram, classic mode: the window
vector moves by one reference SACK event per SRTLA-acknowledged number, then at most one reference
NAK event per NAKed number; cumulative SRT ACKs move no window. -/
theorem processConnectionEvents_wv (s : Sys F) (idx : Nat) (inc : Incoming) (now : Nat)
    (hc : s.cfg.classic = true) (hb : ∀ l ∈ s.links, l.core.window ≤ 60000) :
    ∃ (es : List (Option (Nat × Int))) (ns : List Nat),
      es.length = inc.sacks.length ∧ ns.length ≤ inc.naks.length ∧
      wv (cores (processConnectionEvents s idx inc now).1.links) =
        ns.foldl refNakEvent (es.foldl refSackEvent (wv (cores s.links))) := by
  unfold processConnectionEvents
  dsimp only
  rw [hc]
  generalize hls1 : inc.acks.foldl (fun ls a => ls.map fun l => l.srtAck (toI32 a) now) s.links = ls1
  have h1 : wv (cores ls1) = wv (cores s.links) := by rw [← hls1]; exact acks_fold _ _ _
  have hb0 : Bounded (wv (cores s.links)) := by
    rw [bounded_wv]
    intro c hc
    obtain ⟨l, hl, rfl⟩ := List.mem_map.1 hc
    exact hb l hl
  have hb1 : ∀ c ∈ cores ls1, c.window ≤ 60000 := by rw [← bounded_wv, h1]; exact hb0
  obtain ⟨es, hel, hes⟩ := sacks_fold inc.sacks (cores ls1) idx now hb1
  generalize inc.sacks.foldl (fun cs a => evSrtlaAck cs idx (toI32 a) true now) (cores ls1) = cs2 at hes
  obtain ⟨ns, hnl, hns⟩ := naks_fold inc.naks cs2 s.trk now
  generalize inc.naks.foldl (fun cs n => (attributeNak cs s.trk n now).1) cs2 = cs3 at hns
  refine ⟨es, ns, hel, hnl, ?_⟩
  have hlen : cs3.length = ls1.length := by
    rw [← length_wv cs3, hns, length_foldl_nak, hes, length_foldl_sack, length_wv, length_cores]
  rw [cores_withCores ls1 cs3 hlen, hns, hes, h1]

end scalar2

/-! ## Housekeeping: no time-based recovery in classic mode -/

section scalar3
variable [Scalar F]

theorem keepalivePacket_frame (l : FLink F) (now : Nat) :
    (l.keepalivePacket now).1.core.window = l.core.window ∧ (l.keepalivePacket now).1.core.cong = l.core.cong :=
  ⟨rfl, rfl⟩

theorem updatePhase_frame (l : FLink F) (now : Nat) :
    (l.updatePhase now).core.window = l.core.window ∧ (l.updatePhase now).core.cong = l.core.cong := by
  unfold FLink.updatePhase
  dsimp only
  split
  · split <;> exact ⟨rfl, rfl⟩
  · split <;> exact ⟨rfl, rfl⟩
  · split <;> exact ⟨rfl, rfl⟩
  · exact ⟨rfl, rfl⟩

/-- What the per-link housekeeping pass of classic mode does to one link's window and congestion
state: either the link takes the reconnect branch (timed out and a reconnect attempt is due; it is
reset to the initial window 20000, disconnected, registering, fresh congestion state — or, when the
socket re-creation failed and the link was only marked for recovery, the congestion state it had), or
both are left exactly as they were. -/
def HkRel (now : Nat) (l l' : FLink F) : Prop :=
  (l.isTimedOut now = true ∧ l.shouldAttemptReconnect now = true ∧ l'.core.window = 20000 ∧
    l'.core.connected = false ∧ l'.core.phase = .registering ∧ (l'.core.cong = {} ∨ l'.core.cong = l.core.cong)) ∨
  (l'.core.window = l.core.window ∧ l'.core.cong = l.core.cong)

/-- Pointwise relation between two lists of equal length. -/
def PW {α : Type} (R : α → α → Prop) (xs ys : List α) : Prop :=
  xs.length = ys.length ∧ ∀ (j : Nat) x, xs[j]? = some x → ∃ y, ys[j]? = some y ∧ R x y

theorem PW_nil {α : Type} (R : α → α → Prop) : PW R [] [] := ⟨rfl, fun j x h => by simp at h⟩

theorem PW_cons {α : Type} {R : α → α → Prop} {x y : α} {xs ys : List α} (h : R x y) (ht : PW R xs ys) :
    PW R (x :: xs) (y :: ys) := by
  refine ⟨by simp [ht.1], fun j a ha => ?_⟩
  cases j with
  | zero =>
    have : x = a := by simpa using ha
    subst this
    exact ⟨y, rfl, h⟩
  | succ j => exact ht.2 j a (by simpa using ha)

theorem recordAttempt_core (l : FLink F) (now : Nat) : (l.recordAttempt now).core = l.core := by
  unfold FLink.recordAttempt; split <;> rfl

theorem hkLinksGo_PW (now : Nat) (ls : List (FLink F)) (i : Nat) (reg : Reg.Reg) (fb : List Nat) :
    PW (HkRel now) ls (hkLinksGo true now ls i reg fb).1 := by
  have hI := wconsts.2.2.1
  induction ls generalizing i reg fb with
  | nil => exact PW_nil _
  | cons l rest ih =>
    rw [hkLinksGo]
    split
    · rename_i hto
      split
      · rename_i hra
        -- the socket re-creation fails (`mark_for_recovery`) or succeeds (`reset_for_reconnect`)
        have hcg : (l.recordAttempt now).markForRecovery.core.cong = l.core.cong := by
          show (l.recordAttempt now).core.cong = _
          rw [recordAttempt_core]
        cases hf : fb.contains l.core.connId <;> simp only [hf, Bool.false_eq_true, if_false, if_true]
        all_goals
          split
          · split
            all_goals
              first
                | exact PW_cons (Or.inl ⟨hto, hra, hI, rfl, rfl, Or.inl rfl⟩) (ih _ _ _)
                | exact PW_cons (Or.inl ⟨hto, hra, hI, rfl, rfl, Or.inr hcg⟩) (ih _ _ _)
          · first
              | exact PW_cons (Or.inl ⟨hto, hra, hI, rfl, rfl, Or.inl rfl⟩) (ih _ _ _)
              | exact PW_cons (Or.inl ⟨hto, hra, hI, rfl, rfl, Or.inr hcg⟩) (ih _ _ _)
      · split
        rename_i r reg2 w heq
        have e := congrArg Prod.fst heq
        dsimp only at e ⊢
        rw [← e]
        exact PW_cons (Or.inr ⟨rfl, rfl⟩) (ih _ _ _)
    · split
      rename_i l1 w1 h1
      split
      rename_i l2 w2 h2
      have f1 : l1.core.window = l.core.window ∧ l1.core.cong = l.core.cong := by
        split at h1 <;>
          (have e1 := congrArg Prod.fst h1; dsimp only at e1; subst e1; exact ⟨rfl, rfl⟩)
      have f2 : l2.core.window = l1.core.window ∧ l2.core.cong = l1.core.cong := by
        split at h2 <;>
          (have e2 := congrArg Prod.fst h2; dsimp only at e2; subst e2; exact ⟨rfl, rfl⟩)
      simp only [Bool.not_true, Bool.false_eq_true, if_false]
      refine PW_cons (Or.inr ?_) (ih _ _ _)
      obtain ⟨u1, u2⟩ := updatePhase_frame ({ l2 with bitrate := l2.bitrate.calculate now } : FLink F) now
      exact ⟨u1.trans (f2.1.trans f1.1), u2.trans (f2.2.trans f1.2)⟩

theorem PW_refl {α : Type} {R : α → α → Prop} (h : ∀ x, R x x) (xs : List α) : PW R xs xs :=
  ⟨rfl, fun _ x hx => ⟨x, hx, h x⟩⟩

theorem PW_trans {α : Type} {R S T : α → α → Prop} (h : ∀ x y z, R x y → S y z → T x z)
    {xs ys zs : List α} (h1 : PW R xs ys) (h2 : PW S ys zs) : PW T xs zs := by
  refine ⟨h1.1.trans h2.1, fun j x hx => ?_⟩
  obtain ⟨y, hy, r⟩ := h1.2 j x hx
  obtain ⟨z, hz, s⟩ := h2.2 j y hy
  exact ⟨z, hz, h x y z r s⟩

theorem PW_map {α : Type} {R : α → α → Prop} (f : α → α) (h : ∀ x, R x (f x)) (xs : List α) :
    PW R xs (xs.map f) := by
  refine ⟨(List.length_map _).symm, fun j x hx => ⟨f x, ?_, h x⟩⟩
  rw [List.getElem?_map, hx]; rfl

theorem PW_mapIdx {α : Type} {R : α → α → Prop} (f : Nat → α → α) (h : ∀ j x, R x (f j x)) (xs : List α) :
    PW R xs (xs.mapIdx f) := by
  refine ⟨List.length_mapIdx.symm, fun j x hx => ⟨f j x, ?_, h j x⟩⟩
  rw [List.getElem?_mapIdx, hx]; rfl

/-- Only the grace deadline differs. -/
def GraceRel (l l0 : FLink F) : Prop := ∃ g, l0 = { l with graceDeadline := g }

/-- Window, congestion state, connected flag and phase are the same (what the send stamps keep). -/
def StampRel (l l' : FLink F) : Prop :=
  l'.core.window = l.core.window ∧ l'.core.cong = l.core.cong ∧ l'.core.connected = l.core.connected ∧
    l'.core.phase = l.core.phase

def TickRel (now : Nat) (l l' : FLink F) : Prop :=
  (l'.core.window = l.core.window ∧ l'.core.cong = l.core.cong) ∨
  (l'.core.window = 20000 ∧ l'.core.connected = false ∧ l'.core.phase = .registering ∧
    (l'.core.cong = {} ∨ l'.core.cong = l.core.cong) ∧
    ∃ g, ({ l with graceDeadline := g } : FLink F).isTimedOut now = true ∧
         ({ l with graceDeadline := g } : FLink F).shouldAttemptReconnect now = true)

/-- Step 1 of `handle_housekeeping`: pending-timeout clearing and probing completion (which may
re-arm the grace window of the chosen link). -/
def hkPrep (s : Sys F) (now : Nat) : Reg.Reg × List (FLink F) :=
  let (reg0, _) := Reg.clearPendingIfTimedOut s.reg now
  if Reg.isProbing reg0 then
    let (r, _) := Reg.checkProbingComplete reg0 now
    if !Reg.isProbing r then
      match r.target with
      | some idx =>
        (r, s.links.mapIdx fun j l => if j = idx then { l with graceDeadline := now + Conn.STARTUP_GRACE_MS } else l)
      | none => (r, s.links)
    else (r, s.links)
  else (reg0, s.links)

/-- Steps 3-4: the registration driver's sends only stamp `last_sent`. -/
def hkStamp (sends : Reg.DriverSends) (now : Nat) (ls1 : List (FLink F)) : List (FLink F) :=
  let ls2 := match sends.reg1 with
    | some (idx, _) =>
      match ls1[idx]? with
      | some l => setAt ls1 idx { l with core := { l.core with lastSent := some now } }
      | none => ls1
    | none => ls1
  match sends.broadcastReg2 with
  | some _ => ls2.map fun (l : FLink F) => { l with core := { l.core with lastSent := some now } }
  | none => ls2

theorem handleHousekeeping_links (s : Sys F) (now : Nat) :
    ∃ sends : Reg.DriverSends,
      (handleHousekeeping s now).1.links =
        hkStamp sends now (hkLinksGo s.cfg.classic now (hkPrep s now).2 0 (hkPrep s now).1 s.failBind).1 := by
  unfold handleHousekeeping hkStamp hkPrep
  dsimp only
  generalize hp : (if Reg.isProbing _ = true then _ else _ : Reg.Reg × List (FLink F)) = p
  generalize hr : hkLinksGo s.cfg.classic now p.2 0 p.1 s.failBind = r
  generalize hq : Reg.regDriverPendingSends _ now = q
  obtain ⟨reg4, sends⟩ := q
  obtain ⟨r1, r2, r3⟩ := r
  refine ⟨sends, ?_⟩
  dsimp only
  cases sends.broadcastReg2 <;> cases sends.reg1
  · rfl
  · rename_i ip
    obtain ⟨idx, pkt⟩ := ip
    dsimp only
    cases r1[idx]? <;> rfl
  · rfl
  · rename_i ip
    obtain ⟨idx, pkt⟩ := ip
    dsimp only
    cases r1[idx]? <;> rfl

theorem hkPrep_PW (s : Sys F) (now : Nat) : PW GraceRel s.links (hkPrep s now).2 := by
  have hrefl : PW GraceRel s.links s.links := PW_refl (fun l => ⟨l.graceDeadline, rfl⟩) _
  unfold hkPrep
  split
  split
  · split
    split
    · split
      · exact PW_mapIdx _ (fun j l => by
          split
          · exact ⟨_, rfl⟩
          · exact ⟨l.graceDeadline, rfl⟩) _
      · exact hrefl
    · exact hrefl
  · exact hrefl

theorem hkStamp_PW (sends : Reg.DriverSends) (now : Nat) (ls : List (FLink F)) :
    PW StampRel ls (hkStamp sends now ls) := by
  have hr : ∀ l : FLink F, StampRel l l := fun l => ⟨rfl, rfl, rfl, rfl⟩
  have hs : ∀ l : FLink F, StampRel l { l with core := { l.core with lastSent := some now } } :=
    fun l => ⟨rfl, rfl, rfl, rfl⟩
  have h2 : PW StampRel ls (match sends.reg1 with
      | some (idx, _) =>
        match ls[idx]? with
        | some l => setAt ls idx { l with core := { l.core with lastSent := some now } }
        | none => ls
      | none => ls) := by
    split
    · rename_i idx pkt _
      split
      · rename_i l hl
        unfold setAt
        refine ⟨List.length_mapIdx.symm, fun j x hx => ?_⟩
        refine ⟨_, by rw [List.getElem?_mapIdx, hx]; rfl, ?_⟩
        split
        · rename_i hj
          subst hj
          have : x = l := by rw [hl] at hx; exact (Option.some.inj hx).symm
          subst this
          exact hs x
        · exact hr x
      · exact PW_refl hr _
    · exact PW_refl hr _
  unfold hkStamp
  dsimp only
  split
  · exact PW_trans (fun x y z a b => ⟨b.1.trans a.1, b.2.1.trans a.2.1, b.2.2.1.trans a.2.2.1, b.2.2.2.trans a.2.2.2⟩)
      h2 (PW_map _ hs _)
  · exact h2

theorem handleHousekeeping_PW (s : Sys F) (now : Nat) (hc : s.cfg.classic = true) :
    PW (TickRel now) s.links (handleHousekeeping s now).1.links := by
  obtain ⟨sends, e⟩ := handleHousekeeping_links s now
  rw [e, hc]
  have h1 := hkPrep_PW s now
  have h2 := hkLinksGo_PW now (hkPrep s now).2 0 (hkPrep s now).1 s.failBind
  have h3 := hkStamp_PW sends now (hkLinksGo true now (hkPrep s now).2 0 (hkPrep s now).1 s.failBind).1
  have h12 : PW (TickRel now) s.links (hkLinksGo true now (hkPrep s now).2 0 (hkPrep s now).1 s.failBind).1 := by
    refine PW_trans ?_ h1 h2
    rintro l l0 l1 ⟨g, rfl⟩ (⟨a, b, c, d, e, f⟩ | ⟨a, b⟩)
    · exact Or.inr ⟨c, d, e, f, g, a, b⟩
    · exact Or.inl ⟨a, b⟩
  refine PW_trans ?_ h12 h3
  rintro l l1 l2 (⟨a, b⟩ | ⟨a, b, c, d, e⟩) ⟨p, q, r, t⟩
  · exact Or.inl ⟨p.trans a, q.trans b⟩
  · exact Or.inr ⟨p.trans a, r.trans b, t.trans c, d.imp (q.trans ·) (q.trans ·), e⟩

/-! ## Uplink datagrams and the periodic flush -/

theorem handleKeepaliveResponse_core (l : FLink F) (data : List UInt8) (now : Nat) :
    (l.handleKeepaliveResponse data now).1.core = l.core := by
  unfold FLink.handleKeepaliveResponse
  split
  · rfl
  · split
    · dsimp only
      split <;> rfl
    · rfl

theorem recordRttProbe_window (l : FLink F) :
    l.recordRttProbe.core.window = l.core.window ∧ l.recordRttProbe.core.connected = l.core.connected := by
  unfold FLink.recordRttProbe
  split
  · split <;> exact ⟨rfl, rfl⟩
  · exact ⟨rfl, rfl⟩

/-- What handling one uplink datagram does to the arrival link's window before the ACK/NAK fan-out:
nothing, or (REG_ERR) the tear-down to the initial window. -/
theorem processUplinkPacket_window (l : FLink F) (idx : Nat) (reg : Reg.Reg) (ck : Bool) (data : List UInt8) (now : Nat) :
    (processUplinkPacket l idx reg ck data now).1.core.window = l.core.window ∨
    ((processUplinkPacket l idx reg ck data now).1.core.window = 20000 ∧
      (processUplinkPacket l idx reg ck data now).1.core.connected = false) := by
  have hI := wconsts.2.2.1
  unfold processUplinkPacket
  dsimp only
  have key := handleKeepaliveResponse_core ({ l with core := { l.core with lastReceived := some now } } : FLink F) data now
  dsimp only at key
  generalize FLink.handleKeepaliveResponse (F := F) _ data now = r at key ⊢
  obtain ⟨l2, sample⟩ := r
  dsimp only at key ⊢
  have rp := recordRttProbe_window l2
  repeat' split
  all_goals first
    | (left; rfl)
    | (right; exact ⟨hI, rfl⟩)
    | (left; show l2.recordRttProbe.core.window = l.core.window; rw [rp.1, key])
    | (left; show l2.core.window = l.core.window; rw [key])


/-- `handle_uplink_packet` = (arrival-link bookkeeping that leaves the window alone, or the REG_ERR
tear-down) followed by the ACK/NAK fan-out `process_connection_events`. -/
theorem handleUplinkPacket_cases (s : Sys F) (connId : Nat) (data : List UInt8) (now : Nat) :
    (handleUplinkPacket s connId data now).1 = s ∨
    ∃ idx l l2 reg1 inc, s.links[idx]? = some l ∧
      (l2.core.window = l.core.window ∨ (l2.core.window = 20000 ∧ l2.core.connected = false)) ∧
      (handleUplinkPacket s connId data now).1 =
        (processConnectionEvents { s with links := setAt s.links idx l2, reg := reg1 } idx inc now).1 := by
  unfold handleUplinkPacket
  split
  · left; rfl
  · split
    · left; rfl
    · rename_i idx _
      split
      · left; rfl
      · rename_i l hl
        right
        have hw := processUplinkPacket_window l idx s.reg s.clientKnown data now
        generalize processUplinkPacket l idx s.reg s.clientKnown data now = r at hw ⊢
        obtain ⟨l1, reg1, inc⟩ := r
        dsimp only at hw ⊢
        cases inc.reg1Send with
        | none => exact ⟨idx, l, l1, reg1, inc, hl, hw, rfl⟩
        | some p =>
          exact ⟨idx, l, { l1 with core := { l1.core with lastSent := some now } }, reg1, inc, hl, hw, rfl⟩

theorem takeBatch_frame (l : FLink F) (now : Nat) :
    (l.takeBatch now).1.core.window = l.core.window ∧ (l.takeBatch now).1.core.cong = l.core.cong ∧
    (l.takeBatch now).1.core.connected = l.core.connected ∧ (l.takeBatch now).1.core.phase = l.core.phase := by
  have hfr := registerFold_frame l.queue l.core
  dsimp only at hfr
  obtain ⟨fw, fc, fl, fg, fp⟩ := hfr
  unfold FLink.takeBatch
  dsimp only
  split
  · exact ⟨rfl, rfl, rfl, rfl⟩
  · exact ⟨fw, fg, fc, fp⟩

theorem sendConnectionBatch_fst (l : FLink F) (now : Nat) (fn : List Nat) :
    (sendConnectionBatch fa l now fn).1 = (l.takeBatch now).1 := by
  unfold sendConnectionBatch
  generalize l.takeBatch now = r
  obtain ⟨l1, batch⟩ := r
  dsimp only
  split
  · rfl
  · split <;> rfl

theorem flushGo_PW (now : Nat) (ls : List (FLink F)) (fn : List Nat) :
    PW StampRel ls (flushGo fa now ls fn).1 := by
  induction ls generalizing fn with
  | nil => exact PW_nil _
  | cons l rest ih =>
    rw [flushGo]
    split
    · have e := sendConnectionBatch_fst (fa := fa) l now fn
      generalize sendConnectionBatch fa l now fn = r at e ⊢
      obtain ⟨l1, wire, ok, fn1⟩ := r
      dsimp only at e ⊢
      subst e
      obtain ⟨a, b, c, d⟩ := takeBatch_frame l now
      exact PW_cons ⟨a, b, c, d⟩ (ih _)
    · split
      rename_i r w fn' heq
      have e := congrArg Prod.fst heq
      dsimp only at e ⊢
      rw [← e]
      exact PW_cons ⟨rfl, rfl, rfl, rfl⟩ (ih _)

/-- The periodic flush moves no window (a failed periodic flush only warns). -/
theorem flushAllBatches_PW (s : Sys F) (now : Nat) : PW StampRel s.links (flushAllBatches s now).1.links := by
  unfold flushAllBatches
  split
  · exact PW_refl (fun _ => ⟨rfl, rfl, rfl, rfl⟩) _
  · split
    rename_i ls w fn heq
    have e := congrArg Prod.fst heq
    dsimp only at e ⊢
    rw [← e]
    exact flushGo_PW now s.links s.failNext

end scalar3

/-! ## Round 3: `refSelect` is the first argmax -/

/-- `i` is the least index among the usable links of `ls` whose score is maximal, and that score
beats `bs`. -/
def IsArgmax (ls : List RefLink) (bs : Int) (k : Nat) : Prop :=
  ∃ l, ls[k]? = some l ∧ l.timedOut = false ∧ refScore l > bs ∧
    (∀ (j : Nat) l', ls[j]? = some l' → l'.timedOut = false → refScore l' ≤ refScore l) ∧
    (∀ (j : Nat) l', j < k → ls[j]? = some l' → l'.timedOut = false → refScore l' < refScore l)

theorem isArgmax_unique {ls : List RefLink} {bs : Int} {a b : Nat} (ha : IsArgmax ls bs a) (hb : IsArgmax ls bs b) :
    a = b := by
  obtain ⟨la, ha1, ha2, -, ha4, ha5⟩ := ha
  obtain ⟨lb, hb1, hb2, -, hb4, hb5⟩ := hb
  rcases Nat.lt_trichotomy a b with h | h | h
  · have h1 := hb5 a la h ha1 ha2
    have h2 := ha4 b lb hb1 hb2
    omega
  · exact h
  · have h1 := ha5 b lb h hb1 hb2
    have h2 := hb4 a la ha1 ha2
    omega

/-- The loop of `select_conn`, characterised: either no usable link beats the running best score (the
running best is returned), or the result is the least index of a maximal-score usable link. -/
theorem refGo_spec (ls : List RefLink) (i : Nat) (best : Option Nat) (bs : Int) :
    (refGo ls i best bs = best ∧ ∀ l ∈ ls, l.timedOut = false → refScore l ≤ bs) ∨
    (∃ k, refGo ls i best bs = some (i + k) ∧ IsArgmax ls bs k) := by
  induction ls generalizing i best bs with
  | nil => left; exact ⟨rfl, fun l h => by cases h⟩
  | cons l rest ih =>
    unfold refGo
    by_cases ht : l.timedOut = true
    · rw [if_pos ht]
      rcases ih (i + 1) best bs with ⟨h1, h2⟩ | ⟨k, h1, l', g1, g2, g3, g4, g5⟩
      · left
        refine ⟨h1, fun x hx hxt => ?_⟩
        rcases List.mem_cons.1 hx with rfl | hm
        · rw [ht] at hxt; cases hxt
        · exact h2 x hm hxt
      · right
        refine ⟨k + 1, by rw [h1]; congr 1; omega, l', by simpa using g1, g2, g3, ?_, ?_⟩
        · intro j x hj hxt
          cases j with
          | zero =>
            have : l = x := by simpa using hj
            subst this; rw [ht] at hxt; cases hxt
          | succ j => exact g4 j x (by simpa using hj) hxt
        · intro j x hjk hj hxt
          cases j with
          | zero =>
            have : l = x := by simpa using hj
            subst this; rw [ht] at hxt; cases hxt
          | succ j => exact g5 j x (by omega) (by simpa using hj) hxt
    · rw [if_neg ht]
      have ht' : l.timedOut = false := by simpa using ht
      by_cases hs : refScore l > bs
      · rw [if_pos hs]
        rcases ih (i + 1) (some i) (refScore l) with ⟨h1, h2⟩ | ⟨k, h1, l', g1, g2, g3, g4, g5⟩
        · right
          refine ⟨0, by rw [h1]; rfl, l, rfl, ht', hs, ?_, ?_⟩
          · intro j x hj hxt
            cases j with
            | zero =>
              have : l = x := by simpa using hj
              subst this; exact Int.le_refl _
            | succ j => exact h2 x (List.mem_of_getElem? (by simpa using hj)) hxt
          · intro j x hjk; omega
        · right
          refine ⟨k + 1, by rw [h1]; congr 1; omega, l', by simpa using g1, g2, by omega, ?_, ?_⟩
          · intro j x hj hxt
            cases j with
            | zero =>
              have : l = x := by simpa using hj
              subst this; omega
            | succ j => exact g4 j x (by simpa using hj) hxt
          · intro j x hjk hj hxt
            cases j with
            | zero =>
              have : l = x := by simpa using hj
              subst this; omega
            | succ j => exact g5 j x (by omega) (by simpa using hj) hxt
      · rw [if_neg hs]
        rcases ih (i + 1) best bs with ⟨h1, h2⟩ | ⟨k, h1, l', g1, g2, g3, g4, g5⟩
        · left
          refine ⟨h1, fun x hx hxt => ?_⟩
          rcases List.mem_cons.1 hx with rfl | hm
          · omega
          · exact h2 x hm hxt
        · right
          refine ⟨k + 1, by rw [h1]; congr 1; omega, l', by simpa using g1, g2, g3, ?_, ?_⟩
          · intro j x hj hxt
            cases j with
            | zero =>
              have : l = x := by simpa using hj
              subst this; omega
            | succ j => exact g4 j x (by simpa using hj) hxt
          · intro j x hjk hj hxt
            cases j with
            | zero =>
              have : l = x := by simpa using hj
              subst this; omega
            | succ j => exact g5 j x (by omega) (by simpa using hj) hxt

theorem refSelect_some_iff (ls : List RefLink) (i : Nat) :
    refSelect ls = some i ↔ IsArgmax ls (-1) i := by
  unfold refSelect
  rcases refGo_spec ls 0 none (-1) with ⟨h1, h2⟩ | ⟨k, h1, hk⟩
  · rw [h1]
    constructor
    · intro h; cases h
    · rintro ⟨l, g1, g2, g3, -, -⟩
      have := h2 l (List.mem_of_getElem? g1) g2
      omega
  · rw [h1]
    constructor
    · intro h
      have : k = i := by simpa using h
      subst this; exact hk
    · intro h
      have := isArgmax_unique hk h
      subst this; simp

theorem refSelect_none_iff (ls : List RefLink) :
    refSelect ls = none ↔ ∀ l ∈ ls, l.timedOut = false → refScore l ≤ -1 := by
  unfold refSelect
  rcases refGo_spec ls 0 none (-1) with ⟨h1, h2⟩ | ⟨k, h1, l, g1, g2, g3, -, -⟩
  · rw [h1]; exact ⟨fun _ => h2, fun _ => rfl⟩
  · rw [h1]
    constructor
    · intro h; cases h
    · intro h
      have := h l (List.mem_of_getElem? g1) g2
      omega

/-- For a non-negative window and in-flight count the score is non-negative. -/
theorem refScore_nonneg (l : RefLink) (hw : 0 ≤ l.window) (hi : 0 ≤ l.inFlight) : 0 ≤ refScore l := by
  unfold refScore
  exact Int.ediv_nonneg hw (by omega)

end Srtla.ClassicRef
