import Srtla.Model.Sys
import Srtla.Lemmas.Log
import Srtla.Lemmas.Codec
import Srtla.Lemmas.Keepalive
/-!
# Lemmas for the uplink receive arm (`handle_uplink_packet`) — C09 / C14

Core Lean only.  Three layers:

* `PW R l₁ l₂`: two lists of equal length related position by position (the shell never adds or
  removes links, every fan-out keeps the order);
* the ACK/NAK fan-out of `Model/Conn.lean` (`evSrtlaAck`, `attributeNak`, `Conn.srtAck`) seen through
  `CStep`: what a link's accounting core may lose or gain in one uplink event;
* `processUplinkPacket` branch by branch and `handleUplinkPacket` as
  "find the arrival link → `processUplinkPacket` → `processConnectionEvents`".
-/
namespace Srtla.Uplink
open Srtla Srtla.Gen Srtla.Conn Srtla.Link Srtla.Sys Srtla.Rtt

/-! ## Position-wise relation on lists -/

/-- Equal length, and `R` holds at every position. -/
def PW {α β : Type} (R : α → β → Prop) (l₁ : List α) (l₂ : List β) : Prop :=
  l₁.length = l₂.length ∧ ∀ (j : Nat) a b, l₁[j]? = some a → l₂[j]? = some b → R a b

namespace PW
variable {α β γ : Type}

theorem refl {R : α → α → Prop} (h : ∀ a, R a a) (l : List α) : PW R l l :=
  ⟨rfl, fun _ a b ha hb => by rw [ha] at hb; cases hb; exact h a⟩

theorem nil {R : α → β → Prop} : PW R [] [] := ⟨rfl, fun _ _ _ h => by simp at h⟩

theorem cons {R : α → β → Prop} {a : α} {b : β} {l₁ : List α} {l₂ : List β}
    (h : R a b) (ht : PW R l₁ l₂) : PW R (a :: l₁) (b :: l₂) := by
  refine ⟨by simp [ht.1], ?_⟩
  intro j x y hx hy
  cases j with
  | zero => simp at hx hy; subst hx; subst hy; exact h
  | succ j => simp at hx hy; exact ht.2 j x y hx hy

theorem mono {R S : α → β → Prop} {l₁ : List α} {l₂ : List β} (h : PW R l₁ l₂)
    (hs : ∀ a b, R a b → S a b) : PW S l₁ l₂ :=
  ⟨h.1, fun j a b ha hb => hs a b (h.2 j a b ha hb)⟩

/-- Every position of the left list has a partner. -/
theorem get {R : α → β → Prop} {l₁ : List α} {l₂ : List β} (h : PW R l₁ l₂) {j : Nat} {a : α}
    (ha : l₁[j]? = some a) : ∃ b, l₂[j]? = some b ∧ R a b := by
  obtain ⟨hj, -⟩ := List.getElem?_eq_some_iff.mp ha
  have hj2 : j < l₂.length := h.1 ▸ hj
  exact ⟨l₂[j], List.getElem?_eq_getElem hj2, h.2 j a _ ha (List.getElem?_eq_getElem hj2)⟩

theorem get' {R : α → β → Prop} {l₁ : List α} {l₂ : List β} (h : PW R l₁ l₂) {j : Nat} {b : β}
    (hb : l₂[j]? = some b) : ∃ a, l₁[j]? = some a ∧ R a b := by
  obtain ⟨hj, -⟩ := List.getElem?_eq_some_iff.mp hb
  have hj1 : j < l₁.length := h.1 ▸ hj
  exact ⟨l₁[j], List.getElem?_eq_getElem hj1, h.2 j _ b (List.getElem?_eq_getElem hj1) hb⟩

theorem trans {R : α → β → Prop} {S : β → γ → Prop} {T : α → γ → Prop}
    {l₁ : List α} {l₂ : List β} {l₃ : List γ} (h₁ : PW R l₁ l₂) (h₂ : PW S l₂ l₃)
    (ht : ∀ a b c, R a b → S b c → T a c) : PW T l₁ l₃ := by
  refine ⟨h₁.1.trans h₂.1, ?_⟩
  intro j a c ha hc
  obtain ⟨b, hb, hab⟩ := h₁.get ha
  exact ht a b c hab (h₂.2 j b c hb hc)

theorem map_right {R : α → β → Prop} (f : α → β) (l : List α) (h : ∀ a, R a (f a)) :
    PW R l (l.map f) := by
  refine ⟨by simp, ?_⟩
  intro j a b ha hb
  rw [List.getElem?_map, ha] at hb
  cases hb; exact h a

theorem mapIdx_right {R : α → β → Prop} (f : Nat → α → β) (l : List α)
    (h : ∀ j a, l[j]? = some a → R a (f j a)) : PW R l (l.mapIdx f) := by
  refine ⟨by simp, ?_⟩
  intro j a b ha hb
  rw [List.getElem?_mapIdx, ha] at hb
  cases hb; exact h j a ha

end PW

/-! ## What one uplink event may do to a link's accounting core -/

/-- `c'` is `c` after some of the ACK/NAK fan-out; `sacks` are the SRTLA-ACKed numbers applied. -/
structure CStep (now : Nat) (sacks : List Int) (c c' : Conn) : Prop where
  lastReceived : c'.lastReceived = c.lastReceived
  connId : c'.connId = c.connId
  connected : c'.connected = c.connected
  lastSent : c'.lastSent = c.lastSent
  keys : ∀ x, x ∈ c'.keys → x ∈ c.keys
  proof : c'.proofMs ≠ c.proofMs → c'.proofMs = now ∧ ∃ a ∈ sacks, a ∈ c.keys

theorem CStep.rfl' (now : Nat) (c : Conn) : CStep now [] c c :=
  ⟨rfl, rfl, rfl, rfl, fun _ h => h, fun h => absurd rfl h⟩

theorem CStep.weaken {now : Nat} {A B : List Int} {c c' : Conn} (h : CStep now A c c') (hs : ∀ a ∈ A, a ∈ B) :
    CStep now B c c' :=
  ⟨h.lastReceived, h.connId, h.connected, h.lastSent, h.keys,
   fun hp => by obtain ⟨hn, a, ha, hk⟩ := h.proof hp; exact ⟨hn, a, hs a ha, hk⟩⟩

theorem CStep.trans {now : Nat} {A B : List Int} {c c' c'' : Conn} (h₁ : CStep now A c c') (h₂ : CStep now B c' c'') :
    CStep now (A ++ B) c c'' := by
  refine ⟨h₂.lastReceived.trans h₁.lastReceived, h₂.connId.trans h₁.connId,
    h₂.connected.trans h₁.connected, h₂.lastSent.trans h₁.lastSent,
    fun x hx => h₁.keys x (h₂.keys x hx), ?_⟩
  intro hp
  by_cases h : c'.proofMs = c.proofMs
  · obtain ⟨hn, a, ha, hk⟩ := h₂.proof (by rw [h]; exact hp)
    exact ⟨hn, a, List.mem_append_right _ ha, h₁.keys a hk⟩
  · obtain ⟨hn, a, ha, hk⟩ := h₁.proof h
    by_cases h' : c''.proofMs = c'.proofMs
    · exact ⟨h'.trans hn, a, List.mem_append_left _ ha, hk⟩
    · exact ⟨(h₂.proof h').1, a, List.mem_append_left _ ha, hk⟩

theorem mem_keys_filter {log : List (Int × Nat)} {p : Int × Nat → Bool} {x : Int}
    (h : x ∈ (log.filter p).map Prod.fst) : x ∈ log.map Prod.fst := by
  simp only [List.mem_map, List.mem_filter] at h ⊢
  obtain ⟨e, ⟨he, -⟩, hx⟩ := h
  exact ⟨e, he, hx⟩

theorem cstep_srtAck (c : Conn) (a : Int) (now : Nat) : CStep now [] c (c.srtAck a now).1 := by
  unfold Conn.srtAck
  split
  · exact CStep.rfl' now c
  · refine ⟨rfl, rfl, rfl, rfl, ?_, fun h => absurd rfl h⟩
    intro x hx
    simp only [keys_def] at hx ⊢
    split at hx <;> exact mem_keys_filter hx

theorem cstep_nak (c : Conn) (s : Int) (now : Nat) : CStep now [] c (c.nak s now).1 := by
  have hk := nak_keys c s now
  refine ⟨?_, ?_, ?_, ?_, ?_, ?_⟩
  · unfold Conn.nak; split <;> rfl
  · unfold Conn.nak; split <;> rfl
  · unfold Conn.nak; split <;> rfl
  · unfold Conn.nak; split <;> rfl
  · intro x hx; rw [hk] at hx; exact (List.mem_filter.mp hx).1
  · intro h; exfalso; apply h; unfold Conn.nak; split <;> rfl

theorem srtlaAck_found_iff (c : Conn) (s : Int) (cl : Bool) (now : Nat) :
    (c.srtlaAck s cl now).2 = true ↔ s ∈ c.keys := by
  unfold Conn.srtlaAck
  split
  · rename_i h
    have := (any_iff_mem_keys c.log s).mp h
    split <;> simpa using this
  · rename_i h
    have hn : s ∉ c.keys := fun hm => h ((any_iff_mem_keys c.log s).mpr hm)
    simpa using hn

theorem cstep_srtlaAck (c : Conn) (s : Int) (cl : Bool) (now : Nat) :
    CStep now [s] c (c.srtlaAck s cl now).1 := by
  have hk := srtlaAck_keys c s cl now
  refine ⟨?_, ?_, ?_, ?_, ?_, ?_⟩
  · unfold Conn.srtlaAck; split <;> (try split) <;> rfl
  · unfold Conn.srtlaAck; split <;> (try split) <;> rfl
  · unfold Conn.srtlaAck; split <;> (try split) <;> rfl
  · unfold Conn.srtlaAck; split <;> (try split) <;> rfl
  · intro x hx; rw [hk] at hx; exact (List.mem_filter.mp hx).1
  · intro h
    by_cases hm : s ∈ c.keys
    · refine ⟨?_, s, by simp, hm⟩
      unfold Conn.srtlaAck
      rw [if_pos ((any_iff_mem_keys c.log s).mpr hm)]
      dsimp only
      split <;> rfl
    · exfalso; apply h
      unfold Conn.srtlaAck
      rw [if_neg (fun hh => hm ((any_iff_mem_keys c.log s).mp hh))]

theorem cstep_ackGlobal (now : Nat) (c : Conn) : CStep now [] c c.ackGlobal := by
  unfold Conn.ackGlobal
  split
  · exact ⟨rfl, rfl, rfl, rfl, fun _ h => h, fun h => absurd rfl h⟩
  · exact CStep.rfl' now c

/-! ### Lifting to the fan-out over all links -/

theorem pw_updateAt (now : Nat) (A : List Int) (ls : Links) (i : Nat) (f : Conn → Conn)
    (h : ∀ c, ls[i]? = some c → CStep now A c (f c)) : PW (CStep now A) ls (updateAt ls i f) := by
  unfold updateAt
  apply PW.mapIdx_right
  intro j a ha
  split
  · rename_i hji; subst hji; exact h a ha
  · exact (CStep.rfl' now a).weaken (by simp)

theorem pw_srtlaAckOthers (ls : Links) (j skip : Nat) (seq : Int) (cl : Bool) (now : Nat) :
    PW (CStep now [seq]) ls (srtlaAckOthers ls j skip seq cl now) := by
  induction ls generalizing j with
  | nil => simp [srtlaAckOthers]; exact PW.nil
  | cons c rest ih =>
    unfold srtlaAckOthers
    split
    · exact PW.cons ((CStep.rfl' now c).weaken (by simp)) (ih (j + 1))
    · dsimp only
      split
      · exact PW.cons (cstep_srtlaAck c seq cl now) (PW.refl (fun a => (CStep.rfl' now a).weaken (by simp)) rest)
      · exact PW.cons ((CStep.rfl' now c).weaken (by simp)) (ih (j + 1))

theorem pw_evSrtlaAck (ls : Links) (idx : Nat) (seq : Int) (cl : Bool) (now : Nat) :
    PW (CStep now [seq]) ls (evSrtlaAck ls idx seq cl now) := by
  unfold evSrtlaAck
  have hg : ∀ l : Links, PW (CStep now []) l (l.map Conn.ackGlobal) :=
    fun l => PW.map_right _ l (cstep_ackGlobal now)
  have hcomb : ∀ l1 : Links, PW (CStep now [seq]) ls l1 → PW (CStep now [seq]) ls (l1.map Conn.ackGlobal) :=
    fun l1 h => PW.trans h (hg l1) (fun a b c h1 h2 => by simpa using h1.trans h2)
  apply hcomb
  split
  · exact PW.refl (fun a => (CStep.rfl' now a).weaken (by simp)) ls
  · rename_i c hc
    dsimp only
    split
    · apply pw_updateAt
      intro c' hc'
      rw [hc] at hc'; cases hc'
      exact cstep_srtlaAck c seq cl now
    · exact pw_srtlaAckOthers ls 0 idx seq cl now

theorem pw_nakScan (ls : Links) (seq : Int) (now : Nat) :
    PW (CStep now []) ls (nakScan ls seq now).1 := by
  induction ls with
  | nil => simp [nakScan]; exact PW.nil
  | cons c rest ih =>
    unfold nakScan
    dsimp only
    split
    · exact PW.cons (cstep_nak c seq now) (PW.refl (CStep.rfl' now) rest)
    · exact PW.cons (CStep.rfl' now c) ih

theorem pw_attributeNak (ls : Links) (trk : Tracker) (nak now : Nat) :
    PW (CStep now []) ls (attributeNak ls trk nak now).1 := by
  unfold attributeNak
  dsimp only
  split
  · split
    · split
      · split
        · apply pw_updateAt
          intro c hc
          rename_i c0 hc0 _
          rw [hc0] at hc; cases hc
          exact cstep_nak c0 (toI32 nak) now
        · exact PW.refl (CStep.rfl' now) ls
      · exact PW.refl (CStep.rfl' now) ls
    · exact pw_nakScan ls _ now
  · exact pw_nakScan ls _ now

theorem pw_fold_sacks (sacks : List Nat) (cs : Links) (idx : Nat) (cl : Bool) (now : Nat) :
    PW (CStep now (sacks.map toI32)) cs
      (sacks.foldl (fun cs a => evSrtlaAck cs idx (toI32 a) cl now) cs) := by
  induction sacks generalizing cs with
  | nil => exact PW.refl (CStep.rfl' now) cs
  | cons a as ih =>
    simp only [List.foldl_cons, List.map_cons]
    exact PW.trans (pw_evSrtlaAck cs idx (toI32 a) cl now) (ih _)
      (fun x y z h1 h2 => by simpa using h1.trans h2)

theorem pw_fold_naks (naks : List Nat) (cs : Links) (trk : Tracker) (now : Nat) :
    PW (CStep now []) cs (naks.foldl (fun cs n => (attributeNak cs trk n now).1) cs) := by
  induction naks generalizing cs with
  | nil => exact PW.refl (CStep.rfl' now) cs
  | cons a as ih =>
    simp only [List.foldl_cons]
    exact PW.trans (pw_attributeNak cs trk a now) (ih _)
      (fun x y z h1 h2 => by simpa using h1.trans h2)

/-! ## Links (`FLink`) under `process_connection_events` -/

variable {F : Type} [Scalar F]

theorem foldl_map_comm {α β : Type} (f : β → α → α) (as : List β) (ls : List α) :
    as.foldl (fun ls a => ls.map (f a)) ls = ls.map (fun l => as.foldl (fun l a => f a l) l) := by
  induction as generalizing ls with
  | nil => simp
  | cons a as ih =>
    simp only [List.foldl_cons]
    rw [ih, List.map_map]
    rfl

/-- The cumulative SRT ACKs of one event applied to one link (`handle_srt_ack` runs on every link). -/
def ackFold (acks : List Nat) (now : Nat) (l : FLink F) : FLink F :=
  acks.foldl (fun l a => l.srtAck (toI32 a) now) l

/-- `l'` differs from `l` at most in the accounting core and the RTT tracker. -/
def SameShell (l l' : FLink F) : Prop := l' = { l with core := l'.core, rtt := l'.rtt }

omit [Scalar F] in
theorem SameShell.rfl' (l : FLink F) : SameShell l l := by cases l; rfl

omit [Scalar F] in
theorem SameShell.trans {a b c : FLink F} (h₁ : SameShell a b) (h₂ : SameShell b c) : SameShell a c := by
  unfold SameShell at *
  rw [h₂, h₁]

theorem sameShell_srtAck (l : FLink F) (a : Int) (now : Nat) : SameShell l (l.srtAck a now) := by
  unfold FLink.srtAck SameShell
  cases l
  dsimp only
  split <;> rfl

theorem core_srtAck (l : FLink F) (a : Int) (now : Nat) :
    (l.srtAck a now).core = (l.core.srtAck a now).1 := by
  unfold FLink.srtAck
  dsimp only
  split <;> rfl

theorem rtt_srtAck (l : FLink F) (a : Int) (now : Nat) :
    (l.srtAck a now).rtt = match (l.core.srtAck a now).2 with
      | some r => l.rtt.updateEstimate r now
      | none => l.rtt := by
  unfold FLink.srtAck
  dsimp only
  split <;> rename_i h <;> simp [h]

theorem sameShell_ackFold (acks : List Nat) (now : Nat) (l : FLink F) :
    SameShell l (ackFold acks now l) := by
  unfold ackFold
  induction acks generalizing l with
  | nil => exact SameShell.rfl' l
  | cons a as ih => exact (sameShell_srtAck l _ now).trans (ih _)

theorem cstep_ackFold (acks : List Nat) (now : Nat) (l : FLink F) :
    CStep now [] l.core (ackFold acks now l).core := by
  unfold ackFold
  induction acks generalizing l with
  | nil => exact CStep.rfl' now _
  | cons a as ih =>
    simp only [List.foldl_cons]
    have h1 : CStep now [] l.core (l.srtAck (toI32 a) now).core := by
      rw [core_srtAck]; exact cstep_srtAck _ _ _
    simpa using h1.trans (ih (l.srtAck (toI32 a) now))

/-- The sample `handle_srt_ack` feeds to the RTT tracker: the acknowledged number is newer than the
high-water mark, is in this link's log, and its age is in `(0, 10000]` ms. -/
theorem srtAck_sample (c : Conn) (ack : Int) (now r : Nat) (h : (c.srtAck ack now).2 = some r) :
    c.highestAcked < ack ∧ ∃ sent, logFind c.log ack = some sent ∧ r = now - sent ∧ 0 < r ∧ r ≤ 10000 := by
  have hmax := Lit.ACK_RTT_MAX_MS_eq
  unfold Conn.srtAck at h
  split at h
  · simp at h
  · rename_i hgt
    dsimp only at h
    split at h
    · simp at h
    · rename_i sent hs
      split at h
      · rename_i hr
        cases h
        exact ⟨by omega, sent, hs, rfl, hr.1, by omega⟩
      · simp at h

omit [Scalar F] in
theorem pw_withCores {R : Conn → Conn → Prop} (ls : List (FLink F)) (cs : Links)
    (h : PW R (cores ls) cs) :
    PW (fun l l' => ∃ c, R l.core c ∧ l' = { l with core := c }) ls (withCores ls cs) := by
  have hlen : ls.length = cs.length := by have := h.1; simpa [cores] using this
  refine ⟨by simp [withCores, hlen], ?_⟩
  intro j l l' hl hl'
  unfold withCores at hl'
  rw [List.getElem?_map] at hl'
  cases hz : (ls.zip cs)[j]? with
  | none => rw [hz] at hl'; simp at hl'
  | some p =>
    rw [hz] at hl'
    simp only [Option.map_some, Option.some.injEq] at hl'
    obtain ⟨h1, h2⟩ := List.getElem?_zip_eq_some.mp hz
    rw [hl] at h1; cases h1
    refine ⟨p.2, ?_, hl'.symm⟩
    exact h.2 j _ _ (by simp [cores, List.getElem?_map, hl]) h2

/-- What `process_connection_events` does to one link. -/
structure EvStep (sacks : List Int) (acks : List Nat) (now : Nat) (l l' : FLink F) : Prop where
  core : CStep now sacks l.core l'.core
  rtt : l'.rtt = (ackFold acks now l).rtt
  shell : SameShell l l'

theorem pCE_links (s : Sys F) (idx : Nat) (inc : Incoming) (now : Nat) :
    PW (EvStep (inc.sacks.map toI32) inc.acks now) s.links
      (processConnectionEvents s idx inc now).1.links := by
  unfold processConnectionEvents
  dsimp only
  rw [foldl_map_comm (fun (a : Nat) (l : FLink F) => l.srtAck (toI32 a) now)]
  have h1 : PW (fun l l1 => l1 = ackFold inc.acks now l) s.links
      (s.links.map fun l => inc.acks.foldl (fun l a => l.srtAck (toI32 a) now) l) :=
    PW.map_right _ _ (fun _ => rfl)
  refine PW.trans h1 (pw_withCores _ _
    (PW.trans (pw_fold_sacks inc.sacks _ idx s.cfg.classic now) (pw_fold_naks inc.naks _ s.trk now)
      (fun a b c hab hbc => by simpa using hab.trans hbc))) ?_
  rintro l l1 l' rfl ⟨c, hc, rfl⟩
  refine ⟨?_, rfl, ?_⟩
  · simpa using (cstep_ackFold inc.acks now l).trans hc
  · have := sameShell_ackFold inc.acks now l
    unfold SameShell at this ⊢
    rw [this]

theorem pCE_rest (s : Sys F) (idx : Nat) (inc : Incoming) (now : Nat) :
    (processConnectionEvents s idx inc now).1 =
      { s with links := (processConnectionEvents s idx inc now).1.links } ∧
    (processConnectionEvents s idx inc now).2 =
      { client := if s.clientKnown then inc.forward else [] } := ⟨rfl, rfl⟩

/-! ## `process_uplink_packet`, branch by branch, with the literal type codes -/

/-- Liveness stamp: `conn.last_received = Some(now)`. -/
def stamp (l : FLink F) (now : Nat) : FLink F :=
  { l with core := { l.core with lastReceived := some now } }

/-- The REG3 arm: clear pre-registration accounting, mark connected, stamp, record success. -/
def reg3Link (l : FLink F) (now : Nat) : FLink F :=
  let l1 := l.clearPreRegistration now
  { l1 with core := { l1.core with connected := true, lastReceived := some now },
            established := if l1.established == 0 then now else l1.established,
            failCount := 0 }

/-- The keepalive arm on the already stamped link. -/
def kaLink (l : FLink F) (data : Codec.Bytes) (now : Nat) : FLink F :=
  match ((stamp l now).handleKeepaliveResponse data now).2 with
  | some _ =>
    let l3 := ((stamp l now).handleKeepaliveResponse data now).1.recordRttProbe
    { l3 with core := { l3.core with proofMs := now } }
  | none => ((stamp l now).handleKeepaliveResponse data now).1

/-- `processUplinkPacket` restated flat, with the wire type codes as literals:
0x9211 REG_NGP, 0x9201 REG2, 0x9202 REG3, 0x9210 REG_ERR, 0x8002 SRT ACK, 0x8003 SRT NAK,
0x9100 SRTLA ACK, 0x9000 keepalive. -/
def pupSpec (l : FLink F) (idx : Nat) (reg : Reg.Reg) (clientKnown : Bool) (data : Codec.Bytes) (now : Nat) :
    FLink F × Reg.Reg × Incoming :=
  match Codec.getPacketTypeS data with
  | none => (l, reg, {})
  | some pt =>
    if pt = 0x9211 then
      (l, (Reg.reg1IfNgpImmediate (Reg.handleRegNgp reg idx now) idx now).1,
        { reg1Send := (Reg.reg1IfNgpImmediate (Reg.handleRegNgp reg idx now) idx now).2 })
    else if pt = 0x9201 then (l, Reg.handleReg2 reg idx data now, {})
    else if pt = 0x9202 then (reg3Link l now, Reg.handleReg3 reg, {})
    else if pt = 0x9210 then (l.markForRecovery, Reg.handleRegErr reg now, {})
    else if pt = 0x8002 then
      (stamp l now, reg,
        { acks := match Codec.unChk none (Codec.parseSrtAck data) with
            | some a => [a]
            | none => [],
          forward := [data], direct := if clientKnown then [data] else [] })
    else if pt = 0x8003 then
      (stamp l now, reg, { naks := Codec.unChk [] (Codec.parseSrtNak data), forward := [data] })
    else if pt = 0x9100 then
      (stamp l now, reg, { sacks := Codec.unChk [] (Codec.parseSrtlaAck data) })
    else if pt = 0x9000 then (kaLink l data now, reg, {})
    else (stamp l now, reg, { forward := [data] })

theorem processUplinkPacket_eq (l : FLink F) (idx : Nat) (reg : Reg.Reg) (ck : Bool) (data : Codec.Bytes)
    (now : Nat) : processUplinkPacket l idx reg ck data now = pupSpec l idx reg ck data now := by
  unfold processUplinkPacket pupSpec Reg.processRegistrationPacket
  cases h : Codec.getPacketTypeS data with
  | none => rfl
  | some pt =>
    simp only [Proto.SRTLA_TYPE_REG_NGP_eq, Proto.SRTLA_TYPE_REG2_eq, Proto.SRTLA_TYPE_REG3_eq,
      Proto.SRTLA_TYPE_REG_ERR_eq, Proto.SRT_TYPE_ACK_eq, Proto.SRT_TYPE_NAK_eq,
      Proto.SRTLA_TYPE_ACK_eq, Proto.SRTLA_TYPE_KEEPALIVE_eq]
    by_cases h1 : pt = 37393
    · simp [h1]
    by_cases h2 : pt = 37377
    · simp [h2]
    by_cases h3 : pt = 37378
    · simp [h3, reg3Link]
    by_cases h4 : pt = 37392
    · simp [h4]
    simp only [h1, h2, h3, h4, if_false]
    by_cases h5 : pt = 32770
    · simp [h5, stamp]
      cases Codec.unChk none (Codec.parseSrtAck data) <;> rfl
    by_cases h6 : pt = 32771
    · simp [h6, stamp]
    by_cases h7 : pt = 37120
    · simp [h7, stamp]
    by_cases h8 : pt = 36864
    · simp only [h8, kaLink, stamp]
      generalize @FLink.handleKeepaliveResponse F _ _ data now = r
      obtain ⟨l2, _ | x⟩ := r <;> simp
    simp [h5, h6, h7, h8, stamp]

/-! ## `handle_uplink_packet` = lookup → arm → fan-out -/

omit [Scalar F] in
theorem findIdx_get (ls : List (FLink F)) (cid idx : Nat)
    (h : ls.findIdx? (·.core.connId == cid) = some idx) :
    ∃ l, ls[idx]? = some l ∧ l.core.connId = cid := by
  obtain ⟨hlt, hp, -⟩ := List.findIdx?_eq_some_iff_getElem.mp h
  exact ⟨ls[idx], List.getElem?_eq_getElem hlt, by simpa using hp⟩

omit [Scalar F] in
theorem getElem?_setAt (ls : List (FLink F)) (i j : Nat) (x : FLink F) :
    (setAt ls i x)[j]? = if j = i then (ls[j]?).map (fun _ => x) else ls[j]? := by
  unfold setAt
  rw [List.getElem?_mapIdx]
  split
  · rfl
  · cases ls[j]? <;> rfl

/-- The arrival link after its arm of `process_uplink_packet` and the deferred REG1 send stamp. -/
def arrival (l : FLink F) (idx : Nat) (reg : Reg.Reg) (ck : Bool) (data : Codec.Bytes) (now : Nat) :
    FLink F :=
  match (pupSpec l idx reg ck data now).2.2.reg1Send with
  | some _ =>
    { (pupSpec l idx reg ck data now).1 with
        core := { (pupSpec l idx reg ck data now).1.core with lastSent := some now } }
  | none => (pupSpec l idx reg ck data now).1

theorem handleUplinkPacket_eq (s : Sys F) (cid : Nat) (data : Codec.Bytes) (now idx : Nat) (l : FLink F)
    (hne : data ≠ []) (hidx : s.links.findIdx? (·.core.connId == cid) = some idx)
    (hl : s.links[idx]? = some l) :
    handleUplinkPacket s cid data now =
      ((processConnectionEvents
          { s with links := setAt s.links idx (arrival l idx s.reg s.clientKnown data now),
                   reg := (pupSpec l idx s.reg s.clientKnown data now).2.1 }
          idx (pupSpec l idx s.reg s.clientKnown data now).2.2 now).1,
       { wire := match (pupSpec l idx s.reg s.clientKnown data now).2.2.reg1Send with
           | some p => [(cid, p)]
           | none => [],
         client := (pupSpec l idx s.reg s.clientKnown data now).2.2.direct ++
           (if s.clientKnown then (pupSpec l idx s.reg s.clientKnown data now).2.2.forward else []) }) := by
  unfold handleUplinkPacket
  have he : data.isEmpty = false := by cases data <;> simp_all
  simp only [he, hidx, hl, processUplinkPacket_eq, arrival]
  generalize pupSpec l idx s.reg s.clientKnown data now = r
  obtain ⟨l1, reg1, inc⟩ := r
  cases inc.reg1Send <;> simp [processConnectionEvents]

/-! ## The arrival link, arm by arm -/

section proj
variable (l : FLink F)

omit [Scalar F] in
@[simp] theorem rrp_lastReceived : l.recordRttProbe.core.lastReceived = l.core.lastReceived := by
  unfold FLink.recordRttProbe; split <;> (try split) <;> rfl
omit [Scalar F] in
@[simp] theorem rrp_proofMs : l.recordRttProbe.core.proofMs = l.core.proofMs := by
  unfold FLink.recordRttProbe; split <;> (try split) <;> rfl
omit [Scalar F] in
@[simp] theorem rrp_log : l.recordRttProbe.core.log = l.core.log := by
  unfold FLink.recordRttProbe; split <;> (try split) <;> rfl
omit [Scalar F] in
@[simp] theorem rrp_connId : l.recordRttProbe.core.connId = l.core.connId := by
  unfold FLink.recordRttProbe; split <;> (try split) <;> rfl
omit [Scalar F] in
@[simp] theorem rrp_connected : l.recordRttProbe.core.connected = l.core.connected := by
  unfold FLink.recordRttProbe; split <;> (try split) <;> rfl
omit [Scalar F] in
@[simp] theorem rrp_highestAcked : l.recordRttProbe.core.highestAcked = l.core.highestAcked := by
  unfold FLink.recordRttProbe; split <;> (try split) <;> rfl
omit [Scalar F] in
@[simp] theorem rrp_rtt : l.recordRttProbe.rtt = l.rtt := by
  unfold FLink.recordRttProbe; split <;> (try split) <;> rfl
omit [Scalar F] in
@[simp] theorem rrp_lks : l.recordRttProbe.lastKeepaliveSent = l.lastKeepaliveSent := by
  unfold FLink.recordRttProbe; split <;> (try split) <;> rfl

end proj

/-- The keepalive arm: the link is stamped; its log, ids and cadence clock are untouched; the proof
stamp and the RTT filter move only when an outstanding probe is answered with an age in `(0, 10000]`. -/
theorem kaLink_spec (l : FLink F) (data : Codec.Bytes) (now : Nat) :
    (kaLink l data now).core.lastReceived = some now ∧
    (kaLink l data now).core.log = l.core.log ∧
    (kaLink l data now).core.connId = l.core.connId ∧
    (kaLink l data now).core.connected = l.core.connected ∧
    (kaLink l data now).core.highestAcked = l.core.highestAcked ∧
    (kaLink l data now).lastKeepaliveSent = l.lastKeepaliveSent ∧
    (((kaLink l data now).core.proofMs = l.core.proofMs ∧
        ((kaLink l data now).rtt = l.rtt ∨
         (l.rtt.waiting = true ∧ (kaLink l data now).rtt = { l.rtt with waiting := false }))) ∨
     (l.rtt.waiting = true ∧ ∃ ts, Codec.extractKeepaliveTimestamp data = .ok (some ts) ∧
        0 < now - ts ∧ now - ts ≤ 10000 ∧ (kaLink l data now).core.proofMs = now ∧
        (kaLink l data now).rtt = { (l.rtt.updateEstimate (now - ts) now) with waiting := false })) := by
  unfold kaLink
  cases hs : ((stamp l now).handleKeepaliveResponse data now).2 with
  | some r =>
    obtain ⟨hw, ts, hts, hr, h0, h1, he⟩ := Keepalive.hkr_some (stamp l now) data now r hs
    subst hr
    simp only [he]
    refine ⟨by simp [stamp], by simp [stamp], by simp [stamp], by simp [stamp], by simp [stamp],
      by simp [stamp], Or.inr ⟨hw, ts, hts, h0, h1, by simp, by simp [stamp]⟩⟩
  | none =>
    have he := Keepalive.hkr_none (stamp l now) data now hs
    simp only [he]
    by_cases hw : l.rtt.waiting = true
    · have hw' : (stamp l now).rtt.waiting = true := hw
      simp only [hw', if_true]
      exact ⟨rfl, rfl, rfl, rfl, rfl, rfl, Or.inl ⟨rfl, Or.inr ⟨hw, rfl⟩⟩⟩
    · have hw' : ¬ (stamp l now).rtt.waiting = true := hw
      simp only [hw']
      exact ⟨rfl, rfl, rfl, rfl, rfl, rfl, Or.inl ⟨rfl, Or.inl rfl⟩⟩

theorem pupSpec_none (l : FLink F) (idx : Nat) (reg : Reg.Reg) (ck : Bool) (data : Codec.Bytes) (now : Nat)
    (h : Codec.getPacketTypeS data = none) : pupSpec l idx reg ck data now = (l, reg, {}) := by
  unfold pupSpec; simp only [h]

/-- Which arm ran, by type code. -/
theorem arrival_cases (l : FLink F) (idx : Nat) (reg : Reg.Reg) (ck : Bool) (data : Codec.Bytes)
    (now pt : Nat) (hpt : Codec.getPacketTypeS data = some pt) :
    (pt = 0x9211 ∧ (arrival l idx reg ck data now = l ∨
        arrival l idx reg ck data now = { l with core := { l.core with lastSent := some now } })) ∨
    (pt = 0x9201 ∧ arrival l idx reg ck data now = l) ∨
    (pt = 0x9202 ∧ arrival l idx reg ck data now = reg3Link l now) ∨
    (pt = 0x9210 ∧ arrival l idx reg ck data now = l.markForRecovery) ∨
    (pt = 0x9000 ∧ arrival l idx reg ck data now = kaLink l data now) ∨
    (pt ≠ 0x9211 ∧ pt ≠ 0x9201 ∧ pt ≠ 0x9202 ∧ pt ≠ 0x9210 ∧ pt ≠ 0x9000 ∧
      arrival l idx reg ck data now = stamp l now) := by
  unfold arrival pupSpec
  simp only [hpt]
  by_cases h1 : pt = 0x9211
  · simp only [h1, if_true]
    left
    refine ⟨trivial, ?_⟩
    cases (Reg.reg1IfNgpImmediate (Reg.handleRegNgp reg idx now) idx now).2 <;> simp
  by_cases h2 : pt = 0x9201
  · simp [h2]
  by_cases h3 : pt = 0x9202
  · simp [h3]
  by_cases h4 : pt = 0x9210
  · simp [h4]
  by_cases h5 : pt = 0x9000
  · simp [h5]
  right; right; right; right; right
  refine ⟨by simpa using h1, by simpa using h2, by simpa using h3, by simpa using h4, by simpa using h5, ?_⟩
  by_cases h6 : pt = 0x8002
  · simp [h6]
  by_cases h7 : pt = 0x8003
  · simp [h7]
  by_cases h8 : pt = 0x9100
  · simp [h8]
  simp [h1, h2, h3, h4, h5, h6, h7, h8]

/-- What the arm hands to `process_connection_events`, by type code. -/
theorem incoming_spec (l : FLink F) (idx : Nat) (reg : Reg.Reg) (ck : Bool) (data : Codec.Bytes)
    (now pt : Nat) (hpt : Codec.getPacketTypeS data = some pt) :
    (pupSpec l idx reg ck data now).2.2.forward =
      (if pt = 0x9211 ∨ pt = 0x9201 ∨ pt = 0x9202 ∨ pt = 0x9210 ∨ pt = 0x9100 ∨ pt = 0x9000 then []
       else [data]) ∧
    (pupSpec l idx reg ck data now).2.2.direct = (if pt = 0x8002 ∧ ck = true then [data] else []) ∧
    (pupSpec l idx reg ck data now).2.2.sacks =
      (if pt = 0x9100 then Codec.unChk [] (Codec.parseSrtlaAck data) else []) ∧
    (pupSpec l idx reg ck data now).2.2.acks =
      (if pt = 0x8002 then (match Codec.unChk none (Codec.parseSrtAck data) with
        | some a => [a]
        | none => []) else []) ∧
    (pupSpec l idx reg ck data now).2.2.naks =
      (if pt = 0x8003 then Codec.unChk [] (Codec.parseSrtNak data) else []) ∧
    (pt ≠ 0x9211 → (pupSpec l idx reg ck data now).2.2.reg1Send = none) := by
  unfold pupSpec
  simp only [hpt]
  by_cases h1 : pt = 0x9211
  · simp [h1]
  by_cases h2 : pt = 0x9201
  · simp [h2]
  by_cases h3 : pt = 0x9202
  · simp [h3]
  by_cases h4 : pt = 0x9210
  · simp [h4]
  by_cases h5 : pt = 0x8002
  · simp [h5]
  by_cases h6 : pt = 0x8003
  · simp [h6]
  by_cases h7 : pt = 0x9100
  · simp [h7]
  by_cases h8 : pt = 0x9000
  · simp [h8]
  simp [h1, h2, h3, h4, h5, h6, h7, h8]

/-! ## Output of one uplink event -/

omit [Scalar F] in
theorem exists_findIdx (ls : List (FLink F)) (cid : Nat) (h : ∃ l ∈ ls, l.core.connId = cid) :
    ∃ idx, ls.findIdx? (·.core.connId == cid) = some idx := by
  cases hf : ls.findIdx? (·.core.connId == cid) with
  | some i => exact ⟨i, rfl⟩
  | none =>
    obtain ⟨l, hl, hc⟩ := h
    have := List.findIdx?_eq_none_iff.mp hf l hl
    simp [hc] at this

theorem unknown_link (s : Sys F) (cid : Nat) (data : Codec.Bytes) (now : Nat)
    (h : s.links.findIdx? (·.core.connId == cid) = none) :
    handleUplinkPacket s cid data now = (s, {}) := by
  unfold handleUplinkPacket
  split
  · rfl
  · simp only [h]

omit [Scalar F] in
theorem withCores_self (ls : List (FLink F)) : withCores ls (cores ls) = ls := by
  unfold withCores cores
  induction ls with
  | nil => rfl
  | cons l rest ih =>
    simp only [List.map_cons, List.zip_cons_cons]
    rw [ih]

omit [Scalar F] in
theorem setAt_self (ls : List (FLink F)) (i : Nat) (l : FLink F) (h : ls[i]? = some l) :
    setAt ls i l = ls := by
  apply List.ext_getElem?
  intro j
  rw [getElem?_setAt]
  split
  · rename_i hj; subst hj; rw [h]; rfl
  · rfl

/-- A datagram too short to carry a type code changes nothing and produces no output. -/
theorem short_datagram (s : Sys F) (cid : Nat) (data : Codec.Bytes) (now : Nat) (h : data.length < 2) :
    (handleUplinkPacket s cid data now).1 = s ∧ (handleUplinkPacket s cid data now).2.wire = [] ∧
    (handleUplinkPacket s cid data now).2.client = [] ∧
    (handleUplinkPacket s cid data now).2.hkErr = false := by
  match data, h with
  | [], _ => simp [handleUplinkPacket]
  | [x], _ =>
    cases hf : s.links.findIdx? (·.core.connId == cid) with
    | none => rw [unknown_link s cid [x] now hf]; exact ⟨rfl, rfl, rfl, rfl⟩
    | some idx =>
      obtain ⟨l, hl, -⟩ := findIdx_get s.links cid idx hf
      rw [handleUplinkPacket_eq s cid [x] now idx l (by simp) hf hl]
      have hp : pupSpec l idx s.reg s.clientKnown [x] now = (l, s.reg, {}) :=
        pupSpec_none l idx s.reg s.clientKnown [x] now rfl
      have ha : arrival l idx s.reg s.clientKnown [x] now = l := by
        unfold arrival; rw [hp]
      rw [ha, hp]
      dsimp only
      rw [setAt_self s.links idx l hl]
      refine ⟨?_, rfl, by simp, rfl⟩
      unfold processConnectionEvents
      simp only [List.foldl_nil, withCores_self]

/-- What reaches the SRT client, by type code (`ck` = a client address is known). -/
theorem client_out (s : Sys F) (cid : Nat) (data : Codec.Bytes) (now pt idx : Nat)
    (hpt : Codec.getPacketTypeS data = some pt)
    (hidx : s.links.findIdx? (·.core.connId == cid) = some idx) :
    (handleUplinkPacket s cid data now).2.client =
      (if pt = 0x8002 ∧ s.clientKnown = true then [data] else []) ++
      (if s.clientKnown = true then
        (if pt = 0x9211 ∨ pt = 0x9201 ∨ pt = 0x9202 ∨ pt = 0x9210 ∨ pt = 0x9100 ∨ pt = 0x9000 then []
         else [data])
       else []) := by
  obtain ⟨l, hl, -⟩ := findIdx_get s.links cid idx hidx
  have hne : data ≠ [] := by intro h; subst h; simp [Codec.getPacketTypeS] at hpt
  rw [handleUplinkPacket_eq s cid data now idx l hne hidx hl]
  obtain ⟨hf, hd, -⟩ := incoming_spec l idx s.reg s.clientKnown data now pt hpt
  simp only [hf, hd]

/-- Every link after one uplink event, relative to the same position before it: the arrival link
goes through its arm first, then every link goes through the ACK/NAK fan-out. -/
theorem handleUplinkPacket_link (s : Sys F) (cid : Nat) (data : Codec.Bytes) (now idx : Nat) (l : FLink F)
    (hne : data ≠ []) (hidx : s.links.findIdx? (·.core.connId == cid) = some idx)
    (hl : s.links[idx]? = some l) (j : Nat) (a : FLink F) (ha : s.links[j]? = some a) :
    ∃ b, (handleUplinkPacket s cid data now).1.links[j]? = some b ∧
      EvStep ((pupSpec l idx s.reg s.clientKnown data now).2.2.sacks.map toI32)
        (pupSpec l idx s.reg s.clientKnown data now).2.2.acks now
        (if j = idx then arrival l idx s.reg s.clientKnown data now else a) b := by
  rw [handleUplinkPacket_eq s cid data now idx l hne hidx hl]
  dsimp only
  have h2 := pCE_links
    ({ s with links := setAt s.links idx (arrival l idx s.reg s.clientKnown data now),
              reg := (pupSpec l idx s.reg s.clientKnown data now).2.1 } : Sys F)
    idx (pupSpec l idx s.reg s.clientKnown data now).2.2 now
  have h1 : (setAt s.links idx (arrival l idx s.reg s.clientKnown data now))[j]? =
      some (if j = idx then arrival l idx s.reg s.clientKnown data now else a) := by
    rw [getElem?_setAt, ha]
    split <;> rfl
  exact h2.get h1

theorem handleUplinkPacket_length (s : Sys F) (cid : Nat) (data : Codec.Bytes) (now : Nat) :
    (handleUplinkPacket s cid data now).1.links.length = s.links.length := by
  by_cases hne : data = []
  · subst hne; simp [handleUplinkPacket]
  cases hf : s.links.findIdx? (·.core.connId == cid) with
  | none => rw [unknown_link s cid data now hf]
  | some idx =>
    obtain ⟨l, hl, -⟩ := findIdx_get s.links cid idx hf
    rw [handleUplinkPacket_eq s cid data now idx l hne hf hl]
    dsimp only
    have h2 := pCE_links
      ({ s with links := setAt s.links idx (arrival l idx s.reg s.clientKnown data now),
                reg := (pupSpec l idx s.reg s.clientKnown data now).2.1 } : Sys F)
      idx (pupSpec l idx s.reg s.clientKnown data now).2.2 now
    rw [← h2.1]
    simp [setAt]

/-! ## Small facts used by the property files -/

theorem type_of_len (data : Codec.Bytes) (h : 2 ≤ data.length) : ∃ pt, Codec.getPacketTypeS data = some pt := by
  match data, h with
  | a :: b :: _, _ => exact ⟨_, rfl⟩

theorem ok_of_ne_panic {α : Type} {x : Codec.Chk α} (h : x ≠ .panic) :
    ∃ a, x = .ok a ∧ ∀ d, Codec.unChk d x = a := by
  cases x with
  | ok a => exact ⟨a, rfl, fun _ => rfl⟩
  | panic => exact absurd rfl h

/-- `handle_srt_ack` does not read the liveness stamp. -/
theorem srtAck_stamp_irrelevant (c : Conn) (x : Option Nat) (a : Int) (now : Nat) :
    ({ c with lastReceived := x }.srtAck a now).2 = (c.srtAck a now).2 := by
  unfold Conn.srtAck
  dsimp only
  split <;> rfl

/-! ## The verdict stamp of the event loop (`Ev.stamp`) -/

theorem stampLink_getElem? (ls : List (FLink F)) (idx : Nat) (weak ld ccb : Bool) (cct : Nat) (j : Nat) :
    (stampLink ls idx weak ld ccb cct)[j]? =
      (ls[j]?).map fun l => if j = idx then
        { l with weak := weak, lossDegraded := ld, ccBackingOff := ccb, ccTarget := cct } else l := by
  unfold stampLink
  rw [List.getElem?_mapIdx]

/-- A relation that holds between a link and itself, and between a link and any re-stamping of its four
verdict fields, holds position-wise across a `stamp` event. -/
theorem pw_stampLink {R : FLink F → FLink F → Prop} (hr : ∀ l, R l l)
    (hs : ∀ (l : FLink F) weak ld ccb cct,
      R l { l with weak := weak, lossDegraded := ld, ccBackingOff := ccb, ccTarget := cct })
    (ls : List (FLink F)) (idx : Nat) (weak ld ccb : Bool) (cct : Nat) :
    PW R ls (stampLink ls idx weak ld ccb cct) := by
  refine ⟨by unfold stampLink; exact List.length_mapIdx.symm, fun j a b ha hb => ?_⟩
  rw [stampLink_getElem?, ha] at hb
  simp only [Option.map_some, Option.some.injEq] at hb
  subst hb
  split
  · exact hs a _ _ _ _
  · exact hr a

/-! ## `sync_conn_timeout` (`Ev.syncTimeout`) -/

/-- A relation that holds between a link and the same link with a rewritten timeout copy holds position-wise
across a `syncTimeout` event. -/
theorem pw_syncTimeout {R : FLink F → FLink F → Prop} (T : Nat)
    (hs : ∀ l : FLink F, R l { l with connTimeoutMs := T }) (ls : List (FLink F)) :
    PW R ls (ls.map fun l => { l with connTimeoutMs := T }) := by
  refine ⟨(List.length_map _).symm, fun j a b ha hb => ?_⟩
  rw [List.getElem?_map, ha] at hb
  simp only [Option.map_some, Option.some.injEq] at hb
  subst hb
  exact hs a

end Srtla.Uplink
