import Srtla.Lemmas.ForwardStep
/-!
# Run-level lemmas for C01: accounting, order, probe rate
-/
namespace Srtla.Sys
open Srtla Srtla.Gen Srtla.Conn Srtla.Select Srtla.Rtt Srtla.Link Scalar

set_option linter.unusedSectionVars false

variable {F : Type} [Scalar F]

theorem queueOf_of_get {s : Sys F} {i : Nat} {l : FLink F} (h : s.links[i]? = some l) : queueOf s i = l.queue := by
  simp [queueOf, h]

theorem connIdOf_of_get {s : Sys F} {i : Nat} {l : FLink F} (h : s.links[i]? = some l) :
    connIdOf s i = l.core.connId := by
  simp [connIdOf, h]

/-- A client datagram appends nothing or exactly its own item. -/
theorem appendedClient_cases (s : Sys F) (pkt : Bytes) (now i : Nat) :
    appendedClient s pkt now i = [] ∨ appendedClient s pkt now i = [clientItem pkt now] := by
  unfold appendedClient
  split
  · exact Or.inl rfl
  · split
    · unfold clientApp probeApp
      split
      · exact Or.inr rfl
      · split
        · split
          · exact Or.inr rfl
          · exact Or.inl rfl
        · exact Or.inl rfl
    · exact Or.inl rfl

theorem dep_true (q : List QItem) :
    (((q.map fun x => (x, true)).filter (·.2)).map (·.1)) = q := by
  induction q with
  | nil => rfl
  | cons a t ih => simp_all

theorem dep_false (q : List QItem) :
    (((q.map fun x => (x, false)).filter (·.2)).map (·.1)) = [] := by
  induction q with
  | nil => rfl
  | cons a t ih => simp_all

/-- **Exact accounting** over a run, per link: the initial queue followed by the arrival log splits,
in order, into the departed items (each flagged: put on the wire / discarded) followed by the final
queue; the wire log is exactly the departed items flagged "wire", in order, byte for byte. -/
theorem run_accounting (s : Sys F) (h : Inv s) (evs : List Ev) (hnr : NoReload evs) (i : Nat) (hi : i < s.links.length) :
    ∃ dep : List (QItem × Bool),
      queueOf s i ++ arrivals s evs i = dep.map (·.1) ++ queueOf (run s evs).1 i ∧
      wireLog s evs i = bytesOf ((dep.filter (·.2)).map (·.1)) := by
  induction evs generalizing s with
  | nil => exact ⟨[], by simp [arrivals, run], by simp [wireLog]⟩
  | cons ev evs ih =>
    obtain ⟨h1, h2⟩ := step_link s ev h.nodup hnr.head
    have hl : s.links[i]? = some s.links[i] := List.getElem?_eq_getElem hi
    obtain ⟨l', g1, g2, -, -⟩ := h2 i _ hl
    obtain ⟨dep1, d1, d2⟩ := ih (step s ev).1 (h.step ev hnr.head) hnr.tail (by omega)
    rw [queueOf_of_get g1] at d1
    simp only [arrivals, wireLog, run, queueOf_of_get hl, connIdOf_of_get hl]
    rcases g2.2 with g | g | g
    · refine ⟨dep1, ?_, ?_⟩
      · rw [← d1, g.1]; simp
      · rw [g.2.1, d2]; simp
    · refine ⟨(s.links[i].queue ++ appended s ev i).map (fun x => (x, true)) ++ dep1, ?_, ?_⟩
      · rw [g.1, List.nil_append] at d1
        rw [d1]; simp [List.map_map, Function.comp_def]
      · rw [g.2, d2, List.filter_append, List.map_append, dep_true]; simp
    · -- a send that failed part-way: the first `k` departed items are flagged "wire", the rest "discarded"
      obtain ⟨hq', ⟨k, hk⟩, -⟩ := g
      refine ⟨((s.links[i].queue ++ appended s ev i).take k).map (fun x => (x, true)) ++
          ((s.links[i].queue ++ appended s ev i).drop k).map (fun x => (x, false)) ++ dep1, ?_, ?_⟩
      · rw [hq', List.nil_append] at d1
        have hsplit := List.take_append_drop k (s.links[i].queue ++ appended s ev i)
        have e : (((s.links[i].queue ++ appended s ev i).take k).map (fun x => (x, true)) ++
            ((s.links[i].queue ++ appended s ev i).drop k).map (fun x => (x, false)) ++ dep1).map (·.1) =
            (s.links[i].queue ++ appended s ev i).take k ++ (s.links[i].queue ++ appended s ev i).drop k ++
              dep1.map (·.1) := by
          simp only [List.map_append, List.map_map, Function.comp_def, List.map_id']
        rw [d1, e, hsplit]; simp
      · rw [hk, d2]
        simp only [List.filter_append, List.map_append, dep_true, dep_false, bytesOf_append, List.append_nil]
        simp [bytesOf, List.map_take]

/-- The arrival log of every link is a subsequence of the client datagrams of the run. -/
theorem arrivals_sublist (s : Sys F) (evs : List Ev) (i : Nat) : (arrivals s evs i).Sublist (clientItems evs) := by
  induction evs generalizing s with
  | nil => exact List.Sublist.refl _
  | cons ev evs ih =>
    cases ev with
    | client now pkt =>
      simp only [arrivals, clientItems, appended]
      rcases appendedClient_cases s pkt now i with h | h
      · rw [h, List.nil_append]; exact (ih _).cons _
      · rw [h]; exact (ih _).cons_cons _
    | _ => simpa [arrivals, clientItems, appended] using ih _

/-- **Intact, in order, at most once per link**: the wire log of a link followed by its final queue
is a subsequence of its initial queue followed by the client datagrams of the run. -/
theorem run_sublist (s : Sys F) (h : Inv s) (evs : List Ev) (hnr : NoReload evs) (i : Nat) (hi : i < s.links.length) :
    (wireLog s evs i ++ bytesOf (queueOf (run s evs).1 i)).Sublist
      (bytesOf (queueOf s i) ++ bytesOf (clientItems evs)) := by
  obtain ⟨dep, d1, d2⟩ := run_accounting s h evs hnr i hi
  have e1 : bytesOf (queueOf s i) ++ bytesOf (arrivals s evs i) =
      bytesOf (dep.map (·.1)) ++ bytesOf (queueOf (run s evs).1 i) := by
    rw [← bytesOf_append, d1, bytesOf_append]
  have s1 : (bytesOf ((dep.filter (·.2)).map (·.1))).Sublist (bytesOf (dep.map (·.1))) := by
    unfold bytesOf
    exact (List.filter_sublist.map _).map _
  have s2 : (bytesOf (arrivals s evs i)).Sublist (bytesOf (clientItems evs)) := by
    unfold bytesOf; exact (arrivals_sublist s evs i).map _
  rw [d2]
  calc (bytesOf ((dep.filter (·.2)).map (·.1)) ++ bytesOf (queueOf (run s evs).1 i)).Sublist
        (bytesOf (dep.map (·.1)) ++ bytesOf (queueOf (run s evs).1 i)) := s1.append_right _
    _ = bytesOf (queueOf s i) ++ bytesOf (arrivals s evs i) := e1.symm
    _ |>.Sublist (bytesOf (queueOf s i) ++ bytesOf (clientItems evs)) := s2.append_left _

/-- The probe counter of link `i`. -/
def probeCounterOf (s : Sys F) (i : Nat) : Nat := (s.links[i]?.map (·.probeCounter)).getD 0

/-- **Probe rate** over a run. -/
theorem run_probe_rate (s : Sys F) (hnd : (ids s.links).Nodup) (evs : List Ev) (hnr : NoReload evs) (i : Nat)
    (hi : i < s.links.length) :
    100 * probeCopies s evs i + probeCounterOf (run s evs).1 i ≤ gatedRouted s evs i + probeCounterOf s i := by
  induction evs generalizing s with
  | nil => simp [probeCopies, gatedRouted, run]
  | cons ev evs ih =>
    obtain ⟨h1, h2⟩ := step_link s ev hnd hnr.head
    have hl : s.links[i]? = some s.links[i] := List.getElem?_eq_getElem hi
    obtain ⟨l', g1, -, g3, -⟩ := h2 i _ hl
    have := ih (step s ev).1 (by rw [step_ids s ev hnd hnr.head]; exact hnd) hnr.tail (by omega)
    have hp' : probeCounterOf (step s ev).1 i = l'.probeCounter := by simp [probeCounterOf, g1]
    have hp : probeCounterOf s i = s.links[i].probeCounter := by simp [probeCounterOf, hl]
    simp only [probeCopies, gatedRouted, run, hl, Option.map_some, Option.getD_some]
    rw [hp'] at this
    rw [hp]
    unfold ProbeFx at g3
    by_cases hc : consulted s ev i = true
    · rw [if_pos hc] at g3
      simp only [hc, Bool.true_and, if_true]
      by_cases hd : s.links[i].probeCounter + 1 ≥ 100
      · rw [if_pos hd] at g3
        simp only [decide_eq_true hd, if_true]
        omega
      · rw [if_neg hd] at g3
        simp only [decide_eq_false hd, Bool.false_eq_true, if_false]
        omega
    · rw [if_neg hc] at g3
      have hc' : consulted s ev i = false := by simpa using hc
      simp only [hc', Bool.false_and, Bool.false_eq_true, if_false]
      omega

/-! ## The specification functions, spelled out -/

/-- `appendedClient` in closed form, for a non-empty datagram routed to `sel`, on link `i` seen as `l1`
after the selection pass. -/
theorem appendedClient_eq (s : Sys F) (pkt : Bytes) (now i sel : Nat) (l1 : FLink F)
    (hne : pkt ≠ []) (ht : target s pkt now = some sel) (hl1 : (routedLinks s now)[i]? = some l1) :
    appendedClient s pkt now i =
      if i = sel then [clientItem pkt now]
      else if s.reg.hasConnected = true ∧ (Codec.getSrtSequenceNumberS pkt).isSome = true ∧
          l1.stallGated = true ∧ l1.core.connected = true ∧ l1.probeCounter + 1 ≥ 100 then [clientItem pkt now]
      else [] := by
  have hne' : pkt.isEmpty = false := by cases pkt <;> simp_all
  unfold appendedClient
  rw [if_neg (by simp [hne']), ht, hl1]
  dsimp only
  unfold clientApp probeApp probeCalled
  by_cases hi : i = sel
  · simp [hi]
  · simp only [if_neg hi]
    cases hr : s.reg.hasConnected <;> cases hs : (Codec.getSrtSequenceNumberS pkt).isSome <;>
      simp [hi, and_assoc]

/-- `probeConsulted` in closed form. -/
theorem probeConsulted_iff (s : Sys F) (pkt : Bytes) (now i sel : Nat) (l1 : FLink F)
    (hne : pkt ≠ []) (ht : target s pkt now = some sel) (hl1 : (routedLinks s now)[i]? = some l1) :
    probeConsulted s pkt now i = true ↔
      (s.reg.hasConnected = true ∧ (Codec.getSrtSequenceNumberS pkt).isSome = true ∧ i ≠ sel ∧
        l1.stallGated = true ∧ l1.core.connected = true) := by
  have hne' : pkt.isEmpty = false := by cases pkt <;> simp_all
  unfold probeConsulted
  rw [ht, hl1]
  simp only [hne', Bool.not_false, Bool.true_and, Bool.and_eq_true, decide_eq_true_eq]
  unfold probeCalled
  constructor
  · rintro ⟨⟨h1, h2⟩, h3, h4, h5⟩; exact ⟨h1, h2, h3, h4, h5⟩
  · rintro ⟨h1, h2, h3, h4, h5⟩; exact ⟨⟨h1, h2⟩, h3, h4, h5⟩

/-- The routing decision is the scheduler's pick, or — only for a data packet, in enhanced mode, inside
the keyframe window or flagged as a retransmission — the best-quality eligible link. -/
theorem selected_cases (s : Sys F) (pkt : Bytes) (now : Nat) :
    selected s pkt now = (runSelect s now).2 ∨
    ((Codec.getSrtSequenceNumberS pkt).isSome = true ∧ s.cfg.classic = false ∧
      (s.critDeadline > now ∨ Codec.isSrtDataRetransmitS pkt = true) ∧
      ∃ b, selected s pkt now = some b ∧
        bestQualityEligible ((runSelect s now).1.links.map FLink.toSLink) now = some b) := by
  unfold selected
  dsimp only
  split
  · rename_i hc
    simp only [Bool.and_eq_true, Bool.not_eq_true', Bool.or_eq_true, decide_eq_true_eq] at hc
    split
    · rename_i b hb
      split
      · exact Or.inr ⟨hc.1.1, hc.1.2, hc.2, b, rfl, hb⟩
      · exact Or.inl rfl
    · exact Or.inl rfl
  · exact Or.inl rfl

/-! ## The routed link is eligible (Sys-level clause of C04) -/

/-- Writing a selection result back and reading the selection view again gives that result, provided the
pass kept the frame (`C12_frame`). -/
theorem toSLink_absorb (l : FLink F) (sl : SLink F) (h : frame sl = frame l.toSLink) :
    (l.absorb sl).toSLink = sl := by
  cases sl
  simp only [frame, FLink.toSLink, Frame.mk.injEq] at h
  obtain ⟨h1, h2, h3, h4, h5, h6, h7, h8, h9, h10, h11, h12, h13, h14, h15, h16, h17, h18, h19, h20, h21, h22, h23⟩ := h
  subst h1 h2 h3 h4 h5 h6 h7 h8 h9 h10 h11 h12 h13 h14 h15 h16 h17 h18 h19 h20 h21 h22 h23
  rfl

/-- The link that receives the unique copy is eligible in the state the selection pass leaves behind. -/
theorem selected_eligible (s : Sys F) (pkt : Bytes) (now sel : Nat) (h : selected s pkt now = some sel) :
    ∃ l1, (runSelect s now).1.links[sel]? = some l1 ∧ l1.core.connected = true ∧ l1.schedulable = true ∧
      l1.isTimedOut now = false ∧ l1.stallGated = false := by
  rcases selected_cases s pkt now with h0 | ⟨-, -, -, b, hb1, hb2⟩
  · rw [h0, runSelect_snd] at h
    obtain ⟨c, hc, e1, e2, e3, e4⟩ := Props.C04.C04_selector_eligible _ _ _ _ _ h
    have hfr := Props.C12.C12_frame (s.links.map FLink.toSLink) s.lastSelected now s.cfg
    have hlen : sel < s.links.length := by
      have := (List.getElem?_eq_some_iff.1 hc).1
      rw [hfr.1] at this; simpa using this
    have hl : s.links[sel]? = some s.links[sel] := List.getElem?_eq_getElem hlen
    have hfs : frame c = frame s.links[sel].toSLink := by
      have := congrArg (fun (x : List (Frame F)) => x[sel]?) hfr.2
      simp only [List.getElem?_map, hc, hl, Option.map_some, Option.some.injEq] at this
      exact this
    have hz : (s.links.zip (selectIdx (s.links.map FLink.toSLink) s.lastSelected now s.cfg).1)[sel]? =
        some (s.links[sel], c) := List.getElem?_zip_eq_some.2 ⟨hl, hc⟩
    refine ⟨s.links[sel].absorb c, by rw [runSelect_links, List.getElem?_map, hz]; rfl, ?_⟩
    have hts := toSLink_absorb s.links[sel] c hfs
    refine ⟨?_, ?_, ?_, ?_⟩
    · have := congrArg SLink.connected hts; rw [e4] at this; exact this
    · have := congrArg (fun x => Select.schedulable x) hts
      simp only [e1] at this
      simpa [FLink.schedulable, Select.schedulable, FLink.toSLink] using this
    · unfold FLink.isTimedOut; rw [hts]; exact e2
    · have := congrArg SLink.stallGated hts; rw [e3] at this; exact this
  · rw [hb1] at h; cases h
    obtain ⟨c, hc, e1, e2, e3, e4⟩ := Props.C04.C04_override_eligible _ _ _ hb2
    rw [List.getElem?_map] at hc
    cases hl1 : (runSelect s now).1.links[sel]? with
    | none => rw [hl1] at hc; cases hc
    | some l1 =>
      rw [hl1] at hc
      simp only [Option.map_some, Option.some.injEq] at hc
      subst hc
      exact ⟨l1, rfl, e1, by simpa [FLink.schedulable, Select.schedulable, FLink.toSLink] using e2, e3, e4⟩

end Srtla.Sys
