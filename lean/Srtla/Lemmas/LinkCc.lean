import Srtla.Model.LinkCc
/-!
# Lemmas for C16: the exact-arithmetic scalar and the target arithmetic of `tick`

`ratScalar e fin infv` instantiates the model's scalar class with exact rational arithmetic:
`as u64` is the (saturating) floor, `exp := e`, `is_finite := fin` and the `INFINITY` token `infv`
are arbitrary parameters (the arithmetic clauses of C16 do not depend on them).
Core Lean only (`Rat` and `grind`'s linear arithmetic are in core).
-/
namespace Srtla.LinkCc
open Srtla.Gen.LinkCc

/-- Exact arithmetic on `Rat`. -/
@[reducible] def ratScalar (e : Rat → Rat) (fin : Rat → Bool) (infv : Rat) : Scalar Rat where
  ofNat n := (n : Rat)
  lit _ num den := (num : Rat) / (den : Rat)
  add a b := a + b
  sub a b := a - b
  mul a b := a * b
  div a b := a / b
  neg a := -a
  abs a := if a < 0 then -a else a
  exp := e
  lt a b := decide (a < b)
  le a b := decide (a ≤ b)
  beq a b := decide (a = b)
  isNaN _ := false
  isFinite := fin
  toU64 a := if a.floor.toNat > u64Max then u64Max else a.floor.toNat
  inf := infv

/-! ## floor interface -/

theorem floorNat_le {x : Rat} {n : Nat} (h : x < (n : Rat) + 1) : x.floor.toNat ≤ n := by
  have h1 : x.floor < (n : Int) + 1 := by
    rw [Rat.floor_lt_iff]; push_cast; exact h
  omega

theorem le_floorNat {x : Rat} {n : Nat} (h : (n : Rat) ≤ x) : n ≤ x.floor.toNat := by
  have h1 : (n : Int) ≤ x.floor := by
    rw [Rat.le_floor_iff]; push_cast; exact h
  omega

/-- `x as u64` at exact arithmetic, for `lo ≤ x < hi + 1`. -/
theorem toU64_between (e fin infv) {x : Rat} {lo hi : Nat} (hlo : (lo : Rat) ≤ x)
    (hhi : x < (hi : Rat) + 1) (hb : lo ≤ u64Max) :
    lo ≤ (ratScalar e fin infv).toU64 x ∧ (ratScalar e fin infv).toU64 x ≤ hi := by
  have a := le_floorNat hlo
  have b := floorNat_le hhi
  show lo ≤ (if x.floor.toNat > u64Max then u64Max else x.floor.toNat) ∧
       (if x.floor.toNat > u64Max then u64Max else x.floor.toNat) ≤ hi
  split <;> omega

variable (e : Rat → Rat) (fin : Rat → Bool) (infv : Rat)

theorem fmax_R (a b : Rat) : @fmax Rat (ratScalar e fin infv) a b = if a < b then b else a := by
  simp [fmax, Scalar.lt, Scalar.isNaN]
theorem fmin_R (a b : Rat) : @fmin Rat (ratScalar e fin infv) a b = if b < a then b else a := by
  simp [fmin, Scalar.lt, Scalar.isNaN]
theorem natCast_le_R {a b : Nat} (h : a ≤ b) : (a : Rat) ≤ (b : Rat) := by exact_mod_cast h
theorem natCast_lt_R {a b : Nat} (h : a < b) : (a : Rat) < (b : Rat) := by exact_mod_cast h

/-- `⌊t·k/1000⌋` computed in exact arithmetic is the integer division. -/
theorem toU64_permille (t k : Nat) (ht : t * k / 1000 ≤ u64Max) :
    (ratScalar e fin infv).toU64 (((t : Rat) * (k : Rat)) / (1000 : Rat)) = t * k / 1000 := by
  have h1 : t * k / 1000 * 1000 ≤ t * k := Nat.div_mul_le_self _ _
  have h2 : t * k < (t * k / 1000 + 1) * 1000 := by omega
  have c1 : ((t * k / 1000 * 1000 : Nat) : Rat) ≤ ((t * k : Nat) : Rat) := natCast_le_R h1
  have c2 : ((t * k : Nat) : Rat) < (((t * k / 1000 + 1) * 1000 : Nat) : Rat) := natCast_lt_R h2
  push_cast at c1 c2
  have := toU64_between e fin infv (x := ((t : Rat) * (k : Rat)) / (1000 : Rat)) (lo := t * k / 1000)
    (hi := t * k / 1000) (by grind) (by grind) ht
  omega

theorem toU64_natCast (n : Nat) (h : n ≤ u64Max) : (ratScalar e fin infv).toU64 (n : Rat) = n := by
  have := toU64_between e fin infv (x := (n : Rat)) (lo := n) (hi := n) (by grind) (by grind) h
  omega

theorem nextRate_climb_R (ps : CcState) (mode : ClimbMode) (t so : Nat) (ht : 100000 ≤ t) :
    let x := @nextRate Rat (ratScalar e fin infv) .climbing ps mode t so
    (t : Rat) ≤ x ∧ x * 1000 ≤ (t : Rat) * ((1000 + stepPermille mode : Nat) : Rat) ∧
      (x = (t : Rat) ∨ x ≤ 2 * (so : Rat)) := by
  have h0 : (100000 : Rat) ≤ (t : Rat) := by exact_mod_cast ht
  intro x
  cases mode <;>
    simp only [x, nextRate, stepPermille, AI_STEP_PERMILLE_eq, HAI_STEP_PERMILLE_eq,
      FAST_RECOVERY_STEP_PERMILLE_eq, MIN_TARGET_BPS_eq, fmax_R, fmin_R, zero, Scalar.ofNat, Scalar.add,
      Scalar.sub, Scalar.mul, Scalar.div] <;>
    push_cast <;> grind

theorem u64Max_big : 1000000000 ≤ u64Max := by decide

/-- Climbing: the new target. -/
theorem tickTarget_climb_R (ps : CcState) (mode : ClimbMode) (t so : Nat)
    (ht : 100000 ≤ t) (ht2 : t ≤ 200000000) :
    let tt := @tickTarget Rat (ratScalar e fin infv) .climbing ps mode t so
    t ≤ tt ∧ tt ≤ 200000000 ∧ tt * 1000 ≤ t * (1000 + stepPermille mode) ∧ (t < tt → tt ≤ 2 * so) := by
  intro tt
  obtain ⟨a, b, c⟩ := nextRate_climb_R e fin infv ps mode t so ht
  have hb := u64Max_big
  generalize hx : @nextRate Rat (ratScalar e fin infv) .climbing ps mode t so = x at a b c
  have htt : tt = clampNat ((ratScalar e fin infv).toU64 x) 100000 200000000 := by
    simp only [tt, tickTarget, hx, MIN_TARGET_BPS_eq, MAX_TARGET_BPS_eq]
  generalize hP : t * (1000 + stepPermille mode) = P at *
  have h1 : P / 1000 * 1000 ≤ P := Nat.div_mul_le_self _ _
  have h2 : P < (P / 1000 + 1) * 1000 := by omega
  have c2 : ((P : Nat) : Rat) < (((P / 1000 + 1) * 1000 : Nat) : Rat) := natCast_lt_R h2
  have hPc : ((P : Nat) : Rat) = (t : Rat) * ((1000 + stepPermille mode : Nat) : Rat) := by
    rw [← hP]; push_cast; rfl
  push_cast at c2
  have u1 := toU64_between e fin infv (x := x) (lo := t) (hi := P / 1000) a (by grind) (by omega)
  rcases c with c | c
  · have u2 := toU64_between e fin infv (x := x) (lo := t) (hi := t) a (by grind) (by omega)
    clear_value tt; subst htt; unfold clampNat
    split <;> (try split) <;> omega
  · have u2 := toU64_between e fin infv (x := x) (lo := t) (hi := 2 * so) a (by push_cast; grind) (by omega)
    clear_value tt; subst htt; unfold clampNat
    split <;> (try split) <;> omega

/-- BackingOff: the new target. -/
theorem tickTarget_backoff_R (ps : CcState) (mode : ClimbMode) (t so : Nat)
    (ht : 100000 ≤ t) (ht2 : t ≤ 200000000) :
    let tt := @tickTarget Rat (ratScalar e fin infv) .backingOff ps mode t so
    tt ≤ t ∧ 100000 ≤ tt ∧ t * 850 / 1000 ≤ tt ∧ min so t ≤ tt := by
  have h0 : (100000 : Rat) ≤ (t : Rat) := by exact_mod_cast ht
  intro tt
  have hb := u64Max_big
  have hx : ∀ x, @nextRate Rat (ratScalar e fin infv) .backingOff ps mode t so = x →
      x ≤ (t : Rat) ∧ (t : Rat) * 850 / 1000 ≤ x ∧ ((so : Rat) ≤ x ∨ (t : Rat) ≤ x) := by
    intro x hx
    simp only [nextRate, BACKOFF_PERMILLE_eq, fmax_R, fmin_R, Scalar.ofNat, Scalar.mul, Scalar.div] at hx
    push_cast at hx
    grind
  generalize hxx : @nextRate Rat (ratScalar e fin infv) .backingOff ps mode t so = x at hx
  obtain ⟨a, b, c⟩ := hx x rfl
  have htt : tt = clampNat ((ratScalar e fin infv).toU64 x) 100000 200000000 := by
    simp only [tt, tickTarget, hxx, MIN_TARGET_BPS_eq, MAX_TARGET_BPS_eq]
  have h1 : t * 850 / 1000 * 1000 ≤ t * 850 := Nat.div_mul_le_self _ _
  have c1 : ((t * 850 / 1000 * 1000 : Nat) : Rat) ≤ ((t * 850 : Nat) : Rat) := natCast_le_R h1
  push_cast at c1
  have u1 := toU64_between e fin infv (x := x) (lo := t * 850 / 1000) (hi := t) (by grind) (by grind) (by omega)
  rcases c with c | c
  · by_cases hso : so ≤ t
    · have u2 := toU64_between e fin infv (x := x) (lo := so) (hi := t) c (by grind) (by omega)
      clear_value tt; subst htt; unfold clampNat
      split <;> (try split) <;> omega
    · have : (t : Rat) ≤ (so : Rat) := natCast_le_R (by omega)
      have u2 := toU64_between e fin infv (x := x) (lo := t) (hi := t) (by grind) (by grind) (by omega)
      clear_value tt; subst htt; unfold clampNat
      split <;> (try split) <;> omega
  · have u2 := toU64_between e fin infv (x := x) (lo := t) (hi := t) c (by grind) (by omega)
    clear_value tt; subst htt; unfold clampNat
    split <;> (try split) <;> omega

/-- Drain entry: the new target is exactly `max ⌊0.75·t⌋ MIN`. -/
theorem tickTarget_drain_entry_R (ps : CcState) (mode : ClimbMode) (t so : Nat) (hps : ps ≠ .drain)
    (ht : 100000 ≤ t) (ht2 : t ≤ 200000000) :
    @tickTarget Rat (ratScalar e fin infv) .drain ps mode t so = max (t * 750 / 1000) 100000 := by
  have hb := u64Max_big
  have := toU64_permille e fin infv t 750 (by omega)
  simp only [tickTarget, nextRate, hps, DRAIN_PERMILLE_eq, MIN_TARGET_BPS_eq, MAX_TARGET_BPS_eq, Scalar.ofNat,
    Scalar.mul, Scalar.div, ne_eq, not_false_eq_true, ite_true]
  push_cast at this ⊢
  rw [this]; unfold clampNat
  split <;> (try split) <;> omega

/-- Holding, staying in Drain, (unreachable) Bootstrap, and Climbing with no measured traffic:
the target is unchanged. -/
theorem tickTarget_same_R (next ps : CcState) (mode : ClimbMode) (t so : Nat)
    (h : next = .holding ∨ next = .bootstrap ∨ (next = .drain ∧ ps = .drain) ∨ (next = .climbing ∧ so = 0))
    (ht : 100000 ≤ t) (ht2 : t ≤ 200000000) :
    @tickTarget Rat (ratScalar e fin infv) next ps mode t so = t := by
  have hb := u64Max_big
  have := toU64_natCast e fin infv t (by omega)
  rcases h with h | h | ⟨h, h'⟩ | ⟨h, h'⟩ <;> subst h <;> (try subst h') <;>
    simp only [tickTarget, nextRate, MIN_TARGET_BPS_eq, MAX_TARGET_BPS_eq, Scalar.ofNat, ne_eq,
      not_true_eq_false, ite_false, Nat.lt_irrefl, gt_iff_lt] <;>
    (rw [this]; unfold clampNat; split <;> (try split) <;> omega)

/-- `sane_observed` at exact arithmetic: `min observed (4 · max target 1e6)`. -/
theorem saneObserved_R (t obs : Nat) (ht2 : t ≤ 200000000) :
    @saneObserved Rat (ratScalar e fin infv) t obs = min obs (4 * max t 1000000) := by
  have hb := u64Max_big
  simp only [saneObserved, INITIAL_TARGET_BPS_eq, cOutlier, Scalar.lit, CC_OUTLIER_FACTOR_num,
    CC_OUTLIER_FACTOR_den, fmin_R, Scalar.ofNat, Scalar.mul]
  generalize hm : max t 1000000 = m
  have hm2 : m ≤ 200000000 := by omega
  have e4 : ((4 : Int) : Rat) / ((1 : Nat) : Rat) * (m : Rat) = ((4 * m : Nat) : Rat) := by
    push_cast; grind
  rw [e4]
  by_cases h : 4 * m < obs
  · have h4 : ((4 * m : Nat) : Rat) < (obs : Rat) := natCast_lt_R h
    rw [if_pos h4, toU64_natCast e fin infv (4 * m) (by omega)]
    omega
  · have hc : (obs : Rat) ≤ ((4 * m : Nat) : Rat) := natCast_le_R (by omega)
    have h4 : ¬ ((4 * m : Nat) : Rat) < (obs : Rat) := by grind
    rw [if_neg h4, toU64_natCast e fin infv obs (by omega)]
    omega

section generic
variable {F : Type} [Scalar F]

omit [Scalar F] in
theorem updateBackoffEfficacy_keeps (s : St F) (lh : Bool) (pm : Nat) :
    let s' := updateBackoffEfficacy s lh pm
    s'.target = s.target ∧ s'.state = s.state ∧ s'.lossEwma = s.lossEwma ∧ s'.lossHighSince = s.lossHighSince ∧
    s'.lossDegraded = s.lossDegraded ∧ s'.rttEwma = s.rttEwma ∧ s'.rttVar = s.rttVar ∧
    s'.fastRecovery = s.fastRecovery := by
  intro s'
  simp only [s', updateBackoffEfficacy]
  repeat' split
  all_goals simp

theorem chooseState_ne_bootstrap (a b c : Bool) (i : F) : chooseState a b c i ≠ .bootstrap := by
  unfold chooseState; repeat' split
  all_goals simp

theorem updateLossEwma_spec (s : St F) (lossPm now : Nat) :
    let s' := updateLossEwma s lossPm now
    let ew := nextLossEwma s lossPm now
    s'.lossEwma = ew ∧ s'.target = s.target ∧ s'.state = s.state ∧ s'.rttEwma = s.rttEwma ∧
    (Scalar.lt cEnter ew = true →
      (s.lossHighSince = 0 → s'.lossHighSince = now ∧ s'.lossDegraded = s.lossDegraded) ∧
      (s.lossHighSince ≠ 0 → s'.lossHighSince = s.lossHighSince ∧
        s'.lossDegraded = (s.lossDegraded || decide (now - s.lossHighSince ≥ 4000)))) ∧
    (Scalar.lt cEnter ew = false →
      s'.lossHighSince = 0 ∧ s'.lossDegraded = (s.lossDegraded && !Scalar.lt ew cClear)) := by
  intro s' ew
  simp only [s', ew, updateLossEwma, LOSS_DEGRADE_SUSTAIN_MS_eq]
  by_cases h1 : Scalar.lt cEnter (nextLossEwma s lossPm now) = true
  · by_cases h2 : s.lossHighSince = 0
    · simp [h1, h2]
    · by_cases h3 : now - s.lossHighSince ≥ 4000 <;> simp [h1, h2, h3]
  · by_cases h2 : Scalar.lt (nextLossEwma s lossPm now) cClear = true <;> simp [h1, h2]

/-- A tick that finds no usable RTT estimate: Bootstrap at the floor, latch fields untouched. -/
theorem tick_boot (s : St F) (obs now : Nat) (h : noRtt (evictExpired s now) = true) :
    let s' := tick s obs now
    s'.state = .bootstrap ∧ s'.target = 100000 ∧ s'.lossDegraded = s.lossDegraded ∧
      s'.lossHighSince = s.lossHighSince ∧ s'.lossEwma = s.lossEwma ∧ s'.rttEwma = s.rttEwma := by
  intro s'
  simp only [s', tick, h, if_true, MIN_TARGET_BPS_eq]
  simp [evictExpired]

/-- A tick with an RTT estimate. -/
theorem tick_run (s : St F) (obs now : Nat) (h : noRtt (evictExpired s now) = false) :
    let s0 := evictExpired s now
    let s' := tick s obs now
    let s1 := updateLossEwma s0 (lossPermille s0) now
    let so := saneObserved (F := F) s.target obs
    let t0 := if s.state = .bootstrap then seedTarget so else s.target
    s'.lossDegraded = s1.lossDegraded ∧ s'.lossHighSince = s1.lossHighSince ∧ s'.lossEwma = s1.lossEwma ∧
      s'.rttEwma = s.rttEwma ∧ s'.state ≠ .bootstrap ∧
      s'.target = tickTarget (F := F) s'.state s.state s'.climbMode t0 so := by
  intro s0 s' s1 so t0
  have k := updateLossEwma_spec s0 (lossPermille s0) now
  obtain ⟨k1, k2, k3, k4, -⟩ := k
  have b := updateBackoffEfficacy_keeps s1 (decide (lossPermille s0 > LOSS_BACKOFF_PERMILLE)) (lossPermille s0)
  obtain ⟨b1, b2, b3, b4, b5, b6, b7, b8⟩ := b
  have e0t : s0.target = s.target := rfl
  have e0s : s0.state = s.state := rfl
  have e0r : s0.rttEwma = s.rttEwma := rfl
  simp only [s', tick, show noRtt (evictExpired s now) = false from h, Bool.false_eq_true, if_false]
  refine ⟨b5, b4, b3, ?_, chooseState_ne_bootstrap _ _ _ _, ?_⟩
  · show (updateBackoffEfficacy s1 _ _).rttEwma = s.rttEwma
    rw [b6, k4, e0r]
  · show tickTarget _ (updateBackoffEfficacy s1 _ _).state _ _ _ = _
    rw [b2, k3, e0s, k2, e0t]
end generic

theorem clampNat_bounds (x : Nat) :
    100000 ≤ clampNat x 100000 200000000 ∧ clampNat x 100000 200000000 ≤ 200000000 := by
  unfold clampNat; split <;> (try split) <;> omega

theorem tickTarget_bounds {F : Type} [Scalar F] (next ps : CcState) (mode : ClimbMode) (t so : Nat) :
    100000 ≤ tickTarget (F := F) next ps mode t so ∧ tickTarget (F := F) next ps mode t so ≤ 200000000 := by
  simp only [tickTarget, MIN_TARGET_BPS_eq, MAX_TARGET_BPS_eq]; exact clampNat_bounds _

theorem seedTarget_bounds (so : Nat) : 1000000 ≤ seedTarget so ∧ seedTarget so ≤ 200000000 ∧
    seedTarget so = min (max so 1000000) 200000000 := by
  simp only [seedTarget, INITIAL_TARGET_BPS_eq, MIN_TARGET_BPS_eq, MAX_TARGET_BPS_eq, clampNat]
  by_cases h : so < 1000000 <;> simp only [h, if_true, if_false] <;> repeat' split
  all_goals omega

theorem stepPermille_le (m : ClimbMode) : stepPermille m ≤ 60 := by
  cases m <;> simp [stepPermille]

/-! ## Inductive invariant (every scalar) -/

def Inv {F : Type} (s : St F) : Prop :=
  100000 ≤ s.target ∧ s.target ≤ 200000000 ∧ (s.state = .bootstrap → s.target = 100000)

/-- what every op other than `tick` leaves untouched -/
def Keeps {F : Type} (s s' : St F) : Prop :=
  s'.target = s.target ∧ s'.state = s.state ∧ s'.lossDegraded = s.lossDegraded ∧
  s'.lossHighSince = s.lossHighSince ∧ s'.lossEwma = s.lossEwma ∧ s'.climbMode = s.climbMode

section generic2
variable {F : Type} [Scalar F]

theorem keeps_updateRttMin (s : St F) (x : F) (now : Nat) : Keeps s (updateRttMin s x now) := by
  simp only [updateRttMin, Keeps]; split <;> simp

theorem keeps_recordRtt (s : St F) (x : F) (now : Nat) : Keeps s (recordRtt s x now) := by
  simp only [recordRtt]
  split
  · simp [Keeps]
  · split
    · exact keeps_updateRttMin _ x now
    · generalize hs1 : ({ s with rttEwma := _, rttVar := _ } : St F) = s1
      have k := keeps_updateRttMin s1 x now
      have e : Keeps s s1 := by subst hs1; simp [Keeps]
      simp only [Keeps] at k e ⊢
      obtain ⟨k1, k2, k3, k4, k5, k6⟩ := k
      obtain ⟨e1, e2, e3, e4, e5, e6⟩ := e
      exact ⟨k1.trans e1, k2.trans e2, k3.trans e3, k4.trans e4, k5.trans e5, k6.trans e6⟩

omit [Scalar F] in
theorem keeps_recordLoss (s : St F) (a l now : Nat) : Keeps s (recordLoss s a l now) := by
  simp [Keeps, recordLoss, evictExpired]

omit [Scalar F] in
theorem keeps_observeTraffic (s : St F) (b : Nat) (n : Int) (now : Nat) :
    Keeps s (observeTraffic s b n now) := by
  simp only [observeTraffic, Keeps, recordLoss, evictExpired]
  repeat' split
  all_goals simp

theorem inv_tick (s : St F) (obs now : Nat) : Inv (tick s obs now) := by
  cases h : noRtt (evictExpired s now)
  · obtain ⟨-, -, -, -, hne, ht⟩ := tick_run s obs now h
    have := tickTarget_bounds (F := F) (tick s obs now).state s.state (tick s obs now).climbMode
      (if s.state = .bootstrap then seedTarget (saneObserved (F := F) s.target obs) else s.target)
      (saneObserved (F := F) s.target obs)
    rw [← ht] at this
    exact ⟨this.1, this.2, fun hb => absurd hb hne⟩
  · obtain ⟨h1, h2, -⟩ := tick_boot s obs now h
    exact ⟨by omega, by omega, fun _ => h2⟩

theorem inv_apply (s : St F) (op : Op F) (h : Inv s) : Inv (apply s op) := by
  cases op with
  | tick o now => exact inv_tick s o now
  | rtt x now =>
    obtain ⟨a, b, -⟩ := keeps_recordRtt s x now
    simp only [Inv, apply, a, b]; exact h
  | traffic bt n now =>
    obtain ⟨a, b, -⟩ := keeps_observeTraffic s bt n now
    simp only [Inv, apply, a, b]; exact h
  | loss sn l now =>
    obtain ⟨a, b, -⟩ := keeps_recordLoss s sn l now
    simp only [Inv, apply, a, b]; exact h

theorem inv_foldl (ops : List (Op F)) (s : St F) (h : Inv s) : Inv (ops.foldl apply s) := by
  induction ops generalizing s with
  | nil => exact h
  | cons op ops ih => exact ih _ (inv_apply s op h)

theorem inv_run (ops : List (Op F)) : Inv (run ops) :=
  inv_foldl ops _ (by simp [Inv, St.default])

end generic2

/-- One tick with an RTT estimate, exact arithmetic: what happens to the target, by resulting state. -/
theorem tick_target_R (s : St Rat) (obs now : Nat) (hinv : Inv s)
    (h : @noRtt Rat (ratScalar e fin infv) (@evictExpired Rat s now) = false) :
    let s' := @tick Rat (ratScalar e fin infv) s obs now
    let so := min obs (4 * max s.target 1000000)
    let t := if s.state = .bootstrap then seedTarget so else s.target
    let t' := s'.target
    100000 ≤ t ∧ t ≤ 200000000 ∧ s'.state ≠ .bootstrap ∧
    (s'.state = .climbing → t ≤ t' ∧ t' * 1000 ≤ t * 1060 ∧ (t < t' → t' ≤ 2 * so)) ∧
    (s'.state = .holding → t' = t) ∧
    (s'.state = .backingOff → t' ≤ t ∧ t * 850 / 1000 ≤ t' ∧ min so t ≤ t') ∧
    (s'.state = .drain → (s.state = .drain → t' = t) ∧ (s.state ≠ .drain → t' = max (t * 750 / 1000) 100000)) := by
  intro s' so t t'
  obtain ⟨i1, i2, i3⟩ := hinv
  obtain ⟨-, -, -, -, hne, ht⟩ := @tick_run Rat (ratScalar e fin infv) s obs now h
  rw [saneObserved_R e fin infv s.target obs i2] at ht
  have hb := seedTarget_bounds so
  have ht1 : 100000 ≤ t ∧ t ≤ 200000000 := by
    simp only [t]; split <;> omega
  have ht : t' = @tickTarget Rat (ratScalar e fin infv) s'.state s.state s'.climbMode t so := ht
  have hne : s'.state ≠ .bootstrap := hne
  clear_value t' t s'
  clear hb
  clear_value so
  refine ⟨ht1.1, ht1.2, hne, ?_, ?_, ?_, ?_⟩
  · intro hs
    rw [hs] at ht
    have k := tickTarget_climb_R e fin infv s.state s'.climbMode t so ht1.1 ht1.2
    have := stepPermille_le s'.climbMode
    simp only at k
    rw [ht]
    refine ⟨k.1, ?_, k.2.2.2⟩
    have := k.2.2.1
    generalize stepPermille s'.climbMode = pm at *
    have : t * (1000 + pm) ≤ t * 1060 := Nat.mul_le_mul_left _ (by omega)
    omega
  · intro hs
    rw [hs] at ht
    rw [ht]
    exact tickTarget_same_R e fin infv .holding s.state _ t so (Or.inl rfl) ht1.1 ht1.2
  · intro hs
    rw [hs] at ht
    rw [ht]
    have k := tickTarget_backoff_R e fin infv s.state s'.climbMode t so ht1.1 ht1.2
    exact ⟨k.1, k.2.2.1, k.2.2.2⟩
  · intro hs
    rw [hs] at ht
    constructor
    · intro hd
      rw [ht]
      exact tickTarget_same_R e fin infv .drain s.state _ t so (Or.inr (Or.inr (Or.inl ⟨rfl, hd⟩))) ht1.1 ht1.2
    · intro hd
      rw [ht]
      exact tickTarget_drain_entry_R e fin infv s.state _ t so hd ht1.1 ht1.2

theorem updateRttMin_ewma {F : Type} [Scalar F] (s : St F) (x : F) (now : Nat) :
    (updateRttMin s x now).rttEwma = s.rttEwma ∧ (updateRttMin s x now).state = s.state := by
  simp only [updateRttMin]; split <;> simp

/-- RTT EWMA stays positive once positive (exact arithmetic). -/
theorem recordRtt_ewma_R (s : St Rat) (x : Rat) (now : Nat) (h0 : 0 ≤ s.rttEwma) :
    let s' := @recordRtt Rat (ratScalar e fin infv) s x now
    0 ≤ s'.rttEwma ∧ (0 < s.rttEwma → 0 < s'.rttEwma) ∧
    (@rttAccepted Rat (ratScalar e fin infv) x = true → 0 < s'.rttEwma) ∧
    (@rttAccepted Rat (ratScalar e fin infv) x = false → s' = s) := by
  intro s'
  by_cases ha : @rttAccepted Rat (ratScalar e fin infv) x = true
  · have hx : 0 < x := by
      simp [rttAccepted, Scalar.le, Scalar.isFinite, zero, Scalar.ofNat] at ha
      grind
    have key : 0 < s'.rttEwma := by
      simp only [s', recordRtt, ha]
      simp only [Bool.not_true, Bool.false_eq_true, if_false]
      split
      · rw [(@updateRttMin_ewma Rat (ratScalar e fin infv) _ x now).1]; exact hx
      · simp only []
        rw [(@updateRttMin_ewma Rat (ratScalar e fin infv) _ x now).1]
        simp only [Scalar.ofNat, Scalar.add, Scalar.mul, Scalar.div]
        by_cases c1 : now - s.lastRttUpdate ≥ 1000
        · simp only [c1, if_true]; push_cast; grind
        · by_cases c2 : now - s.lastRttUpdate ≥ 500
          · simp only [c1, c2, if_true, if_false]; push_cast; grind
          · by_cases c3 : now - s.lastRttUpdate ≥ 250
            · simp only [c1, c2, c3, if_true, if_false]; push_cast; grind
            · simp only [c1, c2, c3, if_false]; push_cast; grind
    exact ⟨by grind, fun _ => key, fun _ => key, fun h => by simp [ha] at h⟩
  · have hs : s' = s := by simp [s', recordRtt, ha]
    rw [hs]
    exact ⟨h0, id, fun h => absurd h ha, fun _ => rfl⟩

theorem noRtt_R (s : St Rat) :
    @noRtt Rat (ratScalar e fin infv) s = false ↔ fin s.rttEwma = true ∧ s.rttEwma ≠ 0 := by
  simp [noRtt, Scalar.isFinite, Scalar.beq, zero, Scalar.ofNat]
  intro _
  exact decide_eq_false_iff_not

/-- exact-arithmetic invariant: the RTT EWMA is ≥ 0, and > 0 once the controller left Bootstrap -/
def InvR (s : St Rat) : Prop := 0 ≤ s.rttEwma ∧ (s.state ≠ .bootstrap → 0 < s.rttEwma)

theorem invR_apply (s : St Rat) (op : Op Rat) (h : InvR s) :
    InvR (@apply Rat (ratScalar e fin infv) s op) := by
  obtain ⟨h0, h1⟩ := h
  cases op with
  | rtt x now =>
    obtain ⟨a, b, -, -⟩ := recordRtt_ewma_R e fin infv s x now h0
    obtain ⟨-, ks, -⟩ := @keeps_recordRtt Rat (ratScalar e fin infv) s x now
    exact ⟨a, fun hs => b (h1 (by rw [← ks]; exact hs))⟩
  | traffic bt n now =>
    obtain ⟨-, ks, -⟩ := keeps_observeTraffic s bt n now
    have er : (observeTraffic s bt n now).rttEwma = s.rttEwma := by
      simp only [observeTraffic, recordLoss, evictExpired]; repeat' split
      all_goals rfl
    simp only [InvR, apply, er, ks]; exact ⟨h0, h1⟩
  | loss sn l now =>
    exact ⟨h0, h1⟩
  | tick o now =>
    cases hn : @noRtt Rat (ratScalar e fin infv) (evictExpired s now)
    · obtain ⟨-, -, -, er, -, -⟩ := @tick_run Rat (ratScalar e fin infv) s o now hn
      have := (noRtt_R e fin infv (evictExpired s now)).1 hn
      have e0 : (evictExpired s now).rttEwma = s.rttEwma := rfl
      rw [e0] at this
      simp only [InvR, apply, er]
      exact ⟨h0, fun _ => by grind⟩
    · obtain ⟨hs, -, -, -, -, er⟩ := @tick_boot Rat (ratScalar e fin infv) s o now hn
      simp only [InvR, apply, er, hs]
      exact ⟨h0, fun h => absurd rfl h⟩

theorem invR_foldl (ops : List (Op Rat)) (s : St Rat) (h : InvR s) :
    InvR (ops.foldl (@apply Rat (ratScalar e fin infv)) s) := by
  induction ops generalizing s with
  | nil => exact h
  | cons op ops ih => exact ih _ (invR_apply e fin infv s op h)

theorem invR_run (ops : List (Op Rat)) : InvR (@run Rat (ratScalar e fin infv) ops) :=
  invR_foldl e fin infv ops _ (by simp [InvR, St.default, zero, Scalar.ofNat])

/-- Outside Bootstrap (exact arithmetic, positive numbers finite) every tick finds an RTT estimate. -/
theorem noRtt_false_of_left (hfin : ∀ x : Rat, 0 < x → fin x = true) (s : St Rat) (h : InvR s)
    (hs : s.state ≠ .bootstrap) (now : Nat) :
    @noRtt Rat (ratScalar e fin infv) (evictExpired s now) = false := by
  rw [noRtt_R]
  have := h.2 hs
  have e0 : (evictExpired s now).rttEwma = s.rttEwma := rfl
  rw [e0]
  exact ⟨hfin _ this, by grind⟩

/-! ## ghost trace for the loss-degraded latch -/
section latch
variable {F : Type} [Scalar F]

/-- the model's comparison `ewma > 0.55` (`LOSS_DEGRADE_ENTER`) -/
def High (x : F) : Prop := Scalar.lt (cEnter : F) x = true
/-- the model's comparison `ewma < 0.25` (`LOSS_DEGRADE_CLEAR`) -/
def Low (x : F) : Prop := Scalar.lt x (cClear : F) = true

/-- Ghost: the trace of all loss-EWMA evaluations, newest first: `(now, ewma after the tick)` for
every tick that got past the Bootstrap test (those are exactly the calls of `update_loss_ewma`). -/
def traceStep (s : St F) (op : Op F) (tr : List (Nat × F)) : List (Nat × F) :=
  match op with
  | .tick o now => if noRtt (evictExpired s now) then tr else (now, (tick s o now).lossEwma) :: tr
  | _ => tr

def runG : List (Op F) → St F × List (Nat × F) → St F × List (Nat × F)
  | [], p => p
  | op :: ops, (s, tr) => runG ops (apply s op, traceStep s op tr)

theorem runG_fst (ops : List (Op F)) (s : St F) (tr : List (Nat × F)) :
    (runG ops (s, tr)).1 = ops.foldl apply s := by
  induction ops generalizing s tr with
  | nil => rfl
  | cons op ops ih => simp only [runG, List.foldl_cons]; exact ih _ _

/-- ghost invariant: while `loss_high_since ≠ 0`, the newest entries of the trace form a non-empty
run of evaluations that all compared `> 0.55`, the oldest of which is stamped `loss_high_since`. -/
def LatchInv (s : St F) (tr : List (Nat × F)) : Prop :=
  s.lossHighSince ≠ 0 →
    ∃ hrun rest first, tr = hrun ++ first :: rest ∧ first.1 = s.lossHighSince ∧ High first.2 ∧
      ∀ p ∈ hrun, High p.2

theorem latchInv_step (s : St F) (op : Op F) (tr : List (Nat × F)) (h : LatchInv s tr) :
    LatchInv (apply s op) (traceStep s op tr) := by
  cases op with
  | rtt x now =>
    have k := (keeps_recordRtt s x now).2.2.2.1
    intro hne; simp only [apply, k] at hne ⊢; exact h hne
  | traffic bt n now =>
    have k := (keeps_observeTraffic s bt n now).2.2.2.1
    intro hne; simp only [apply, k] at hne ⊢; exact h hne
  | loss sn l now => exact h
  | tick o now =>
    cases hn : noRtt (evictExpired s now)
    · obtain ⟨-, hh, he, -, -, -⟩ := tick_run s o now hn
      obtain ⟨k1, -, -, -, khi, klo⟩ := updateLossEwma_spec (evictExpired s now) (lossPermille (evictExpired s now)) now
      have e0 : (evictExpired s now).lossHighSince = s.lossHighSince := rfl
      intro hne
      simp only [apply, traceStep, hn, Bool.false_eq_true, if_false] at hne ⊢
      rw [hh] at hne ⊢
      rw [he, k1]
      cases hc : Scalar.lt (cEnter : F) (nextLossEwma (evictExpired s now) (lossPermille (evictExpired s now)) now)
      · exact absurd (klo hc).1 hne
      · obtain ⟨a, b⟩ := khi hc
        rw [e0] at a b
        by_cases hz : s.lossHighSince = 0
        · refine ⟨[], tr, (now, _), rfl, ?_, hc, by simp⟩
          exact ((a hz).1).symm
        · obtain ⟨hrun, rest, first, e1, e2, e3, e4⟩ := h hz
          refine ⟨(now, _) :: hrun, rest, first, by rw [e1]; rfl, ?_, e3, ?_⟩
          · rw [e2]; exact ((b hz).1).symm
          · intro p hp
            rcases List.mem_cons.1 hp with hp | hp
            · rw [hp]; exact hc
            · exact e4 p hp
    · obtain ⟨-, -, -, hh, -, -⟩ := tick_boot s o now hn
      intro hne
      simp only [apply, traceStep, hn, if_true] at hne ⊢
      rw [hh] at hne
      rw [hh]; exact h hne

theorem latchInv_runG (ops : List (Op F)) (s : St F) (tr : List (Nat × F)) (h : LatchInv s tr) :
    LatchInv (runG ops (s, tr)).1 (runG ops (s, tr)).2 := by
  induction ops generalizing s tr with
  | nil => exact h
  | cons op ops ih => exact ih _ _ (latchInv_step s op tr h)

end latch

/-! ## controller map -/
section gc
variable {F : Type} [Scalar F]

omit [Scalar F] in
theorem get_set_same (m : Ctl F) (id : Nat) (s : St F) : (m.set id s).get id = some s := by
  induction m with
  | nil => simp [Ctl.set, Ctl.get]
  | cons kv rest ih =>
    obtain ⟨k, v⟩ := kv
    simp only [Ctl.set]
    split
    · rename_i h; simp [Ctl.get, List.find?, h]
    · rename_i h; simp only [Ctl.get, List.find?, h] at ih ⊢; exact ih

omit [Scalar F] in
theorem get_set_other (m : Ctl F) (id id' : Nat) (s : St F) (hne : id' ≠ id) :
    (m.set id s).get id' = m.get id' := by
  induction m with
  | nil =>
    have : (id == id') = false := by simp; exact fun h => hne h.symm
    simp [Ctl.set, Ctl.get, List.find?, this]
  | cons kv rest ih =>
    obtain ⟨k, v⟩ := kv
    simp only [Ctl.set]
    split
    · rename_i h
      have hk : k = id := by simpa using h
      have : (k == id') = false := by simp [hk]; exact fun h => hne h.symm
      simp [Ctl.get, List.find?, this]
    · cases hk : (k == id')
      · simp only [Ctl.get, List.find?, hk] at ih ⊢; exact ih
      · simp [Ctl.get, List.find?, hk]

omit [Scalar F] in
theorem get_filter (m : Ctl F) (f : Nat → Bool) (id : Nat) :
    Ctl.get (m.filter fun e => f e.1) id = if f id then m.get id else none := by
  induction m with
  | nil => simp [Ctl.get]
  | cons kv rest ih =>
    obtain ⟨k, v⟩ := kv
    cases hk : (k == id)
    · cases hf : f k
      · simp only [List.filter, hf]; simp only [Ctl.get, List.find?, hk] at ih ⊢; exact ih
      · simp only [List.filter, hf]; simp only [Ctl.get, List.find?, hk] at ih ⊢; exact ih
    · have e : k = id := by simpa using hk
      subst e
      cases hf : f k
      · simp only [List.filter, hf]
        simp only [hf] at ih; simp [ih]
      · simp [List.filter, hf, Ctl.get, List.find?]

theorem tickLoop_get_other (m : Ctl F) (now : Nat) (cs : List (ConnIn F)) (id : Nat)
    (h : ∀ c ∈ cs, c.id ≠ id) : (tickLoop m now cs).get id = m.get id := by
  induction cs generalizing m with
  | nil => rfl
  | cons c cs ih =>
    simp only [tickLoop]
    rw [ih _ (fun c' hc' => h c' (List.mem_cons_of_mem _ hc'))]
    exact get_set_other _ _ _ _ (fun e => h c List.mem_cons_self e.symm)

theorem tickLoop_append (now : Nat) (xs ys : List (ConnIn F)) (m : Ctl F) :
    tickLoop m now (xs ++ ys) = tickLoop (tickLoop m now xs) now ys := by
  induction xs generalizing m with
  | nil => rfl
  | cons x xs ih => simp only [List.cons_append, tickLoop]; exact ih _
end gc

/-! ## Round 2 (a): the latch thresholds at exact arithmetic are the literal 55/100 and 25/100 -/

theorem cEnter_R : @cEnter Rat (ratScalar e fin infv) = 55 / 100 := by
  simp only [cEnter, Scalar.lit, LOSS_DEGRADE_ENTER_num, LOSS_DEGRADE_ENTER_den]
  decide +kernel

theorem cClear_R : @cClear Rat (ratScalar e fin infv) = 25 / 100 := by
  simp only [cClear, Scalar.lit, LOSS_DEGRADE_CLEAR_num, LOSS_DEGRADE_CLEAR_den]
  decide +kernel

theorem High_R (x : Rat) : @High Rat (ratScalar e fin infv) x ↔ (55 : Rat) / 100 < x := by
  simp only [High, cEnter_R, Scalar.lt, decide_eq_true_eq]

theorem Low_R (x : Rat) : @Low Rat (ratScalar e fin infv) x ↔ x < (25 : Rat) / 100 := by
  simp only [Low, cClear_R, Scalar.lt, decide_eq_true_eq]

/-! ## Round 2 (b): the per-link body of `tick_all` as a list of ops; reachable controllers -/
section ctl
variable {F : Type} [Scalar F]

/-- `conn.bitrate.current_bitrate_bps.max(0.0) as u64` -/
def connObs (c : ConnIn F) : Nat := Scalar.toU64 (fmax c.bitrate zero)

/-- the ops of the loop body before the tick: the RTT sample (only if `> 0.0`) and the counters -/
def connPre (c : ConnIn F) (now : Nat) : List (Op F) :=
  (if Scalar.lt zero c.smoothRtt then [Op.rtt c.smoothRtt now] else []) ++
    [Op.traffic c.bytesTotal c.nakTotal now]

/-- the (two or three) ops of one loop body -/
def connOps (c : ConnIn F) (now : Nat) : List (Op F) := connPre c now ++ [Op.tick (connObs c) now]

theorem connStep_eq_tick (s : St F) (c : ConnIn F) (now : Nat) :
    connStep s c now = tick ((connPre c now).foldl apply s) (connObs c) now := by
  unfold connStep connPre connObs
  by_cases h : Scalar.lt (zero : F) c.smoothRtt = true <;> simp [h, apply]

/-- `connStep` = at most three `apply` steps. -/
theorem connStep_eq_apply (s : St F) (c : ConnIn F) (now : Nat) :
    connStep s c now = (connOps c now).foldl apply s := by
  rw [connStep_eq_tick]; simp [connOps, List.foldl_append, apply]

theorem connStep_run (ops : List (Op F)) (c : ConnIn F) (now : Nat) :
    connStep (run ops) c now = run (ops ++ connOps c now) := by
  rw [connStep_eq_apply]; simp [run, List.foldl_append]

theorem connPre_run (ops : List (Op F)) (c : ConnIn F) (now : Nat) :
    (connPre c now).foldl apply (run ops) = run (ops ++ connPre c now) := by
  simp [run, List.foldl_append]

omit [Scalar F] in
theorem keeps_refl (s : St F) : Keeps s s := ⟨rfl, rfl, rfl, rfl, rfl, rfl⟩

omit [Scalar F] in
theorem keeps_trans {a b c : St F} (h1 : Keeps a b) (h2 : Keeps b c) : Keeps a c := by
  obtain ⟨k1, k2, k3, k4, k5, k6⟩ := h1
  obtain ⟨e1, e2, e3, e4, e5, e6⟩ := h2
  exact ⟨e1.trans k1, e2.trans k2, e3.trans k3, e4.trans k4, e5.trans k5, e6.trans k6⟩

/-- the RTT sample and the counter snapshot of the loop body leave cap, state and latch untouched -/
theorem keeps_connPre (s : St F) (c : ConnIn F) (now : Nat) :
    Keeps s ((connPre c now).foldl apply s) := by
  unfold connPre
  cases h : Scalar.lt (zero : F) c.smoothRtt
  · simp only [Bool.false_eq_true, if_false, List.nil_append, List.foldl_cons, List.foldl_nil, apply]
    exact keeps_observeTraffic _ _ _ now
  · simp only [if_true, List.cons_append, List.nil_append, List.foldl_cons, List.foldl_nil, apply]
    exact keeps_trans (keeps_recordRtt s _ now) (keeps_observeTraffic _ _ _ now)

/-- Controllers reachable from `LinkCcController::new()` by any sequence of `tick_all` calls: any
connection slices (ids may even repeat within a call), any time stamps. -/
inductive CtlReach : Ctl F → Prop
  | empty : CtlReach []
  | tick {m : Ctl F} (conns : List (ConnIn F)) (now : Nat) : CtlReach m → CtlReach (tickAll m conns now)

def AllEntries (P : St F → Prop) (m : Ctl F) : Prop := ∀ p ∈ m, P p.2

omit [Scalar F] in
theorem get_mem (m : Ctl F) (id : Nat) (s : St F) (h : m.get id = some s) : ∃ p ∈ m, p.2 = s := by
  simp only [Ctl.get, Option.map_eq_some_iff] at h
  obtain ⟨p, hp, rfl⟩ := h
  exact ⟨p, List.mem_of_find?_eq_some hp, rfl⟩

omit [Scalar F] in
theorem allEntries_set (P : St F → Prop) (m : Ctl F) (id : Nat) (s : St F)
    (hm : AllEntries P m) (hs : P s) : AllEntries P (m.set id s) := by
  induction m with
  | nil => intro p hp; simp [Ctl.set] at hp; subst hp; exact hs
  | cons kv rest ih =>
    obtain ⟨k, v⟩ := kv
    have hr : AllEntries P rest := fun p hp => hm p (List.mem_cons_of_mem _ hp)
    simp only [Ctl.set]
    split
    · intro p hp
      rcases List.mem_cons.1 hp with hp | hp
      · subst hp; exact hs
      · exact hr p hp
    · intro p hp
      rcases List.mem_cons.1 hp with hp | hp
      · subst hp; exact hm _ List.mem_cons_self
      · exact ih hr p hp

theorem allEntries_getD (P : St F → Prop) (m : Ctl F) (id : Nat)
    (hm : AllEntries P m) (hd : P St.default) : P ((m.get id).getD St.default) := by
  cases h : m.get id with
  | none => exact hd
  | some s => obtain ⟨p, hp, rfl⟩ := get_mem m id s h; exact hm p hp

theorem allEntries_tickLoop (P : St F → Prop) (hd : P St.default)
    (hstep : ∀ s c now, P s → P (connStep s c now)) (now : Nat) (cs : List (ConnIn F)) (m : Ctl F)
    (hm : AllEntries P m) : AllEntries P (tickLoop m now cs) := by
  induction cs generalizing m with
  | nil => exact hm
  | cons c cs ih =>
    simp only [tickLoop]
    exact ih _ (allEntries_set P m _ _ hm (hstep _ c now (allEntries_getD P m c.id hm hd)))

theorem allEntries_tickAll (P : St F → Prop) (hd : P St.default)
    (hstep : ∀ s c now, P s → P (connStep s c now)) (now : Nat) (cs : List (ConnIn F)) (m : Ctl F)
    (hm : AllEntries P m) : AllEntries P (tickAll m cs now) := by
  intro p hp
  simp only [tickAll] at hp
  exact allEntries_tickLoop P hd hstep now cs m hm p (List.mem_filter.1 hp).1

/-- Induction principle for reachable controllers: a predicate on per-link states that holds at the
default state and is preserved by the loop body holds for every entry. -/
theorem CtlReach.allEntries (P : St F → Prop) (hd : P St.default)
    (hstep : ∀ s c now, P s → P (connStep s c now)) {m : Ctl F} (h : CtlReach m) : AllEntries P m := by
  induction h with
  | empty => intro p hp; simp at hp
  | tick conns now _ ih => exact allEntries_tickAll P hd hstep now conns _ ih

/-- `s` is the state after some history of ops from the default state -/
def IsRun (s : St F) : Prop := ∃ ops : List (Op F), s = run ops

theorem isRun_default : IsRun (St.default : St F) := ⟨[], rfl⟩

theorem isRun_connStep (s : St F) (c : ConnIn F) (now : Nat) (h : IsRun s) : IsRun (connStep s c now) := by
  obtain ⟨ops, rfl⟩ := h
  exact ⟨ops ++ connOps c now, connStep_run ops c now⟩

/-- Every entry of a reachable controller is the state after a history of ops. -/
theorem CtlReach.entry_run {m : Ctl F} (h : CtlReach m) (id : Nat) (s : St F)
    (hg : m.get id = some s) : ∃ ops : List (Op F), s = run ops := by
  obtain ⟨p, hp, rfl⟩ := get_mem m id s hg
  exact h.allEntries IsRun isRun_default isRun_connStep p hp

/-- … and so is the state the loop body starts from (`entry().or_default()`). -/
theorem CtlReach.getD_run {m : Ctl F} (h : CtlReach m) (id : Nat) :
    ∃ ops : List (Op F), (m.get id).getD St.default = run ops :=
  allEntries_getD IsRun m id (h.allEntries IsRun isRun_default isRun_connStep) isRun_default

/-- The entry of a link that occurs exactly once in the call, after the call. -/
theorem tickAll_get_present (m : Ctl F) (pre post : List (ConnIn F)) (c : ConnIn F) (now : Nat)
    (hpre : ∀ d ∈ pre, d.id ≠ c.id) (hpost : ∀ d ∈ post, d.id ≠ c.id) :
    (tickAll m (pre ++ c :: post) now).get c.id =
      some (connStep ((m.get c.id).getD St.default) c now) := by
  simp only [tickAll]
  rw [get_filter (tickLoop m now (pre ++ c :: post)) (fun k => (pre ++ c :: post).any (·.id == k)) c.id]
  have hany : (pre ++ c :: post).any (·.id == c.id) = true := by simp
  simp only [hany, if_true]
  rw [tickLoop_append now pre (c :: post) m]
  simp only [tickLoop]
  rw [tickLoop_get_other _ now post c.id hpost, get_set_same]
  rw [tickLoop_get_other m now pre c.id hpre]
end ctl

/-! ## Round 2 (c): a concrete exact-arithmetic instance for in-Lean reachability witnesses -/

/-- `exp := 0` (so the loss-EWMA weight `alpha = 1 − exp(…)` is 1 and the EWMA equals the
instantaneous loss), `is_finite x := (x ≠ −1)`, `INFINITY := −1`. -/
@[reducible] def witScalar : Scalar Rat := ratScalar (fun _ => 0) (fun x => decide (x ≠ -1)) (-1)

/-- the instance satisfies the hypothesis `hfin` of the exact-arithmetic theorems -/
theorem witScalar_fin : ∀ x : Rat, 0 < x → (fun x : Rat => decide (x ≠ -1)) x = true := by
  intro x hx; simp; grind

/-- a connection with id 7 and a smoothed RTT of 10 ms -/
def witConn (bytes : Nat) (nak : Int) (bitrate : Rat) : ConnIn Rat :=
  { id := 7, smoothRtt := 10, bytesTotal := bytes, nakTotal := nak, bitrate := bitrate }

/-- a second connection (id 9, no RTT estimate yet) -/
def witConn9 : ConnIn Rat := { id := 9, smoothRtt := 0, bytesTotal := 0, nakTotal := 0, bitrate := 0 }

/-! ## Round 4 (P-C item 2): WHICH history an entry of a reachable controller is the state of

`CtlReach.entry_run` says "some op list".  Here the controller is indexed by the list of `tick_all`
calls that produced it (`ctlOf calls`), and the entry of key `id` is proved to be `run` of the
concatenation of `connOps c now` over exactly the inputs `c` with `c.id = id` of the calls since the
entry was (re)created — the maximal suffix of calls that all contain `id` (`Session`). -/
section session
variable {F : Type} [Scalar F]

/-- one `tick_all` call: the connection slice and the time stamp -/
abbrev Call (F : Type) := List (ConnIn F) × Nat

/-- the controller after the calls (oldest first) from `LinkCcController::new()` -/
def ctlOf (calls : List (Call F)) : Ctl F := calls.foldl (fun m c => tickAll m c.1 c.2) []

/-- the call's slice contains a connection with this id -/
def hasId (id : Nat) (call : Call F) : Bool := call.1.any (·.id == id)

/-- the ops one call applies to the entry of `id`: one loop body per input with that id, in order -/
def callOps (id : Nat) (call : Call F) : List (Op F) :=
  (call.1.filter (·.id == id)).flatMap (connOps · call.2)

/-- the ops of a run of consecutive calls -/
def sessionOps (id : Nat) (suf : List (Call F)) : List (Op F) := suf.flatMap (callOps id)

/-- `calls = pre ++ suf` where `suf` is the current life of the entry of `id`: the entry did not
exist after `pre` (no call yet, or the last call of `pre` did not contain `id`, so the entry was
garbage-collected), and every call of the non-empty `suf` contains `id`. -/
structure Session (id : Nat) (pre suf : List (Call F)) : Prop where
  absent_before : ∀ last, pre.getLast? = some last → hasId id last = false
  present : ∀ call ∈ suf, hasId id call = true
  nonempty : suf ≠ []

theorem ctlOf_append (xs ys : List (Call F)) :
    ctlOf (xs ++ ys) = ys.foldl (fun m c => tickAll m c.1 c.2) (ctlOf xs) := by
  simp [ctlOf, List.foldl_append]

theorem ctlOf_snoc (xs : List (Call F)) (c : Call F) :
    ctlOf (xs ++ [c]) = tickAll (ctlOf xs) c.1 c.2 := by
  simp [ctlOf, List.foldl_append]

theorem ctlOf_reach (calls : List (Call F)) : CtlReach (ctlOf calls) := by
  suffices H : ∀ (calls : List (Call F)) (m : Ctl F), CtlReach m →
      CtlReach (calls.foldl (fun m c => tickAll m c.1 c.2) m) from H calls [] .empty
  intro calls
  induction calls with
  | nil => intro m h; exact h
  | cons c cs ih => intro m h; exact ih _ (.tick c.1 c.2 h)

theorem CtlReach.exists_calls {m : Ctl F} (h : CtlReach m) : ∃ calls : List (Call F), m = ctlOf calls := by
  induction h with
  | empty => exact ⟨[], rfl⟩
  | tick conns now _ ih =>
    obtain ⟨calls, rfl⟩ := ih
    exact ⟨calls ++ [(conns, now)], (ctlOf_snoc calls (conns, now)).symm⟩

/-- the entry of `id` after the loop of one call -/
theorem tickLoop_get (m : Ctl F) (now : Nat) (cs : List (ConnIn F)) (id : Nat) :
    (tickLoop m now cs).get id =
      if cs.any (·.id == id) then
        some ((cs.filter (·.id == id)).foldl (fun s c => connStep s c now) ((m.get id).getD St.default))
      else m.get id := by
  induction cs generalizing m with
  | nil => simp [tickLoop]
  | cons c cs ih =>
    simp only [tickLoop]
    rw [ih]
    by_cases hc : c.id = id
    · have hb : (c.id == id) = true := by simp [hc]
      have hg : (m.set c.id (connStep ((m.get c.id).getD St.default) c now)).get id =
          some (connStep ((m.get id).getD St.default) c now) := by
        rw [← hc]; exact get_set_same _ _ _
      simp only [List.any_cons, hb, Bool.true_or, if_true, List.filter_cons, List.foldl_cons, hg,
        Option.getD_some]
      split
      · rfl
      · rename_i hany
        have hnil : cs.filter (·.id == id) = [] := by
          rw [List.filter_eq_nil_iff]
          intro a ha hai
          exact hany (List.any_eq_true.2 ⟨a, ha, hai⟩)
        rw [hnil]; rfl
    · have hb : (c.id == id) = false := by simp [hc]
      have hg : (m.set c.id (connStep ((m.get c.id).getD St.default) c now)).get id = m.get id :=
        get_set_other _ _ _ _ (fun e => hc e.symm)
      simp only [List.any_cons, hb, Bool.false_or, List.filter_cons, hg]
      rfl

/-- the entry of `id` after one `tick_all` call, for ANY slice (ids may repeat): absent if the slice
does not contain `id`, else the loop bodies of the inputs with that id applied in order to the old
entry (or to the default state). -/
theorem tickAll_get (m : Ctl F) (cs : List (ConnIn F)) (now id : Nat) :
    (tickAll m cs now).get id =
      if cs.any (·.id == id) then
        some ((cs.filter (·.id == id)).foldl (fun s c => connStep s c now) ((m.get id).getD St.default))
      else none := by
  simp only [tickAll]
  rw [get_filter (tickLoop m now cs) (fun k => cs.any (·.id == k)) id, tickLoop_get]
  split <;> rfl

theorem foldl_connStep_run (cs : List (ConnIn F)) (now : Nat) (ops : List (Op F)) :
    cs.foldl (fun s c => connStep s c now) (run ops) = run (ops ++ cs.flatMap (connOps · now)) := by
  induction cs generalizing ops with
  | nil => simp
  | cons c cs ih =>
    simp only [List.foldl_cons, List.flatMap_cons]
    rw [connStep_run, ih, List.append_assoc]

/-- one call on an entry that is a history state (`ops = []` for "no entry") -/
theorem tickAll_get_run (m : Ctl F) (call : Call F) (id : Nat) (ops : List (Op F))
    (hm : (m.get id).getD St.default = run ops) (hp : hasId id call = true) :
    (tickAll m call.1 call.2).get id = some (run (ops ++ callOps id call)) := by
  rw [tickAll_get, if_pos (show call.1.any (·.id == id) = true from hp), hm, foldl_connStep_run]
  rfl

theorem ctl_absent (pre : List (Call F)) (id : Nat)
    (h : ∀ last, pre.getLast? = some last → hasId id last = false) : (ctlOf pre).get id = none := by
  rcases List.eq_nil_or_concat pre with rfl | ⟨init, last, rfl⟩
  · rfl
  · have hl := h last (by simp)
    rw [List.concat_eq_append, ctlOf_snoc, tickAll_get]
    have : last.1.any (·.id == id) = false := hl
    simp [this]

theorem foldl_calls_get (suf : List (Call F)) (id : Nat) (m : Ctl F) (ops : List (Op F))
    (hm : m.get id = some (run ops)) (hp : ∀ call ∈ suf, hasId id call = true) :
    (suf.foldl (fun m c => tickAll m c.1 c.2) m).get id = some (run (ops ++ sessionOps id suf)) := by
  induction suf generalizing m ops with
  | nil => simpa [sessionOps] using hm
  | cons c cs ih =>
    simp only [List.foldl_cons, sessionOps, List.flatMap_cons]
    rw [← List.append_assoc]
    exact ih _ _ (tickAll_get_run m c id ops (by rw [hm]; rfl) (hp c List.mem_cons_self))
      (fun call hc => hp call (List.mem_cons_of_mem _ hc))

/-- **The entry of `id` is the state after exactly its own inputs since it was (re)created.** -/
theorem ctlOf_get_session (id : Nat) (pre suf : List (Call F)) (hS : Session id pre suf) :
    (ctlOf (pre ++ suf)).get id = some (run (sessionOps id suf)) := by
  obtain ⟨ha, hp, hne⟩ := hS
  cases suf with
  | nil => exact absurd rfl hne
  | cons c cs =>
    rw [ctlOf_append]
    simp only [List.foldl_cons]
    have h0 := ctl_absent pre id ha
    have h1 : (tickAll (ctlOf pre) c.1 c.2).get id = some (run ([] ++ callOps id c)) :=
      tickAll_get_run (ctlOf pre) c id [] (by rw [h0]; rfl) (hp c List.mem_cons_self)
    have := foldl_calls_get cs id _ _ h1 (fun call hc => hp call (List.mem_cons_of_mem _ hc))
    simpa [sessionOps] using this

/-- every present entry has a session: split the calls at the last call that does not contain `id`
(stated on the reversed list so that plain list induction adds calls at the END) -/
theorem exists_session_rev (id : Nat) (rev : List (Call F)) :
    ∀ s : St F, (ctlOf rev.reverse).get id = some s →
      ∃ pre suf, rev.reverse = pre ++ suf ∧ Session id pre suf := by
  induction rev with
  | nil => intro s hg; simp [ctlOf, Ctl.get] at hg
  | cons last irev ih =>
    intro s hg
    rw [List.reverse_cons] at hg ⊢
    have hl : hasId id last = true := by
      rw [ctlOf_snoc, tickAll_get] at hg
      by_cases h : last.1.any (·.id == id) = true
      · exact h
      · simp [h] at hg
    cases hi : (ctlOf irev.reverse).get id with
    | none =>
      refine ⟨irev.reverse, [last], rfl, ?_, ?_, by simp⟩
      · intro l hlast
        cases irev with
        | nil => simp at hlast
        | cons l2 i2 =>
          rw [List.reverse_cons] at hlast hi
          simp only [List.getLast?_append, List.getLast?_singleton, Option.some_or, Option.some.injEq] at hlast
          subst hlast
          rw [ctlOf_snoc, tickAll_get] at hi
          by_cases h : l2.1.any (·.id == id) = true
          · simp [h] at hi
          · simpa [hasId] using h
      · intro call hc; simp at hc; subst hc; exact hl
    | some s0 =>
      obtain ⟨pre, suf, he, hS⟩ := ih s0 hi
      refine ⟨pre, suf ++ [last], by rw [he]; simp, hS.absent_before, ?_, by simp⟩
      intro call hc
      rcases List.mem_append.1 hc with hc | hc
      · exact hS.present call hc
      · simp at hc; subst hc; exact hl

theorem exists_session (calls : List (Call F)) (id : Nat) (s : St F) (hg : (ctlOf calls).get id = some s) :
    ∃ pre suf, calls = pre ++ suf ∧ Session id pre suf := by
  have := exists_session_rev id calls.reverse s (by simpa using hg)
  simpa using this

/-- **Strengthened `CtlReach.entry_run`**: every entry of a reachable controller is `run` of the
concatenation of `connOps c now` over the inputs `c` with `c.id = id` of the calls since the entry
was (re)created. -/
theorem CtlReach.entry_session {m : Ctl F} (h : CtlReach m) (id : Nat) (s : St F) (hg : m.get id = some s) :
    ∃ pre suf : List (Call F), m = ctlOf (pre ++ suf) ∧ Session id pre suf ∧ s = run (sessionOps id suf) := by
  obtain ⟨calls, rfl⟩ := h.exists_calls
  obtain ⟨pre, suf, rfl, hS⟩ := exists_session calls id s hg
  refine ⟨pre, suf, rfl, hS, ?_⟩
  rw [ctlOf_get_session id pre suf hS] at hg
  exact (Option.some.inj hg).symm

/-- membership in the ops of a session: which inputs they come from -/
theorem mem_sessionOps {id : Nat} {suf : List (Call F)} {op : Op F} (h : op ∈ sessionOps id suf) :
    ∃ call ∈ suf, ∃ c ∈ call.1, c.id = id ∧ op ∈ connOps c call.2 := by
  simp only [sessionOps, callOps, List.mem_flatMap, List.mem_filter, beq_iff_eq] at h
  obtain ⟨call, hc, c, ⟨hcm, hid⟩, hop⟩ := h
  exact ⟨call, hc, c, hcm, hid, hop⟩

/-- an RTT op among the ops of one loop body is the connection's smoothed RTT, and it compared `> 0.0` -/
theorem mem_connOps_rtt {c : ConnIn F} {now : Nat} {x : F} {t : Nat} (h : Op.rtt x t ∈ connOps c now) :
    x = c.smoothRtt ∧ t = now ∧ Scalar.lt (zero : F) c.smoothRtt = true := by
  simp only [connOps, connPre, List.mem_append, List.mem_singleton, reduceCtorEq, or_false] at h
  split at h
  · rename_i hlt
    simp only [List.mem_singleton, Op.rtt.injEq] at h
    exact ⟨h.1, h.2, hlt⟩
  · simp at h

/-- ghost run over an appended op -/
theorem runG_append (xs ys : List (Op F)) (p : St F × List (Nat × F)) :
    runG (xs ++ ys) p = runG ys (runG xs p) := by
  induction xs generalizing p with
  | nil => rfl
  | cons x xs ih => obtain ⟨s, tr⟩ := p; simp only [List.cons_append, runG]; exact ih _

/-- ops other than ticks do not extend the ghost trace -/
theorem runG_connPre_trace (c : ConnIn F) (now : Nat) (p : St F × List (Nat × F)) :
    (runG (connPre c now) p).2 = p.2 := by
  obtain ⟨s, tr⟩ := p
  unfold connPre
  split <;> simp [runG, traceStep]

/-- a call in which `id` occurs exactly once contributes exactly that input's loop body -/
theorem callOps_once (id : Nat) (cpre cpost : List (ConnIn F)) (c : ConnIn F) (now : Nat) (hid : c.id = id)
    (hpre : ∀ d ∈ cpre, d.id ≠ id) (hpost : ∀ d ∈ cpost, d.id ≠ id) :
    callOps id (cpre ++ c :: cpost, now) = connOps c now := by
  have h1 : cpre.filter (·.id == id) = [] := by
    rw [List.filter_eq_nil_iff]; intro a ha; simpa using hpre a ha
  have h2 : cpost.filter (·.id == id) = [] := by
    rw [List.filter_eq_nil_iff]; intro a ha; simpa using hpost a ha
  have h3 : (c.id == id) = true := by simp [hid]
  simp [callOps, List.filter_append, h1, h2, h3]

omit [Scalar F] in
/-- extending a session by one more call that contains `id` -/
theorem session_snoc (id : Nat) (pre suf : List (Call F)) (hS : Session id pre suf) (call : Call F)
    (h : hasId id call = true) : Session id pre (suf ++ [call]) :=
  ⟨hS.absent_before, fun c hc => by
      rcases List.mem_append.1 hc with hc | hc
      · exact hS.present c hc
      · simp at hc; subst hc; exact h, by simp⟩

end session

end Srtla.LinkCc
