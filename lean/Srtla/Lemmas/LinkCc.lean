import Srtla.Model.LinkCc
/-!
# Lemmas for C16: the exact-arithmetic scalar and the target arithmetic of `tick`

`ratScalar e fin infv` instantiates the model's scalar class with exact rational arithmetic:
`as u64` is the (saturating) floor, `exp := e`, `is_finite := fin` and the `INFINITY` token `infv`
are arbitrary parameters (the arithmetic clauses of C16 do not depend on them).
Core Lean only (`Rat` and `grind`'s linear arithmetic are in core).
-/
namespace Srtla.LinkCc
open Srtla.Gen.LinkCc

/-- Exact arithmetic on `Rat`. -/
@[reducible] def ratScalar (e : Rat → Rat) (fin : Rat → Bool) (infv : Rat) : Scalar Rat where
  ofNat n := (n : Rat)
  lit _ num den := (num : Rat) / (den : Rat)
  add a b := a + b
  sub a b := a - b
  mul a b := a * b
  div a b := a / b
  neg a := -a
  abs a := if a < 0 then -a else a
  exp := e
  lt a b := decide (a < b)
  le a b := decide (a ≤ b)
  beq a b := decide (a = b)
  isNaN _ := false
  isFinite := fin
  toU64 a := if a.floor.toNat > u64Max then u64Max else a.floor.toNat
  inf := infv

/-! ## floor interface -/

theorem floorNat_le {x : Rat} {n : Nat} (h : x < (n : Rat) + 1) : x.floor.toNat ≤ n := by
  have h1 : x.floor < (n : Int) + 1 := by
    rw [Rat.floor_lt_iff]; push_cast; exact h
  omega

theorem le_floorNat {x : Rat} {n : Nat} (h : (n : Rat) ≤ x) : n ≤ x.floor.toNat := by
  have h1 : (n : Int) ≤ x.floor := by
    rw [Rat.le_floor_iff]; push_cast; exact h
  omega

/-- `x as u64` at exact arithmetic, for `lo ≤ x < hi + 1`. -/
theorem toU64_between (e fin infv) {x : Rat} {lo hi : Nat} (hlo : (lo : Rat) ≤ x)
    (hhi : x < (hi : Rat) + 1) (hb : lo ≤ u64Max) :
    lo ≤ (ratScalar e fin infv).toU64 x ∧ (ratScalar e fin infv).toU64 x ≤ hi := by
  have a := le_floorNat hlo
  have b := floorNat_le hhi
  show lo ≤ (if x.floor.toNat > u64Max then u64Max else x.floor.toNat) ∧
       (if x.floor.toNat > u64Max then u64Max else x.floor.toNat) ≤ hi
  split <;> omega

variable (e : Rat → Rat) (fin : Rat → Bool) (infv : Rat)

theorem fmax_R (a b : Rat) : @fmax Rat (ratScalar e fin infv) a b = if a < b then b else a := by
  simp [fmax, Scalar.lt, Scalar.isNaN]
theorem fmin_R (a b : Rat) : @fmin Rat (ratScalar e fin infv) a b = if b < a then b else a := by
  simp [fmin, Scalar.lt, Scalar.isNaN]
theorem natCast_le_R {a b : Nat} (h : a ≤ b) : (a : Rat) ≤ (b : Rat) := by exact_mod_cast h
theorem natCast_lt_R {a b : Nat} (h : a < b) : (a : Rat) < (b : Rat) := by exact_mod_cast h

/-- `⌊t·k/1000⌋` computed in exact arithmetic is the integer division. -/
theorem toU64_permille (t k : Nat) (ht : t * k / 1000 ≤ u64Max) :
    (ratScalar e fin infv).toU64 (((t : Rat) * (k : Rat)) / (1000 : Rat)) = t * k / 1000 := by
  have h1 : t * k / 1000 * 1000 ≤ t * k := Nat.div_mul_le_self _ _
  have h2 : t * k < (t * k / 1000 + 1) * 1000 := by omega
  have c1 : ((t * k / 1000 * 1000 : Nat) : Rat) ≤ ((t * k : Nat) : Rat) := natCast_le_R h1
  have c2 : ((t * k : Nat) : Rat) < (((t * k / 1000 + 1) * 1000 : Nat) : Rat) := natCast_lt_R h2
  push_cast at c1 c2
  have := toU64_between e fin infv (x := ((t : Rat) * (k : Rat)) / (1000 : Rat)) (lo := t * k / 1000)
    (hi := t * k / 1000) (by grind) (by grind) ht
  omega

theorem toU64_natCast (n : Nat) (h : n ≤ u64Max) : (ratScalar e fin infv).toU64 (n : Rat) = n := by
  have := toU64_between e fin infv (x := (n : Rat)) (lo := n) (hi := n) (by grind) (by grind) h
  omega

theorem nextRate_climb_R (ps : CcState) (mode : ClimbMode) (t so : Nat) (ht : 100000 ≤ t) :
    let x := @nextRate Rat (ratScalar e fin infv) .climbing ps mode t so
    (t : Rat) ≤ x ∧ x * 1000 ≤ (t : Rat) * ((1000 + stepPermille mode : Nat) : Rat) ∧
      (x = (t : Rat) ∨ x ≤ 2 * (so : Rat)) := by
  have h0 : (100000 : Rat) ≤ (t : Rat) := by exact_mod_cast ht
  intro x
  cases mode <;>
    simp only [x, nextRate, stepPermille, AI_STEP_PERMILLE_eq, HAI_STEP_PERMILLE_eq,
      FAST_RECOVERY_STEP_PERMILLE_eq, MIN_TARGET_BPS_eq, fmax_R, fmin_R, zero, Scalar.ofNat, Scalar.add,
      Scalar.sub, Scalar.mul, Scalar.div] <;>
    push_cast <;> grind

theorem u64Max_big : 1000000000 ≤ u64Max := by decide

/-- Climbing: the new target. -/
theorem tickTarget_climb_R (ps : CcState) (mode : ClimbMode) (t so : Nat)
    (ht : 100000 ≤ t) (ht2 : t ≤ 200000000) :
    let tt := @tickTarget Rat (ratScalar e fin infv) .climbing ps mode t so
    t ≤ tt ∧ tt ≤ 200000000 ∧ tt * 1000 ≤ t * (1000 + stepPermille mode) ∧ (t < tt → tt ≤ 2 * so) := by
  intro tt
  obtain ⟨a, b, c⟩ := nextRate_climb_R e fin infv ps mode t so ht
  have hb := u64Max_big
  generalize hx : @nextRate Rat (ratScalar e fin infv) .climbing ps mode t so = x at a b c
  have htt : tt = clampNat ((ratScalar e fin infv).toU64 x) 100000 200000000 := by
    simp only [tt, tickTarget, hx, MIN_TARGET_BPS_eq, MAX_TARGET_BPS_eq]
  generalize hP : t * (1000 + stepPermille mode) = P at *
  have h1 : P / 1000 * 1000 ≤ P := Nat.div_mul_le_self _ _
  have h2 : P < (P / 1000 + 1) * 1000 := by omega
  have c2 : ((P : Nat) : Rat) < (((P / 1000 + 1) * 1000 : Nat) : Rat) := natCast_lt_R h2
  have hPc : ((P : Nat) : Rat) = (t : Rat) * ((1000 + stepPermille mode : Nat) : Rat) := by
    rw [← hP]; push_cast; rfl
  push_cast at c2
  have u1 := toU64_between e fin infv (x := x) (lo := t) (hi := P / 1000) a (by grind) (by omega)
  rcases c with c | c
  · have u2 := toU64_between e fin infv (x := x) (lo := t) (hi := t) a (by grind) (by omega)
    clear_value tt; subst htt; unfold clampNat
    split <;> (try split) <;> omega
  · have u2 := toU64_between e fin infv (x := x) (lo := t) (hi := 2 * so) a (by push_cast; grind) (by omega)
    clear_value tt; subst htt; unfold clampNat
    split <;> (try split) <;> omega

/-- BackingOff: the new target. -/
theorem tickTarget_backoff_R (ps : CcState) (mode : ClimbMode) (t so : Nat)
    (ht : 100000 ≤ t) (ht2 : t ≤ 200000000) :
    let tt := @tickTarget Rat (ratScalar e fin infv) .backingOff ps mode t so
    tt ≤ t ∧ 100000 ≤ tt ∧ t * 850 / 1000 ≤ tt ∧ min so t ≤ tt := by
  have h0 : (100000 : Rat) ≤ (t : Rat) := by exact_mod_cast ht
  intro tt
  have hb := u64Max_big
  have hx : ∀ x, @nextRate Rat (ratScalar e fin infv) .backingOff ps mode t so = x →
      x ≤ (t : Rat) ∧ (t : Rat) * 850 / 1000 ≤ x ∧ ((so : Rat) ≤ x ∨ (t : Rat) ≤ x) := by
    intro x hx
    simp only [nextRate, BACKOFF_PERMILLE_eq, fmax_R, fmin_R, Scalar.ofNat, Scalar.mul, Scalar.div] at hx
    push_cast at hx
    grind
  generalize hxx : @nextRate Rat (ratScalar e fin infv) .backingOff ps mode t so = x at hx
  obtain ⟨a, b, c⟩ := hx x rfl
  have htt : tt = clampNat ((ratScalar e fin infv).toU64 x) 100000 200000000 := by
    simp only [tt, tickTarget, hxx, MIN_TARGET_BPS_eq, MAX_TARGET_BPS_eq]
  have h1 : t * 850 / 1000 * 1000 ≤ t * 850 := Nat.div_mul_le_self _ _
  have c1 : ((t * 850 / 1000 * 1000 : Nat) : Rat) ≤ ((t * 850 : Nat) : Rat) := natCast_le_R h1
  push_cast at c1
  have u1 := toU64_between e fin infv (x := x) (lo := t * 850 / 1000) (hi := t) (by grind) (by grind) (by omega)
  rcases c with c | c
  · by_cases hso : so ≤ t
    · have u2 := toU64_between e fin infv (x := x) (lo := so) (hi := t) c (by grind) (by omega)
      clear_value tt; subst htt; unfold clampNat
      split <;> (try split) <;> omega
    · have : (t : Rat) ≤ (so : Rat) := natCast_le_R (by omega)
      have u2 := toU64_between e fin infv (x := x) (lo := t) (hi := t) (by grind) (by grind) (by omega)
      clear_value tt; subst htt; unfold clampNat
      split <;> (try split) <;> omega
  · have u2 := toU64_between e fin infv (x := x) (lo := t) (hi := t) c (by grind) (by omega)
    clear_value tt; subst htt; unfold clampNat
    split <;> (try split) <;> omega

/-- Drain entry: the new target is exactly `max ⌊0.75·t⌋ MIN`. -/
theorem tickTarget_drain_entry_R (ps : CcState) (mode : ClimbMode) (t so : Nat) (hps : ps ≠ .drain)
    (ht : 100000 ≤ t) (ht2 : t ≤ 200000000) :
    @tickTarget Rat (ratScalar e fin infv) .drain ps mode t so = max (t * 750 / 1000) 100000 := by
  have hb := u64Max_big
  have := toU64_permille e fin infv t 750 (by omega)
  simp only [tickTarget, nextRate, hps, DRAIN_PERMILLE_eq, MIN_TARGET_BPS_eq, MAX_TARGET_BPS_eq, Scalar.ofNat,
    Scalar.mul, Scalar.div, ne_eq, not_false_eq_true, ite_true]
  push_cast at this ⊢
  rw [this]; unfold clampNat
  split <;> (try split) <;> omega

/-- Holding, staying in Drain, (unreachable) Bootstrap, and Climbing with no measured traffic:
the target is unchanged. -/
theorem tickTarget_same_R (next ps : CcState) (mode : ClimbMode) (t so : Nat)
    (h : next = .holding ∨ next = .bootstrap ∨ (next = .drain ∧ ps = .drain) ∨ (next = .climbing ∧ so = 0))
    (ht : 100000 ≤ t) (ht2 : t ≤ 200000000) :
    @tickTarget Rat (ratScalar e fin infv) next ps mode t so = t := by
  have hb := u64Max_big
  have := toU64_natCast e fin infv t (by omega)
  rcases h with h | h | ⟨h, h'⟩ | ⟨h, h'⟩ <;> subst h <;> (try subst h') <;>
    simp only [tickTarget, nextRate, MIN_TARGET_BPS_eq, MAX_TARGET_BPS_eq, Scalar.ofNat, ne_eq,
      not_true_eq_false, ite_false, Nat.lt_irrefl, gt_iff_lt] <;>
    (rw [this]; unfold clampNat; split <;> (try split) <;> omega)

/-- `sane_observed` at exact arithmetic: `min observed (4 · max target 1e6)`. -/
theorem saneObserved_R (t obs : Nat) (ht2 : t ≤ 200000000) :
    @saneObserved Rat (ratScalar e fin infv) t obs = min obs (4 * max t 1000000) := by
  have hb := u64Max_big
  simp only [saneObserved, INITIAL_TARGET_BPS_eq, cOutlier, Scalar.lit, CC_OUTLIER_FACTOR_num,
    CC_OUTLIER_FACTOR_den, fmin_R, Scalar.ofNat, Scalar.mul]
  generalize hm : max t 1000000 = m
  have hm2 : m ≤ 200000000 := by omega
  have e4 : ((4 : Int) : Rat) / ((1 : Nat) : Rat) * (m : Rat) = ((4 * m : Nat) : Rat) := by
    push_cast; grind
  rw [e4]
  by_cases h : 4 * m < obs
  · have h4 : ((4 * m : Nat) : Rat) < (obs : Rat) := natCast_lt_R h
    rw [if_pos h4, toU64_natCast e fin infv (4 * m) (by omega)]
    omega
  · have hc : (obs : Rat) ≤ ((4 * m : Nat) : Rat) := natCast_le_R (by omega)
    have h4 : ¬ ((4 * m : Nat) : Rat) < (obs : Rat) := by grind
    rw [if_neg h4, toU64_natCast e fin infv obs (by omega)]
    omega

section generic
variable {F : Type} [Scalar F]

omit [Scalar F] in
theorem updateBackoffEfficacy_keeps (s : St F) (lh : Bool) (pm : Nat) :
    let s' := updateBackoffEfficacy s lh pm
    s'.target = s.target ∧ s'.state = s.state ∧ s'.lossEwma = s.lossEwma ∧ s'.lossHighSince = s.lossHighSince ∧
    s'.lossDegraded = s.lossDegraded ∧ s'.rttEwma = s.rttEwma ∧ s'.rttVar = s.rttVar ∧
    s'.fastRecovery = s.fastRecovery := by
  intro s'
  simp only [s', updateBackoffEfficacy]
  repeat' split
  all_goals simp

theorem chooseState_ne_bootstrap (a b c : Bool) (i : F) : chooseState a b c i ≠ .bootstrap := by
  unfold chooseState; repeat' split
  all_goals simp

theorem updateLossEwma_spec (s : St F) (lossPm now : Nat) :
    let s' := updateLossEwma s lossPm now
    let ew := nextLossEwma s lossPm now
    s'.lossEwma = ew ∧ s'.target = s.target ∧ s'.state = s.state ∧ s'.rttEwma = s.rttEwma ∧
    (Scalar.lt cEnter ew = true →
      (s.lossHighSince = 0 → s'.lossHighSince = now ∧ s'.lossDegraded = s.lossDegraded) ∧
      (s.lossHighSince ≠ 0 → s'.lossHighSince = s.lossHighSince ∧
        s'.lossDegraded = (s.lossDegraded || decide (now - s.lossHighSince ≥ 4000)))) ∧
    (Scalar.lt cEnter ew = false →
      s'.lossHighSince = 0 ∧ s'.lossDegraded = (s.lossDegraded && !Scalar.lt ew cClear)) := by
  intro s' ew
  simp only [s', ew, updateLossEwma, LOSS_DEGRADE_SUSTAIN_MS_eq]
  by_cases h1 : Scalar.lt cEnter (nextLossEwma s lossPm now) = true
  · by_cases h2 : s.lossHighSince = 0
    · simp [h1, h2]
    · by_cases h3 : now - s.lossHighSince ≥ 4000 <;> simp [h1, h2, h3]
  · by_cases h2 : Scalar.lt (nextLossEwma s lossPm now) cClear = true <;> simp [h1, h2]

/-- A tick that finds no usable RTT estimate: Bootstrap at the floor, latch fields untouched. -/
theorem tick_boot (s : St F) (obs now : Nat) (h : noRtt (evictExpired s now) = true) :
    let s' := tick s obs now
    s'.state = .bootstrap ∧ s'.target = 100000 ∧ s'.lossDegraded = s.lossDegraded ∧
      s'.lossHighSince = s.lossHighSince ∧ s'.lossEwma = s.lossEwma ∧ s'.rttEwma = s.rttEwma := by
  intro s'
  simp only [s', tick, h, if_true, MIN_TARGET_BPS_eq]
  simp [evictExpired]

/-- A tick with an RTT estimate. -/
theorem tick_run (s : St F) (obs now : Nat) (h : noRtt (evictExpired s now) = false) :
    let s0 := evictExpired s now
    let s' := tick s obs now
    let s1 := updateLossEwma s0 (lossPermille s0) now
    let so := saneObserved (F := F) s.target obs
    let t0 := if s.state = .bootstrap then seedTarget so else s.target
    s'.lossDegraded = s1.lossDegraded ∧ s'.lossHighSince = s1.lossHighSince ∧ s'.lossEwma = s1.lossEwma ∧
      s'.rttEwma = s.rttEwma ∧ s'.state ≠ .bootstrap ∧
      s'.target = tickTarget (F := F) s'.state s.state s'.climbMode t0 so := by
  intro s0 s' s1 so t0
  have k := updateLossEwma_spec s0 (lossPermille s0) now
  obtain ⟨k1, k2, k3, k4, -⟩ := k
  have b := updateBackoffEfficacy_keeps s1 (decide (lossPermille s0 > LOSS_BACKOFF_PERMILLE)) (lossPermille s0)
  obtain ⟨b1, b2, b3, b4, b5, b6, b7, b8⟩ := b
  have e0t : s0.target = s.target := rfl
  have e0s : s0.state = s.state := rfl
  have e0r : s0.rttEwma = s.rttEwma := rfl
  simp only [s', tick, show noRtt (evictExpired s now) = false from h, Bool.false_eq_true, if_false]
  refine ⟨b5, b4, b3, ?_, chooseState_ne_bootstrap _ _ _ _, ?_⟩
  · show (updateBackoffEfficacy s1 _ _).rttEwma = s.rttEwma
    rw [b6, k4, e0r]
  · show tickTarget _ (updateBackoffEfficacy s1 _ _).state _ _ _ = _
    rw [b2, k3, e0s, k2, e0t]
end generic

theorem clampNat_bounds (x : Nat) :
    100000 ≤ clampNat x 100000 200000000 ∧ clampNat x 100000 200000000 ≤ 200000000 := by
  unfold clampNat; split <;> (try split) <;> omega

theorem tickTarget_bounds {F : Type} [Scalar F] (next ps : CcState) (mode : ClimbMode) (t so : Nat) :
    100000 ≤ tickTarget (F := F) next ps mode t so ∧ tickTarget (F := F) next ps mode t so ≤ 200000000 := by
  simp only [tickTarget, MIN_TARGET_BPS_eq, MAX_TARGET_BPS_eq]; exact clampNat_bounds _

theorem seedTarget_bounds (so : Nat) : 1000000 ≤ seedTarget so ∧ seedTarget so ≤ 200000000 ∧
    seedTarget so = min (max so 1000000) 200000000 := by
  simp only [seedTarget, INITIAL_TARGET_BPS_eq, MIN_TARGET_BPS_eq, MAX_TARGET_BPS_eq, clampNat]
  by_cases h : so < 1000000 <;> simp only [h, if_true, if_false] <;> repeat' split
  all_goals omega

theorem stepPermille_le (m : ClimbMode) : stepPermille m ≤ 60 := by
  cases m <;> simp [stepPermille]

end Srtla.LinkCc
