import Srtla.Model.LinkCc
/-!
# Lemmas for C16: the exact-arithmetic scalar and the target arithmetic of `tick`

`ratScalar e fin infv` instantiates the model's scalar class with exact rational arithmetic:
`as u64` is the (saturating) floor, `exp := e`, `is_finite := fin` and the `INFINITY` token `infv`
are arbitrary parameters (the arithmetic clauses of C16 do not depend on them).
Core Lean only (`Rat` and `grind`'s linear arithmetic are in core).
-/
namespace Srtla.LinkCc
open Srtla.Gen.LinkCc

/-- Exact arithmetic on `Rat`. -/
@[reducible] def ratScalar (e : Rat → Rat) (fin : Rat → Bool) (infv : Rat) : Scalar Rat where
  ofNat n := (n : Rat)
  lit _ num den := (num : Rat) / (den : Rat)
  add a b := a + b
  sub a b := a - b
  mul a b := a * b
  div a b := a / b
  neg a := -a
  abs a := if a < 0 then -a else a
  exp := e
  lt a b := decide (a < b)
  le a b := decide (a ≤ b)
  beq a b := decide (a = b)
  isNaN _ := false
  isFinite := fin
  toU64 a := if a.floor.toNat > u64Max then u64Max else a.floor.toNat
  inf := infv

/-! ## floor interface -/

theorem floorNat_le {x : Rat} {n : Nat} (h : x < (n : Rat) + 1) : x.floor.toNat ≤ n := by
  have h1 : x.floor < (n : Int) + 1 := by
    rw [Rat.floor_lt_iff]; push_cast; exact h
  omega

theorem le_floorNat {x : Rat} {n : Nat} (h : (n : Rat) ≤ x) : n ≤ x.floor.toNat := by
  have h1 : (n : Int) ≤ x.floor := by
    rw [Rat.le_floor_iff]; push_cast; exact h
  omega

/-- `x as u64` at exact arithmetic, for `lo ≤ x < hi + 1`. -/
theorem toU64_between (e fin infv) {x : Rat} {lo hi : Nat} (hlo : (lo : Rat) ≤ x)
    (hhi : x < (hi : Rat) + 1) (hb : hi ≤ u64Max) :
    lo ≤ (ratScalar e fin infv).toU64 x ∧ (ratScalar e fin infv).toU64 x ≤ hi := by
  have a := le_floorNat hlo
  have b := floorNat_le hhi
  show lo ≤ (if x.floor.toNat > u64Max then u64Max else x.floor.toNat) ∧
       (if x.floor.toNat > u64Max then u64Max else x.floor.toNat) ≤ hi
  split <;> omega

end Srtla.LinkCc
