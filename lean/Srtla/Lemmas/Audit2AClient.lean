import Srtla.Lemmas.ForwardHk
/-!
# The client and flush arms, EXACTLY, link by link (audit round 2: C01 loss causes, C02 exact client block)

`Lemmas/Forward*.lean` describe a client / flush event by a three-way relation (`LinkFx`: held / sent /
discarded-with-a-cause) in which the cause of a discard only says "a send failure was PENDING for the conn id".
This file walks the two arms once more and returns the link record itself:

* `sendBatch_exact`, `fwdLink_cases`, `probeLink_cases` — `send_connection_batch`, the common tail
  "queue, flush at the regime threshold, tear down on a failed flush" (`Hk.fwdLink`) and one iteration of
  `send_stall_probes` (`Hk.probeLink`) as case tables: below the threshold / drained and sent / drained, the
  injected failure CONSUMED (`fn.erase connId`), `mark_for_recovery`;
* `probes_get`, `flushGo_get` — position `k` of the two list passes: the record after the pass is the per-link
  function applied to the record before it and to the failure list threaded up to that position (`fnk`), which
  differs from the list the pass started with only by erasures of the conn ids of EARLIER links;
* `client_exact`, `flush_exact` — the whole event, every index;
* `client_consumed`, `flush_consumed` — if something link `i` held (or was handed by this event) is afterwards
  neither in its queue nor among the datagrams the event put on its socket, then the event CONSUMED an injected
  send failure for its conn id: the multiplicity of the conn id in `failNext` went down.
-/
namespace Srtla.Sys
open Srtla Srtla.Gen Srtla.Conn Srtla.Select Srtla.Rtt Srtla.Link Scalar

set_option linter.unusedSectionVars false
set_option linter.unusedVariables false

variable {F : Type} [Scalar F]
variable {fa : List (Nat × Nat)}

/-! ## 1. Case tables -/

/-- `send_connection_batch`, exactly. -/
theorem sendBatch_exact (l : FLink F) (now : Nat) (fn : List Nat) :
    sendConnectionBatch fa l now fn =
      if l.queue.isEmpty then ((l.takeBatch now).1, [], true, fn)
      else if fn.contains l.core.connId then
        ((l.takeBatch now).1,
          ((bytesOf l.queue).take (failPrefix fa l.core.connId (fn.count l.core.connId))).map
            (fun y => (l.core.connId, y)),
          false, fn.erase l.core.connId)
      else ((l.takeBatch now).1, (bytesOf l.queue).map (fun y => (l.core.connId, y)), true, fn) := by
  have ht := (takeBatch_spec l now).1
  unfold sendConnectionBatch
  dsimp only
  rw [ht]
  split
  · rfl
  · split
    · simp [bytesOf, List.map_take, List.map_map, Function.comp_def]
    · simp [bytesOf, List.map_map, Function.comp_def]

theorem fnLe_of_eq_or_erase {fn fn' : List Nat} {a : Nat} (h : fn' = fn ∨ fn' = fn.erase a) : Hk.FnLe fn fn' := by
  rcases h with rfl | rfl
  · exact Hk.FnLe.refl _
  · exact Hk.fnLe_erase _ _

theorem count_of_eq_or_erase {fn fn' : List Nat} {a b : Nat} (h : fn' = fn ∨ fn' = fn.erase a) (hab : a ≠ b) :
    fn'.count b = fn.count b := by
  rcases h with rfl | rfl
  · rfl
  · rw [List.count_erase_of_ne (Ne.symm hab)]

/-- **`Hk.fwdLink`** (queue one datagram, flush at the regime threshold, tear down on a failed flush — the
common tail of `forward_via_connection` and `send_stall_probes`) as a case table.  `fn` is the list of pending
send-failure injections when the link is reached. -/
theorem fwdLink_cases (l : FLink F) (pkt : Bytes) (seq : Option Nat) (now : Nat) (fn : List Nat) :
    let r := Hk.fwdLink fa l pkt seq now fn
    (l.queue.length + 1 < l.regime.batchSize ∧ r.1 = (l.queueDataPacket pkt seq now).1 ∧ r.2.1 = [] ∧ r.2.2 = fn) ∨
    (l.regime.batchSize ≤ l.queue.length + 1 ∧ l.core.connId ∉ fn ∧
      r.1 = ((l.queueDataPacket pkt seq now).1.takeBatch now).1 ∧
      r.2.1 = (bytesOf (l.queue ++ [(pkt, seq, now)])).map (fun y => (l.core.connId, y)) ∧ r.2.2 = fn) ∨
    (l.regime.batchSize ≤ l.queue.length + 1 ∧ l.core.connId ∈ fn ∧
      r.1 = ((l.queueDataPacket pkt seq now).1.takeBatch now).1.markForRecovery ∧
      r.2.1 = ((bytesOf (l.queue ++ [(pkt, seq, now)])).take
          (failPrefix fa l.core.connId (fn.count l.core.connId))).map (fun y => (l.core.connId, y)) ∧
      r.2.2 = fn.erase l.core.connId) := by
  obtain ⟨hq1, hq2, hq3, -, -, -⟩ := queueDataPacket_spec l pkt seq now
  dsimp only
  unfold Hk.fwdLink
  by_cases hthr : l.regime.batchSize ≤ l.queue.length + 1
  · have h2 : (l.queueDataPacket pkt seq now).2 = true := by rw [hq2]; simpa using hthr
    rw [if_pos h2, sendBatch_exact]
    have hne : (l.queueDataPacket pkt seq now).1.queue.isEmpty = false := by rw [hq1]; simp
    rw [hne]
    simp only [Bool.false_eq_true, if_false]
    rw [hq3, hq1]
    by_cases hc : l.core.connId ∈ fn
    · right; right
      have : fn.contains l.core.connId = true := by simpa using hc
      rw [if_pos this]
      exact ⟨hthr, hc, rfl, rfl, rfl⟩
    · right; left
      have : ¬ fn.contains l.core.connId = true := by simpa using hc
      rw [if_neg this]
      exact ⟨hthr, hc, rfl, rfl, rfl⟩
  · left
    have h2 : ¬ (l.queueDataPacket pkt seq now).2 = true := by rw [hq2]; simpa using hthr
    rw [if_neg h2]
    exact ⟨by omega, rfl, rfl, rfl⟩

theorem fwdLink_fn (l : FLink F) (pkt : Bytes) (seq : Option Nat) (now : Nat) (fn : List Nat) :
    (Hk.fwdLink fa l pkt seq now fn).2.2 = fn ∨ (Hk.fwdLink fa l pkt seq now fn).2.2 = fn.erase l.core.connId := by
  rcases fwdLink_cases l pkt seq now fn with h | h | h
  · exact Or.inl h.2.2.2
  · exact Or.inl h.2.2.2.2
  · exact Or.inr h.2.2.2.2

/-- **`Hk.probeLink`** (one iteration of `send_stall_probes` on a gated, connected link other than the chosen
one) as a case table: the 1-in-100 counter does not fire — only the counter moves —, or it fires and the
copy goes through `fwdLink` on the record with the counter back at 0. -/
theorem probeLink_cases (l : FLink F) (pkt : Bytes) (seq : Option Nat) (now : Nat) (fn : List Nat) :
    (l.probeCounter + 1 < 100 ∧ Hk.probeLink fa l pkt seq now fn = (l.stallProbeDue.1, [], fn)) ∨
    (100 ≤ l.probeCounter + 1 ∧ Hk.probeLink fa l pkt seq now fn = Hk.fwdLink fa l.stallProbeDue.1 pkt seq now fn) := by
  obtain ⟨d1, -⟩ := stallProbeDue_spec l
  unfold Hk.probeLink
  by_cases h : 100 ≤ l.probeCounter + 1
  · right
    have : l.stallProbeDue.2 = true := by rw [d1]; simpa using h
    rw [this]
    exact ⟨h, rfl⟩
  · left
    have : l.stallProbeDue.2 = false := by rw [d1]; simpa using h
    rw [this]
    exact ⟨by omega, rfl⟩

theorem probeLink_fn (l : FLink F) (pkt : Bytes) (seq : Option Nat) (now : Nat) (fn : List Nat) :
    (Hk.probeLink fa l pkt seq now fn).2.2 = fn ∨ (Hk.probeLink fa l pkt seq now fn).2.2 = fn.erase l.core.connId := by
  rcases probeLink_cases l pkt seq now fn with ⟨-, h⟩ | ⟨-, h⟩
  · rw [h]; exact Or.inl rfl
  · rw [h]
    have := fwdLink_fn (fa := fa) l.stallProbeDue.1 pkt seq now fn
    rwa [(stallProbeDue_spec l).2.2.2.1] at this

/-! ## 2. `send_stall_probes`, position by position -/

theorem probeCalled_iff (sel i : Nat) (l : FLink F) :
    ¬ ((i = sel || !l.stallGated || !l.core.connected) = true) ↔ probeCalled sel i l := by
  unfold probeCalled
  simp only [Bool.or_eq_true, decide_eq_true_eq, Bool.not_eq_true', not_or]
  constructor
  · rintro ⟨⟨a, b⟩, c⟩
    exact ⟨a, by simpa using b, by simpa using c⟩
  · rintro ⟨a, b, c⟩
    exact ⟨⟨a, by simp [b]⟩, by simp [c]⟩

theorem stallProbesGo_fnLe (pkt : Bytes) (seq : Option Nat) (now sel : Nat) (ls : List (FLink F)) (i : Nat)
    (fn : List Nat) : Hk.FnLe fn (stallProbesGo fa pkt seq now sel ls i fn).2.2 := by
  induction ls generalizing i fn with
  | nil => exact Hk.FnLe.refl _
  | cons l rest ih =>
    rw [Hk.stallProbesGo_cons]
    split
    · exact ih _ _
    · exact (fnLe_of_eq_or_erase (probeLink_fn l pkt seq now fn)).trans (ih _ _)

/-- **Position `k` of `send_stall_probes`.**  The record at position `k` after the pass is the record before
it when `stall_probe_due` is not consulted there (`probeCalled`: not the chosen link, stall-gated, connected),
and otherwise `Hk.probeLink` applied to it and to the failure list `fnk` threaded up to that position; `fnk`
differs from the list the pass started with only by erasures of conn ids of EARLIER links; what that iteration
put on the wire is part of the wire output of the pass; the failure list only shrinks afterwards. -/
theorem probes_get (pkt : Bytes) (seq : Option Nat) (now sel : Nat) :
    ∀ (ls : List (FLink F)) (i : Nat) (fn : List Nat) (k : Nat) (l : FLink F), ls[k]? = some l →
      (¬ probeCalled sel (i + k) l ∧ (stallProbesGo fa pkt seq now sel ls i fn).1[k]? = some l) ∨
      (probeCalled sel (i + k) l ∧ ∃ fnk, Hk.FnLe fn fnk ∧
        (∀ a, (∀ m ∈ ls.take k, m.core.connId ≠ a) → fnk.count a = fn.count a) ∧
        (stallProbesGo fa pkt seq now sel ls i fn).1[k]? = some (Hk.probeLink fa l pkt seq now fnk).1 ∧
        Hk.FnLe (Hk.probeLink fa l pkt seq now fnk).2.2 (stallProbesGo fa pkt seq now sel ls i fn).2.2 ∧
        (Hk.probeLink fa l pkt seq now fnk).2.1.Sublist (stallProbesGo fa pkt seq now sel ls i fn).2.1) := by
  intro ls
  induction ls with
  | nil => intro i fn k l hl; simp at hl
  | cons l0 rest ih =>
    intro i fn k l hl
    rw [Hk.stallProbesGo_cons]
    cases k with
    | zero =>
      simp only [List.getElem?_cons_zero, Option.some.injEq] at hl
      subst hl
      rw [Nat.add_zero]
      split
      · rename_i hc
        exact Or.inl ⟨fun h => ((probeCalled_iff sel i l0).2 h) hc, rfl⟩
      · rename_i hc
        refine Or.inr ⟨(probeCalled_iff sel i l0).1 hc, fn, Hk.FnLe.refl _, fun _ _ => rfl, rfl,
          stallProbesGo_fnLe _ _ _ _ _ _ _, List.sublist_append_left _ _⟩
    | succ k =>
      simp only [List.getElem?_cons_succ] at hl
      have hik : i + (k + 1) = (i + 1) + k := by omega
      rw [hik]
      split
      · rcases ih (i + 1) fn k l hl with ⟨h1, h2⟩ | ⟨h1, fnk, h2, h3, h4, h5, h6⟩
        · exact Or.inl ⟨h1, by simpa using h2⟩
        · refine Or.inr ⟨h1, fnk, h2, fun a ha => h3 a (fun m hm => ha m ?_), by simpa using h4, h5, h6⟩
          rw [List.take_succ_cons]; exact List.mem_cons_of_mem _ hm
      · have hfn := probeLink_fn (fa := fa) l0 pkt seq now fn
        rcases ih (i + 1) (Hk.probeLink fa l0 pkt seq now fn).2.2 k l hl with ⟨h1, h2⟩ | ⟨h1, fnk, h2, h3, h4, h5, h6⟩
        · exact Or.inl ⟨h1, by simpa using h2⟩
        · refine Or.inr ⟨h1, fnk, (fnLe_of_eq_or_erase hfn).trans h2, fun a ha => ?_, by simpa using h4, h5,
            h6.trans (List.sublist_append_right _ _)⟩
          rw [h3 a (fun m hm => ha m (by rw [List.take_succ_cons]; exact List.mem_cons_of_mem _ hm))]
          exact count_of_eq_or_erase hfn (ha l0 (by rw [List.take_succ_cons]; exact List.mem_cons_self))

/-! ## 3. The client event, every index -/

theorem forwardVia_wire (s : Sys F) (sel : Nat) (pkt : Bytes) (seq : Option Nat) (now : Nat) (l : FLink F)
    (hl : s.links[sel]? = some l) :
    (forwardVia s sel pkt seq now).2.wire = (Hk.fwdLink s.failAfter l pkt seq now s.failNext).2.1 := by
  unfold forwardVia Hk.fwdLink
  rw [hl]
  dsimp only
  split <;> rfl

theorem fwdLink_connId (l : FLink F) (pkt : Bytes) (seq : Option Nat) (now : Nat) (fn : List Nat) :
    (Hk.fwdLink fa l pkt seq now fn).1.core.connId = l.core.connId := by
  have hq := (queueDataPacket_spec l pkt seq now).2.2.1
  have ht := (takeBatch_spec (l.queueDataPacket pkt seq now).1 now).2.2.1
  rcases fwdLink_cases l pkt seq now fn with h | h | h
  · rw [h.2.1, hq]
  · rw [h.2.2.1, ht, hq]
  · rw [h.2.2.1]
    show ((l.queueDataPacket pkt seq now).1.takeBatch now).1.core.connId = _
    rw [ht, hq]

/-- **`routeTo`** (`forward_via_connection` on `sel`, then — iff `probes` — `send_stall_probes`), every index. -/
theorem routeTo_exact (s1 : Sys F) (sel : Nat) (pkt : Bytes) (seq : Option Nat) (now : Nat) (probes : Bool)
    (lsel : FLink F) (hlsel : s1.links[sel]? = some lsel) :
    Hk.FnLe s1.failNext (routeTo s1 sel pkt seq now probes).1.failNext ∧
    ((routeTo s1 sel pkt seq now probes).1.links[sel]? = some (Hk.fwdLink s1.failAfter lsel pkt seq now s1.failNext).1 ∧
      Hk.FnLe (Hk.fwdLink s1.failAfter lsel pkt seq now s1.failNext).2.2 (routeTo s1 sel pkt seq now probes).1.failNext ∧
      (Hk.fwdLink s1.failAfter lsel pkt seq now s1.failNext).2.1.Sublist (routeTo s1 sel pkt seq now probes).2.wire) ∧
    ∀ i l1, i ≠ sel → s1.links[i]? = some l1 →
      (¬ (probes = true ∧ probeCalled sel i l1) ∧ (routeTo s1 sel pkt seq now probes).1.links[i]? = some l1) ∨
      (probes = true ∧ probeCalled sel i l1 ∧ ∃ fnk, Hk.FnLe s1.failNext fnk ∧
        ((ids s1.links).Nodup → fnk.count l1.core.connId = s1.failNext.count l1.core.connId) ∧
        (routeTo s1 sel pkt seq now probes).1.links[i]? = some (Hk.probeLink s1.failAfter l1 pkt seq now fnk).1 ∧
        Hk.FnLe (Hk.probeLink s1.failAfter l1 pkt seq now fnk).2.2 (routeTo s1 sel pkt seq now probes).1.failNext ∧
        (Hk.probeLink s1.failAfter l1 pkt seq now fnk).2.1.Sublist (routeTo s1 sel pkt seq now probes).2.wire) := by
  obtain ⟨e1, e2, -, -⟩ := Hk.forwardVia_eq s1 sel pkt seq now lsel hlsel
  have ew := forwardVia_wire s1 sel pkt seq now lsel hlsel
  have hf := fwdLink_fn (fa := s1.failAfter) lsel pkt seq now s1.failNext
  have hfle := fnLe_of_eq_or_erase hf
  unfold routeTo
  dsimp only
  cases probes
  · simp only [Bool.false_eq_true, if_false, false_and, not_false_eq_true, true_and]
    rw [e1, e2, ew]
    refine ⟨hfle, ⟨?_, Hk.FnLe.refl _, List.Sublist.refl _⟩, fun i l1 hi hl1 => Or.inl ?_⟩
    · rw [setAt_getElem?]; simp [hlsel]
    · rw [setAt_getElem?]; simp [hi, hl1]
  · simp only [if_true, true_and]
    rw [e1, e2, ew]
    rw [Hk.forwardVia_failAfter]
    have hple := stallProbesGo_fnLe (fa := s1.failAfter) pkt seq now sel (setAt s1.links sel (Hk.fwdLink s1.failAfter lsel pkt seq now s1.failNext).1) 0
      (Hk.fwdLink s1.failAfter lsel pkt seq now s1.failNext).2.2
    refine ⟨hfle.trans hple, ?_, fun i l1 hi hl1 => ?_⟩
    · have hg : (setAt s1.links sel (Hk.fwdLink s1.failAfter lsel pkt seq now s1.failNext).1)[sel]? =
          some (Hk.fwdLink s1.failAfter lsel pkt seq now s1.failNext).1 := by
        rw [setAt_getElem?]; simp [hlsel]
      rcases probes_get pkt seq now sel _ 0 (Hk.fwdLink s1.failAfter lsel pkt seq now s1.failNext).2.2 sel _ hg with
        ⟨-, h2⟩ | ⟨h1, -⟩
      · exact ⟨h2, hple, List.sublist_append_left _ _⟩
      · exact absurd (Nat.zero_add sel) h1.1
    · have hg : (setAt s1.links sel (Hk.fwdLink s1.failAfter lsel pkt seq now s1.failNext).1)[i]? = some l1 := by
        rw [setAt_getElem?]; simp [hi, hl1]
      rcases probes_get pkt seq now sel _ 0 (Hk.fwdLink s1.failAfter lsel pkt seq now s1.failNext).2.2 i _ hg with
        ⟨h1, h2⟩ | ⟨h1, fnk, h2, h3, h4, h5, h6⟩
      · rw [Nat.zero_add] at h1
        exact Or.inl ⟨h1, h2⟩
      · rw [Nat.zero_add] at h1
        refine Or.inr ⟨h1, fnk, hfle.trans h2, fun hnd => ?_, h4, h5, h6.trans (List.sublist_append_right _ _)⟩
        rw [h3 l1.core.connId ?_]
        · exact count_of_eq_or_erase hf (ids_ne hnd hlsel hl1 (Ne.symm hi))
        · intro m hm
          obtain ⟨j, hj⟩ := List.getElem?_of_mem hm
          rw [List.getElem?_take] at hj
          split at hj
          · rename_i hji
            rw [setAt_getElem?] at hj
            by_cases hjs : j = sel
            · subst hjs
              simp only [if_true, hlsel, Option.map_some, Option.some.injEq] at hj
              subst hj
              rw [fwdLink_connId]
              exact ids_ne hnd hlsel hl1 (Ne.symm hi)
            · rw [if_neg hjs] at hj
              exact ids_ne hnd hj hl1 (by omega)
          · cases hj

/-- **One client datagram, every link, exactly.**  Non-empty datagram routed to `sel`
(`target s pkt now = some sel`); `l1` = link `i` as `forward_via_connection` / `send_stall_probes` see it (after
this call's selection pass: same queue, core, probe counter and regime as before it).  Then
* `i = sel`: the record afterwards is `Hk.fwdLink fa l1 …` on the failure list the event started with;
* `i ≠ sel`, `stall_probe_due` not consulted (not registered, or not a data packet, or the link is not
  stall-gated or not connected): the record is `l1`;
* `i ≠ sel`, consulted: the record is `Hk.probeLink fa l1 …` on a failure list `fnk` which — conn ids being
  distinct — contains link `i`'s conn id exactly as often as the list the event started with.
In both active cases whatever that link put on the wire is part of the event's wire output, and every failure
list involved only shrinks towards the one the event leaves behind. -/
theorem client_exact (s : Sys F) (pkt : Bytes) (now sel : Nat) (hne : pkt.isEmpty = false)
    (ht : target s pkt now = some sel) :
    Hk.FnLe s.failNext (handleSrtPacket s pkt now).1.failNext ∧
    ∀ i l1, (routedLinks s now)[i]? = some l1 →
      (i = sel ∧
        (handleSrtPacket s pkt now).1.links[i]? =
          some (Hk.fwdLink s.failAfter l1 pkt (Codec.getSrtSequenceNumberS pkt) now s.failNext).1 ∧
        Hk.FnLe (Hk.fwdLink s.failAfter l1 pkt (Codec.getSrtSequenceNumberS pkt) now s.failNext).2.2
          (handleSrtPacket s pkt now).1.failNext ∧
        (Hk.fwdLink s.failAfter l1 pkt (Codec.getSrtSequenceNumberS pkt) now s.failNext).2.1.Sublist
          (handleSrtPacket s pkt now).2.wire) ∨
      (i ≠ sel ∧
        ¬ ((s.reg.hasConnected && (Codec.getSrtSequenceNumberS pkt).isSome) = true ∧ probeCalled sel i l1) ∧
        (handleSrtPacket s pkt now).1.links[i]? = some l1) ∨
      (i ≠ sel ∧ (s.reg.hasConnected && (Codec.getSrtSequenceNumberS pkt).isSome) = true ∧ probeCalled sel i l1 ∧
        ∃ fnk, Hk.FnLe s.failNext fnk ∧
          ((ids s.links).Nodup → fnk.count l1.core.connId = s.failNext.count l1.core.connId) ∧
          (handleSrtPacket s pkt now).1.links[i]? =
            some (Hk.probeLink s.failAfter l1 pkt (Codec.getSrtSequenceNumberS pkt) now fnk).1 ∧
          Hk.FnLe (Hk.probeLink s.failAfter l1 pkt (Codec.getSrtSequenceNumberS pkt) now fnk).2.2
            (handleSrtPacket s pkt now).1.failNext ∧
          (Hk.probeLink s.failAfter l1 pkt (Codec.getSrtSequenceNumberS pkt) now fnk).2.1.Sublist
            (handleSrtPacket s pkt now).2.wire) := by
  have hrange : sel < (routedLinks s now).length := by
    rw [routedLinks_length]; exact target_in_range s pkt now sel ht
  obtain ⟨lsel, hlsel⟩ : ∃ l, (routedLinks s now)[sel]? = some l := ⟨_, List.getElem?_eq_getElem hrange⟩
  rw [handleSrtPacket_eq s pkt now hne]
  unfold target at ht
  unfold routedLinks at hlsel ⊢
  cases hreg : s.reg.hasConnected
  · simp only [hreg, Bool.false_eq_true, if_false, Bool.false_and] at ht hlsel ⊢
    rw [ht]
    dsimp only
    obtain ⟨r1, r2, r3⟩ := routeTo_exact s sel pkt (Codec.getSrtSequenceNumberS pkt) now false lsel hlsel
    refine ⟨r1, fun i l1 hl1 => ?_⟩
    by_cases hi : i = sel
    · subst hi
      rw [hlsel] at hl1; cases hl1
      exact Or.inl ⟨rfl, r2⟩
    · rcases r3 i l1 hi hl1 with ⟨-, h⟩ | ⟨h, -⟩
      · exact Or.inr (Or.inl ⟨hi, by simp, h⟩)
      · cases h
  · simp only [hreg, if_true, Bool.true_and] at ht hlsel ⊢
    rw [ht]
    dsimp only
    obtain ⟨r1, r2, r3⟩ := routeTo_exact (runSelect s now).1 sel pkt (Codec.getSrtSequenceNumberS pkt) now
      (Codec.getSrtSequenceNumberS pkt).isSome lsel hlsel
    have hfn : (runSelect s now).1.failNext = s.failNext := rfl
    have hfa : (runSelect s now).1.failAfter = s.failAfter := rfl
    rw [hfn] at r1 r2 r3
    rw [hfa] at r2 r3
    refine ⟨r1, fun i l1 hl1 => ?_⟩
    by_cases hi : i = sel
    · subst hi
      rw [hlsel] at hl1; cases hl1
      exact Or.inl ⟨rfl, r2⟩
    · rcases r3 i l1 hi hl1 with ⟨h1, h2⟩ | ⟨h1, h2, fnk, h3, h4, h5⟩
      · exact Or.inr (Or.inl ⟨hi, h1, h2⟩)
      · exact Or.inr (Or.inr ⟨hi, h1, h2, fnk, h3, fun hnd => h4 (by rw [runSelect_ids]; exact hnd), h5⟩)

/-! ## 4. The periodic flush, position by position -/

theorem sendBatch_fn (l : FLink F) (now : Nat) (fn : List Nat) :
    (sendConnectionBatch fa l now fn).2.2.2 = fn ∨ (sendConnectionBatch fa l now fn).2.2.2 = fn.erase l.core.connId := by
  rw [sendBatch_exact]
  split
  · exact Or.inl rfl
  · split
    · exact Or.inr rfl
    · exact Or.inl rfl

theorem flushGo_fnLe (now : Nat) (ls : List (FLink F)) (fn : List Nat) : Hk.FnLe fn (flushGo fa now ls fn).2.2 := by
  induction ls generalizing fn with
  | nil => exact Hk.FnLe.refl _
  | cons l rest ih =>
    rw [flushGo]
    split
    · dsimp only
      exact (fnLe_of_eq_or_erase (sendBatch_fn l now fn)).trans (ih _)
    · exact ih _

/-- **Position `k` of `flush_all_batches`**: a link with an empty queue is skipped; any other link goes
through `send_connection_batch` on the failure list `fnk` threaded up to that position, which differs from the
list the pass started with only by erasures of conn ids of EARLIER links. -/
theorem flushGo_get (now : Nat) :
    ∀ (ls : List (FLink F)) (fn : List Nat) (k : Nat) (l : FLink F), ls[k]? = some l →
      (¬ ((l.needsBatchFlush now || !l.queue.isEmpty) = true) ∧ (flushGo fa now ls fn).1[k]? = some l) ∨
      ((l.needsBatchFlush now || !l.queue.isEmpty) = true ∧ ∃ fnk, Hk.FnLe fn fnk ∧
        (∀ a, (∀ m ∈ ls.take k, m.core.connId ≠ a) → fnk.count a = fn.count a) ∧
        (flushGo fa now ls fn).1[k]? = some (sendConnectionBatch fa l now fnk).1 ∧
        Hk.FnLe (sendConnectionBatch fa l now fnk).2.2.2 (flushGo fa now ls fn).2.2 ∧
        (sendConnectionBatch fa l now fnk).2.1.Sublist (flushGo fa now ls fn).2.1) := by
  intro ls
  induction ls with
  | nil => intro fn k l hl; simp at hl
  | cons l0 rest ih =>
    intro fn k l hl
    rw [flushGo]
    cases k with
    | zero =>
      simp only [List.getElem?_cons_zero, Option.some.injEq] at hl
      subst hl
      split
      · rename_i hc
        dsimp only
        exact Or.inr ⟨hc, fn, Hk.FnLe.refl _, fun _ _ => rfl, rfl, flushGo_fnLe _ _ _,
          List.sublist_append_left _ _⟩
      · rename_i hc
        exact Or.inl ⟨hc, rfl⟩
    | succ k =>
      simp only [List.getElem?_cons_succ] at hl
      split
      · dsimp only
        have hfn := sendBatch_fn (fa := fa) l0 now fn
        rcases ih (sendConnectionBatch fa l0 now fn).2.2.2 k l hl with ⟨h1, h2⟩ | ⟨h1, fnk, h2, h3, h4, h5, h6⟩
        · exact Or.inl ⟨h1, by simpa using h2⟩
        · refine Or.inr ⟨h1, fnk, (fnLe_of_eq_or_erase hfn).trans h2, fun a ha => ?_, by simpa using h4, h5,
            h6.trans (List.sublist_append_right _ _)⟩
          rw [h3 a (fun m hm => ha m (by rw [List.take_succ_cons]; exact List.mem_cons_of_mem _ hm))]
          exact count_of_eq_or_erase hfn (ha l0 (by rw [List.take_succ_cons]; exact List.mem_cons_self))
      · dsimp only
        rcases ih fn k l hl with ⟨h1, h2⟩ | ⟨h1, fnk, h2, h3, h4, h5, h6⟩
        · exact Or.inl ⟨h1, by simpa using h2⟩
        · refine Or.inr ⟨h1, fnk, h2, fun a ha => h3 a (fun m hm => ha m ?_), by simpa using h4, h5, h6⟩
          rw [List.take_succ_cons]; exact List.mem_cons_of_mem _ hm

/-- **One `flush` event, every link, exactly**: a link with an empty queue is untouched; any other link's record is
`send_connection_batch` of it on a failure list `fnk` which — conn ids being distinct — contains the link's conn
id exactly as often as the list the event started with. -/
theorem flush_exact (s : Sys F) (now : Nat) (i : Nat) (l : FLink F) (hl : s.links[i]? = some l) :
    Hk.FnLe s.failNext (flushAllBatches s now).1.failNext ∧
    ((l.queue = [] ∧ (flushAllBatches s now).1.links[i]? = some l) ∨
     (l.queue ≠ [] ∧ ∃ fnk, Hk.FnLe s.failNext fnk ∧
        ((ids s.links).Nodup → fnk.count l.core.connId = s.failNext.count l.core.connId) ∧
        (flushAllBatches s now).1.links[i]? = some (sendConnectionBatch s.failAfter l now fnk).1 ∧
        Hk.FnLe (sendConnectionBatch s.failAfter l now fnk).2.2.2 (flushAllBatches s now).1.failNext ∧
        (sendConnectionBatch s.failAfter l now fnk).2.1.Sublist (flushAllBatches s now).2.wire)) := by
  have hcond : ∀ m : FLink F, (m.needsBatchFlush now || !m.queue.isEmpty) = true ↔ m.queue ≠ [] := by
    intro m
    unfold FLink.needsBatchFlush
    cases hq : m.queue <;> simp
  unfold flushAllBatches
  split
  · rename_i hany
    refine ⟨Hk.FnLe.refl _, Or.inl ⟨?_, hl⟩⟩
    simp only [Bool.not_eq_true', List.any_eq_false] at hany
    have := hany l (List.mem_of_getElem? hl)
    cases hq : l.queue with
    | nil => rfl
    | cons a t => rw [hq] at this; simp at this
  · dsimp only
    refine ⟨flushGo_fnLe _ _ _, ?_⟩
    rcases flushGo_get now s.links s.failNext i l hl with ⟨h1, h2⟩ | ⟨h1, fnk, h2, h3, h4, h5, h6⟩
    · refine Or.inl ⟨?_, h2⟩
      cases hq : l.queue with
      | nil => rfl
      | cons a t => exact absurd ((hcond l).2 (by rw [hq]; simp)) h1
    · refine Or.inr ⟨(hcond l).1 h1, fnk, h2, fun hnd => h3 _ ?_, h4, h5, h6⟩
      intro m hm
      obtain ⟨j, hj⟩ := List.getElem?_of_mem hm
      rw [List.getElem?_take] at hj
      split at hj
      · rename_i hji
        exact ids_ne hnd hj hl (by omega)
      · cases hj

/-! ## 5. A datagram vanishes only if an injected failure is CONSUMED -/

theorem wireOf_ne_nil_of_mem {c : Nat} {b : Bytes} {w : List (Nat × Bytes)} (h : (c, b) ∈ w) : wireOf c w ≠ [] := by
  intro he
  have : b ∈ wireOf c w := by
    unfold wireOf
    exact List.mem_map.2 ⟨(c, b), List.mem_filter.2 ⟨h, by simp⟩, rfl⟩
  rw [he] at this
  cases this

/-- A client datagram appends at most one item to a link's queue. -/
theorem appendedClient_length_le (s : Sys F) (pkt : Bytes) (now i : Nat) :
    (appendedClient s pkt now i).length ≤ 1 := by
  unfold appendedClient
  split
  · simp
  · split
    · unfold clientApp probeApp
      split
      · simp
      · split
        · split <;> simp
        · simp
    · simp

theorem wireOf_sublist {c : Nat} {a b : List (Nat × Bytes)} (h : a.Sublist b) : (wireOf c a).Sublist (wireOf c b) := by
  unfold wireOf
  exact (h.filter _).map _

/-- The three outcomes of `Hk.fwdLink`, seen from outside: the queue is non-empty afterwards, or the WHOLE queue
incl. the new datagram, tagged with the link's conn id, is what the call put on the wire, or the injected failure
for the conn id is consumed (and then only a prefix went out). -/
theorem fwdLink_fate (l : FLink F) (pkt : Bytes) (seq : Option Nat) (now : Nat) (fn : List Nat) :
    (Hk.fwdLink fa l pkt seq now fn).1.queue ≠ [] ∨
    (wireOf l.core.connId (Hk.fwdLink fa l pkt seq now fn).2.1).length = l.queue.length + 1 ∨
    (Hk.fwdLink fa l pkt seq now fn).2.2.count l.core.connId < fn.count l.core.connId := by
  rcases fwdLink_cases l pkt seq now fn with h | h | h
  · left
    rw [h.2.1, (queueDataPacket_spec l pkt seq now).1]
    simp
  · right; left
    rw [h.2.2.2.1, wireOf_tag_self]
    simp [bytesOf]
  · right; right
    rw [h.2.2.2.2]
    exact Hk.count_erase_lt fn _ (by simpa using h.2.1)

/-- **Client event: nothing vanishes without a consumed injection.**  If link `i` held something before a client
event or was handed a copy by it (`l.queue ++ appendedClient … ≠ []`), and afterwards its queue is empty and the
event put FEWER datagrams on its socket than that (nothing, or only a prefix: a send that failed part-way), then the
event consumed an injected send failure for its conn id: the multiplicity of the conn id in `failNext` is strictly
smaller afterwards. -/
theorem client_consumed (s : Sys F) (pkt : Bytes) (now : Nat) (hnd : (ids s.links).Nodup) (i : Nat) (l l' : FLink F)
    (hl : s.links[i]? = some l) (hl' : (handleSrtPacket s pkt now).1.links[i]? = some l')
    (hne : l.queue ++ appendedClient s pkt now i ≠ []) (hq : l'.queue = [])
    (hw : (wireOf l.core.connId (handleSrtPacket s pkt now).2.wire).length <
      (l.queue ++ appendedClient s pkt now i).length) :
    (handleSrtPacket s pkt now).1.failNext.count l.core.connId < s.failNext.count l.core.connId := by
  obtain ⟨-, -, -, -, -, -, -, h8⟩ := client_links s pkt now hnd
  obtain ⟨l'', g1, -, -, g4⟩ := h8 i l hl
  rw [hl'] at g1; cases g1
  have hal : (l.queue ++ appendedClient s pkt now i).length ≤ l.queue.length + 1 := by
    rw [List.length_append]
    have := appendedClient_length_le s pkt now i
    omega
  by_cases happ : appendedClient s pkt now i = []
  · exfalso
    rw [happ, List.append_nil] at hne
    rw [(g4 happ).1] at hq
    exact hne hq
  · -- something was appended: non-empty datagram, a target, link `i` is the target or a probe link
    have hpe : pkt.isEmpty = false := by
      cases h : pkt.isEmpty
      · rfl
      · exfalso; apply happ; unfold appendedClient; rw [if_pos h]
    obtain ⟨l1, r1, rq, rc, rp, rr⟩ := routedLinks_getElem? s now i l hl
    obtain ⟨sel, ht⟩ : ∃ sel, target s pkt now = some sel := by
      cases h : target s pkt now with
      | none => exfalso; apply happ; unfold appendedClient; rw [h]; simp
      | some sel => exact ⟨sel, rfl⟩
    have happ' : appendedClient s pkt now i =
        clientApp (clientItem pkt now) (s.reg.hasConnected && (Codec.getSrtSequenceNumberS pkt).isSome) sel i l1 := by
      unfold appendedClient
      rw [if_neg (by simp [hpe]), ht, r1]
    have hcid : l1.core.connId = l.core.connId := by rw [rc]
    obtain ⟨hfle, hx⟩ := client_exact s pkt now sel hpe ht
    -- the common end: a `fwdLink` on a record `m` with `m`'s conn id and queue length = `l`'s, from a list
    -- `fn0 ≤ failNext`
    have fin : ∀ (m : FLink F) (fn0 : List Nat), m.core.connId = l.core.connId → m.queue.length = l.queue.length →
        Hk.FnLe s.failNext fn0 →
        l' = (Hk.fwdLink s.failAfter m pkt (Codec.getSrtSequenceNumberS pkt) now fn0).1 →
        Hk.FnLe (Hk.fwdLink s.failAfter m pkt (Codec.getSrtSequenceNumberS pkt) now fn0).2.2 (handleSrtPacket s pkt now).1.failNext →
        ((Hk.fwdLink s.failAfter m pkt (Codec.getSrtSequenceNumberS pkt) now fn0).2.1.Sublist (handleSrtPacket s pkt now).2.wire) →
        (handleSrtPacket s pkt now).1.failNext.count l.core.connId < s.failNext.count l.core.connId := by
      intro m fn0 hm hmq h0 e1 e2 e3
      rcases fwdLink_fate (fa := s.failAfter) m pkt (Codec.getSrtSequenceNumberS pkt) now fn0 with h | h | h
      · rw [← e1] at h; exact absurd hq h
      · exfalso
        have := (wireOf_sublist (c := l.core.connId) e3).length_le
        rw [hm] at h
        omega
      · rw [hm] at h
        exact Nat.lt_of_le_of_lt (e2 _) (Nat.lt_of_lt_of_le h (h0 _))
    rcases hx i l1 r1 with ⟨hi, e1, e2, e3⟩ | ⟨hi, hnp, e1⟩ | ⟨hi, hp, hpc, fnk, f1, -, e1, e2, e3⟩
    · rw [hl'] at e1
      exact fin l1 s.failNext hcid (by rw [rq]) (Hk.FnLe.refl _) (Option.some.inj e1) e2 e3
    · exfalso
      apply happ
      rw [happ']
      unfold clientApp probeApp
      rw [if_neg hi]
      split
      · rename_i hpp
        rw [if_neg (fun h => hnp ⟨hpp, h.1⟩)]
      · rfl
    · rw [hl'] at e1
      rcases probeLink_cases (fa := s.failAfter) l1 pkt (Codec.getSrtSequenceNumberS pkt) now fnk with ⟨hlt, hpl⟩ | ⟨hge, hpl⟩
      · exfalso
        apply happ
        rw [happ']
        unfold clientApp probeApp
        rw [if_neg hi, if_pos hp, if_neg (fun h => by omega)]
      · rw [hpl] at e1 e2 e3
        obtain ⟨-, -, d3, d4, -⟩ := stallProbeDue_spec l1
        exact fin l1.stallProbeDue.1 fnk (by rw [d4, hcid]) (by rw [d3, rq]) f1 (Option.some.inj e1) e2 e3

/-- **Flush event: nothing vanishes without a consumed injection.**  If link `i`'s queue was non-empty before a
`flush` event and the event put fewer datagrams on its socket than the queue held (nothing, or only a prefix), then
the event consumed an injected send failure for its conn id. -/
theorem flush_consumed (s : Sys F) (now : Nat) (i : Nat) (l : FLink F) (hl : s.links[i]? = some l)
    (hne : l.queue ≠ []) (hw : (wireOf l.core.connId (flushAllBatches s now).2.wire).length < l.queue.length) :
    (flushAllBatches s now).1.failNext.count l.core.connId < s.failNext.count l.core.connId := by
  obtain ⟨-, h⟩ := flush_exact s now i l hl
  rcases h with ⟨h, -⟩ | ⟨-, fnk, f1, -, -, e2, e3⟩
  · exact absurd h hne
  · rw [sendBatch_exact] at e2 e3
    have hq : l.queue.isEmpty = false := by cases h : l.queue <;> simp_all
    rw [hq] at e2 e3
    simp only [Bool.false_eq_true, if_false] at e2 e3
    split at e2
    · rename_i hc
      exact Nat.lt_of_le_of_lt (e2 _) (Nat.lt_of_lt_of_le (Hk.count_erase_lt fnk _ hc) (f1 _))
    · rename_i hc
      rw [if_neg hc] at e3
      exfalso
      have := (wireOf_sublist (c := l.core.connId) e3).length_le
      rw [wireOf_tag_self] at this
      simp only [bytesOf, List.length_map] at this
      omega

/-- A client event only ever REMOVES entries from the fault-injection list. -/
theorem client_fnLe (s : Sys F) (pkt : Bytes) (now : Nat) :
    Hk.FnLe s.failNext (handleSrtPacket s pkt now).1.failNext := by
  cases hne : pkt.isEmpty
  · cases ht : target s pkt now with
    | some sel => exact (client_exact s pkt now sel hne ht).1
    | none =>
      rw [handleSrtPacket_eq s pkt now hne]
      unfold target at ht
      cases hreg : s.reg.hasConnected
      · simp only [hreg, Bool.false_eq_true, if_false] at ht ⊢
        rw [ht]
        exact Hk.FnLe.refl _
      · simp only [hreg, if_true] at ht ⊢
        rw [ht]
        exact Hk.FnLe.refl _
  · have : handleSrtPacket s pkt now = (s, {}) := by unfold handleSrtPacket; rw [if_pos hne]
    rw [this]
    exact Hk.FnLe.refl _

/-- A flush event only ever REMOVES entries from the fault-injection list. -/
theorem flush_fnLe (s : Sys F) (now : Nat) : Hk.FnLe s.failNext (flushAllBatches s now).1.failNext := by
  unfold flushAllBatches
  split
  · exact Hk.FnLe.refl _
  · exact flushGo_fnLe _ _ _

/-- An empty datagram, or no routing target: no link's core, queue or regime changes (at most the selection pass
rewrote guard-private fields), and the fault-injection list is what it was. -/
theorem client_none (s : Sys F) (pkt : Bytes) (now : Nat) (h : pkt.isEmpty = true ∨ target s pkt now = none)
    (i : Nat) (l : FLink F) (hl : s.links[i]? = some l) :
    (handleSrtPacket s pkt now).1.failNext = s.failNext ∧
    ∃ l', (handleSrtPacket s pkt now).1.links[i]? = some l' ∧ l'.core = l.core ∧ l'.queue = l.queue ∧
      l'.regime = l.regime := by
  cases hne : pkt.isEmpty
  · have ht : target s pkt now = none := by
      rcases h with h | h
      · rw [hne] at h; cases h
      · exact h
    rw [handleSrtPacket_eq s pkt now hne]
    unfold target at ht
    cases hreg : s.reg.hasConnected
    · simp only [hreg, Bool.false_eq_true, if_false] at ht ⊢
      rw [ht]
      exact ⟨rfl, l, hl, rfl, rfl, rfl⟩
    · simp only [hreg, if_true] at ht ⊢
      rw [ht]
      obtain ⟨sl, h1⟩ := runSelect_getElem? s now i l hl
      exact ⟨rfl, _, h1, rfl, rfl, rfl⟩
  · have : handleSrtPacket s pkt now = (s, {}) := by unfold handleSrtPacket; rw [if_pos hne]
    rw [this]
    exact ⟨rfl, l, hl, rfl, rfl, rfl⟩

end Srtla.Sys
