import Srtla.Lemmas.SelShellStep
import Srtla.Lemmas.StallLatch
/-!
# The stall guard's private fields along the events of the shell (C13 at shell level)

Read off the closed forms of `Lemmas/SelShellStep.lean`:

* `GKeep l l'` — the guard's seven private fields (`latchedSince`, `recoverySince`, `silencePulled`,
  `stallGated`, `pullMark`, `gateEvents`, `silencePulls`), the delivery-proof stamp and `connected` are
  unchanged;
* `Torn l l'` — `reset_core_state` ran on the link in this event (`mark_for_recovery` after a failed send
  or on REG_ERR, `reset_for_reconnect` in housekeeping): latch, recovery run, pull, gate flag and
  heard-mark cleared, proof stamp 0, disconnected; the two lifetime counters survive;
* `flush_guard`, `hk_guard`, `cfg_guard`: `GKeep ∨ Torn` (flush: `GKeep`);
* `uplink_guard`: the seven fields are kept or the link is `Torn`; the proof stamp is kept, or is set to
  the clock by an earned SRTLA ACK / answered keepalive (the latter only at a clock `> 0`);
* `pass_guard`: what the selection pass of a `client` event (`runSelect`) writes into link `j`: with the
  guard on, the fields of `StallLatch.sel` on the link's own view (`update_silence_pull` then
  `update_stall_latch`), and some `stall_gated` stamp; with the guard off, zeros;
* `client_guard`: a `client` event is the pass (if it ran) followed by `GKeep ∨ Torn`.
-/
set_option linter.unusedSectionVars false

namespace Srtla.SelShell
open Srtla Srtla.Gen Srtla.Conn Srtla.Select Srtla.Rtt Srtla.Link Srtla.Sys Scalar

variable {F : Type} [Scalar F]
variable {fa : List (Nat × Nat)}

/-! ## 1. The two relations -/

/-- Guard-private fields, proof stamp and `connected` unchanged. -/
structure GKeep (l l' : FLink F) : Prop where
  latched : l'.latchedSince = l.latchedSince
  recovery : l'.recoverySince = l.recoverySince
  pulled : l'.silencePulled = l.silencePulled
  gated : l'.stallGated = l.stallGated
  mark : l'.pullMark = l.pullMark
  gateEvents : l'.gateEvents = l.gateEvents
  pulls : l'.silencePulls = l.silencePulls
  proof : l'.core.proofMs = l.core.proofMs
  connected : l'.core.connected = l.core.connected

/-- The link was torn down (`reset_core_state`) in this event. -/
structure Torn (l l' : FLink F) : Prop where
  latched : l'.latchedSince = 0
  recovery : l'.recoverySince = 0
  pulled : l'.silencePulled = false
  gated : l'.stallGated = false
  mark : l'.pullMark = none
  gateEvents : l'.gateEvents = l.gateEvents
  pulls : l'.silencePulls = l.silencePulls
  proof : l'.core.proofMs = 0
  connected : l'.core.connected = false

omit [Scalar F] in
theorem GKeep.refl (l : FLink F) : GKeep l l := ⟨rfl, rfl, rfl, rfl, rfl, rfl, rfl, rfl, rfl⟩

omit [Scalar F] in
theorem GKeep.trans {a b c : FLink F} (h1 : GKeep a b) (h2 : GKeep b c) : GKeep a c :=
  ⟨h2.latched.trans h1.latched, h2.recovery.trans h1.recovery, h2.pulled.trans h1.pulled,
   h2.gated.trans h1.gated, h2.mark.trans h1.mark, h2.gateEvents.trans h1.gateEvents,
   h2.pulls.trans h1.pulls, h2.proof.trans h1.proof, h2.connected.trans h1.connected⟩

omit [Scalar F] in
theorem Torn.of_keep {a b c : FLink F} (h1 : GKeep a b) (h2 : Torn b c) : Torn a c :=
  ⟨h2.latched, h2.recovery, h2.pulled, h2.gated, h2.mark, h2.gateEvents.trans h1.gateEvents,
   h2.pulls.trans h1.pulls, h2.proof, h2.connected⟩

omit [Scalar F] in
theorem Torn.then_keep {a b c : FLink F} (h1 : Torn a b) (h2 : GKeep b c) : Torn a c :=
  ⟨h2.latched.trans h1.latched, h2.recovery.trans h1.recovery, h2.pulled.trans h1.pulled,
   h2.gated.trans h1.gated, h2.mark.trans h1.mark, h2.gateEvents.trans h1.gateEvents,
   h2.pulls.trans h1.pulls, h2.proof.trans h1.proof, h2.connected.trans h1.connected⟩

/-- `GKeep ∨ Torn`, the effect of everything that is not a selection pass. -/
def KeepOrTorn (l l' : FLink F) : Prop := GKeep l l' ∨ Torn l l'

omit [Scalar F] in
theorem KeepOrTorn.of_keep {a b c : FLink F} (h1 : GKeep a b) (h2 : KeepOrTorn b c) : KeepOrTorn a c :=
  h2.elim (fun h => .inl (h1.trans h)) (fun h => .inr (Torn.of_keep h1 h))

omit [Scalar F] in
theorem KeepOrTorn.then_keep {a b c : FLink F} (h1 : KeepOrTorn a b) (h2 : GKeep b c) : KeepOrTorn a c :=
  h1.elim (fun h => .inl (h.trans h2)) (fun h => .inr (h.then_keep h2))

local macro "gk" : term => `(⟨rfl, rfl, rfl, rfl, rfl, rfl, rfl, rfl, rfl⟩)

/-! ## 2. The per-link operations -/

theorem gk_queue (l : FLink F) (pkt : Link.Bytes) (seq : Option Nat) (t : Nat) :
    GKeep l (l.queueDataPacket pkt seq t).1 := gk

theorem regFold_proof (q : List QItem) (c : Conn) :
    (q.foldl Hk.regFold c).proofMs = c.proofMs := by
  induction q generalizing c with
  | nil => rfl
  | cons it q ih =>
    simp only [List.foldl_cons]
    rw [ih]
    unfold Hk.regFold
    split <;> rfl

theorem gk_takeBatch (l : FLink F) (now : Nat) : GKeep l (l.takeBatch now).1 := by
  rw [Hk.takeBatch_eq]
  split
  · exact gk
  · exact ⟨rfl, rfl, rfl, rfl, rfl, rfl, rfl, regFold_proof l.queue l.core,
      (Hk.foldl_register_frame l.queue l.core).1⟩

theorem gk_stallProbeDue (l : FLink F) : GKeep l l.stallProbeDue.1 := by
  unfold FLink.stallProbeDue
  dsimp only
  split <;> exact gk

theorem torn_markForRecovery (l : FLink F) : Torn l l.markForRecovery := gk

theorem fwdLink_guard (l : FLink F) (pkt : Link.Bytes) (seq : Option Nat) (now : Nat) (fn : List Nat) :
    KeepOrTorn l (Hk.fwdLink fa l pkt seq now fn).1 := by
  have hq := gk_queue l pkt seq now
  unfold Hk.fwdLink
  split
  · dsimp only
    rw [(Hk.sendBatch_cases _ now fn).1]
    have ht := hq.trans (gk_takeBatch (l.queueDataPacket pkt seq now).1 now)
    split
    · exact .inl ht
    · exact .inr (Torn.of_keep ht (torn_markForRecovery _))
  · exact .inl hq

theorem probeLink_guard (l : FLink F) (pkt : Link.Bytes) (seq : Option Nat) (now : Nat) (fn : List Nat) :
    KeepOrTorn l (Hk.probeLink fa l pkt seq now fn).1 := by
  have hp := gk_stallProbeDue l
  unfold Hk.probeLink
  split
  · exact .inl hp
  · exact KeepOrTorn.of_keep hp (fwdLink_guard _ pkt seq now fn)

theorem gk_keepalivePacket (l : FLink F) (now : Nat) : GKeep l (l.keepalivePacket now).1 := by
  unfold FLink.keepalivePacket
  exact gk

theorem gk_performWindowRecovery (l : FLink F) (now : Nat) : GKeep l (l.performWindowRecovery now) := by
  unfold FLink.performWindowRecovery
  exact gk

theorem gk_updatePhase (l : FLink F) (now : Nat) : GKeep l (l.updatePhase now) := by
  unfold FLink.updatePhase
  dsimp only
  repeat' split
  all_goals exact gk

theorem gk_aliveLink (classic : Bool) (now : Nat) (l : FLink F) : GKeep l (Hk.aliveLink classic now l) := by
  unfold Hk.aliveLink
  dsimp only
  have h1 : GKeep l (if l.needsKeepalive now then (l.keepalivePacket now).1 else l) := by
    split
    · exact gk_keepalivePacket l now
    · exact GKeep.refl l
  generalize (if l.needsKeepalive now then (l.keepalivePacket now).1 else l) = l1 at h1 ⊢
  have h2 : GKeep l1 (if l1.needsRttMeasurement now then (l1.keepalivePacket now).1 else l1) := by
    split
    · exact gk_keepalivePacket l1 now
    · exact GKeep.refl l1
  generalize (if l1.needsRttMeasurement now then (l1.keepalivePacket now).1 else l1) = l2 at h2 ⊢
  have h3 : GKeep l2 (if !classic then l2.performWindowRecovery now else l2) := by
    split
    · exact gk_performWindowRecovery l2 now
    · exact GKeep.refl l2
  generalize (if !classic then l2.performWindowRecovery now else l2) = l3 at h3 ⊢
  have h4 : GKeep l3 { l3 with bitrate := l3.bitrate.calculate now } := gk
  have h5 := gk_updatePhase { l3 with bitrate := l3.bitrate.calculate now } now
  have h6 : GKeep ((({ l3 with bitrate := l3.bitrate.calculate now } : FLink F)).updatePhase now)
      ((({ l3 with bitrate := l3.bitrate.calculate now } : FLink F)).updatePhase now).recomputeBatchRegime := gk
  exact ((((h1.trans h2).trans h3).trans h4).trans h5).trans h6

theorem gk_withSent (l : FLink F) (t : Option Nat) : GKeep l (Hk.withSent l t) := gk

theorem gk_graceFix (g : Option Nat) (now j : Nat) (l : FLink F) : GKeep l (Hk.graceFix g now j l) := by
  unfold Hk.graceFix
  split
  · exact gk
  · exact GKeep.refl l

theorem gk_recordAttempt (l : FLink F) (now : Nat) : GKeep l (l.recordAttempt now) := by
  unfold FLink.recordAttempt
  split <;> exact gk

theorem torn_reconnectLink (l : FLink F) (now : Nat) : Torn l (Hk.reconnectLink l now) := by
  have h := gk_recordAttempt l now
  refine Torn.of_keep h ?_
  unfold Hk.reconnectLink
  exact gk

/-- One housekeeping tick on one link (the closed form of `hk_link`). -/
theorem hkOp_guard (classic : Bool) (now : Nat) (pending g t : Option Nat) (fails : Bool) (j : Nat) (l : FLink F) :
    KeepOrTorn l (Hk.withSent (Hk.hkLink classic now pending fails j (Hk.graceFix g now j l)) t) := by
  have hg := gk_graceFix g now j l
  generalize Hk.graceFix g now j l = x at hg ⊢
  refine KeepOrTorn.then_keep ?_ (gk_withSent _ t)
  refine KeepOrTorn.of_keep hg ?_
  have hr : Torn x (Hk.reconnectLink x now) := torn_reconnectLink x now
  have hrs : Torn x (Hk.withSent (Hk.reconnectLink x now) (some now)) := hr.then_keep (gk_withSent _ _)
  -- the extra alternatives cover a failed socket re-creation (`Hk.failedLink`) = `mark_for_recovery`
  -- after `record_attempt`
  have hm : Torn x (x.recordAttempt now).markForRecovery :=
    Torn.of_keep (gk_recordAttempt x now) (torn_markForRecovery _)
  unfold Hk.hkLink Hk.attemptLink Hk.failedLink
  repeat' split
  all_goals first
    | exact .inr hrs
    | exact .inr hr
    | exact .inl (GKeep.refl x)
    | exact .inl (gk_aliveLink classic now x)
    | exact .inr hm
    | exact .inr (hm.then_keep (gk_withSent _ _))
    | exact .inr (torn_markForRecovery x)
    | exact .inr ((torn_markForRecovery x).then_keep (gk_withSent _ _))

/-! ## 3. `flush`, `hk`, configuration events -/

/-- **`flush`**: guard fields, proof stamp and `connected` of every link are unchanged. -/
theorem flush_guard (s : Sys F) (now j : Nat) (l l' : FLink F) (hl : s.links[j]? = some l)
    (hl' : (flushAllBatches s now).1.links[j]? = some l') : GKeep l l' := by
  obtain ⟨x, hx, h⟩ := flush_link s now j l hl
  rw [hx] at hl'
  cases hl'
  rcases h with rfl | rfl
  · exact GKeep.refl _
  · exact gk_takeBatch l now

/-- **`hk`**: unchanged, or the link was re-initialised for a reconnect attempt. -/
theorem hk_guard (s : Sys F) (now j : Nat) (l l' : FLink F) (hl : s.links[j]? = some l)
    (hl' : (handleHousekeeping s now).1.links[j]? = some l') : KeepOrTorn l l' := by
  obtain ⟨p, g, t, fails, h⟩ := hk_link s now j l hl
  rw [h] at hl'
  cases hl'
  exact hkOp_guard _ _ _ _ _ _ _ _

/-- **`setCfg` / `crit` / `failNext` / `failBind` / `stamp`** (any event that is not an arm of the loop): nothing
the guard sees — a verdict stamp rewrites `weak` / `loss_degraded` / `cc_backing_off` / `cc_target_bps` only. -/
theorem cfg_guard (s : Sys F) (e : Ev) (he : isArm e = false) (hnr : e.isReload = false) (j : Nat) (l l' : FLink F)
    (hl : s.links[j]? = some l) (hl' : (step s e).1.links[j]? = some l') : GKeep l l' := by
  obtain ⟨x, hx, h⟩ := cfg_links s e he hnr j l hl
  rw [hx] at hl'
  cases hl'
  rcases h with rfl | ⟨weak, ld, ccb, cct, rfl⟩ | ⟨T, rfl⟩
  · exact GKeep.refl _
  · exact gk
  · exact gk

/-! ## 4. `uplink` -/

/-- The guard's seven fields and `connected` agree (the proof stamp may differ). -/
structure GSame (l l' : FLink F) : Prop where
  latched : l'.latchedSince = l.latchedSince
  recovery : l'.recoverySince = l.recoverySince
  pulled : l'.silencePulled = l.silencePulled
  gated : l'.stallGated = l.stallGated
  mark : l'.pullMark = l.pullMark
  gateEvents : l'.gateEvents = l.gateEvents
  pulls : l'.silencePulls = l.silencePulls

omit [Scalar F] in
theorem GKeep.same {l l' : FLink F} (h : GKeep l l') : GSame l l' :=
  ⟨h.latched, h.recovery, h.pulled, h.gated, h.mark, h.gateEvents, h.pulls⟩

omit [Scalar F] in
theorem GSame.trans {a b c : FLink F} (h1 : GSame a b) (h2 : GSame b c) : GSame a c :=
  ⟨h2.latched.trans h1.latched, h2.recovery.trans h1.recovery, h2.pulled.trans h1.pulled,
   h2.gated.trans h1.gated, h2.mark.trans h1.mark, h2.gateEvents.trans h1.gateEvents,
   h2.pulls.trans h1.pulls⟩

omit [Scalar F] in
/-- The ACK / NAK fan-out rewrites the accounting core and the RTT tracker only. -/
theorem gsame_of_sameShell {a l' : FLink F} (h : Uplink.SameShell a l') : GSame a l' := by
  unfold Uplink.SameShell at h
  have h1 := congrArg FLink.latchedSince h
  have h2 := congrArg FLink.recoverySince h
  have h3 := congrArg FLink.silencePulled h
  have h4 := congrArg FLink.stallGated h
  have h5 := congrArg FLink.pullMark h
  have h6 := congrArg FLink.gateEvents h
  have h7 := congrArg FLink.silencePulls h
  exact ⟨h1, h2, h3, h4, h5, h6, h7⟩

/-- REG3 keeps the guard fields and the proof stamp; it sets `connected`. -/
theorem reg3Link_guard (l : FLink F) (now : Nat) :
    GSame l (Uplink.reg3Link l now) ∧ (Uplink.reg3Link l now).core.proofMs = l.core.proofMs ∧
    (Uplink.reg3Link l now).core.connected = true := by
  unfold Uplink.reg3Link FLink.clearPreRegistration Conn.clearPreRegistration
  exact ⟨⟨rfl, rfl, rfl, rfl, rfl, rfl, rfl⟩, rfl, rfl⟩

theorem gk_stamp (l : FLink F) (now : Nat) : GKeep l (Uplink.stamp l now) := gk

theorem gk_handleKeepaliveResponse (l : FLink F) (data : Link.Bytes) (now : Nat) :
    GKeep l (l.handleKeepaliveResponse data now).1 := by
  unfold FLink.handleKeepaliveResponse
  split
  · exact GKeep.refl l
  · split
    · dsimp only
      split <;> exact gk
    · exact gk

theorem gk_recordRttProbe (l : FLink F) : GKeep l l.recordRttProbe := by
  unfold FLink.recordRttProbe
  split
  · split <;> exact gk
  · exact GKeep.refl l

/-- The keepalive arm keeps the seven fields and `connected`; the proof stamp is kept or set to `now`,
the latter only by an answered probe of age `now - ts > 0` (so `now > 0`). -/
theorem kaLink_guard (l : FLink F) (data : Codec.Bytes) (now : Nat) :
    GSame l (Uplink.kaLink l data now) ∧
    (Uplink.kaLink l data now).core.connected = l.core.connected ∧
    ((Uplink.kaLink l data now).core.proofMs = l.core.proofMs ∨
      ((Uplink.kaLink l data now).core.proofMs = now ∧ 0 < now)) := by
  obtain ⟨-, -, -, hc, -, -, hp⟩ := Uplink.kaLink_spec l data now
  refine ⟨?_, hc, ?_⟩
  · have h1 := gk_stamp l now
    have h2 := h1.trans (gk_handleKeepaliveResponse (Uplink.stamp l now) data now)
    unfold Uplink.kaLink
    split
    · have h3 := h2.trans (gk_recordRttProbe _)
      exact ⟨h3.latched, h3.recovery, h3.pulled, h3.gated, h3.mark, h3.gateEvents, h3.pulls⟩
    · exact h2.same
  · rcases hp with ⟨h, -⟩ | ⟨-, ts, -, h0, -, h, -⟩
    · exact .inl h
    · exact .inr ⟨h, by omega⟩

/-- What an `uplink` event does to the guard fields / proof stamp of link `j`. -/
inductive UplinkGuard (now : Nat) (l l' : FLink F) : Prop
  /-- nothing (the proof stamp included) -/
  | keep (h : GKeep l l')
  /-- delivery proof stamped with the clock — an earned SRTLA ACK (any clock) -/
  | sack (h : GSame l l') (hc : l'.core.connected = l.core.connected) (hp : l'.core.proofMs = now)
      (hk : l.core.keys ≠ [])
  /-- delivery proof stamped with the clock by an answered keepalive probe: then `0 < now` -/
  | echo (h : GSame l l') (hc : l'.core.connected = l.core.connected) (hp : l'.core.proofMs = now)
      (hnow : 0 < now)
  /-- REG3 on this link: `connected` is set, nothing else of the above moves -/
  | reg3 (h : GSame l l') (hp : l'.core.proofMs = l.core.proofMs) (hc : l'.core.connected = true)
  /-- REG_ERR on this link: torn down -/
  | torn (h : Torn l l')

/-- **`uplink`**, link `j`. -/
theorem uplink_guard (s : Sys F) (cid : Nat) (data : Sys.Bytes) (now j : Nat) (l l' : FLink F)
    (hl : s.links[j]? = some l) (hl' : (handleUplinkPacket s cid data now).1.links[j]? = some l') :
    UplinkGuard now l l' := by
  obtain ⟨x, a, sacks, acks, hx, hev, ha⟩ := uplink_link s cid data now j l hl
  rw [hx] at hl'
  cases hl'
  have hs := gsame_of_sameShell hev.shell
  have hc := hev.core.connected
  -- the fan-out after an arm that kept guard fields, proof stamp and `connected`
  have fan : ∀ (hk : GKeep l a) (hkeys : a.core.keys = l.core.keys), UplinkGuard now l l' := by
    intro hk hkeys
    by_cases hp : l'.core.proofMs = a.core.proofMs
    · exact .keep ⟨hs.latched.trans hk.latched, hs.recovery.trans hk.recovery, hs.pulled.trans hk.pulled,
        hs.gated.trans hk.gated, hs.mark.trans hk.mark, hs.gateEvents.trans hk.gateEvents,
        hs.pulls.trans hk.pulls, hp.trans hk.proof, hc.trans hk.connected⟩
    · obtain ⟨hn, k, -, hkk⟩ := hev.core.proof hp
      refine .sack (hk.same.trans hs) (hc.trans hk.connected) hn ?_
      rw [← hkeys]
      intro h
      rw [h] at hkk
      cases hkk
  rcases ha with rfl | ⟨-, -, ha⟩
  · exact fan (GKeep.refl _) rfl
  · rcases arrival_shape l j s.reg s.clientKnown data now with h | h | h | ⟨-, h⟩ | ⟨-, h⟩ | h
    · have ha' := ha.trans h
      subst ha'
      exact fan (GKeep.refl _) rfl
    · have ha' := ha.trans h
      subst ha'
      exact fan gk rfl
    · have ha' := ha.trans h
      subst ha'
      -- REG3 clears the log: no SRTLA ACK can be earned in the same datagram
      by_cases hp : l'.core.proofMs = (Uplink.reg3Link l now).core.proofMs
      · obtain ⟨k1, k2, k3⟩ := reg3Link_guard l now
        exact .reg3 (k1.trans hs) (hp.trans k2) (hc.trans k3)
      · obtain ⟨-, k, -, hkk⟩ := hev.core.proof hp
        have : (Uplink.reg3Link l now).core.keys = [] := by
          unfold Uplink.reg3Link FLink.clearPreRegistration Conn.clearPreRegistration Conn.keys
          rfl
        rw [this] at hkk
        cases hkk
    · have ha' := ha.trans h
      subst ha'
      have ht := torn_markForRecovery l
      by_cases hp : l'.core.proofMs = l.markForRecovery.core.proofMs
      · exact .torn ⟨hs.latched.trans ht.latched, hs.recovery.trans ht.recovery, hs.pulled.trans ht.pulled,
          hs.gated.trans ht.gated, hs.mark.trans ht.mark, hs.gateEvents.trans ht.gateEvents,
          hs.pulls.trans ht.pulls, hp.trans ht.proof, hc.trans ht.connected⟩
      · obtain ⟨-, k, -, hkk⟩ := hev.core.proof hp
        have : l.markForRecovery.core.keys = [] := rfl
        rw [this] at hkk
        cases hkk
    · have ha' := ha.trans h
      subst ha'
      obtain ⟨g1, g2, g3⟩ := kaLink_guard l data now
      by_cases hp : l'.core.proofMs = (Uplink.kaLink l data now).core.proofMs
      · rcases g3 with g3 | ⟨g3, hnow⟩
        · exact .keep ⟨hs.latched.trans g1.latched, hs.recovery.trans g1.recovery, hs.pulled.trans g1.pulled,
            hs.gated.trans g1.gated, hs.mark.trans g1.mark, hs.gateEvents.trans g1.gateEvents,
            hs.pulls.trans g1.pulls, hp.trans g3, hc.trans g2⟩
        · exact .echo (g1.trans hs) (hc.trans g2) (hp.trans g3) hnow
      · obtain ⟨hn, k, -, hkk⟩ := hev.core.proof hp
        refine .sack (g1.trans hs) (hc.trans g2) hn ?_
        have hlog : (Uplink.kaLink l data now).core.keys = l.core.keys := by
          unfold Conn.keys
          rw [(Uplink.kaLink_spec l data now).2.1]
        rw [hlog] at hkk
        intro h0
        rw [h0] at hkk
        cases hkk
    · have ha' := ha.trans h
      subst ha'
      exact fan gk rfl

/-! ## 5. `client`: the pass, then keep-or-torn -/

/-- After the pass: keep or torn (closed form of `client_link`). -/
theorem clientFx_guard {s : Sys F} {pkt : Sys.Bytes} {now j : Nat} {m l' : FLink F}
    (h : ClientFx s pkt now j m l') : KeepOrTorn m l' := by
  cases h with
  | idle _ h => subst h; exact .inl (GKeep.refl _)
  | target _ h => subst h; exact fwdLink_guard _ _ _ _ _
  | probe _ _ _ _ _ _ h =>
    obtain ⟨fn, rfl⟩ := h
    exact probeLink_guard _ _ _ _ _

/-- Stamp the per-link copy of the connection timeout. -/
def setT (T : Nat) (c : SLink F) : SLink F := { c with connTimeoutMs := T }

omit [Scalar F] in
theorem updateSilencePull_setT (T : Nat) (c : SLink F) (now : Nat) (m : Int) (ce : Nat) :
    updateSilencePull (setT T c) now m ce = setT T (updateSilencePull c now m ce) := by
  have h1 : brieflySilent (setT T c) now m ce = brieflySilent c now m ce := rfl
  have h2 : pullWindow (setT T c) ce = pullWindow c ce := rfl
  unfold updateSilencePull
  simp only [h1, h2]
  simp only [apply_ite (setT T)]
  rfl

omit [Scalar F] in
theorem updateStallLatch_setT (T : Nat) (c : SLink F) (now : Nat) (m : Int) (ce : Nat) :
    updateStallLatch (setT T c) now m ce = setT T (updateStallLatch c now m ce) := by
  have h1 : isStalled (setT T c) now m ce = isStalled c now m ce := rfl
  have h2 : effStale (setT T c) ce = effStale c ce := rfl
  unfold updateStallLatch
  simp only [h1, h2]
  simp only [apply_ite (setT T)]
  rfl

omit [Scalar F] in
/-- The per-link pass does not read the timeout copy. -/
theorem sel_setT (T : Nat) (c : SLink F) (now : Nat) (m : Int) (ce : Nat) :
    StallLatch.sel (setT T c) now m ce = setT T (StallLatch.sel c now m ce) := by
  unfold StallLatch.sel
  rw [updateSilencePull_setT, updateStallLatch_setT]

open Srtla.StallLatch in
/-- **What the selection pass writes into link `j`** (`runSelect` = `select_connection_idx` on the live
links + write-back).  Guard on: the six bookkeeping fields are those of `StallLatch.sel` — i.e. of
`update_stall_latch (update_silence_pull ·)` — on the link's own selection view, at the event's clock
and the configured threshold / ceiling; `stall_gated` is some stamp that is off unless the link is
latched or pulled.  Guard off: latch, recovery run, pull and gate flag are cleared, the rest is kept.
The proof stamp, `connected` and everything else outside the ten writable fields is untouched. -/
theorem pass_guard (s : Sys F) (now j : Nat) (l m : FLink F) (hl : s.links[j]? = some l)
    (hm : (runSelect s now).1.links[j]? = some m) :
    m.core = l.core ∧
    (s.cfg.stallDeselect = true →
      m.latchedSince = (sel l.toSLink now s.cfg.stallMinInFlight s.cfg.stallCeilingMs).latchedSince ∧
      m.recoverySince = (sel l.toSLink now s.cfg.stallMinInFlight s.cfg.stallCeilingMs).recoverySince ∧
      m.silencePulled = (sel l.toSLink now s.cfg.stallMinInFlight s.cfg.stallCeilingMs).silencePulled ∧
      m.pullMark = (sel l.toSLink now s.cfg.stallMinInFlight s.cfg.stallCeilingMs).pullMark ∧
      m.gateEvents = (sel l.toSLink now s.cfg.stallMinInFlight s.cfg.stallCeilingMs).gateEvents ∧
      m.silencePulls = (sel l.toSLink now s.cfg.stallMinInFlight s.cfg.stallCeilingMs).silencePulls ∧
      (m.stallGated = true → m.latchedSince ≠ 0 ∨ m.silencePulled = true)) ∧
    (s.cfg.stallDeselect = false →
      m.latchedSince = 0 ∧ m.recoverySince = 0 ∧ m.silencePulled = false ∧ m.stallGated = false ∧
      m.pullMark = l.pullMark ∧ m.gateEvents = l.gateEvents ∧ m.silencePulls = l.silencePulls) := by
  change ((s.links.zip (selectIdx (s.links.map FLink.toSLink) s.lastSelected now s.cfg).1).map
    fun p => p.1.absorb p.2)[j]? = some m at hm
  rw [List.getElem?_map] at hm
  obtain ⟨⟨a, x⟩, hax, hmx⟩ := Option.map_eq_some_iff.1 hm
  obtain ⟨ha, hx⟩ := List.getElem?_zip_eq_some.1 hax
  rw [hl] at ha
  have hal : l = a := Option.some.inj ha
  subst hal
  subst hmx
  obtain ⟨f, hf, e⟩ := selectIdx_fst (s.links.map FLink.toSLink) s.lastSelected now s.cfg
  rw [e, List.getElem?_map] at hx
  obtain ⟨y, hy, hxy⟩ := Option.map_eq_some_iff.1 hx
  obtain ⟨q, t, hq⟩ := hf y
  rw [hq] at hxy
  subst hxy
  refine ⟨rfl, fun hon => ?_, fun hoff => ?_⟩
  · obtain ⟨any, hany⟩ := StallLatch.applyStallGate_on (s.links.map FLink.toSLink) now s.cfg hon
    rw [hany, List.getElem?_map, List.getElem?_map, hl] at hy
    simp only [Option.map_some, Option.some.injEq] at hy
    subst hy
    have hp := sel_setT s.cfg.connTimeoutMs l.toSLink now s.cfg.stallMinInFlight s.cfg.stallCeilingMs
    have hp' : sel { l.toSLink with connTimeoutMs := s.cfg.connTimeoutMs } now s.cfg.stallMinInFlight
        s.cfg.stallCeilingMs =
      setT s.cfg.connTimeoutMs (sel l.toSLink now s.cfg.stallMinInFlight s.cfg.stallCeilingMs) := hp
    dsimp only
    rw [hp']
    refine ⟨rfl, rfl, rfl, rfl, rfl, rfl, ?_⟩
    intro hg
    have hg' : (any && (latched (setT s.cfg.connTimeoutMs
        (sel l.toSLink now s.cfg.stallMinInFlight s.cfg.stallCeilingMs)) ||
      (setT s.cfg.connTimeoutMs
        (sel l.toSLink now s.cfg.stallMinInFlight s.cfg.stallCeilingMs)).silencePulled)) = true := hg
    simp only [Bool.and_eq_true, Bool.or_eq_true, latched, bne_iff_ne, ne_eq] at hg'
    exact hg'.2
  · rw [StallLatch.applyStallGate_off (s.links.map FLink.toSLink) now s.cfg hoff,
      List.getElem?_map, List.getElem?_map, hl] at hy
    simp only [Option.map_some, Option.some.injEq] at hy
    subst hy
    exact ⟨rfl, rfl, rfl, rfl, rfl, rfl, rfl⟩

/-- **`client`**, link `j`: `m` is the link as the pass left it (`l` itself if no pass ran). -/
theorem client_guard (s : Sys F) (pkt : Sys.Bytes) (now j : Nat) (l l' : FLink F)
    (hl : s.links[j]? = some l) (hl' : (handleSrtPacket s pkt now).1.links[j]? = some l') :
    ∃ m, KeepOrTorn m l' ∧
      ((passRan s pkt = false ∧ m = l) ∨
       (passRan s pkt = true ∧ (runSelect s now).1.links[j]? = some m)) := by
  obtain ⟨m, hm, hpass⟩ := passLinks_get s pkt now j l hl
  obtain ⟨x, hx, hfx⟩ := client_link s pkt now j m hm
  rw [hx] at hl'
  cases hl'
  exact ⟨m, clientFx_guard hfx, hpass⟩

/-! ## 6. Every event that is not a `client` event -/

/-- **Any event other than a `client` datagram**: the guard's seven fields of every link are unchanged,
or the link was torn down.  (One arm per constructor; the catch-all covers the configuration /
fault-injection events.) -/
theorem other_guard (s : Sys F) (e : Ev) (hne : ∀ now pkt, e ≠ .client now pkt) (hnr : e.isReload = false)
    (j : Nat) (l l' : FLink F)
    (hl : s.links[j]? = some l) (hl' : (step s e).1.links[j]? = some l') : GSame l l' ∨ Torn l l' := by
  cases e with
  | reload now addrs outs => cases hnr
  | client now pkt => exact absurd rfl (hne now pkt)
  | uplink now cid data =>
    cases uplink_guard s cid data now j l l' hl hl' with
    | keep h => exact .inl h.same
    | sack h _ _ _ => exact .inl h
    | echo h _ _ _ => exact .inl h
    | reg3 h _ _ => exact .inl h
    | torn h => exact .inr h
  | flush now => exact .inl (flush_guard s now j l l' hl hl').same
  | hk now => exact (hk_guard s now j l l' hl hl').elim (fun h => .inl h.same) .inr
  | _ => exact .inl (cfg_guard s _ rfl rfl j l l' hl hl').same

end Srtla.SelShell
