import Srtla.Lemmas.Forward
/-!
# The passes of the data path (C01): `send_stall_probes`, `flush_all_batches`,
`forward_via_connection`, `select_connection_idx` write-back
-/
namespace Srtla.Sys
open Srtla Srtla.Gen Srtla.Conn Srtla.Select Srtla.Rtt Srtla.Link Scalar

set_option linter.unusedSectionVars false

variable {F : Type} [Scalar F]
variable {fa : List (Nat × Nat)}

theorem LinkFx.congr_left {cause : Prop} {app : List QItem} {l0 l l' : FLink F} {b : List Bytes}
    (h : LinkFx cause app l0 l' b) (hq : l0.queue = l.queue) (hc : l0.core.connId = l.core.connId) :
    LinkFx cause app l l' b := by
  unfold LinkFx at h ⊢
  rw [hq, hc] at h
  exact h

/-! ## `send_stall_probes` -/

/-- `stall_probe_due` is consulted for link `i`: it is not the selected link, it is stall-gated and
connected. -/
def probeCalled (sel i : Nat) (l : FLink F) : Prop :=
  i ≠ sel ∧ l.stallGated = true ∧ l.core.connected = true

instance (sel i : Nat) (l : FLink F) : Decidable (probeCalled sel i l) := by
  unfold probeCalled; infer_instance

/-- What `send_stall_probes` appends to link `i`: one copy exactly when the counter is consulted and
fires (it stood at 99). -/
def probeApp (x : QItem) (sel i : Nat) (l : FLink F) : List QItem :=
  if probeCalled sel i l ∧ l.probeCounter + 1 ≥ 100 then [x] else []

def RProbe (fn0 : List Nat) (x : QItem) (sel : Nat) (i : Nat) (l l' : FLink F) (b : List Bytes) : Prop :=
  (¬ probeCalled sel i l → l' = l ∧ b = []) ∧
  (probeApp x sel i l = [] → l'.queue = l.queue ∧ b = []) ∧
  LinkFx (FailedSendReset fn0 l l') (probeApp x sel i l) l l' b ∧ ProbeFx (probeCalled sel i l) l l'

theorem stallProbesGo_par (pkt : Bytes) (seq : Option Nat) (now sel : Nat) (fn0 : List Nat) :
    ∀ (ls : List (FLink F)) (i : Nat) (fn : List Nat), (∀ y ∈ fn, y ∈ fn0) →
      Par (RProbe fn0 (pkt, seq, now) sel) i ls (stallProbesGo fa pkt seq now sel ls i fn).1
        (stallProbesGo fa pkt seq now sel ls i fn).2.1 ∧
      ∀ y ∈ (stallProbesGo fa pkt seq now sel ls i fn).2.2, y ∈ fn0 := by
  intro ls
  induction ls with
  | nil => intro i fn hfn; exact ⟨.nil _, hfn⟩
  | cons l rest ih =>
    intro i fn hfn
    unfold stallProbesGo
    by_cases hskip : (i = sel || !l.stallGated || !l.core.connected) = true
    · -- skipped: selected link, or not gated, or not connected
      rw [if_pos hskip]
      have hnc : ¬ probeCalled sel i l := by
        unfold probeCalled
        simp only [Bool.or_eq_true, decide_eq_true_eq, Bool.not_eq_true'] at hskip
        rintro ⟨h1, h2, h3⟩
        rcases hskip with (h | h) | h
        · exact h1 h
        · rw [h2] at h; cases h
        · rw [h3] at h; cases h
      obtain ⟨ih1, ih2⟩ := ih (i + 1) fn hfn
      refine ⟨?_, ih2⟩
      have hr : RProbe fn0 (pkt, seq, now) sel i l l [] := by
        refine ⟨fun _ => ⟨rfl, rfl⟩, fun _ => ⟨rfl, rfl⟩, ?_, ?_⟩
        · have : probeApp (pkt, seq, now) sel i l = [] := by
            unfold probeApp; rw [if_neg (fun h => hnc h.1)]
          rw [this]; exact LinkFx.refl _ l
        · unfold ProbeFx; rw [if_neg hnc]; exact Or.inl rfl
      exact Par.cons hr ih1
    · rw [if_neg hskip]
      have hc : probeCalled sel i l := by
        unfold probeCalled
        simp only [Bool.or_eq_true, decide_eq_true_eq, Bool.not_eq_true', not_or] at hskip
        refine ⟨hskip.1.1, ?_, ?_⟩
        · cases h : l.stallGated <;> simp_all
        · cases h : l.core.connected <;> simp_all
      obtain ⟨d1, d2, d3, d4, d5⟩ := stallProbeDue_spec l
      dsimp only
      by_cases hdue : l.probeCounter + 1 ≥ 100
      · -- the counter fires: a copy is queued
        have hd : l.stallProbeDue.2 = true := by rw [d1]; simpa using hdue
        simp only [hd, Bool.not_true, Bool.false_eq_true, if_false]
        have hq := queueThenFlush_fx (fa := fa) l.stallProbeDue.1 (pkt, seq, now) now fn fn0 hfn
        dsimp only at hq
        have happ : probeApp (pkt, seq, now) sel i l = [(pkt, seq, now)] := by
          unfold probeApp; rw [if_pos ⟨hc, hdue⟩]
        have hpc0 : l.stallProbeDue.1.probeCounter = 0 := by rw [d2, if_pos hdue]
        by_cases hflush : (l.stallProbeDue.1.queueDataPacket pkt seq now).2 = true
        · rw [if_pos hflush]
          obtain ⟨b, hb1, hb2, hb3, hb4⟩ := hq.2 hflush
          obtain ⟨ih1, ih2⟩ := ih (i + 1) _ hb4
          refine ⟨?_, ih2⟩
          rw [hb1, d4]
          refine Par.cons ⟨fun h => absurd hc h, (fun h => by rw [happ] at h; cases h), ?_, ?_⟩ ih1
          · rw [happ]
            exact (hb2.mono (fun f => ⟨by rw [← d4]; exact f.1, f.2⟩)).congr_left d3 (by rw [d4])
          · unfold ProbeFx; rw [if_pos hc, if_pos hdue]
            rcases hb3 with h | h
            · rw [h, hpc0]
            · exact h
        · rw [if_neg hflush]
          have hflush' : (l.stallProbeDue.1.queueDataPacket pkt seq now).2 = false := by
            simpa using hflush
          obtain ⟨hk1, hk2⟩ := hq.1 hflush'
          obtain ⟨ih1, ih2⟩ := ih (i + 1) fn hfn
          refine ⟨?_, ih2⟩
          have : Par (RProbe fn0 (pkt, seq, now) sel) i (l :: rest)
              ((l.stallProbeDue.1.queueDataPacket pkt seq now).1 ::
                (stallProbesGo fa pkt seq now sel rest (i + 1) fn).1)
              (([] : List Bytes).map (fun x => (l.core.connId, x)) ++
                (stallProbesGo fa pkt seq now sel rest (i + 1) fn).2.1) := by
            refine Par.cons ⟨fun h => absurd hc h, (fun h => by rw [happ] at h; cases h), ?_, ?_⟩ ih1
            · rw [happ]
              exact (hk1.mono (fun f => ⟨by rw [← d4]; exact f.1, f.2⟩)).congr_left d3 (by rw [d4])
            · unfold ProbeFx; rw [if_pos hc, if_pos hdue, hk2, hpc0]
          simpa using this
      · -- not due: only the counter advances
        have hd : l.stallProbeDue.2 = false := by rw [d1]; simpa using hdue
        simp only [hd, Bool.not_false, if_true]
        obtain ⟨ih1, ih2⟩ := ih (i + 1) fn hfn
        refine ⟨?_, ih2⟩
        have hr : RProbe fn0 (pkt, seq, now) sel i l l.stallProbeDue.1 [] := by
          refine ⟨fun h => absurd hc h, fun _ => ⟨d3, rfl⟩, ?_, ?_⟩
          · have : probeApp (pkt, seq, now) sel i l = [] := by
              unfold probeApp; rw [if_neg (fun h => hdue h.2)]
            rw [this]
            exact ⟨by rw [d4], Or.inl ⟨by simp [d3], rfl, Or.inl rfl⟩⟩
          · unfold ProbeFx; rw [if_pos hc, d2]
        exact Par.cons hr ih1

/-! ## `flush_all_batches` -/

/-- One link in a periodic flush: its whole queue goes on the wire in order, or — only if a send failure
was pending for its conn id — is discarded; the queue is empty afterwards either way. -/
def RFlush (fn0 : List Nat) (_i : Nat) (l l' : FLink F) (b : List Bytes) : Prop :=
  LinkFx (l.core.connId ∈ fn0) [] l l' b ∧ l'.queue = [] ∧ l'.probeCounter = l.probeCounter

theorem flushGo_par (now : Nat) (fn0 : List Nat) :
    ∀ (ls : List (FLink F)) (i : Nat) (fn : List Nat), (∀ y ∈ fn, y ∈ fn0) →
      Par (RFlush fn0) i ls (flushGo fa now ls fn).1 (flushGo fa now ls fn).2.1 ∧
      ∀ y ∈ (flushGo fa now ls fn).2.2, y ∈ fn0 := by
  intro ls
  induction ls with
  | nil => intro i fn hfn; exact ⟨.nil _, hfn⟩
  | cons l rest ih =>
    intro i fn hfn
    unfold flushGo
    by_cases hc : (l.needsBatchFlush now || !l.queue.isEmpty) = true
    · rw [if_pos hc]
      dsimp only
      obtain ⟨s1, s2, s3, s4, s5, s6, s7⟩ := sendConnectionBatch_spec l now fn
      have hsub := sendConnectionBatch_fn_subset (fa := fa) l now fn
      obtain ⟨ih1, ih2⟩ := ih (i + 1) (sendConnectionBatch fa l now fn).2.2.2 (fun y hy => hfn y (hsub y hy))
      refine ⟨?_, ih2⟩
      rcases s7 with ⟨w1, w2, w3⟩ | ⟨w1, w2, w3, w4, w5⟩
      · rw [w1]
        exact Par.cons ⟨⟨s2, Or.inr (Or.inl ⟨s1, by simp⟩)⟩, s1, s3⟩ ih1
      · rw [w1]
        exact Par.cons ⟨⟨s2, Or.inr (Or.inr ⟨s1, ⟨failPrefix fa l.core.connId (fn.count l.core.connId), by simp⟩, hfn _ w4⟩)⟩, s1, s3⟩ ih1
    · rw [if_neg hc]
      dsimp only
      have hq : l.queue = [] := by
        simp only [Bool.or_eq_true, Bool.not_eq_true', not_or] at hc
        have := hc.2
        cases hqq : l.queue with
        | nil => rfl
        | cons a t => rw [hqq] at this; simp at this
      obtain ⟨ih1, ih2⟩ := ih (i + 1) fn hfn
      refine ⟨?_, ih2⟩
      have : Par (RFlush fn0) i (l :: rest) (l :: (flushGo fa now rest fn).1)
          (([] : List Bytes).map (fun x => (l.core.connId, x)) ++ (flushGo fa now rest fn).2.1) :=
        Par.cons ⟨LinkFx.refl _ l, hq, rfl⟩ ih1
      simpa using this

/-! ## `setAt` -/

theorem setAt_length (ls : List (FLink F)) (i : Nat) (l : FLink F) : (setAt ls i l).length = ls.length := by
  simp [setAt]

theorem setAt_getElem? (ls : List (FLink F)) (i j : Nat) (l : FLink F) :
    (setAt ls i l)[j]? = if j = i then ls[j]?.map (fun _ => l) else ls[j]? := by
  unfold setAt
  rw [List.getElem?_mapIdx]
  cases h : ls[j]? with
  | none => simp
  | some x => by_cases hj : j = i <;> simp [hj]

theorem setAt_ids (ls : List (FLink F)) (i : Nat) (l l0 : FLink F) (h0 : ls[i]? = some l0)
    (hc : l.core.connId = l0.core.connId) : ids (setAt ls i l) = ids ls := by
  apply List.ext_getElem?
  intro j
  simp only [ids, List.getElem?_map, setAt_getElem?]
  by_cases hj : j = i
  · subst hj; simp [h0, hc]
  · simp [hj]

/-! ## `forward_via_connection` -/

/-- `forward_via_connection` on an existing link `sel`: exactly `(pkt, seq, now)` is appended to that
link's queue (and the queue flushed when the regime threshold is reached); no other link is touched. -/
theorem forwardVia_spec (s : Sys F) (sel : Nat) (pkt : Bytes) (seq : Option Nat) (now : Nat)
    (l : FLink F) (hl : s.links[sel]? = some l) :
    ∃ l' b, (forwardVia s sel pkt seq now).1.links = setAt s.links sel l' ∧
      (forwardVia s sel pkt seq now).2.wire = b.map (fun y => (l.core.connId, y)) ∧
      LinkFx (FailedSendReset s.failNext l l') [(pkt, seq, now)] l l' b ∧
      (l'.probeCounter = l.probeCounter ∨ l'.probeCounter = 0) ∧
      (∀ y ∈ (forwardVia s sel pkt seq now).1.failNext, y ∈ s.failNext) ∧
      (forwardVia s sel pkt seq now).1.lastSelected = some sel ∧
      (forwardVia s sel pkt seq now).1.reg = s.reg ∧ (forwardVia s sel pkt seq now).1.cfg = s.cfg ∧
      (forwardVia s sel pkt seq now).2.client = [] := by
  unfold forwardVia
  rw [hl]
  dsimp only
  have hq := queueThenFlush_fx (fa := s.failAfter) l (pkt, seq, now) now s.failNext s.failNext (fun _ h => h)
  dsimp only at hq
  by_cases hflush : (l.queueDataPacket pkt seq now).2 = true
  · rw [if_pos hflush]
    obtain ⟨b, hb1, hb2, hb3, hb4⟩ := hq.2 hflush
    exact ⟨_, b, rfl, hb1, hb2, hb3, hb4, rfl, rfl, rfl, rfl⟩
  · rw [if_neg hflush]
    have hflush' : (l.queueDataPacket pkt seq now).2 = false := by simpa using hflush
    obtain ⟨hk1, hk2⟩ := hq.1 hflush'
    exact ⟨_, [], rfl, rfl, hk1, Or.inl hk2, fun _ h => h, rfl, rfl, rfl, rfl⟩

theorem forwardVia_none (s : Sys F) (sel : Nat) (pkt : Bytes) (seq : Option Nat) (now : Nat)
    (hl : s.links[sel]? = none) : forwardVia s sel pkt seq now = (s, {}) := by
  unfold forwardVia; rw [hl]

/-! ## `select_connection_idx` write-back -/

theorem runSelect_links (s : Sys F) (now : Nat) :
    (runSelect s now).1.links =
      (s.links.zip (selectIdx (s.links.map FLink.toSLink) s.lastSelected now s.cfg).1).map
        fun p => p.1.absorb p.2 := rfl

theorem runSelect_snd (s : Sys F) (now : Nat) :
    (runSelect s now).2 = (selectIdx (s.links.map FLink.toSLink) s.lastSelected now s.cfg).2 := rfl

theorem runSelect_other (s : Sys F) (now : Nat) :
    (runSelect s now).1.reg = s.reg ∧ (runSelect s now).1.failNext = s.failNext ∧
    (runSelect s now).1.lastSelected = s.lastSelected ∧ (runSelect s now).1.cfg = s.cfg ∧
    (runSelect s now).1.critDeadline = s.critDeadline := ⟨rfl, rfl, rfl, rfl, rfl⟩

theorem runSelect_length (s : Sys F) (now : Nat) : (runSelect s now).1.links.length = s.links.length := by
  rw [runSelect_links]
  have := (Props.C12.C12_frame (s.links.map FLink.toSLink) s.lastSelected now s.cfg).1
  simp only [List.length_map] at this
  simp [this]

/-- The selection pass writes back guard-private fields and the quality cache only. -/
theorem runSelect_getElem? (s : Sys F) (now : Nat) (i : Nat) (l : FLink F) (hl : s.links[i]? = some l) :
    ∃ sl, (runSelect s now).1.links[i]? = some (l.absorb sl) := by
  have hlen := (Props.C12.C12_frame (s.links.map FLink.toSLink) s.lastSelected now s.cfg).1
  simp only [List.length_map] at hlen
  have hi : i < s.links.length := (List.getElem?_eq_some_iff.1 hl).1
  have hi2 : i < (selectIdx (s.links.map FLink.toSLink) s.lastSelected now s.cfg).1.length := by omega
  refine ⟨(selectIdx (s.links.map FLink.toSLink) s.lastSelected now s.cfg).1[i], ?_⟩
  have hz : (s.links.zip (selectIdx (s.links.map FLink.toSLink) s.lastSelected now s.cfg).1)[i]? =
      some (l, (selectIdx (s.links.map FLink.toSLink) s.lastSelected now s.cfg).1[i]) :=
    List.getElem?_zip_eq_some.2 ⟨hl, List.getElem?_eq_getElem hi2⟩
  rw [runSelect_links, List.getElem?_map, hz]
  rfl

@[simp] theorem absorb_queue (l : FLink F) (sl : SLink F) : (l.absorb sl).queue = l.queue := rfl
@[simp] theorem absorb_core (l : FLink F) (sl : SLink F) : (l.absorb sl).core = l.core := rfl
@[simp] theorem absorb_probeCounter (l : FLink F) (sl : SLink F) : (l.absorb sl).probeCounter = l.probeCounter := rfl
@[simp] theorem absorb_regime (l : FLink F) (sl : SLink F) : (l.absorb sl).regime = l.regime := rfl

theorem runSelect_ids (s : Sys F) (now : Nat) : ids (runSelect s now).1.links = ids s.links := by
  apply List.ext_getElem?
  intro i
  simp only [ids, List.getElem?_map]
  cases h : s.links[i]? with
  | none =>
    have : (runSelect s now).1.links[i]? = none := by
      rw [List.getElem?_eq_none_iff, runSelect_length]
      exact List.getElem?_eq_none_iff.1 h
    rw [this]
  | some l =>
    obtain ⟨sl, h2⟩ := runSelect_getElem? s now i l h
    rw [h2]; rfl

end Srtla.Sys
