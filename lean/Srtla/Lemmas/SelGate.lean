import Srtla.Model.Select
/-!
# Stall-guard pass: structure, preservation, "spares a usable link", idempotence at equal time

Core Lean only; everything holds for an arbitrary scalar type `F` (the guard never reads a float).
Used by C03 (no blackout) and C11 (idempotence / stability of `selectIdx`).
(Own namespace: `Lemmas/SelectFrame.lean` of the C12/C04 proofs has similar, independently named
decompositions in `Srtla.Select`.)
-/
namespace Srtla.SelLemmas
open Srtla.Gen Srtla.Conn Srtla Srtla.Select

variable {F : Type}

/-! ## Generic list helpers -/

theorem map_eq_self {α : Type} {f : α → α} {l : List α} : l.map f = l ↔ ∀ a ∈ l, f a = a := by
  induction l with
  | nil => simp
  | cons a t ih => simp [ih]

/-! ## Decomposition of `applyStallGate` -/

/-- Per-link part of the guard-on pass: timeout stamp, silence pull, latch. -/
def gstep (now : Nat) (cfg : Cfg) (c : SLink F) : SLink F :=
  updateStallLatch
    (updateSilencePull { c with connTimeoutMs := cfg.connTimeoutMs } now cfg.stallMinInFlight cfg.stallCeilingMs)
    now cfg.stallMinInFlight cfg.stallCeilingMs

/-- Per-link guard-off pass. -/
def goff (cfg : Cfg) (c : SLink F) : SLink F :=
  { c with connTimeoutMs := cfg.connTimeoutMs, stallGated := false, silencePulled := false,
           latchedSince := 0, recoverySince := 0 }

/-- `any_healthy`'s predicate. -/
def healthy (now : Nat) (c : SLink F) : Bool :=
  c.connected && !isTimedOut c now && schedulable c && !latched c && !c.silencePulled

def setG (h : Bool) (c : SLink F) : SLink F :=
  { c with stallGated := h && (latched c || c.silencePulled) }

theorem gate_off (ls : List (SLink F)) (now : Nat) (cfg : Cfg) (h : cfg.stallDeselect = false) :
    applyStallGate ls now cfg = ls.map (goff cfg) := by
  unfold applyStallGate
  simp only [h, Bool.not_false, if_true, List.map_map]
  rfl

theorem gate_on (ls : List (SLink F)) (now : Nat) (cfg : Cfg) (h : cfg.stallDeselect = true) :
    applyStallGate ls now cfg =
      (ls.map (gstep now cfg)).map (setG ((ls.map (gstep now cfg)).any (healthy now))) := by
  unfold applyStallGate
  simp only [h, Bool.not_true, List.map_map]
  rfl

/-! ## What the guard does not touch -/

/-- A link with the guard-private fields (and the stamped timeout) erased. -/
def core (c : SLink F) : SLink F :=
  { c with connTimeoutMs := 0, stallGated := false, latchedSince := 0, recoverySince := 0,
           gateEvents := 0, silencePulled := false, pullMark := none, silencePulls := 0 }

theorem core_updateSilencePull (c : SLink F) (now : Nat) (m : Int) (ce : Nat) :
    core (updateSilencePull c now m ce) = core c := by
  unfold updateSilencePull
  dsimp only
  repeat' split
  all_goals rfl

theorem core_updateStallLatch (c : SLink F) (now : Nat) (m : Int) (ce : Nat) :
    core (updateStallLatch c now m ce) = core c := by
  unfold updateStallLatch
  dsimp only
  repeat' split
  all_goals rfl

theorem timeout_updateSilencePull (c : SLink F) (now : Nat) (m : Int) (ce : Nat) :
    (updateSilencePull c now m ce).connTimeoutMs = c.connTimeoutMs := by
  unfold updateSilencePull
  dsimp only
  repeat' split
  all_goals rfl

theorem timeout_updateStallLatch (c : SLink F) (now : Nat) (m : Int) (ce : Nat) :
    (updateStallLatch c now m ce).connTimeoutMs = c.connTimeoutMs := by
  unfold updateStallLatch
  dsimp only
  repeat' split
  all_goals rfl

theorem core_gstep (now : Nat) (cfg : Cfg) (c : SLink F) : core (gstep now cfg c) = core c := by
  unfold gstep
  rw [core_updateStallLatch, core_updateSilencePull]
  rfl

theorem timeout_gstep (now : Nat) (cfg : Cfg) (c : SLink F) :
    (gstep now cfg c).connTimeoutMs = cfg.connTimeoutMs := by
  unfold gstep
  rw [timeout_updateStallLatch, timeout_updateSilencePull]

theorem core_goff (cfg : Cfg) (c : SLink F) : core (goff cfg c) = core c := rfl
theorem core_setG (h : Bool) (c : SLink F) : core (setG h c) = core c := rfl

/-- Every link after the pass is a link before the pass with only guard-private fields (and the
timeout stamp) changed. -/
theorem gate_mem_core {ls : List (SLink F)} {now : Nat} {cfg : Cfg} {c' : SLink F}
    (h : c' ∈ applyStallGate ls now cfg) :
    ∃ c ∈ ls, core c' = core c ∧ c'.connTimeoutMs = cfg.connTimeoutMs := by
  cases hd : cfg.stallDeselect
  · rw [gate_off ls now cfg hd] at h
    obtain ⟨c, hc, rfl⟩ := List.mem_map.1 h
    exact ⟨c, hc, rfl, rfl⟩
  · rw [gate_on ls now cfg hd] at h
    obtain ⟨x, hx, rfl⟩ := List.mem_map.1 h
    obtain ⟨c, hc, rfl⟩ := List.mem_map.1 hx
    exact ⟨c, hc, by rw [core_setG, core_gstep], timeout_gstep now cfg c⟩

/-- Liveness predicates only read `core` and the timeout. -/
theorem isTimedOut_of_core {a b : SLink F} (h : core a = core b) (ht : a.connTimeoutMs = b.connTimeoutMs)
    (now : Nat) : isTimedOut a now = isTimedOut b now := by
  have h1 := congrArg SLink.connected h
  have h2 := congrArg SLink.established h
  have h3 := congrArg SLink.graceDeadline h
  have h4 := congrArg SLink.lastReceived h
  simp only [core] at h1 h2 h3 h4
  unfold isTimedOut
  rw [h1, h2, h3, h4, ht]

theorem schedulable_of_core {a b : SLink F} (h : core a = core b) : schedulable a = schedulable b := by
  have h1 := congrArg SLink.phase h
  simp only [core] at h1
  unfold schedulable
  rw [h1]

theorem connected_of_core {a b : SLink F} (h : core a = core b) : a.connected = b.connected := by
  have h1 := congrArg SLink.connected h
  simpa only [core] using h1

/-! ## The guard never gates the last usable link -/

/-- Usable in the sense of C03 (w.r.t. the timeout stored in the link). -/
def usable (now : Nat) (c : SLink F) : Bool :=
  c.connected && schedulable c && !isTimedOut c now

theorem healthy_usable {now : Nat} {c : SLink F} (h : healthy now c = true) : usable now c = true := by
  unfold healthy at h; unfold usable
  simp only [Bool.and_eq_true] at h ⊢
  exact ⟨⟨h.1.1.1.1, h.1.1.2⟩, h.1.1.1.2⟩

theorem usable_setG (now : Nat) (h : Bool) (c : SLink F) : usable now (setG h c) = usable now c := rfl
theorem healthy_setG (now : Nat) (h : Bool) (c : SLink F) : healthy now (setG h c) = healthy now c := rfl

theorem usable_gstep (now : Nat) (cfg : Cfg) (c : SLink F) :
    usable now (gstep now cfg c) = usable now { c with connTimeoutMs := cfg.connTimeoutMs } := by
  have hc : core (gstep now cfg c) = core ({ c with connTimeoutMs := cfg.connTimeoutMs } : SLink F) := by
    rw [core_gstep]; rfl
  unfold usable
  rw [connected_of_core hc, schedulable_of_core hc,
    isTimedOut_of_core hc (by rw [timeout_gstep]) now]

theorem usable_of_core {a b : SLink F} (h : core a = core b) (ht : a.connTimeoutMs = b.connTimeoutMs)
    (now : Nat) : usable now a = usable now b := by
  unfold usable
  rw [connected_of_core h, schedulable_of_core h, isTimedOut_of_core h ht now]

/-- A usable link after the pass comes from a link that is usable w.r.t. the configured timeout. -/
theorem gate_usable_post (ls : List (SLink F)) (now : Nat) (cfg : Cfg)
    (h : ∃ c' ∈ applyStallGate ls now cfg, usable now c' = true) :
    ∃ c ∈ ls, usable now { c with connTimeoutMs := cfg.connTimeoutMs } = true := by
  obtain ⟨c', hc', hu⟩ := h
  obtain ⟨c, hc, hcore, ht⟩ := gate_mem_core hc'
  refine ⟨c, hc, ?_⟩
  rw [← hu]
  exact (usable_of_core (a := c') (b := { c with connTimeoutMs := cfg.connTimeoutMs }) hcore ht now).symm

/-- If some link is usable w.r.t. the configured timeout, then after the pass some link is usable
and not stall-gated. -/
theorem gate_spares_usable (ls : List (SLink F)) (now : Nat) (cfg : Cfg)
    (h : ∃ c ∈ ls, usable now { c with connTimeoutMs := cfg.connTimeoutMs } = true) :
    ∃ c' ∈ applyStallGate ls now cfg, usable now c' = true ∧ c'.stallGated = false := by
  obtain ⟨c, hc, hu⟩ := h
  cases hd : cfg.stallDeselect
  · rw [gate_off ls now cfg hd]
    exact ⟨goff cfg c, List.mem_map.2 ⟨c, hc, rfl⟩, hu, rfl⟩
  · rw [gate_on ls now cfg hd]
    cases hh : (ls.map (gstep now cfg)).any (healthy now)
    · refine ⟨setG false (gstep now cfg c), List.mem_map.2 ⟨_, List.mem_map.2 ⟨c, hc, rfl⟩, rfl⟩, ?_, ?_⟩
      · rw [usable_setG, usable_gstep]; exact hu
      · simp [setG]
    · obtain ⟨y, hy, hhy⟩ := List.any_eq_true.1 hh
      refine ⟨setG true y, List.mem_map.2 ⟨y, hy, rfl⟩, ?_, ?_⟩
      · rw [usable_setG]; exact healthy_usable hhy
      · unfold healthy at hhy
        simp only [Bool.and_eq_true, Bool.not_eq_true'] at hhy
        simp [setG, hhy.1.2, hhy.2]

/-- A link is gated only next to a healthy, un-gated alternative. -/
theorem gated_has_alternative (ls : List (SLink F)) (now : Nat) (cfg : Cfg)
    (h : ∃ c' ∈ applyStallGate ls now cfg, c'.stallGated = true) :
    ∃ a ∈ applyStallGate ls now cfg, healthy now a = true ∧ a.stallGated = false := by
  obtain ⟨c', hc', hg⟩ := h
  cases hd : cfg.stallDeselect
  · rw [gate_off ls now cfg hd] at hc'
    obtain ⟨c, _, rfl⟩ := List.mem_map.1 hc'
    simp [goff] at hg
  · rw [gate_on ls now cfg hd] at hc' ⊢
    obtain ⟨x, _, rfl⟩ := List.mem_map.1 hc'
    cases hh : (ls.map (gstep now cfg)).any (healthy now)
    · rw [hh] at hg; simp [setG] at hg
    · obtain ⟨y, hy, hhy⟩ := List.any_eq_true.1 hh
      refine ⟨setG true y, List.mem_map.2 ⟨y, hy, rfl⟩, by rw [healthy_setG]; exact hhy, ?_⟩
      unfold healthy at hhy
      simp only [Bool.and_eq_true, Bool.not_eq_true'] at hhy
      simp [setG, hhy.1.2, hhy.2]

/-! ## Commutation with changes of the quality cache / the gated flag -/

/-- Overwrite the fields the guard step neither reads nor writes. -/
def setQG (q : F) (t : Nat) (b : Bool) (c : SLink F) : SLink F :=
  { c with qualMult := q, qualAt := t, stallGated := b }

theorem updateSilencePull_setQG (q : F) (t : Nat) (b : Bool) (c : SLink F) (now : Nat) (m : Int) (ce : Nat) :
    updateSilencePull (setQG q t b c) now m ce = setQG q t b (updateSilencePull c now m ce) := by
  have h1 : brieflySilent (setQG q t b c) now m ce = brieflySilent c now m ce := rfl
  have h2 : pullWindow (setQG q t b c) ce = pullWindow c ce := rfl
  unfold updateSilencePull
  simp only [h1, h2]
  simp only [apply_ite (setQG q t b)]
  rfl

theorem updateStallLatch_setQG (q : F) (t : Nat) (b : Bool) (c : SLink F) (now : Nat) (m : Int) (ce : Nat) :
    updateStallLatch (setQG q t b c) now m ce = setQG q t b (updateStallLatch c now m ce) := by
  have h1 : isStalled (setQG q t b c) now m ce = isStalled c now m ce := rfl
  have h2 : effStale (setQG q t b c) ce = effStale c ce := rfl
  unfold updateStallLatch
  simp only [h1, h2]
  simp only [apply_ite (setQG q t b)]
  rfl

theorem gstep_setQG (q : F) (t : Nat) (b : Bool) (now : Nat) (cfg : Cfg) (c : SLink F) :
    gstep now cfg (setQG q t b c) = setQG q t b (gstep now cfg c) := by
  unfold gstep
  rw [← updateStallLatch_setQG, ← updateSilencePull_setQG]
  rfl

theorem healthy_setQG (q : F) (t : Nat) (b : Bool) (now : Nat) (c : SLink F) :
    healthy now (setQG q t b c) = healthy now c := rfl

/-! ## Idempotence of the per-link step at equal time -/

theorem updateSilencePull_idem (c : SLink F) (now : Nat) (m : Int) (ce : Nat) :
    updateSilencePull (updateSilencePull c now m ce) now m ce = updateSilencePull c now m ce := by
  unfold updateSilencePull brieflySilent pullWindow effStale
  grind

/-- The latch-engage condition. -/
def engage (c : SLink F) (now : Nat) (m : Int) (ce : Nat) : Bool :=
  isStalled c now m ce ||
    (c.silencePulled && (decide (c.proofMs ≠ 0) && decide (now - c.proofMs ≥ effStale c ce)))

def proofFresh (c : SLink F) (now : Nat) (ce : Nat) : Bool :=
  decide (c.proofMs ≠ 0) && decide (now - c.proofMs < effStale c ce)

theorem updateStallLatch_eq (c : SLink F) (now : Nat) (m : Int) (ce : Nat) :
    updateStallLatch c now m ce =
      if engage c now m ce then
        if c.latchedSince == 0 then
          { c with latchedSince := now, gateEvents := c.gateEvents + 1, recoverySince := 0 }
        else { c with recoverySince := 0 }
      else if c.latchedSince == 0 then c
      else if !proofFresh c now ce then { c with recoverySince := 0 }
      else if now - (if c.recoverySince == 0 then now else c.recoverySince) ≥
          effStale c ce * Cfg.STALL_REJOIN_DWELL_MULT then
        { c with latchedSince := 0, recoverySince := 0 }
      else { c with recoverySince := if c.recoverySince == 0 then now else c.recoverySince } := rfl

theorem updateStallLatch_idem (c : SLink F) (now : Nat) (m : Int) (ce : Nat) (h : 0 < now) :
    updateStallLatch (updateStallLatch c now m ce) now m ce = updateStallLatch c now m ce := by
  have e1 : ∀ (a b g : Nat), engage ({ c with latchedSince := a, gateEvents := g, recoverySince := b } : SLink F) now m ce
      = engage c now m ce := fun _ _ _ => rfl
  have e2 : ∀ (b : Nat), engage ({ c with recoverySince := b } : SLink F) now m ce = engage c now m ce := fun _ => rfl
  have e3 : ∀ (a b : Nat), engage ({ c with latchedSince := a, recoverySince := b } : SLink F) now m ce
      = engage c now m ce := fun _ _ => rfl
  have p2 : ∀ (b : Nat), proofFresh ({ c with recoverySince := b } : SLink F) now ce = proofFresh c now ce := fun _ => rfl
  have s2 : ∀ (b : Nat), effStale ({ c with recoverySince := b } : SLink F) ce = effStale c ce := fun _ => rfl
  rw [updateStallLatch_eq c]
  by_cases he : engage c now m ce = true
  · by_cases hl : c.latchedSince = 0
    · simp only [he, hl, if_true, beq_self_eq_true]
      rw [updateStallLatch_eq]
      have hn : now ≠ 0 := by omega
      simp [e1, he, hn]
    · simp only [he, if_true, beq_iff_eq, hl, if_false]
      rw [updateStallLatch_eq]
      simp [e2, he, hl]
  · simp only [he]
    by_cases hl : c.latchedSince = 0
    · simp only [hl, beq_self_eq_true, if_true, Bool.false_eq_true, if_false]
      rw [updateStallLatch_eq]
      simp [he, hl]
    · by_cases hp : proofFresh c now ce = true
      · simp only [beq_iff_eq, hl, if_false, hp, Bool.not_true, Bool.false_eq_true]
        have hrs : (if c.recoverySince = 0 then now else c.recoverySince) ≠ 0 := by split <;> omega
        generalize (if c.recoverySince = 0 then now else c.recoverySince) = rs at hrs ⊢
        by_cases hd : now - rs ≥ effStale c ce * Cfg.STALL_REJOIN_DWELL_MULT
        · simp only [hd, if_true]
          rw [updateStallLatch_eq]
          simp [e3, he]
        · simp only [hd, if_false]
          rw [updateStallLatch_eq]
          simp only [e2, he, Bool.false_eq_true, if_false, beq_iff_eq, hl, p2, hp, Bool.not_true, s2,
            hrs, hd]
      · simp only [beq_iff_eq, hl, if_false, hp, Bool.not_false, if_true, Bool.false_eq_true]
        rw [updateStallLatch_eq]
        simp [e2, he, hl, p2, hp]

/-- Overwrite the latch fields (which `updateSilencePull` neither reads nor writes). -/
def setL (a b g : Nat) (c : SLink F) : SLink F :=
  { c with latchedSince := a, recoverySince := b, gateEvents := g }

theorem updateSilencePull_setL (a b g : Nat) (c : SLink F) (now : Nat) (m : Int) (ce : Nat) :
    updateSilencePull (setL a b g c) now m ce = setL a b g (updateSilencePull c now m ce) := by
  have h1 : brieflySilent (setL a b g c) now m ce = brieflySilent c now m ce := rfl
  have h2 : pullWindow (setL a b g c) ce = pullWindow c ce := rfl
  unfold updateSilencePull
  simp only [h1, h2]
  simp only [apply_ite (setL a b g)]
  rfl

theorem updateStallLatch_is_setL (c : SLink F) (now : Nat) (m : Int) (ce : Nat) :
    updateStallLatch c now m ce =
      setL (updateStallLatch c now m ce).latchedSince (updateStallLatch c now m ce).recoverySince
        (updateStallLatch c now m ce).gateEvents c := by
  unfold updateStallLatch
  dsimp only
  repeat' split
  all_goals rfl

theorem stamp_self {c : SLink F} {T : Nat} (h : c.connTimeoutMs = T) :
    ({ c with connTimeoutMs := T } : SLink F) = c := by
  subst h; rfl

theorem gstep_idem (now : Nat) (cfg : Cfg) (c : SLink F) (h : 0 < now) :
    gstep now cfg (gstep now cfg c) = gstep now cfg c := by
  have hs := stamp_self (timeout_gstep now cfg c)
  have key : ∀ (y : SLink F) (m : Int) (ce : Nat), updateSilencePull y now m ce = y →
      updateStallLatch (updateSilencePull (updateStallLatch y now m ce) now m ce) now m ce =
        updateStallLatch y now m ce := by
    intro y m ce hy
    have hL := updateStallLatch_is_setL y now m ce
    generalize (updateStallLatch y now m ce).latchedSince = a at hL
    generalize (updateStallLatch y now m ce).recoverySince = b at hL
    generalize (updateStallLatch y now m ce).gateEvents = g at hL
    rw [hL, updateSilencePull_setL, hy, ← hL]
    exact updateStallLatch_idem y now m ce h
  calc gstep now cfg (gstep now cfg c)
      = updateStallLatch (updateSilencePull ({ gstep now cfg c with connTimeoutMs := cfg.connTimeoutMs } : SLink F)
          now cfg.stallMinInFlight cfg.stallCeilingMs) now cfg.stallMinInFlight cfg.stallCeilingMs := rfl
    _ = updateStallLatch (updateSilencePull (gstep now cfg c)
          now cfg.stallMinInFlight cfg.stallCeilingMs) now cfg.stallMinInFlight cfg.stallCeilingMs := by rw [hs]
    _ = gstep now cfg c := key _ _ _ (updateSilencePull_idem _ _ _ _)

/-! ## The pass is idempotent at equal time, and stays a fixed point when only quality caches change -/

theorem setG_as_setQG (h : Bool) (x : SLink F) :
    setG h x = setQG x.qualMult x.qualAt (h && (latched x || x.silencePulled)) x := rfl

theorem gate_idem (ls : List (SLink F)) (now : Nat) (cfg : Cfg) (h : 0 < now) :
    applyStallGate (applyStallGate ls now cfg) now cfg = applyStallGate ls now cfg := by
  cases hd : cfg.stallDeselect
  · rw [gate_off _ now cfg hd, gate_off _ now cfg hd, List.map_map]
    exact List.map_congr_left fun c _ => rfl
  · rw [gate_on ls now cfg hd]
    generalize hh : (ls.map (gstep now cfg)).any (healthy now) = a
    rw [gate_on _ now cfg hd]
    have h1 : ((ls.map (gstep now cfg)).map (setG a)).map (gstep now cfg) =
        (ls.map (gstep now cfg)).map (setG a) := by
      rw [List.map_map, List.map_map, List.map_map]
      refine List.map_congr_left fun c _ => ?_
      simp only [Function.comp]
      rw [setG_as_setQG, gstep_setQG, gstep_idem now cfg c h]
    rw [h1]
    have h2 : ((ls.map (gstep now cfg)).map (setG a)).any (healthy now) = a := by
      rw [← hh, List.any_map]
      rfl
    rw [h2, List.map_map]
    exact List.map_congr_left fun c _ => rfl

/-- `f` only rewrites the quality cache of a link. -/
def QOnly (f : SLink F → SLink F) : Prop := ∀ c, ∃ q t, f c = setQG q t c.stallGated c

theorem gate_fixed_map (ls : List (SLink F)) (now : Nat) (cfg : Cfg) (f : SLink F → SLink F)
    (hf : QOnly f) (hfix : applyStallGate ls now cfg = ls) :
    applyStallGate (ls.map f) now cfg = ls.map f := by
  cases hd : cfg.stallDeselect
  · rw [gate_off _ now cfg hd] at hfix ⊢
    rw [List.map_map]
    refine List.map_congr_left fun c hc => ?_
    have hc' := map_eq_self.1 hfix c hc
    obtain ⟨q, t, hq⟩ := hf c
    have hg : c.stallGated = false := by rw [← hc']; rfl
    calc goff cfg (f c) = setQG q t false (goff cfg c) := by rw [hq]; rfl
      _ = setQG q t c.stallGated c := by rw [hc', hg]
      _ = f c := hq.symm
  · rw [gate_on _ now cfg hd] at hfix ⊢
    have hany : ((ls.map f).map (gstep now cfg)).any (healthy now) =
        (ls.map (gstep now cfg)).any (healthy now) := by
      rw [List.map_map, List.any_map, List.any_map]
      congr 1
      funext c
      obtain ⟨q, t, hq⟩ := hf c
      simp only [Function.comp]
      rw [hq, gstep_setQG, healthy_setQG]
    rw [hany]
    generalize (ls.map (gstep now cfg)).any (healthy now) = a at hfix ⊢
    rw [List.map_map] at hfix
    rw [List.map_map, List.map_map]
    refine List.map_congr_left fun c hc => ?_
    have hc' := map_eq_self.1 hfix c hc
    simp only [Function.comp] at hc' ⊢
    obtain ⟨q, t, hq⟩ := hf c
    calc setG a (gstep now cfg (f c)) = setG a (setQG q t c.stallGated (gstep now cfg c)) := by
          rw [hq, gstep_setQG]
      _ = setQG q t (setG a (gstep now cfg c)).stallGated (setG a (gstep now cfg c)) := rfl
      _ = setQG q t c.stallGated c := by rw [hc']
      _ = f c := hq.symm

/-! ## Classic selector: an eligible link with a non-negative score is enough -/

theorem classicGo_some (ls : List (SLink F)) : ∀ (i now : Nat) (b : Nat) (s : Int),
    classicGo ls i now (some b) s ≠ none := by
  induction ls with
  | nil => intro i now b s; simp [classicGo]
  | cons c rest ih =>
    intro i now b s
    unfold classicGo
    split
    · exact ih _ _ _ _
    · dsimp only
      split
      · exact ih _ _ _ _
      · exact ih _ _ _ _

theorem classicGo_picks (ls : List (SLink F)) : ∀ (i now : Nat),
    (∃ c ∈ ls, isTimedOut c now = false ∧ schedulable c = true ∧ c.stallGated = false ∧ 0 ≤ score c) →
    classicGo ls i now none (-1) ≠ none := by
  induction ls with
  | nil => intro i now h; obtain ⟨c, hc, -⟩ := h; cases hc
  | cons c rest ih =>
    intro i now h
    unfold classicGo
    split
    · rename_i hskip
      obtain ⟨d, hd, h1, h2, h3, h4⟩ := h
      rcases List.mem_cons.1 hd with rfl | hd
      · simp [h1, h2, h3] at hskip
      · exact ih _ _ ⟨d, hd, h1, h2, h3, h4⟩
    · dsimp only
      split
      · exact classicGo_some _ _ _ _ _
      · rename_i hle
        obtain ⟨d, hd, h1, h2, h3, h4⟩ := h
        rcases List.mem_cons.1 hd with rfl | hd
        · omega
        · exact ih _ _ ⟨d, hd, h1, h2, h3, h4⟩

end Srtla.SelLemmas

/-! ## Round 2 (C11): the gate keeps every link in place and does not touch what the in-flight cap reads -/
namespace Srtla.SelLemmas
open Srtla.Gen Srtla.Conn Srtla Srtla.Select

variable {F : Type}

/-- Index-wise version of `gate_mem_core`. -/
theorem gate_getElem?_core {ls : List (SLink F)} {now : Nat} {cfg : Cfg} {i : Nat} {c' : SLink F}
    (h : (applyStallGate ls now cfg)[i]? = some c') :
    ∃ c, ls[i]? = some c ∧ core c' = core c ∧ c'.connTimeoutMs = cfg.connTimeoutMs := by
  cases hd : cfg.stallDeselect
  · rw [gate_off ls now cfg hd, List.getElem?_map] at h
    obtain ⟨c, hc, rfl⟩ := Option.map_eq_some_iff.1 h
    exact ⟨c, hc, rfl, rfl⟩
  · rw [gate_on ls now cfg hd, List.map_map, List.getElem?_map] at h
    obtain ⟨c, hc, rfl⟩ := Option.map_eq_some_iff.1 h
    exact ⟨c, hc, by simp only [Function.comp_apply]; rw [core_setG, core_gstep],
      by simp only [Function.comp_apply]; exact timeout_gstep now cfg c⟩

theorem capExceeded_of_core [Scalar F] {a b : SLink F} (h : core a = core b) :
    capExceeded a = capExceeded b := by
  have h1 := congrArg SLink.ccTarget h
  have h2 := congrArg SLink.rttMin h
  have h3 := congrArg SLink.inFlight h
  simp only [core] at h1 h2 h3
  unfold capExceeded
  rw [h1, h2, h3]

end Srtla.SelLemmas
