import Srtla.Lemmas.ForwardClient
import Srtla.Lemmas.RunLevelC04
import Srtla.Lemmas.SysDir
/-!
# Every wire output names a PRESENT link (audit 5, C1)

`Out.wire` is a list of `(conn id, bytes)`.  The by-conn-id accounting of C01 (`Ghost.wireLogId`) reads, for a conn id
`c`, only the output of events that start from a state in which `c` names a link, and drops the rest BY DEFINITION
(`if c ∈ ids s.links then … else []`).  This file proves the guard redundant: NO event of the shell puts a datagram
on the socket of a conn id that no link of the state the event starts from carries - so a flush that sent queued
datagrams on the socket of a removed id is excluded by a theorem, not by the definition of the log.

* `step_wire_ids`: one event, every arm (client: `forward_via_connection` + `send_stall_probes`; flush; hk;
  uplink; the rest - reload included - send nothing);
* `run_wire_ids`: lifted to runs (output `k` of the run names links of the state after the first `k` events);
* `dataWire_absent`: the summand `wireLogId` drops is `[]` anyway.
-/
namespace Srtla.Sys
open Srtla Srtla.Gen Srtla.Conn Srtla.Select Srtla.Rtt Srtla.Link Scalar

set_option linter.unusedSectionVars false

variable {F : Type} [Scalar F]

/-- `forward_via_connection` on an existing link, then (iff `probes`) `send_stall_probes`: every datagram goes to the
conn id of a link of the state the routing ran on. -/
theorem routeTo_wire_ids (s1 : Sys F) (sel : Nat) (pkt : Bytes) (seq : Option Nat) (now : Nat) (probes : Bool)
    (hsel : sel < s1.links.length) :
    ∀ x ∈ (routeTo s1 sel pkt seq now probes).2.wire, x.1 ∈ ids s1.links := by
  obtain ⟨lsel, hlsel⟩ : ∃ l, s1.links[sel]? = some l := ⟨s1.links[sel], List.getElem?_eq_getElem hsel⟩
  obtain ⟨l', b, f1, f2, f3, -, f5, -⟩ := forwardVia_spec s1 sel pkt seq now lsel hlsel
  have hids2 : ids (forwardVia s1 sel pkt seq now).1.links = ids s1.links := by
    rw [f1]; exact setAt_ids _ _ _ _ hlsel f3.1
  have hfwd : ∀ x ∈ (forwardVia s1 sel pkt seq now).2.wire, x.1 ∈ ids s1.links := by
    intro x hx
    rw [f2] at hx
    obtain ⟨y, -, rfl⟩ := List.mem_map.1 hx
    exact List.mem_map.2 ⟨lsel, List.mem_of_getElem? hlsel, rfl⟩
  unfold routeTo
  dsimp only
  cases probes
  · simp only [Bool.false_eq_true, if_false]
    exact hfwd
  · simp only [if_true]
    obtain ⟨hp, -⟩ := stallProbesGo_par (fa := (forwardVia s1 sel pkt seq now).1.failAfter) pkt seq now sel s1.failNext
      (forwardVia s1 sel pkt seq now).1.links 0 (forwardVia s1 sel pkt seq now).1.failNext f5
    intro x hx
    rcases List.mem_append.1 hx with hx | hx
    · exact hfwd x hx
    · rw [← hids2]; exact hp.tags x hx

/-- `handle_srt_packet`: every datagram it puts on a socket goes to the conn id of a link of the state. -/
theorem client_wire_ids (s : Sys F) (pkt : Bytes) (now : Nat) :
    ∀ x ∈ (handleSrtPacket s pkt now).2.wire, x.1 ∈ ids s.links := by
  cases hne : pkt.isEmpty
  case true =>
    have hr : handleSrtPacket s pkt now = (s, {}) := by unfold handleSrtPacket; rw [if_pos hne]
    rw [hr]; intro x hx; cases hx
  case false =>
    rw [handleSrtPacket_eq s pkt now hne]
    cases hreg : s.reg.hasConnected
    case false =>
      simp only [Bool.false_eq_true, if_false]
      cases hsel : selectPreRegistration s.links s.lastSelected now with
      | none => intro x hx; cases hx
      | some i => exact routeTo_wire_ids s i pkt _ now false (selectPreRegistration_in_range _ _ _ _ hsel)
    case true =>
      simp only [if_true]
      cases hsel : selected s pkt now with
      | none => intro x hx; cases hx
      | some i =>
        have hi : i < (runSelect s now).1.links.length := by
          rw [runSelect_length]; exact selected_in_range s pkt now i hsel
        have := routeTo_wire_ids (runSelect s now).1 i pkt (Codec.getSrtSequenceNumberS pkt) now
          (Codec.getSrtSequenceNumberS pkt).isSome hi
        rw [runSelect_ids] at this
        exact this

/-- `flush_all_batches`: every datagram goes to the conn id of a link of the state. -/
theorem flush_wire_ids (s : Sys F) (now : Nat) :
    ∀ x ∈ (flushAllBatches s now).2.wire, x.1 ∈ ids s.links := by
  unfold flushAllBatches
  by_cases hany : (s.links.any fun l => !l.queue.isEmpty || l.needsBatchFlush now) = true
  · rw [if_neg (by simp [hany])]
    dsimp only
    obtain ⟨hp, -⟩ := flushGo_par (fa := s.failAfter) now s.failNext s.links 0 s.failNext (fun _ h => h)
    exact hp.tags
  · rw [if_pos (by simp [hany])]
    intro x hx; cases hx

/-- **Every wire output of every event names a link PRESENT in the state the event starts from** - all arms; a
reload (and every configuration / injection / stamp event) sends nothing at all. -/
theorem step_wire_ids (s : Sys F) (ev : Ev) : ∀ x ∈ (step s ev).2.wire, x.1 ∈ ids s.links := by
  cases ev with
  | client now pkt => exact client_wire_ids s pkt now
  | flush now => exact flush_wire_ids s now
  | hk now => exact fun x hx => (hk_wire_ctl s now x hx).1
  | uplink now cid data =>
    intro x hx
    obtain ⟨rfl, -, h⟩ := (uplink_wire_reg1 s cid data now).2 x hx
    exact h
  | setCfg cfg => intro x hx; cases hx
  | crit d => intro x hx; cases hx
  | failNext cid => intro x hx; cases hx
  | failAfter cid k => intro x hx; cases hx
  | failBind cid => intro x hx; cases hx
  | stamp idx weak ld ccb cct => intro x hx; cases hx
  | syncTimeout => intro x hx; cases hx
  | reload rnow addrs outs => intro x hx; cases hx

/-- A reload puts nothing on any socket. -/
theorem reload_wire_nil (s : Sys F) (rnow : Nat) (addrs : List Nat) (outs : List (Option Nat)) :
    (step s (.reload rnow addrs outs)).2.wire = [] := rfl

/-- **Lifted to runs** (reloads included, no hypothesis): the output of the `k`-th event of a run names only links of
the state the run has reached after its first `k` events. -/
theorem run_wire_ids (s : Sys F) (evs : List Ev) (k : Nat) (o : Out) (ho : (run s evs).2[k]? = some o) :
    ∀ x ∈ o.wire, x.1 ∈ ids (run s (evs.take k)).1.links := by
  induction evs generalizing s k with
  | nil => simp [run] at ho
  | cons e evs ih =>
    cases k with
    | zero =>
      have : (step s e).2 = o := by simpa [run] using ho
      subst this
      exact step_wire_ids s e
    | succ k => exact ih (step s e).1 k ho

/-- The summand the by-conn-id wire log drops for an ABSENT conn id is empty anyway. -/
theorem dataWire_absent (s : Sys F) (ev : Ev) (c : Nat) (hc : c ∉ ids s.links) :
    dataWire ev (step s ev).2 c = [] := by
  have key : wireOf c (step s ev).2.wire = [] := by
    unfold wireOf
    rw [List.map_eq_nil_iff, List.filter_eq_nil_iff]
    intro x hx hxc
    have : x.1 = c := by simpa using hxc
    exact hc (this ▸ step_wire_ids s ev x hx)
  unfold dataWire
  split
  · exact key
  · exact key
  · rfl

end Srtla.Sys
