import Srtla.Model.Sys
import Srtla.Lemmas.Log
import Srtla.Lemmas.Conn
import Srtla.Lemmas.SelectFrame
import Srtla.Lemmas.Housekeeping
import Srtla.Lemmas.Uplink
/-!
# Link invariants lifted to the shell: the generic traversal of `Sys.step`

`Sys.step` (Model/Sys.lean) rewrites the link list through a fixed repertoire of per-link operations
(queue, drain, the three resets, the ACK/NAK handlers, window recovery, the selection write-back, and
a handful of field stamps).  `Closed now P` lists, operation by operation, what a per-link predicate
`P` has to survive; `step_all` shows ONCE, for every event constructor, that a `Closed` predicate
which holds of every link before the event holds of every link after it.  The concrete invariants
(accounting: `Lemmas/SysInvAcct.lean`, quality cache: `Lemmas/SysInvQual.lean`, stamps vs. clock:
`Lemmas/SysInvStamp.lean`) are instances; the exported theorems are in `Props/SysLevel.lean`.

Everything here is scalar-generic (`[Scalar F]`, so it holds at `Float` too).
-/
set_option linter.unusedSectionVars false

namespace Srtla.SysInv
open Srtla Srtla.Gen Srtla.Conn Srtla.Select Srtla.Rtt Srtla.Link Srtla.Sys Scalar

variable {F : Type} [Scalar F]
variable {fa : List (Nat × Nat)}

/-! ## 1. Vocabulary -/

/-- An SRT data sequence number as extracted from a client datagram: 31 bits. -/
def SeqOk (seq : Option Nat) : Prop := ∀ s, seq = some s → s < 2147483648

/-- `get_srt_sequence_number` only returns 31-bit numbers (control packets have the top bit set and
yield `None`). -/
theorem seqOk_packet (pkt : Sys.Bytes) : SeqOk (Codec.getSrtSequenceNumberS pkt) := by
  intro s h
  unfold Codec.getSrtSequenceNumberS at h
  split at h
  · dsimp only at h
    split at h
    · cases h; assumption
    · cases h
  · cases h

/-- `l'` is `l` up to fields outside the accounting view, and every time stamp that was written was
written with the event's clock `now`.  (All the ad-hoc record updates of `Model/Sys.lean` and the
"soft" `FLink` methods — keepalive, RTT probe bookkeeping, phase, batch regime, probe counter,
reconnect bookkeeping — are of this kind.) -/
structure Soft (now : Nat) (l l' : FLink F) : Prop where
  connId : l'.core.connId = l.core.connId
  log : l'.core.log = l.core.log
  hi : l'.core.highestAcked = l.core.highestAcked
  inFlight : l'.core.inFlight = l.core.inFlight
  window : l'.core.window = l.core.window
  cong : l'.core.cong = l.core.cong
  rttMeas : l'.core.lastRttMeasMs = l.core.lastRttMeasMs
  queue : l'.queue = l.queue
  flush : l'.lastFlushMs = l.lastFlushMs
  qualMult : l'.qualMult = l.qualMult
  qualAt : l'.qualAt = l.qualAt
  latched : l'.latchedSince = l.latchedSince
  recovery : l'.recoverySince = l.recoverySince
  pullMark : l'.pullMark = l.pullMark
  lastSent : l'.core.lastSent = l.core.lastSent ∨ l'.core.lastSent = some now
  lastReceived : l'.core.lastReceived = l.core.lastReceived ∨ l'.core.lastReceived = some now
  proofMs : l'.core.proofMs = l.core.proofMs ∨ l'.core.proofMs = now
  lastKeepaliveSent : l'.lastKeepaliveSent = l.lastKeepaliveSent ∨ l'.lastKeepaliveSent = some now
  kaSentMs : l'.rtt.lastKeepaliveSentMs = l.rtt.lastKeepaliveSentMs ∨ l'.rtt.lastKeepaliveSentMs = now
  rttMeasT : l'.rtt.lastRttMeasMs = l.rtt.lastRttMeasMs ∨ l'.rtt.lastRttMeasMs = now
  lastAttempt : l'.lastAttemptMs = l.lastAttemptMs ∨ l'.lastAttemptMs = now
  established : l'.established = l.established ∨ l'.established = now
  bitrateT : l'.bitrate.lastUpdateMs = l.bitrate.lastUpdateMs ∨ l'.bitrate.lastUpdateMs = now
  warming : ∀ p e, l'.core.phase = .warming p e → ∃ p', l.core.phase = .warming p' e

theorem Soft.refl (now : Nat) (l : FLink F) : Soft now l l :=
  ⟨rfl, rfl, rfl, rfl, rfl, rfl, rfl, rfl, rfl, rfl, rfl, rfl, rfl, rfl, .inl rfl, .inl rfl, .inl rfl, .inl rfl,
   .inl rfl, .inl rfl, .inl rfl, .inl rfl, .inl rfl, fun p _ h => ⟨p, h⟩⟩

/-- The four arms of the event loop that touch links. -/
inductive Arm where
  | client | uplink | flush | hk
  /-- `apply_connection_changes` (event `reload`): links are removed / kept with their whole record / freshly
  constructed -/
  | reload
deriving DecidableEq, Repr

/-- What a per-link predicate has to survive to be preserved by every event of arm `arm` whose clock is
`now`, in a state whose configured mode is `classic`.  Each operation is required only for the arms that
perform it: the data path (queue, drain, tear-down after a failed send, the selection write-back) for
`client`, the drain for `flush`, the ACK / NAK handlers, REG3 and REG_ERR's tear-down for `uplink`
(`SRTLA ACK`s by the classic rule iff `classic`), the reconnect reset, the `mark_for_recovery` fallback
of a failed socket re-creation and — only if `¬ classic` — `perform_window_recovery` for `hk`; field
stamps (`Soft`) for all; `fresh` (the record `connect_uplink` constructs satisfies the predicate) for `reload`. -/
structure Closed (now : Nat) (arm : Arm) (classic : Bool) (P : FLink F → Prop) : Prop where
  soft : ∀ l l', Soft now l l' → P l → P l'
  queue : arm = .client → ∀ l pkt seq, SeqOk seq → P l → P (l.queueDataPacket pkt seq now).1
  take : arm = .client ∨ arm = .flush → ∀ l, P l → P (l.takeBatch now).1
  mark : arm = .client ∨ arm = .uplink ∨ arm = .hk → ∀ l, P l → P l.markForRecovery
  reconnect : arm = .hk → ∀ l, P l → P (l.resetForReconnect now)
  reg3 : arm = .uplink → ∀ l, P l → P (l.clearPreRegistration now)
  recover : arm = .hk → classic = false → ∀ l, P l → P (l.performWindowRecovery now)
  srtAck : arm = .uplink → ∀ l a, P l → P (l.srtAck a now)
  sack : arm = .uplink → ∀ l seq, P l → P { l with core := (l.core.srtlaAck seq classic now).1 }
  gack : arm = .uplink → ∀ l, P l → P { l with core := l.core.ackGlobal }
  nak : arm = .uplink → ∀ l seq, P l → P { l with core := (l.core.nak seq now).1 }
  select : arm = .client → ∀ (ls : List (FLink F)) last cfg, (∀ l ∈ ls, P l) →
    ∀ p ∈ ls.zip (selectIdx (ls.map FLink.toSLink) last now cfg).1, P (p.1.absorb p.2)
  /-- a reload appends freshly constructed registering links (`connect_uplink` → `new_registering`) -/
  fresh : arm = .reload → ∀ connId addr, P (FLink.newUplink connId addr now)

/-- `P` holds of every link. -/
def All (P : FLink F → Prop) (ls : List (FLink F)) : Prop := ∀ l ∈ ls, P l

/-! ## 2. The soft operations -/

theorem soft_lastSent (now : Nat) (l : FLink F) :
    Soft now l { l with core := { l.core with lastSent := some now } } :=
  { Soft.refl now l with lastSent := .inr rfl }

theorem soft_lastReceived (now : Nat) (l : FLink F) :
    Soft now l { l with core := { l.core with lastReceived := some now } } :=
  { Soft.refl now l with lastReceived := .inr rfl }

theorem soft_proofMs (now : Nat) (l : FLink F) :
    Soft now l { l with core := { l.core with proofMs := now } } :=
  { Soft.refl now l with proofMs := .inr rfl }

/-- The reflexivity proof term, usable up to definitional unfolding of the right-hand link. -/
local macro "soft_rfl" : term =>
  `(⟨rfl, rfl, rfl, rfl, rfl, rfl, rfl, rfl, rfl, rfl, rfl, rfl, rfl, rfl, .inl rfl, .inl rfl, .inl rfl, .inl rfl,
     .inl rfl, .inl rfl, .inl rfl, .inl rfl, .inl rfl, fun p _ h => ⟨p, h⟩⟩)

theorem soft_grace (now g : Nat) (l : FLink F) : Soft now l { l with graceDeadline := g } := soft_rfl

theorem soft_fail_grace (now f g : Nat) (l : FLink F) :
    Soft now l { l with failCount := f, graceDeadline := g } := soft_rfl

theorem soft_bitrate (now : Nat) (l : FLink F) :
    Soft now l { l with bitrate := l.bitrate.calculate now } := by
  refine { Soft.refl now l with bitrateT := ?_ }
  show (l.bitrate.calculate now).lastUpdateMs = _ ∨ _
  unfold Bitrate.calculate
  dsimp only
  split
  · exact .inr rfl
  · exact .inl rfl

local macro "soft_tac" : tactic =>
  `(tactic| (constructor <;> first | rfl | exact .inl rfl | exact .inr rfl | exact fun p _ h => ⟨p, h⟩))

theorem soft_recordAttempt (now : Nat) (l : FLink F) : Soft now l (l.recordAttempt now) := by
  unfold FLink.recordAttempt
  split <;> soft_tac

theorem soft_recomputeBatchRegime (now : Nat) (l : FLink F) : Soft now l l.recomputeBatchRegime := soft_rfl

theorem soft_stallProbeDue (now : Nat) (l : FLink F) : Soft now l l.stallProbeDue.1 := by
  unfold FLink.stallProbeDue
  dsimp only
  split <;> soft_tac

theorem soft_keepalivePacket (now : Nat) (l : FLink F) : Soft now l (l.keepalivePacket now).1 := by
  unfold FLink.keepalivePacket
  dsimp only
  constructor
  any_goals first | rfl | exact .inl rfl | exact .inr rfl | exact fun p _ h => ⟨p, h⟩
  all_goals (dsimp only; split <;> first | exact .inl rfl | exact .inr rfl)

theorem updateEstimate_stamps (t : RttTracker F) (r now : Nat) :
    (t.updateEstimate r now).lastKeepaliveSentMs = t.lastKeepaliveSentMs ∧
    (t.updateEstimate r now).lastRttMeasMs = now := by
  unfold RttTracker.updateEstimate
  dsimp only
  split <;> exact ⟨rfl, rfl⟩

theorem soft_handleKeepaliveResponse (now : Nat) (l : FLink F) (data : Link.Bytes) :
    Soft now l (l.handleKeepaliveResponse data now).1 := by
  unfold FLink.handleKeepaliveResponse
  split
  · exact Soft.refl now l
  · split
    · dsimp only
      split
      · refine { (soft_rfl : Soft now l { l with rtt := { l.rtt with waiting := false } }) with
          kaSentMs := .inl ?_, rttMeasT := .inr ?_ }
        · exact (updateEstimate_stamps _ _ _).1
        · exact (updateEstimate_stamps _ _ _).2
      · soft_tac
    · soft_tac

theorem soft_recordRttProbe (now : Nat) (l : FLink F) : Soft now l l.recordRttProbe := by
  unfold FLink.recordRttProbe
  split
  · rename_i p e hp
    split
    · refine { (soft_rfl : Soft now l { l with rtt := l.rtt }) with warming := ?_ }
      intro p' e' h
      cases h
    · refine { (soft_rfl : Soft now l { l with rtt := l.rtt }) with warming := ?_ }
      intro p' e' h
      cases h
      exact ⟨p, hp⟩
  · exact Soft.refl now l

theorem soft_updatePhase (now : Nat) (l : FLink F) : Soft now l (l.updatePhase now) := by
  unfold FLink.updatePhase
  dsimp only
  split
  · split
    · refine { (soft_rfl : Soft now l { l with rtt := l.rtt }) with warming := ?_ }
      intro p' e' h; cases h
    · exact Soft.refl now l
  · split
    · refine { (soft_rfl : Soft now l { l with rtt := l.rtt }) with warming := ?_ }
      intro p' e' h; cases h
    · exact Soft.refl now l
  · split
    · refine { (soft_rfl : Soft now l { l with rtt := l.rtt }) with warming := ?_ }
      intro p' e' h; cases h
    · exact Soft.refl now l
  · exact Soft.refl now l

/-- The tail of the REG3 arm: `connected = true`, liveness stamp, `mark_success`, first-establishment stamp. -/
theorem soft_reg3_tail (now : Nat) (l : FLink F) :
    Soft now l { l with core := { l.core with connected := true, lastReceived := some now },
                        established := if l.established == 0 then now else l.established,
                        failCount := 0 } := by
  constructor
  any_goals first | rfl | exact .inl rfl | exact .inr rfl | exact fun p _ h => ⟨p, h⟩
  dsimp only
  split
  · exact .inr rfl
  · exact .inl rfl

/-! ## 3. List plumbing -/

omit [Scalar F] in
theorem all_setAt {P : FLink F → Prop} {ls : List (FLink F)} (h : All P ls) (i : Nat) {x : FLink F}
    (hx : P x) : All P (setAt ls i x) := by
  intro l hl
  unfold setAt at hl
  rw [List.mem_mapIdx] at hl
  obtain ⟨j, hj, rfl⟩ := hl
  split
  · exact hx
  · exact h _ (List.getElem_mem hj)

omit [Scalar F] in
theorem all_mapIdx {P : FLink F → Prop} {ls : List (FLink F)} (h : All P ls) (f : Nat → FLink F → FLink F)
    (hf : ∀ j l, P l → P (f j l)) : All P (ls.mapIdx f) := by
  intro l hl
  rw [List.mem_mapIdx] at hl
  obtain ⟨j, hj, rfl⟩ := hl
  exact hf _ _ (h _ (List.getElem_mem hj))

omit [Scalar F] in
theorem all_map {P : FLink F → Prop} {ls : List (FLink F)} (h : All P ls) (f : FLink F → FLink F)
    (hf : ∀ l, P l → P (f l)) : All P (ls.map f) := by
  intro l hl
  obtain ⟨x, hx, rfl⟩ := List.mem_map.1 hl
  exact hf _ (h _ hx)

omit [Scalar F] in
theorem all_get {P : FLink F → Prop} {ls : List (FLink F)} (h : All P ls) {i : Nat} {l : FLink F}
    (hl : ls[i]? = some l) : P l := h l (List.mem_of_getElem? hl)

/-! ## 4. The data path: `forward_via_connection`, `send_stall_probes`, `flush_all_batches` -/

section traverse
variable {now : Nat} {classic : Bool} {P : FLink F → Prop}

theorem fwdLink_P (hc : Closed now .client classic P) (l : FLink F) (pkt : Link.Bytes) (seq : Option Nat) (fn : List Nat)
    (hs : SeqOk seq) (h : P l) : P (Hk.fwdLink fa l pkt seq now fn).1 := by
  have h1 := hc.queue rfl l pkt seq hs h
  unfold Hk.fwdLink
  split
  · dsimp only
    rw [(Hk.sendBatch_cases _ now fn).1]
    split
    · exact hc.take (.inl rfl) _ h1
    · exact hc.mark (.inl rfl) _ (hc.take (.inl rfl) _ h1)
  · exact h1

theorem forwardVia_all (hc : Closed now .client classic P) (s : Sys F) (sel : Nat) (pkt : Sys.Bytes) (seq : Option Nat)
    (hs : SeqOk seq) (h : All P s.links) : All P (forwardVia s sel pkt seq now).1.links := by
  cases hl : s.links[sel]? with
  | none => rw [Hk.forwardVia_none s sel pkt seq now hl]; exact h
  | some l =>
    rw [(Hk.forwardVia_eq s sel pkt seq now l hl).1]
    exact all_setAt h _ (fwdLink_P hc l pkt seq _ hs (all_get h hl))

theorem probeLink_P (hc : Closed now .client classic P) (l : FLink F) (pkt : Link.Bytes) (seq : Option Nat) (fn : List Nat)
    (hs : SeqOk seq) (h : P l) : P (Hk.probeLink fa l pkt seq now fn).1 := by
  have h1 := hc.soft _ _ (soft_stallProbeDue now l) h
  unfold Hk.probeLink
  split
  · exact h1
  · exact fwdLink_P hc _ pkt seq fn hs h1

theorem stallProbesGo_all (hc : Closed now .client classic P) (pkt : Sys.Bytes) (seq : Option Nat) (sel : Nat) (hs : SeqOk seq)
    (ls : List (FLink F)) (i : Nat) (fn : List Nat) (h : All P ls) :
    All P (stallProbesGo fa pkt seq now sel ls i fn).1 := by
  induction ls generalizing i fn with
  | nil => intro l hl; simp [stallProbesGo] at hl
  | cons l rest ih =>
    have hl : P l := h l List.mem_cons_self
    have hr : All P rest := fun x hx => h x (List.mem_cons_of_mem _ hx)
    rw [Hk.stallProbesGo_cons]
    split
    · intro x hx
      rcases List.mem_cons.1 hx with rfl | hx
      · exact hl
      · exact ih _ _ hr x hx
    · intro x hx
      rcases List.mem_cons.1 hx with rfl | hx
      · exact probeLink_P hc l pkt seq fn hs hl
      · exact ih _ _ hr x hx

theorem flushGo_all (hc : Closed now .flush classic P) (ls : List (FLink F)) (fn : List Nat) (h : All P ls) :
    All P (flushGo fa now ls fn).1 := by
  induction ls generalizing fn with
  | nil => intro l hl; simp [flushGo] at hl
  | cons l rest ih =>
    have hl : P l := h l List.mem_cons_self
    have hr : All P rest := fun x hx => h x (List.mem_cons_of_mem _ hx)
    rw [flushGo]
    split
    · dsimp only
      intro x hx
      rcases List.mem_cons.1 hx with rfl | hx
      · rw [(Hk.sendBatch_cases l now fn).1]; exact hc.take (.inr rfl) _ hl
      · exact ih _ hr x hx
    · intro x hx
      rcases List.mem_cons.1 hx with rfl | hx
      · exact hl
      · exact ih _ hr x hx

theorem flush_all (hc : Closed now .flush classic P) (s : Sys F) (h : All P s.links) :
    All P (flushAllBatches s now).1.links := by
  unfold flushAllBatches
  split
  · exact h
  · exact flushGo_all hc _ _ h

/-! ## 5. The client arm -/

theorem runSelect_all (hc : Closed now .client classic P) (s : Sys F) (h : All P s.links) : All P (runSelect s now).1.links := by
  intro l hl
  have : l ∈ (s.links.zip (selectIdx (s.links.map FLink.toSLink) s.lastSelected now s.cfg).1).map
      fun p => p.1.absorb p.2 := hl
  obtain ⟨p, hp, rfl⟩ := List.mem_map.1 this
  exact hc.select rfl s.links s.lastSelected s.cfg h p hp

theorem client_all (hc : Closed now .client classic P) (s : Sys F) (pkt : Sys.Bytes) (h : All P s.links) :
    All P (handleSrtPacket s pkt now).1.links := by
  have hs := seqOk_packet pkt
  cases hne : pkt.isEmpty with
  | true => unfold handleSrtPacket; rw [if_pos hne]; exact h
  | false =>
    cases hreg : s.reg.hasConnected with
    | false =>
      rw [Hk.handleSrtPacket_pre s pkt now hne hreg]
      split
      · exact forwardVia_all hc s _ pkt _ hs h
      · exact h
    | true =>
      have h1 := runSelect_all hc s h
      cases hsel : Hk.clientSel s pkt now with
      | none => rw [Hk.handleSrtPacket_none s pkt now hne hreg hsel]; exact h1
      | some i =>
        rw [Hk.handleSrtPacket_some s pkt now i hne hreg hsel]
        have h2 := forwardVia_all hc (runSelect s now).1 i pkt _ hs h1
        unfold Hk.clientFwd
        dsimp only
        split
        · exact stallProbesGo_all hc pkt _ i hs _ 0 _ h2
        · exact h2

/-! ## 6. The uplink arm -/

theorem kaLink_P (hc : Closed now .uplink classic P) (l : FLink F) (data : Codec.Bytes) (h : P l) :
    P (Uplink.kaLink l data now) := by
  have h1 : P (Uplink.stamp l now) := hc.soft _ _ (soft_lastReceived now l) h
  have h2 := hc.soft _ _ (soft_handleKeepaliveResponse now (Uplink.stamp l now) data) h1
  unfold Uplink.kaLink
  split
  · exact hc.soft _ _ (soft_proofMs now _) (hc.soft _ _ (soft_recordRttProbe now _) h2)
  · exact h2

theorem reg3Link_P (hc : Closed now .uplink classic P) (l : FLink F) (h : P l) : P (Uplink.reg3Link l now) :=
  hc.soft _ _ (soft_reg3_tail now _) (hc.reg3 rfl l h)

/-- `process_uplink_packet` on the arrival link. -/
theorem processUplinkPacket_P (hc : Closed now .uplink classic P) (l : FLink F) (idx : Nat) (reg : Reg.Reg) (ck : Bool)
    (data : Codec.Bytes) (h : P l) : P (processUplinkPacket l idx reg ck data now).1 := by
  have hst : P (Uplink.stamp l now) := hc.soft _ _ (soft_lastReceived now l) h
  rw [Uplink.processUplinkPacket_eq]
  unfold Uplink.pupSpec
  split
  · exact h
  · repeat' split
    all_goals first
      | exact h
      | exact hst
      | exact reg3Link_P hc l h
      | exact hc.mark (.inr (.inl rfl)) l h
      | exact kaLink_P hc l data h

/-- The closure of a core under the SRTLA-ACK / global-ACK / NAK handlers at clock `now`. -/
inductive CoreRun (now : Nat) (classic : Bool) : Conn → Conn → Prop
  | refl (c : Conn) : CoreRun now classic c c
  | sack {c c' : Conn} (seq : Int) : CoreRun now classic c c' → CoreRun now classic c (c'.srtlaAck seq classic now).1
  | gack {c c' : Conn} : CoreRun now classic c c' → CoreRun now classic c c'.ackGlobal
  | nak {c c' : Conn} (seq : Int) : CoreRun now classic c c' → CoreRun now classic c (c'.nak seq now).1

theorem CoreRun.trans {now : Nat} {cl : Bool} {a b c : Conn} (h1 : CoreRun now cl a b) (h2 : CoreRun now cl b c) :
    CoreRun now cl a c := by
  induction h2 with
  | refl => exact h1
  | sack seq _ ih => exact .sack seq ih
  | gack _ ih => exact .gack ih
  | nak seq _ ih => exact .nak seq ih

theorem coreRun_P (hc : Closed now .uplink classic P) (l : FLink F) (c' : Conn) (hr : CoreRun now classic l.core c')
    (h : P l) : P { l with core := c' } := by
  induction hr with
  | refl => exact h
  | sack seq _ ih => exact hc.sack rfl _ seq ih
  | gack _ ih => exact hc.gack rfl _ ih
  | nak seq _ ih => exact hc.nak rfl _ seq ih

theorem pw_mapIdx {R : Conn → Conn → Prop} (cs : Links) (g : Nat → Conn → Conn)
    (hg : ∀ j c, cs[j]? = some c → R c (g j c)) : Hk.PW R cs (cs.mapIdx g) := by
  induction cs generalizing g with
  | nil => exact .nil
  | cons c rest ih =>
    rw [List.mapIdx_cons]
    exact .cons (hg 0 c rfl) (ih _ (fun j d hd => hg (j + 1) d (by simpa using hd)))

theorem pw_srtlaAckOthers (cs : Links) (j skip : Nat) (seq : Int) (cl : Bool) (now : Nat) :
    Hk.PW (CoreRun now cl) cs (srtlaAckOthers cs j skip seq cl now) := by
  induction cs generalizing j with
  | nil => exact .nil
  | cons c rest ih =>
    unfold srtlaAckOthers
    split
    · exact .cons (.refl c) (ih (j + 1))
    · dsimp only
      split
      · exact .cons (.sack seq (.refl c)) (Hk.PW.refl CoreRun.refl rest)
      · exact .cons (.refl c) (ih (j + 1))

theorem pw_evSrtlaAck (cs : Links) (idx : Nat) (seq : Int) (cl : Bool) (now : Nat) :
    Hk.PW (CoreRun now cl) cs (evSrtlaAck cs idx seq cl now) := by
  have hg : ∀ xs : Links, Hk.PW (CoreRun now cl) xs (xs.map Conn.ackGlobal) := fun xs =>
    Hk.PW.map (R := CoreRun now cl) Conn.ackGlobal xs fun c => .gack (.refl c)
  have h1 : Hk.PW (CoreRun now cl) cs
      (match cs[idx]? with
       | none => cs
       | some c =>
         let (c', found) := c.srtlaAck seq cl now
         if found then updateAt cs idx (fun _ => c') else srtlaAckOthers cs 0 idx seq cl now) := by
    split
    · exact Hk.PW.refl CoreRun.refl cs
    · rename_i c hc
      dsimp only
      split
      · unfold updateAt
        refine pw_mapIdx cs _ ?_
        intro j d hd
        split
        · -- the arrival link: replaced by the handler's result on the link that WAS there
          rename_i hj
          subst hj
          rw [hc] at hd
          cases hd
          exact .sack seq (.refl c)
        · exact .refl d
      · exact pw_srtlaAckOthers cs 0 idx seq cl now
  exact Hk.PW.trans (R := CoreRun now cl) (fun _ _ _ h h' => h.trans h') h1 (hg _)

theorem pw_nakScan (cs : Links) (seq : Int) (cl : Bool) (now : Nat) :
    Hk.PW (CoreRun now cl) cs (nakScan cs seq now).1 := by
  induction cs with
  | nil => exact .nil
  | cons c rest ih =>
    unfold nakScan
    dsimp only
    split
    · exact .cons (.nak seq (.refl c)) (Hk.PW.refl CoreRun.refl rest)
    · exact .cons (.refl c) ih

theorem pw_attributeNak (cs : Links) (trk : Tracker) (nak : Nat) (cl : Bool) (now : Nat) :
    Hk.PW (CoreRun now cl) cs (attributeNak cs trk nak now).1 := by
  unfold attributeNak
  dsimp only
  split
  · split
    · split
      · rename_i c hc
        split
        · unfold updateAt
          refine pw_mapIdx cs _ ?_
          intro j d hd
          split
          · rename_i hj
            subst hj
            rw [hc] at hd
            cases hd
            exact .nak _ (.refl c)
          · exact .refl d
        · exact Hk.PW.refl CoreRun.refl cs
      · exact Hk.PW.refl CoreRun.refl cs
    · exact pw_nakScan cs _ cl now
  · exact pw_nakScan cs _ cl now

omit [Scalar F] in
theorem withCores_all {R : Conn → Conn → Prop} (hR : ∀ l c, P l → R l.core c → P { l with core := c })
    (ls : List (FLink F)) (cs : Links) (hpw : Hk.PW R (cores ls) cs) (h : All P ls) : All P (withCores ls cs) := by
  induction ls generalizing cs with
  | nil => intro l hl; simp [withCores] at hl
  | cons l rest ih =>
    cases hpw with
    | cons hr hrest =>
      rename_i c cs'
      intro x hx
      have : withCores (l :: rest) (c :: cs') = { l with core := c } :: withCores rest cs' := rfl
      rw [this] at hx
      rcases List.mem_cons.1 hx with rfl | hx
      · exact hR l c (h l List.mem_cons_self) hr
      · exact ih cs' hrest (fun y hy => h y (List.mem_cons_of_mem _ hy)) x hx

/-- `process_connection_events`. -/
theorem processConnectionEvents_all (s : Sys F) (hc : Closed now .uplink s.cfg.classic P) (idx : Nat) (inc : Incoming)
    (h : All P s.links) : All P (processConnectionEvents s idx inc now).1.links := by
  unfold processConnectionEvents
  dsimp only
  -- cumulative ACKs: every link, one after the other
  have h1 : ∀ (acks : List Nat) (ls : List (FLink F)), All P ls →
      All P (acks.foldl (fun ls a => ls.map fun l => l.srtAck (toI32 a) now) ls) := by
    intro acks
    induction acks with
    | nil => intro ls hls; exact hls
    | cons a as ih =>
      intro ls hls
      exact ih _ (all_map hls _ fun l hl => hc.srtAck rfl l _ hl)
  -- SRTLA ACKs and NAKs work on the cores
  have h2 : ∀ (sacks : List Nat) (cs : Links), Hk.PW (CoreRun now s.cfg.classic) cs
      (sacks.foldl (fun cs a => evSrtlaAck cs idx (toI32 a) s.cfg.classic now) cs) := fun sacks cs =>
    Hk.pw_foldl (R := CoreRun now s.cfg.classic) CoreRun.refl (fun _ _ _ h h' => h.trans h') _
      (fun as b => pw_evSrtlaAck as idx _ _ now) cs sacks
  have h3 : ∀ (naks : List Nat) (cs : Links), Hk.PW (CoreRun now s.cfg.classic) cs
      (naks.foldl (fun cs n => (attributeNak cs s.trk n now).1) cs) := fun naks cs =>
    Hk.pw_foldl (R := CoreRun now s.cfg.classic) CoreRun.refl (fun _ _ _ h h' => h.trans h') _
      (fun as b => pw_attributeNak as s.trk b _ now) cs naks
  refine withCores_all (R := CoreRun now s.cfg.classic) (fun l c hl hr => coreRun_P hc l c hr hl) _ _ ?_ (h1 _ _ h)
  exact Hk.PW.trans (R := CoreRun now s.cfg.classic) (fun _ _ _ h h' => h.trans h') (h2 _ _) (h3 _ _)

/-- `handle_uplink_packet`. -/
theorem uplink_all (s : Sys F) (hc : Closed now .uplink s.cfg.classic P) (cid : Nat) (data : Sys.Bytes) (h : All P s.links) :
    All P (handleUplinkPacket s cid data now).1.links := by
  unfold handleUplinkPacket
  split
  · exact h
  · split
    · exact h
    · rename_i idx hidx
      split
      · exact h
      · rename_i l hl
        have hl' : P l := all_get h hl
        have h1 := processUplinkPacket_P hc l idx s.reg s.clientKnown data hl'
        generalize processUplinkPacket l idx s.reg s.clientKnown data now = r at h1
        obtain ⟨l1, reg1, inc⟩ := r
        dsimp only at h1 ⊢
        refine processConnectionEvents_all _ ?_ _ _ ?_
        · exact hc
        dsimp only
        apply all_setAt h
        split
        · exact hc.soft _ _ (soft_lastSent now l1) h1
        · exact h1

/-! ## 7. The housekeeping arm -/

theorem reconnectLink_P (hc : Closed now .hk classic P) (l : FLink F) (h : P l) : P (Hk.reconnectLink l now) := by
  unfold Hk.reconnectLink
  exact hc.soft _ _ (soft_fail_grace now _ _ _)
    (hc.reconnect rfl _ (hc.soft _ _ (soft_recordAttempt now l) h))

theorem aliveLink_P (hc : Closed now .hk classic P) (l : FLink F) (h : P l) :
    P (Hk.aliveLink classic now l) := by
  unfold Hk.aliveLink
  dsimp only
  have h1 : P (if l.needsKeepalive now then (l.keepalivePacket now).1 else l) := by
    split
    · exact hc.soft _ _ (soft_keepalivePacket now l) h
    · exact h
  generalize (if l.needsKeepalive now then (l.keepalivePacket now).1 else l) = l1 at h1 ⊢
  have h2 : P (if l1.needsRttMeasurement now then (l1.keepalivePacket now).1 else l1) := by
    split
    · exact hc.soft _ _ (soft_keepalivePacket now l1) h1
    · exact h1
  generalize (if l1.needsRttMeasurement now then (l1.keepalivePacket now).1 else l1) = l2 at h2 ⊢
  have h3 : P (if !classic then l2.performWindowRecovery now else l2) := by
    split
    · rename_i hcl
      exact hc.recover rfl (by simpa using hcl) _ h2
    · exact h2
  generalize (if !classic then l2.performWindowRecovery now else l2) = l3 at h3 ⊢
  exact hc.soft _ _ (soft_recomputeBatchRegime now _)
    (hc.soft _ _ (soft_updatePhase now _) (hc.soft _ _ (soft_bitrate now l3) h3))

theorem attemptLink_P (hc : Closed now .hk classic P) (fails : Bool) (l : FLink F) (h : P l) :
    P (Hk.attemptLink fails l now) := by
  unfold Hk.attemptLink
  split
  · exact hc.mark (.inr (.inr rfl)) _ (hc.soft _ _ (soft_recordAttempt now l) h)
  · exact reconnectLink_P hc l h

theorem hkLink_P (hc : Closed now .hk classic P) (pending : Option Nat) (fails : Bool) (i : Nat) (l : FLink F)
    (h : P l) : P (Hk.hkLink classic now pending fails i l) := by
  have hr := attemptLink_P hc fails l h
  have hs : P (Hk.withSent (Hk.attemptLink fails l now) (some now)) := hc.soft _ _ (soft_lastSent now _) hr
  unfold Hk.hkLink
  split
  · split
    · split
      · split
        · exact hs
        · exact hr
      · exact hs
    · exact h
  · exact aliveLink_P hc l h

/-- `handle_housekeeping`. -/
theorem hk_all (s : Sys F) (hc : Closed now .hk s.cfg.classic P) (h : All P s.links) :
    All P (handleHousekeeping s now).1.links := by
  rw [(Hk.hk_eq s now).1]
  -- stage 1: grace window of the link probing chose
  have h1 : All P (Hk.hkP1 s now).2 := by
    rw [Hk.hkP1_links]
    refine all_mapIdx h _ fun j l hl => ?_
    unfold Hk.graceFix
    split
    · exact hc.soft _ _ (soft_grace now _ l) hl
    · exact hl
  -- stage 2: the per-link loop
  have h2 : All P (Hk.hkP2 s now).1 := by
    unfold Hk.hkP2
    rw [(Hk.hkLinksGo_links _ now _ 0 _ _).1]
    exact all_mapIdx h1 _ fun j l hl => hkLink_P hc _ _ _ l hl
  -- stage 5: the driver's REG1
  have h5 : All P (Hk.hkP5 s now).1 := by
    unfold Hk.hkP5
    split
    · split
      · rename_i l hl
        exact all_setAt h2 _ (hc.soft _ _ (soft_lastSent now l) (all_get h2 hl))
      · exact h2
    · exact h2
  -- stage 6: the REG2 broadcast
  unfold Hk.hkP6
  split
  · exact all_map h5 _ fun l hl => hc.soft _ _ (soft_lastSent now l) hl
  · exact h5

end traverse

/-! ## 8. Every event -/

/-- The clock an event carries (`0` for the clock-less configuration / injection events, which do not touch
the links at all). -/
def evNow : Ev → Nat
  | .client now _ => now
  | .uplink now _ _ => now
  | .flush now => now
  | .hk now => now
  | .setCfg _ => 0
  | .crit _ => 0
  | .failNext _ => 0
  | .failAfter _ _ => 0
  | .failBind _ => 0
  | .stamp _ _ _ _ _ => 0
  | .syncTimeout => 0
  | .reload now _ _ => now

/-- The arm of the event loop an event belongs to (`none`: the configuration / injection events, which do not
touch the links; the verdict stamps and `sync_conn_timeout` are the tail / head of the housekeeping arm and only need
`Closed.soft`: they write fields outside the accounting view). -/
def evArm : Ev → Option Arm
  | .client _ _ => some .client
  | .uplink _ _ _ => some .uplink
  | .flush _ => some .flush
  | .hk _ => some .hk
  | .setCfg _ => none
  | .crit _ => none
  | .failNext _ => none
  | .failAfter _ _ => none
  | .failBind _ => none
  | .stamp _ _ _ _ _ => some .hk
  | .syncTimeout => some .hk
  | .reload _ _ _ => some .reload

/-- A verdict stamp is outside the accounting view and writes no time stamp. -/
theorem soft_verdicts (now : Nat) (weak ld ccb : Bool) (cct : Nat) (l : FLink F) :
    Soft now l { l with weak := weak, lossDegraded := ld, ccBackingOff := ccb, ccTarget := cct } := soft_rfl

/-- `sync_conn_timeout` writes the timeout copy only: outside the accounting view, no time stamp. -/
theorem soft_syncOne (now T : Nat) (l : FLink F) : Soft now l { l with connTimeoutMs := T } := soft_rfl

theorem soft_stampOne (now idx : Nat) (weak ld ccb : Bool) (cct : Nat) (j : Nat) (l : FLink F) :
    Soft now l (Hk.stampOne idx weak ld ccb cct j l) := by
  unfold Hk.stampOne
  split
  · exact soft_verdicts now weak ld ccb cct l
  · exact Soft.refl now l

/-- **The traversal theorem.**  For every event constructor: a predicate that survives the per-link
operations of the event's arm at the event's clock and holds of every link before the event holds of
every link after. -/
theorem step_all {P : FLink F → Prop} (s : Sys F) (e : Ev)
    (hc : ∀ arm, evArm e = some arm → Closed (evNow e) arm s.cfg.classic P) (h : All P s.links) :
    All P (step s e).1.links := by
  cases e with
  | client now pkt => exact client_all (hc _ rfl) s pkt h
  | uplink now cid data => exact uplink_all s (hc _ rfl) cid data h
  | flush now => exact flush_all (hc _ rfl) s h
  | hk now => exact hk_all s (hc _ rfl) h
  | setCfg cfg => exact h
  | crit d => exact h
  | failNext cid => exact h
  | failAfter cid kfa => exact h
  | failBind cid => exact h
  | stamp idx weak ld ccb cct =>
    intro l' hl'
    obtain ⟨j, hj⟩ := List.getElem?_of_mem hl'
    have hj' : (stampLink s.links idx weak ld ccb cct)[j]? = some l' := hj
    rw [Hk.stampLink_get] at hj'
    cases hlj : s.links[j]? with
    | none => rw [hlj] at hj'; cases hj'
    | some l =>
      rw [hlj] at hj'
      simp only [Option.map_some, Option.some.injEq] at hj'
      rw [← hj']
      exact (hc .hk rfl).soft _ _ (soft_stampOne 0 idx weak ld ccb cct j l) (h l (List.mem_of_getElem? hlj))
  | syncTimeout =>
    exact all_map h _ fun l hl => (hc .hk rfl).soft _ _ (soft_syncOne 0 s.cfg.connTimeoutMs l) hl
  | reload now addrs outs =>
    exact reload_all now addrs outs h ((hc .reload rfl).fresh rfl)

end Srtla.SysInv
