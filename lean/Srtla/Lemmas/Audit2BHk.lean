import Srtla.Lemmas.Housekeeping
/-!
# Audit round 2 (P-B): which links a housekeeping tick tears down, as a function of the PRE-state

`hkDue s now j l` — the tick at `now` attempts a reconnect of link `j` (record `l` in the pre-state): timed
out, attempt due, and not the never-established link whose start-up grace window this very tick re-arms
(probing completion).  `hk_due_link` / `hk_not_due_link`: what the tick does to the link in the two cases.
Used by C10 (`LockStep`), C06 (`C06_teardown_resets_window_sys`).
-/
namespace Srtla.Audit2B
open Srtla Srtla.Gen Srtla.Conn Srtla.Select Srtla.Link Srtla.Sys

set_option linter.unusedSectionVars false
set_option linter.unusedVariables false

variable {F : Type} [Scalar F]

/-- The tick at `now` attempts a reconnect of link `j` (record `l` in the pre-state): it is timed out, an
attempt is due, and it is not the never-established link whose start-up grace window this very tick
re-arms (`Hk.hkGraceIdx`: the probing phase completes in this tick and chose link `j`). -/
def hkDue (s : Sys F) (now j : Nat) (l : FLink F) : Bool :=
  l.isTimedOut now && l.shouldAttemptReconnect now &&
    !(decide (Hk.hkGraceIdx s now = some j) && l.established == 0)

/-- The indices a tick at `now` tears down, in index order. -/
def hkResets (s : Sys F) (now : Nat) : List Nat :=
  (List.range s.links.length).filter fun j =>
    match s.links[j]? with
    | some l => hkDue s now j l
    | none => false

theorem mem_hkResets (s : Sys F) (now j : Nat) :
    j ∈ hkResets s now ↔ ∃ l, s.links[j]? = some l ∧ hkDue s now j l = true := by
  unfold hkResets
  rw [List.mem_filter, List.mem_range]
  constructor
  · rintro ⟨hlt, h⟩
    rw [List.getElem?_eq_getElem hlt] at h
    exact ⟨_, List.getElem?_eq_getElem hlt, h⟩
  · rintro ⟨l, hl, h⟩
    refine ⟨(List.getElem?_eq_some_iff.1 hl).1, ?_⟩
    rw [hl]; exact h

theorem hkDue_iff (s : Sys F) (now j : Nat) (l : FLink F) :
    hkDue s now j l = true ↔
      (l.isTimedOut now = true ∧ l.shouldAttemptReconnect now = true ∧
        ¬ (Hk.hkGraceIdx s now = some j ∧ l.established = 0)) := by
  unfold hkDue
  simp only [Bool.and_eq_true, Bool.not_eq_true', Bool.and_eq_false_iff, decide_eq_false_iff_not, beq_eq_false_iff_ne,
    ne_eq, and_assoc]
  constructor
  · rintro ⟨a, b, c⟩
    exact ⟨a, b, fun ⟨h1, h2⟩ => c.elim (fun h => h h1) (fun h => h h2)⟩
  · rintro ⟨a, b, c⟩
    refine ⟨a, b, ?_⟩
    by_cases h1 : Hk.hkGraceIdx s now = some j
    · exact Or.inr (fun h2 => c ⟨h1, h2⟩)
    · exact Or.inl h1

/-- Membership in `hkResets`, spelled out on the pre-state. -/
theorem mem_hkResets_iff (s : Sys F) (now j : Nat) :
    j ∈ hkResets s now ↔ ∃ l, s.links[j]? = some l ∧ l.isTimedOut now = true ∧
      l.shouldAttemptReconnect now = true ∧ ¬ (Hk.hkGraceIdx s now = some j ∧ l.established = 0) := by
  rw [mem_hkResets]
  constructor
  · rintro ⟨l, hl, hd⟩
    exact ⟨l, hl, (hkDue_iff s now j l).1 hd⟩
  · rintro ⟨l, hl, hd⟩
    exact ⟨l, hl, (hkDue_iff s now j l).2 hd⟩

/-- `hkDue` is "timed out and due" evaluated on the record as the per-link loop sees it (after the possible
grace re-arm of stage 1). -/
theorem hkDue_iff_view (s : Sys F) (now j : Nat) (l : FLink F) :
    hkDue s now j l = true ↔
      ((Hk.graceFix (Hk.hkGraceIdx s now) now j l).isTimedOut now = true ∧
       (Hk.graceFix (Hk.hkGraceIdx s now) now j l).shouldAttemptReconnect now = true) := by
  unfold hkDue
  rcases Hk.graceFix_cases (Hk.hkGraceIdx s now) now j l with e | ⟨hg, e⟩
  · rw [e]
    by_cases hgj : Hk.hkGraceIdx s now = some j
    · -- graceFix was the identity although `g = some j`: impossible unless the record already had that deadline
      unfold Hk.graceFix at e
      rw [if_pos hgj] at e
      by_cases he : l.established = 0
      · have hs := Hk.shouldAttempt_in_grace l now he
        rw [e] at hs
        simp [hs]
      · have : (l.established == 0) = false := by simpa using he
        simp [this]
    · simp [hgj]
  · rw [e]
    by_cases he : l.established = 0
    · rw [Hk.shouldAttempt_in_grace l now he]
      simp [hg, he]
    · rw [Hk.isTimedOut_grace l (now + Conn.STARTUP_GRACE_MS) now he,
        Hk.shouldAttempt_grace l (now + Conn.STARTUP_GRACE_MS) now he]
      have : (l.established == 0) = false := by simpa using he
      simp [this]


/-- **A due link is torn down**: the record after the tick is the reconnect attempt on the record the tick
started with (socket re-created: `reconnectLink`; refused: `failedLink`), up to a `last_sent` stamp. -/
theorem hk_due_link (s : Sys F) (now j : Nat) (l : FLink F) (hl : s.links[j]? = some l)
    (hd : hkDue s now j l = true) :
    ∃ t, (handleHousekeeping s now).1.links[j]? =
      some (Hk.withSent (Hk.attemptLink (Hk.hkFails s now j l.core.connId) l now) t) := by
  obtain ⟨hto, hsa, hg⟩ := (hkDue_iff s now j l).1 hd
  refine Hk.hk_attempts s now j l hl hto hsa ?_
  by_cases h1 : Hk.hkGraceIdx s now = some j
  · exact Or.inr (fun h2 => hg ⟨h1, h2⟩)
  · exact Or.inl h1

/-- **A link that is not due is not torn down**: it only `Evolves` (connected flag, registering-ness,
reconnection bookkeeping kept). -/
theorem hk_not_due_link (s : Sys F) (now j : Nat) (l : FLink F) (hl : s.links[j]? = some l)
    (hd : hkDue s now j l = false) :
    ∃ l', (handleHousekeeping s now).1.links[j]? = some l' ∧ Hk.Evolves s.reg.hasConnected none l l' := by
  obtain ⟨τ, h⟩ := Hk.hk_links s now
  rw [h, List.getElem?_mapIdx, hl]
  refine ⟨_, rfl, ?_⟩
  have hn : ¬ ((Hk.graceFix (Hk.hkGraceIdx s now) now j l).isTimedOut now = true ∧
      (Hk.graceFix (Hk.hkGraceIdx s now) now j l).shouldAttemptReconnect now = true) := by
    intro hv
    rw [(hkDue_iff_view s now j l).2 hv] at hd
    cases hd
  have hg : Hk.Evolves s.reg.hasConnected none l (Hk.graceFix (Hk.hkGraceIdx s now) now j l) := by
    rcases Hk.graceFix_cases (Hk.hkGraceIdx s now) now j l with e | ⟨-, e⟩ <;> rw [e]
    · exact Hk.Evolves.refl _ _ _
    · exact Hk.Evolves.of_soft rfl rfl rfl rfl rfl rfl
  dsimp only
  unfold Hk.hkLink
  split
  · rename_i hto
    split
    · rename_i hsa
      exact absurd ⟨hto, hsa⟩ hn
    · exact hg.trans (Hk.ev_withSent _ none _ _)
  · exact (hg.trans (Hk.ev_aliveLink _ none s.cfg.classic now _)).trans (Hk.ev_withSent _ none _ _)

/-! ## Windows of links that are not torn down -/

theorem updatePhase_window (l : FLink F) (now : Nat) : (l.updatePhase now).core.window = l.core.window := by
  unfold FLink.updatePhase
  dsimp only
  split
  · split <;> rfl
  · split <;> rfl
  · split <;> rfl
  · rfl

/-- The not-timed-out branch of housekeeping never lowers a window in `[1000, 60000]`, and in classic mode
leaves it alone. -/
theorem aliveLink_window (classic : Bool) (now : Nat) (l : FLink F)
    (h1 : 1000 ≤ l.core.window) (h2 : l.core.window ≤ 60000) :
    l.core.window ≤ (Hk.aliveLink classic now l).core.window ∧
    (classic = true → (Hk.aliveLink classic now l).core.window = l.core.window) := by
  unfold Hk.aliveLink
  dsimp only
  have e1 : (if l.needsKeepalive now then (l.keepalivePacket now).1 else l).core.window = l.core.window := by
    split <;> rfl
  generalize (if l.needsKeepalive now then (l.keepalivePacket now).1 else l) = l1 at e1 ⊢
  have e2 : (if l1.needsRttMeasurement now then (l1.keepalivePacket now).1 else l1).core.window = l1.core.window := by
    split <;> rfl
  generalize (if l1.needsRttMeasurement now then (l1.keepalivePacket now).1 else l1) = l2 at e2 ⊢
  have hw2 : l2.core.window = l.core.window := e2.trans e1
  have e3 : l2.core.window ≤ (if !classic then l2.performWindowRecovery now else l2).core.window ∧
      (classic = true → (if !classic then l2.performWindowRecovery now else l2).core.window = l2.core.window) := by
    cases classic
    · simp only [Bool.not_false, if_true]
      refine ⟨?_, fun h => by cases h⟩
      unfold FLink.performWindowRecovery
      dsimp only
      exact (Conn.recover_window _ _ _ _ now (by rw [hw2]; exact h1) (by rw [hw2]; exact h2)).2.2
    · simp only [Bool.not_true, Bool.false_eq_true, if_false]
      exact ⟨Int.le_refl _, fun _ => trivial⟩
  generalize (if !classic then l2.performWindowRecovery now else l2) = l3 at e3 ⊢
  have e4 := updatePhase_window ({ l3 with bitrate := l3.bitrate.calculate now } : FLink F) now
  have e5 : (({ l3 with bitrate := l3.bitrate.calculate now } : FLink F).updatePhase now).recomputeBatchRegime.core.window
      = l3.core.window := e4
  rw [e5, ← hw2]
  exact e3

/-- **A link that is not due keeps or raises its window** (`[1000, 60000]` assumed of the pre-state): it is not
lowered, and in classic mode it is untouched. -/
theorem hk_not_due_window (s : Sys F) (now j : Nat) (l : FLink F) (hl : s.links[j]? = some l)
    (hd : hkDue s now j l = false) (h1 : 1000 ≤ l.core.window) (h2 : l.core.window ≤ 60000) :
    ∃ l', (handleHousekeeping s now).1.links[j]? = some l' ∧ l.core.window ≤ l'.core.window ∧
      (s.cfg.classic = true → l'.core.window = l.core.window) := by
  obtain ⟨τ, h⟩ := Hk.hk_links s now
  rw [h, List.getElem?_mapIdx, hl]
  refine ⟨_, rfl, ?_⟩
  have hn : ¬ ((Hk.graceFix (Hk.hkGraceIdx s now) now j l).isTimedOut now = true ∧
      (Hk.graceFix (Hk.hkGraceIdx s now) now j l).shouldAttemptReconnect now = true) := by
    intro hv
    rw [(hkDue_iff_view s now j l).2 hv] at hd
    cases hd
  have hg : (Hk.graceFix (Hk.hkGraceIdx s now) now j l).core.window = l.core.window := by
    unfold Hk.graceFix; split <;> rfl
  dsimp only
  show l.core.window ≤ (Hk.hkLink s.cfg.classic now (Hk.hkP1 s now).1.pending (Hk.hkFails s now j l.core.connId) j
      (Hk.graceFix (Hk.hkGraceIdx s now) now j l)).core.window ∧
    (s.cfg.classic = true → (Hk.hkLink s.cfg.classic now (Hk.hkP1 s now).1.pending (Hk.hkFails s now j l.core.connId) j
      (Hk.graceFix (Hk.hkGraceIdx s now) now j l)).core.window = l.core.window)
  unfold Hk.hkLink
  split
  · rename_i hto
    split
    · rename_i hsa
      exact absurd ⟨hto, hsa⟩ hn
    · rw [hg]; exact ⟨Int.le_refl _, fun _ => rfl⟩
  · have := aliveLink_window s.cfg.classic now (Hk.graceFix (Hk.hkGraceIdx s now) now j l)
      (by rw [hg]; exact h1) (by rw [hg]; exact h2)
    rw [hg] at this
    exact this

end Srtla.Audit2B
