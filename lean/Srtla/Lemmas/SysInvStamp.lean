import Srtla.Lemmas.SysInv
import Srtla.Lemmas.SelGate
/-!
# Stamps never run ahead of the clock

`Stamped T l`: every time stamp stored in the link `l` — liveness stamps, delivery proof, RTT probe
bookkeeping, keepalive cadence clock, reconnect bookkeeping, batch flush time, quality-cache time,
stall-guard latch / dwell / heard-mark, congestion-control times, Warming entry time, the send times
in the packet log and the queue times in the batch queue — is `≤ T`.

`stamped_closed`: for `now ≤ T`, `Stamped T` survives every per-link operation at clock `now`; with
`step_all` (Lemmas/SysInv.lean) it is preserved by every event whose clock is `≤ T`.  Consequence
(`Props/SysLevel.lean`): along any run, every stamp is `≤` the largest clock value read so far, so under a
monotone clock every truncated subtraction `now - stamp` in the model is a true age.
(`graceDeadline` is a deadline, not a stamp, and is not covered.)  Scalar-generic.
-/
set_option linter.unusedSectionVars false

namespace Srtla.SysInv
open Srtla Srtla.Gen Srtla.Conn Srtla.Select Srtla.Rtt Srtla.Link Srtla.Sys Scalar

variable {F : Type} [Scalar F]

/-- An optional stamp is not ahead of `T`. -/
def OLe (o : Option Nat) (T : Nat) : Prop := ∀ t, o = some t → t ≤ T

@[simp] theorem OLe_none (T : Nat) : OLe none T := fun _ h => by cases h
@[simp] theorem OLe_some (t T : Nat) : OLe (some t) T ↔ t ≤ T :=
  ⟨fun h => h t rfl, fun h _ e => by cases e; exact h⟩

theorem ole_of {o o' : Option Nat} {now T : Nat} (h : o' = o ∨ o' = some now) (h0 : OLe o T) (hT : now ≤ T) :
    OLe o' T := by
  rcases h with h | h <;> rw [h]
  · exact h0
  · simpa using hT

theorem nle_of {n n' now T : Nat} (h : n' = n ∨ n' = now) (h0 : n ≤ T) (hT : now ≤ T) : n' ≤ T := by
  rcases h with h | h <;> rw [h] <;> assumption

theorem ite_le {p : Prop} [Decidable p] {a b T : Nat} (h1 : a ≤ T) (h2 : b ≤ T) : (if p then a else b) ≤ T := by
  split <;> assumption

theorem ite_snd_le {α : Type} {p : Prop} [Decidable p] {x y : α × Nat} {T : Nat} (h1 : x.2 ≤ T) (h2 : y.2 ≤ T) :
    (if p then x else y).2 ≤ T := by
  split <;> assumption

theorem OLe.mono {o : Option Nat} {T T' : Nat} (h : OLe o T) (hT : T ≤ T') : OLe o T' :=
  fun t ht => Nat.le_trans (h t ht) hT

/-- The four times kept by the congestion controller. -/
structure CongStamped (T : Nat) (c : Cong) : Prop where
  lastNak : c.lastNakMs ≤ T
  lastIncr : c.lastIncrMs ≤ T
  frStart : c.fastRecoveryStartMs ≤ T
  burstStart : c.nakBurstStartMs ≤ T

theorem congStamped_new (T : Nat) : CongStamped T {} := ⟨Nat.zero_le _, Nat.zero_le _, Nat.zero_le _, Nat.zero_le _⟩

/-- **Every stamp of the link is `≤ T`.** -/
structure Stamped (T : Nat) (l : FLink F) : Prop where
  lastSent : OLe l.core.lastSent T
  lastReceived : OLe l.core.lastReceived T
  proofMs : l.core.proofMs ≤ T
  rttMeas : l.core.lastRttMeasMs ≤ T
  log : ∀ it ∈ l.core.log, it.2 ≤ T
  cong : CongStamped T l.core.cong
  warming : ∀ p e, l.core.phase = .warming p e → e ≤ T
  lastKeepaliveSent : OLe l.lastKeepaliveSent T
  kaSentMs : l.rtt.lastKeepaliveSentMs ≤ T
  rttMeasT : l.rtt.lastRttMeasMs ≤ T
  lastAttempt : l.lastAttemptMs ≤ T
  established : l.established ≤ T
  flush : l.lastFlushMs ≤ T
  qualAt : l.qualAt ≤ T
  latched : l.latchedSince ≤ T
  recovery : l.recoverySince ≤ T
  pullMark : OLe l.pullMark T
  bitrateT : l.bitrate.lastUpdateMs ≤ T
  queue : ∀ it ∈ l.queue, it.2.2 ≤ T

theorem Stamped.mono {T T' : Nat} {l : FLink F} (h : Stamped T l) (hT : T ≤ T') : Stamped T' l where
  lastSent := h.lastSent.mono hT
  lastReceived := h.lastReceived.mono hT
  proofMs := Nat.le_trans h.proofMs hT
  rttMeas := Nat.le_trans h.rttMeas hT
  log := fun it hit => Nat.le_trans (h.log it hit) hT
  cong := ⟨Nat.le_trans h.cong.lastNak hT, Nat.le_trans h.cong.lastIncr hT, Nat.le_trans h.cong.frStart hT,
    Nat.le_trans h.cong.burstStart hT⟩
  warming := fun p e hp => Nat.le_trans (h.warming p e hp) hT
  lastKeepaliveSent := h.lastKeepaliveSent.mono hT
  kaSentMs := Nat.le_trans h.kaSentMs hT
  rttMeasT := Nat.le_trans h.rttMeasT hT
  lastAttempt := Nat.le_trans h.lastAttempt hT
  established := Nat.le_trans h.established hT
  flush := Nat.le_trans h.flush hT
  qualAt := Nat.le_trans h.qualAt hT
  latched := Nat.le_trans h.latched hT
  recovery := Nat.le_trans h.recovery hT
  pullMark := h.pullMark.mono hT
  bitrateT := Nat.le_trans h.bitrateT hT
  queue := fun it hit => Nat.le_trans (h.queue it hit) hT

/-- A fresh link (`new_registering(now)`) carries no stamp but the bitrate window start `now`. -/
theorem stamped_new (connId now T : Nat) (hT : now ≤ T) : Stamped T (FLink.newRegistering connId now : FLink F) where
  lastSent := OLe_none T
  lastReceived := OLe_none T
  proofMs := Nat.zero_le _
  rttMeas := Nat.zero_le _
  log := fun it hit => by cases hit
  cong := congStamped_new T
  warming := fun p e hp => by cases hp
  lastKeepaliveSent := OLe_none T
  kaSentMs := Nat.zero_le _
  rttMeasT := Nat.zero_le _
  lastAttempt := Nat.zero_le _
  established := Nat.zero_le _
  flush := Nat.zero_le _
  qualAt := Nat.zero_le _
  latched := Nat.zero_le _
  recovery := Nat.zero_le _
  pullMark := OLe_none T
  bitrateT := hT
  queue := fun it hit => by cases hit

/-- A link freshly constructed by a reload at clock `now`. -/
theorem stamped_newUplink (connId addr now T : Nat) (hT : now ≤ T) :
    Stamped T (FLink.newUplink connId addr now : FLink F) where
  lastSent := OLe_none T
  lastReceived := OLe_none T
  proofMs := Nat.zero_le _
  rttMeas := Nat.zero_le _
  log := fun it hit => by cases hit
  cong := congStamped_new T
  warming := fun p e hp => by cases hp
  lastKeepaliveSent := OLe_none T
  kaSentMs := Nat.zero_le _
  rttMeasT := Nat.zero_le _
  lastAttempt := Nat.zero_le _
  established := Nat.zero_le _
  flush := Nat.zero_le _
  qualAt := Nat.zero_le _
  latched := Nat.zero_le _
  recovery := Nat.zero_le _
  pullMark := OLe_none T
  bitrateT := hT
  queue := fun it hit => by cases hit

section ops
variable {now T : Nat}

theorem stamped_soft (hT : now ≤ T) (l l' : FLink F) (hs : Soft now l l') (h : Stamped T l) : Stamped T l' where
  lastSent := ole_of hs.lastSent h.lastSent hT
  lastReceived := ole_of hs.lastReceived h.lastReceived hT
  proofMs := nle_of hs.proofMs h.proofMs hT
  rttMeas := by rw [hs.rttMeas]; exact h.rttMeas
  log := by rw [hs.log]; exact h.log
  cong := by rw [hs.cong]; exact h.cong
  warming := fun p e hp => by
    obtain ⟨p', hp'⟩ := hs.warming p e hp
    exact h.warming p' e hp'
  lastKeepaliveSent := ole_of hs.lastKeepaliveSent h.lastKeepaliveSent hT
  kaSentMs := nle_of hs.kaSentMs h.kaSentMs hT
  rttMeasT := nle_of hs.rttMeasT h.rttMeasT hT
  lastAttempt := nle_of hs.lastAttempt h.lastAttempt hT
  established := nle_of hs.established h.established hT
  flush := by rw [hs.flush]; exact h.flush
  qualAt := by rw [hs.qualAt]; exact h.qualAt
  latched := by rw [hs.latched]; exact h.latched
  recovery := by rw [hs.recovery]; exact h.recovery
  pullMark := by rw [hs.pullMark]; exact h.pullMark
  bitrateT := nle_of hs.bitrateT h.bitrateT hT
  queue := by rw [hs.queue]; exact h.queue

theorem stamped_queue (hT : now ≤ T) (l : FLink F) (pkt : Link.Bytes) (seq : Option Nat) (h : Stamped T l) :
    Stamped T (l.queueDataPacket pkt seq now).1 :=
  { h with
    bitrateT := h.bitrateT
    queue := fun it hit => by
      have : it ∈ l.queue ++ [(pkt, seq, now)] := hit
      rcases List.mem_append.1 this with hm | hm
      · exact h.queue it hm
      · have : it = (pkt, seq, now) := by simpa using hm
        subst this
        exact hT }

/-- `register_packet` leaves every stamp of the core alone and logs the packet's queue time. -/
theorem regFold_stamps (c : Conn) (it : QItem) :
    (Hk.regFold c it).lastSent = c.lastSent ∧ (Hk.regFold c it).lastReceived = c.lastReceived ∧
    (Hk.regFold c it).proofMs = c.proofMs ∧ (Hk.regFold c it).lastRttMeasMs = c.lastRttMeasMs ∧
    (Hk.regFold c it).cong = c.cong ∧ (Hk.regFold c it).phase = c.phase ∧
    ((∀ e ∈ c.log, e.2 ≤ T) → it.2.2 ≤ T → ∀ e ∈ (Hk.regFold c it).log, e.2 ≤ T) := by
  unfold Hk.regFold
  split
  · refine ⟨rfl, rfl, rfl, rfl, rfl, rfl, ?_⟩
    intro hlog hit e he
    have he' : e ∈ logInsert c.log _ it.2.2 := he
    unfold logInsert at he'
    split at he'
    · obtain ⟨x, hx, rfl⟩ := List.mem_map.1 he'
      split
      · exact hit
      · exact hlog x hx
    · rcases List.mem_append.1 he' with hm | hm
      · exact hlog e hm
      · rw [List.mem_singleton.1 hm]; exact hit
  · exact ⟨rfl, rfl, rfl, rfl, rfl, rfl, fun hlog _ => hlog⟩

theorem foldl_regFold_stamps (q : List QItem) (c : Conn) :
    (q.foldl Hk.regFold c).lastSent = c.lastSent ∧ (q.foldl Hk.regFold c).lastReceived = c.lastReceived ∧
    (q.foldl Hk.regFold c).proofMs = c.proofMs ∧ (q.foldl Hk.regFold c).lastRttMeasMs = c.lastRttMeasMs ∧
    (q.foldl Hk.regFold c).cong = c.cong ∧ (q.foldl Hk.regFold c).phase = c.phase ∧
    ((∀ e ∈ c.log, e.2 ≤ T) → (∀ it ∈ q, it.2.2 ≤ T) → ∀ e ∈ (q.foldl Hk.regFold c).log, e.2 ≤ T) := by
  induction q generalizing c with
  | nil => exact ⟨rfl, rfl, rfl, rfl, rfl, rfl, fun h _ => h⟩
  | cons it q ih =>
    simp only [List.foldl_cons]
    obtain ⟨a1, a2, a3, a4, a5, a6, a7⟩ := ih (Hk.regFold c it)
    obtain ⟨b1, b2, b3, b4, b5, b6, b7⟩ := regFold_stamps (T := T) c it
    refine ⟨a1.trans b1, a2.trans b2, a3.trans b3, a4.trans b4, a5.trans b5, a6.trans b6, ?_⟩
    intro hlog hq
    exact a7 (b7 hlog (hq it List.mem_cons_self)) (fun x hx => hq x (List.mem_cons_of_mem _ hx))

theorem stamped_take (hT : now ≤ T) (l : FLink F) (h : Stamped T l) : Stamped T (l.takeBatch now).1 := by
  rw [Hk.takeBatch_eq]
  split
  · exact { h with flush := hT }
  · obtain ⟨-, a2, a3, a4, a5, a6, a7⟩ := foldl_regFold_stamps (T := T) l.queue l.core
    exact
      { h with
        lastSent := by simpa using hT
        lastReceived := by show OLe (l.queue.foldl Hk.regFold l.core).lastReceived T; rw [a2]; exact h.lastReceived
        proofMs := by show (l.queue.foldl Hk.regFold l.core).proofMs ≤ T; rw [a3]; exact h.proofMs
        rttMeas := by show (l.queue.foldl Hk.regFold l.core).lastRttMeasMs ≤ T; rw [a4]; exact h.rttMeas
        log := a7 h.log h.queue
        cong := by show CongStamped T (l.queue.foldl Hk.regFold l.core).cong; rw [a5]; exact h.cong
        warming := fun p e hp => by
          have hp' : (l.queue.foldl Hk.regFold l.core).phase = .warming p e := hp
          rw [a6] at hp'
          exact h.warming p e hp'
        flush := hT
        queue := fun it hit => by cases hit }

theorem stamped_mark (l : FLink F) (h : Stamped T l) : Stamped T l.markForRecovery :=
  { h with
    lastSent := h.lastSent
    lastReceived := OLe_none T
    proofMs := Nat.zero_le _
    rttMeas := h.rttMeas
    log := fun it hit => by cases hit
    cong := h.cong
    warming := fun p e hp => by cases hp
    lastKeepaliveSent := OLe_none T
    kaSentMs := Nat.zero_le _
    rttMeasT := h.rttMeasT
    flush := Nat.zero_le _
    latched := Nat.zero_le _
    recovery := Nat.zero_le _
    pullMark := OLe_none T
    queue := fun it hit => by cases hit }

theorem stamped_reconnect (hT : now ≤ T) (l : FLink F) (h : Stamped T l) : Stamped T (l.resetForReconnect now) :=
  { h with
    lastSent := h.lastSent
    lastReceived := OLe_none T
    proofMs := Nat.zero_le _
    rttMeas := Nat.zero_le _
    log := fun it hit => by cases hit
    cong := congStamped_new T
    warming := fun p e hp => by cases hp
    kaSentMs := Nat.zero_le _
    rttMeasT := Nat.zero_le _
    lastAttempt := hT
    flush := Nat.zero_le _
    latched := Nat.zero_le _
    recovery := Nat.zero_le _
    pullMark := OLe_none T
    bitrateT := hT
    queue := fun it hit => by cases hit }

theorem stamped_reg3 (hT : now ≤ T) (l : FLink F) (h : Stamped T l) : Stamped T (l.clearPreRegistration now) :=
  { h with
    lastSent := h.lastSent
    lastReceived := h.lastReceived
    proofMs := h.proofMs
    rttMeas := h.rttMeas
    log := fun it hit => by cases hit
    cong := congStamped_new T
    warming := fun p e hp => by cases hp; exact hT
    flush := Nat.zero_le _
    qualAt := Nat.zero_le _
    queue := fun it hit => by cases hit }

theorem clearBurst_stamped (c : Cong) (h : CongStamped T c) : CongStamped T (c.clearBurst now) := by
  unfold Cong.clearBurst
  split
  · exact ⟨h.lastNak, h.lastIncr, h.frStart, Nat.zero_le _⟩
  · exact h

theorem recover_stamped (hT : now ≤ T) (c : Cong) (w : Int) (conn v : Bool) (h : CongStamped T c) :
    CongStamped T (c.recover w conn v now).1 := by
  have h1 := clearBurst_stamped (now := now) c h
  unfold Cong.recover
  split
  · exact h
  · dsimp only
    split
    · exact ⟨h1.lastNak, hT, h1.frStart, h1.burstStart⟩
    · exact h1

theorem stamped_recover (hT : now ≤ T) (l : FLink F) (h : Stamped T l) : Stamped T (l.performWindowRecovery now) := by
  unfold FLink.performWindowRecovery
  dsimp only
  exact { h with cong := recover_stamped hT _ _ _ _ h.cong }

theorem mem_filter_log {log : List (Int × Nat)} {p : Int × Nat → Bool} (h : ∀ e ∈ log, e.2 ≤ T) :
    ∀ e ∈ log.filter p, e.2 ≤ T := fun e he => h e (List.mem_filter.1 he).1

theorem srtAck_stamps (hT : now ≤ T) (c : Conn) (a : Int) :
    (c.srtAck a now).1.lastSent = c.lastSent ∧ (c.srtAck a now).1.lastReceived = c.lastReceived ∧
    (c.srtAck a now).1.proofMs = c.proofMs ∧ (c.srtAck a now).1.cong = c.cong ∧
    (c.srtAck a now).1.phase = c.phase ∧
    (c.lastRttMeasMs ≤ T → (c.srtAck a now).1.lastRttMeasMs ≤ T) ∧
    ((∀ e ∈ c.log, e.2 ≤ T) → ∀ e ∈ (c.srtAck a now).1.log, e.2 ≤ T) := by
  unfold Conn.srtAck
  split
  · exact ⟨rfl, rfl, rfl, rfl, rfl, id, id⟩
  · dsimp only
    refine ⟨rfl, rfl, rfl, rfl, rfl, ?_, ?_⟩
    · intro h
      exact ite_le hT h
    · intro h
      split
      · exact mem_filter_log h
      · exact mem_filter_log h

theorem stamped_srtAck (hT : now ≤ T) (l : FLink F) (a : Int) (h : Stamped T l) : Stamped T (l.srtAck a now) := by
  obtain ⟨a1, a2, a3, a4, a5, a6, a7⟩ := srtAck_stamps hT l.core a
  have hcore : Stamped T { l with core := (l.core.srtAck a now).1 } :=
    { h with
      lastSent := by show OLe (l.core.srtAck a now).1.lastSent T; rw [a1]; exact h.lastSent
      lastReceived := by show OLe (l.core.srtAck a now).1.lastReceived T; rw [a2]; exact h.lastReceived
      proofMs := by show (l.core.srtAck a now).1.proofMs ≤ T; rw [a3]; exact h.proofMs
      rttMeas := a6 h.rttMeas
      log := a7 h.log
      cong := by show CongStamped T (l.core.srtAck a now).1.cong; rw [a4]; exact h.cong
      warming := fun p e hp => by
        have hp' : (l.core.srtAck a now).1.phase = .warming p e := hp
        rw [a5] at hp'
        exact h.warming p e hp' }
  unfold FLink.srtAck
  dsimp only
  split
  · exact { hcore with
      kaSentMs := by
        show (l.rtt.updateEstimate _ now).lastKeepaliveSentMs ≤ T
        rw [(updateEstimate_stamps _ _ _).1]; exact h.kaSentMs
      rttMeasT := by
        show (l.rtt.updateEstimate _ now).lastRttMeasMs ≤ T
        rw [(updateEstimate_stamps _ _ _).2]; exact hT }
  · exact hcore

theorem srtlaAck_stamps (hT : now ≤ T) (c : Conn) (seq : Int) (cl : Bool) :
    (c.srtlaAck seq cl now).1.lastSent = c.lastSent ∧ (c.srtlaAck seq cl now).1.lastReceived = c.lastReceived ∧
    (c.srtlaAck seq cl now).1.lastRttMeasMs = c.lastRttMeasMs ∧ (c.srtlaAck seq cl now).1.phase = c.phase ∧
    (c.proofMs ≤ T → (c.srtlaAck seq cl now).1.proofMs ≤ T) ∧
    (CongStamped T c.cong → CongStamped T (c.srtlaAck seq cl now).1.cong) ∧
    ((∀ e ∈ c.log, e.2 ≤ T) → ∀ e ∈ (c.srtlaAck seq cl now).1.log, e.2 ≤ T) := by
  unfold Conn.srtlaAck
  split
  · dsimp only
    split
    · exact ⟨rfl, rfl, rfl, rfl, fun _ => hT, id, fun h => mem_filter_log h⟩
    · refine ⟨rfl, rfl, rfl, rfl, fun _ => hT, ?_, fun h => mem_filter_log h⟩
      intro h
      exact ⟨h.lastNak, h.lastIncr, h.frStart, h.burstStart⟩
  · exact ⟨rfl, rfl, rfl, rfl, id, id, id⟩

theorem stamped_sack (hT : now ≤ T) (l : FLink F) (seq : Int) (cl : Bool) (h : Stamped T l) :
    Stamped T { l with core := (l.core.srtlaAck seq cl now).1 } := by
  obtain ⟨a1, a2, a3, a4, a5, a6, a7⟩ := srtlaAck_stamps hT l.core seq cl
  exact
    { h with
      lastSent := by show OLe (l.core.srtlaAck seq cl now).1.lastSent T; rw [a1]; exact h.lastSent
      lastReceived := by show OLe (l.core.srtlaAck seq cl now).1.lastReceived T; rw [a2]; exact h.lastReceived
      proofMs := a5 h.proofMs
      rttMeas := by show (l.core.srtlaAck seq cl now).1.lastRttMeasMs ≤ T; rw [a3]; exact h.rttMeas
      log := a7 h.log
      cong := a6 h.cong
      warming := fun p e hp => by
        have hp' : (l.core.srtlaAck seq cl now).1.phase = .warming p e := hp
        rw [a4] at hp'
        exact h.warming p e hp' }

theorem stamped_gack (l : FLink F) (h : Stamped T l) : Stamped T { l with core := l.core.ackGlobal } := by
  have e : l.core.ackGlobal = l.core ∨ l.core.ackGlobal = { l.core with window := min (l.core.window + 1) WINDOW_CEIL } := by
    unfold Conn.ackGlobal
    split
    · exact .inr rfl
    · exact .inl rfl
  rcases e with e | e <;> rw [e]
  · exact h
  · exact { h with lastSent := h.lastSent }

theorem handleNak_stamped (hT : now ≤ T) (c : Cong) (w : Int) (h : CongStamped T c) :
    CongStamped T (c.handleNak w now).1 := by
  unfold Cong.handleNak
  dsimp only
  exact ⟨hT, h.lastIncr, ite_le hT h.frStart, ite_snd_le (ite_snd_le h.lastNak h.burstStart) (Nat.zero_le _)⟩

theorem nak_stamps (hT : now ≤ T) (c : Conn) (seq : Int) :
    (c.nak seq now).1.lastSent = c.lastSent ∧ (c.nak seq now).1.lastReceived = c.lastReceived ∧
    (c.nak seq now).1.lastRttMeasMs = c.lastRttMeasMs ∧ (c.nak seq now).1.phase = c.phase ∧
    (c.nak seq now).1.proofMs = c.proofMs ∧
    (CongStamped T c.cong → CongStamped T (c.nak seq now).1.cong) ∧
    ((∀ e ∈ c.log, e.2 ≤ T) → ∀ e ∈ (c.nak seq now).1.log, e.2 ≤ T) := by
  unfold Conn.nak
  split
  · exact ⟨rfl, rfl, rfl, rfl, rfl, fun h => handleNak_stamped hT c.cong c.window h, fun h => mem_filter_log h⟩
  · exact ⟨rfl, rfl, rfl, rfl, rfl, id, id⟩

theorem stamped_nak (hT : now ≤ T) (l : FLink F) (seq : Int) (h : Stamped T l) :
    Stamped T { l with core := (l.core.nak seq now).1 } := by
  obtain ⟨a1, a2, a3, a4, a5, a6, a7⟩ := nak_stamps hT l.core seq
  exact
    { h with
      lastSent := by show OLe (l.core.nak seq now).1.lastSent T; rw [a1]; exact h.lastSent
      lastReceived := by show OLe (l.core.nak seq now).1.lastReceived T; rw [a2]; exact h.lastReceived
      proofMs := by show (l.core.nak seq now).1.proofMs ≤ T; rw [a5]; exact h.proofMs
      rttMeas := by show (l.core.nak seq now).1.lastRttMeasMs ≤ T; rw [a3]; exact h.rttMeas
      log := a7 h.log
      cong := a6 h.cong
      warming := fun p e hp => by
        have hp' : (l.core.nak seq now).1.phase = .warming p e := hp
        rw [a4] at hp'
        exact h.warming p e hp' }

/-! ### The selection pass: latch / dwell stamps, the heard-mark, the quality-cache time -/

/-- The stamps a selection pass reads or writes, on the selection view. -/
structure SStamped (T : Nat) (c : SLink F) : Prop where
  lastReceived : OLe c.lastReceived T
  latched : c.latchedSince ≤ T
  recovery : c.recoverySince ≤ T
  pullMark : OLe c.pullMark T
  qualAt : c.qualAt ≤ T

theorem sstamped_pull (c : SLink F) (m : Int) (ce : Nat) (h : SStamped T c) :
    SStamped T (updateSilencePull c now m ce) := by
  unfold updateSilencePull
  dsimp only
  repeat' split
  all_goals first
    | exact h
    | exact ⟨h.lastReceived, h.latched, h.recovery, h.lastReceived, h.qualAt⟩
    | exact ⟨h.lastReceived, h.latched, h.recovery, h.pullMark, h.qualAt⟩

theorem sstamped_latch (hT : now ≤ T) (c : SLink F) (m : Int) (ce : Nat) (h : SStamped T c) :
    SStamped T (updateStallLatch c now m ce) := by
  unfold updateStallLatch
  dsimp only
  repeat' split
  all_goals first
    | exact h
    | exact ⟨h.lastReceived, hT, Nat.zero_le _, h.pullMark, h.qualAt⟩
    | exact ⟨h.lastReceived, h.latched, Nat.zero_le _, h.pullMark, h.qualAt⟩
    | exact ⟨h.lastReceived, Nat.zero_le _, Nat.zero_le _, h.pullMark, h.qualAt⟩
    | exact ⟨h.lastReceived, h.latched, hT, h.pullMark, h.qualAt⟩
    | exact ⟨h.lastReceived, h.latched, h.recovery, h.pullMark, h.qualAt⟩

theorem sstamped_gstep (hT : now ≤ T) (cfg : Select.Cfg) (c : SLink F) (h : SStamped T c) :
    SStamped T (SelLemmas.gstep now cfg c) := by
  unfold SelLemmas.gstep
  apply sstamped_latch hT
  apply sstamped_pull
  exact ⟨h.lastReceived, h.latched, h.recovery, h.pullMark, h.qualAt⟩

theorem sstamped_gate (hT : now ≤ T) (ls : List (SLink F)) (cfg : Select.Cfg) (h : ∀ c ∈ ls, SStamped T c) :
    ∀ x ∈ applyStallGate ls now cfg, SStamped T x := by
  intro x hx
  cases hd : cfg.stallDeselect
  · rw [SelLemmas.gate_off ls now cfg hd] at hx
    obtain ⟨c, hc, rfl⟩ := List.mem_map.1 hx
    have := h c hc
    exact ⟨this.lastReceived, Nat.zero_le _, Nat.zero_le _, this.pullMark, this.qualAt⟩
  · rw [SelLemmas.gate_on ls now cfg hd] at hx
    obtain ⟨y, hy, rfl⟩ := List.mem_map.1 hx
    obtain ⟨c, hc, rfl⟩ := List.mem_map.1 hy
    have := sstamped_gstep hT cfg c (h c hc)
    exact ⟨this.lastReceived, this.latched, this.recovery, this.pullMark, this.qualAt⟩

theorem sstamped_enhStep (hT : now ≤ T) (q a : Bool) (c : SLink F) (h : SStamped T c) :
    SStamped T (enhStep now q a c) := by
  unfold enhStep
  split
  · exact h
  · unfold enhScore
    dsimp only
    split
    · exact h
    · unfold cachedQuality
      split
      · exact ⟨h.lastReceived, h.latched, h.recovery, h.pullMark, hT⟩
      · exact h

theorem sstamped_selectIdx (hT : now ≤ T) (ls : List (SLink F)) (last : Option Nat) (cfg : Select.Cfg)
    (h : ∀ c ∈ ls, SStamped T c) : ∀ x ∈ (selectIdx ls last now cfg).1, SStamped T x := by
  intro x hx
  have hg := sstamped_gate hT ls cfg h
  unfold selectIdx at hx
  dsimp only at hx
  split at hx
  · exact hg x hx
  · rw [Select.enhancedSelect_fst] at hx
    obtain ⟨y, hy, rfl⟩ := List.mem_map.1 hx
    exact sstamped_enhStep hT _ _ y (hg y hy)

theorem stamped_toSLink (l : FLink F) (h : Stamped T l) : SStamped T l.toSLink :=
  ⟨h.lastReceived, h.latched, h.recovery, h.pullMark, h.qualAt⟩

theorem stamped_absorb (l : FLink F) (x : SLink F) (h : Stamped T l) (hx : SStamped T x) : Stamped T (l.absorb x) :=
  { h with
    qualAt := hx.qualAt
    latched := hx.latched
    recovery := hx.recovery
    pullMark := hx.pullMark }

/-- **`Stamped T` survives every per-link operation performed at a clock `now ≤ T`.** -/
theorem stamped_closed (hT : now ≤ T) (arm : Arm) (classic : Bool) :
    Closed now arm classic (Stamped (F := F) T) where
  soft := stamped_soft hT
  queue := fun _ l pkt seq _ h => stamped_queue hT l pkt seq h
  take := fun _ => stamped_take hT
  mark := fun _ => stamped_mark
  reconnect := fun _ => stamped_reconnect hT
  reg3 := fun _ => stamped_reg3 hT
  recover := fun _ _ => stamped_recover hT
  srtAck := fun _ l a h => stamped_srtAck hT l a h
  sack := fun _ l seq h => stamped_sack hT l seq classic h
  gack := fun _ => stamped_gack
  nak := fun _ l seq h => stamped_nak hT l seq h
  select := fun _ ls last cfg h p hp => by
    obtain ⟨hp1, hp2⟩ := List.of_mem_zip hp
    refine stamped_absorb p.1 p.2 (h p.1 hp1) ?_
    refine sstamped_selectIdx hT _ last cfg ?_ p.2 hp2
    intro c hc
    obtain ⟨l, hl, rfl⟩ := List.mem_map.1 hc
    exact stamped_toSLink l (h l hl)
  fresh := fun _ id a => stamped_newUplink id a now T hT

end ops

/-- **One event whose clock is `≤ T` keeps every stamp `≤ T`** (every event constructor, `Ev.reload` included — its
new links are stamped with the reload's clock, `stamped_newUplink`; the configuration / injection events
`setCfg`, `crit`, `failNext`, `failBind` carry no clock and touch no link, `stamp` and `syncTimeout` carry no clock
and write no stamp). -/
theorem stamped_step (T : Nat) (s : Sys F) (e : Ev) (hT : evNow e ≤ T) (h : All (Stamped T) s.links) :
    All (Stamped T) (step s e).1.links :=
  step_all s e (fun _ _ => stamped_closed hT _ _) h

end Srtla.SysInv
