import Srtla.Model.Stall
/-!
# Stall latch and silence pull: case analysis and one-step lemmas (C13)

Everything is integer / Boolean logic; the scalar type `F` of `SLink F` is never inspected.
The central lemmas are `latch_cases` and `pull_cases`: complete, mutually exclusive
descriptions of what `updateStallLatch` / `updateSilencePull` do, in terms of propositions.
-/
namespace Srtla.StallLatch
open Srtla.Gen Srtla.Select Srtla

variable {F : Type}

/-- The five literal constants of the guard. -/
theorem consts :
    Cfg.STALL_STALE_RTT_MULT = 4 ∧ Cfg.STALL_STALE_FLOOR_MS = 1000 ∧
    Cfg.STALL_REJOIN_DWELL_MULT = 2 ∧ Cfg.SILENCE_PULL_FLOOR_MS = 250 ∧
    Cfg.SILENCE_PULL_RTT_MULT = 2 := ⟨rfl, rfl, rfl, rfl, rfl⟩

/-! ## Windows -/

theorem effStale_eq (c : SLink F) (ceil : Nat) :
    effStale c ceil = if c.srttPos = false then ceil else min (max (4 * c.srttTrunc) 1000) ceil := by
  obtain ⟨h4, h1000, -, -, -⟩ := consts
  unfold effStale
  cases c.srttPos <;> simp only [Bool.not_false, Bool.not_true, if_true] <;> simp <;> omega

theorem pullWindow_eq (c : SLink F) (ceil : Nat) :
    pullWindow c ceil =
      min (if c.srttPos = false then 250 else max (2 * c.srttTrunc) 250) (effStale c ceil) := by
  obtain ⟨-, -, -, h250, h2⟩ := consts
  unfold pullWindow
  cases c.srttPos <;> simp <;> omega

theorem effStale_le_ceil (c : SLink F) (ceil : Nat) : effStale c ceil ≤ ceil := by
  rw [effStale_eq]; split <;> omega

theorem effStale_pos_iff (c : SLink F) (ceil : Nat) : 0 < effStale c ceil ↔ 0 < ceil := by
  rw [effStale_eq]; split <;> omega

/-- Delivery proof is *fresh* at `now`: some proof exists and it is younger than the window. -/
def Fresh (c : SLink F) (now ceil : Nat) : Prop :=
  c.proofMs ≠ 0 ∧ now - c.proofMs < effStale c ceil

instance (c : SLink F) (now ceil : Nat) : Decidable (Fresh c now ceil) := by
  unfold Fresh; infer_instance

/-- Delivery proof is *fully stale* at `now`. -/
def Stale (c : SLink F) (now ceil : Nat) : Prop :=
  c.proofMs ≠ 0 ∧ now - c.proofMs ≥ effStale c ceil

/-- The latch trigger: loaded (or held by the silence pull) with fully stale proof. -/
def Trigger (c : SLink F) (now : Nat) (minInf : Int) (ceil : Nat) : Prop :=
  ((c.connected = true ∧ c.inFlight ≥ minInf) ∨ c.silencePulled = true) ∧ Stale c now ceil

theorem fresh_not_stale {c : SLink F} {now ceil : Nat} (h : Fresh c now ceil) : ¬ Stale c now ceil := by
  unfold Fresh Stale at *; omega

theorem fresh_window_pos {c : SLink F} {now ceil : Nat} (h : Fresh c now ceil) : 0 < effStale c ceil := by
  unfold Fresh at h; omega

/-- Start of the recovery run as seen by a pass at `now`. -/
def runStart (c : SLink F) (now : Nat) : Nat := if c.recoverySince = 0 then now else c.recoverySince

/-! ## Complete case analysis of `updateStallLatch` -/

theorem latch_cases (c : SLink F) (now : Nat) (minInf : Int) (ceil : Nat) :
    let c' := updateStallLatch c now minInf ceil
    (Trigger c now minInf ceil ∧ c.latchedSince = 0 ∧
        c' = { c with latchedSince := now, gateEvents := c.gateEvents + 1, recoverySince := 0 }) ∨
    (Trigger c now minInf ceil ∧ c.latchedSince ≠ 0 ∧ c' = { c with recoverySince := 0 }) ∨
    (¬ Trigger c now minInf ceil ∧ c.latchedSince = 0 ∧ c' = c) ∨
    (¬ Trigger c now minInf ceil ∧ c.latchedSince ≠ 0 ∧ ¬ Fresh c now ceil ∧
        c' = { c with recoverySince := 0 }) ∨
    (¬ Trigger c now minInf ceil ∧ c.latchedSince ≠ 0 ∧ Fresh c now ceil ∧
        now - runStart c now ≥ 2 * effStale c ceil ∧
        c' = { c with latchedSince := 0, recoverySince := 0 }) ∨
    (¬ Trigger c now minInf ceil ∧ c.latchedSince ≠ 0 ∧ Fresh c now ceil ∧
        now - runStart c now < 2 * effStale c ceil ∧
        c' = { c with recoverySince := runStart c now }) := by
  obtain ⟨-, -, h2, -, -⟩ := consts
  have htrig : (isStalled c now minInf ceil ||
      (c.silencePulled && (decide (c.proofMs ≠ 0) && decide (now - c.proofMs ≥ effStale c ceil)))) = true
      ↔ Trigger c now minInf ceil := by
    unfold isStalled Trigger Stale
    simp only [Bool.or_eq_true, Bool.and_eq_true, decide_eq_true_eq]
    constructor
    · rintro (⟨⟨⟨a, b⟩, c⟩, d⟩ | ⟨a, b, c⟩)
      · exact ⟨Or.inl ⟨a, b⟩, c, d⟩
      · exact ⟨Or.inr a, b, c⟩
    · rintro ⟨(⟨a, b⟩ | a), c, d⟩
      · exact Or.inl ⟨⟨⟨a, b⟩, c⟩, d⟩
      · exact Or.inr ⟨a, c, d⟩
  intro c'
  show _ ∨ _
  simp only [c']
  unfold updateStallLatch
  simp only []
  by_cases ht : Trigger c now minInf ceil
  · rw [if_pos (htrig.mpr ht)]
    by_cases hl : c.latchedSince = 0
    · left; refine ⟨ht, hl, ?_⟩; simp [hl]
    · right; left; refine ⟨ht, hl, ?_⟩; simp [hl]
  · rw [if_neg (fun h => ht (htrig.mp h))]
    by_cases hl : c.latchedSince = 0
    · right; right; left; refine ⟨ht, hl, ?_⟩; simp [hl]
    · have hl' : (c.latchedSince == 0) = false := by simp [hl]
      rw [if_neg (by simp [hl])]
      by_cases hf : Fresh c now ceil
      · have hf' : (decide (c.proofMs ≠ 0) && decide (now - c.proofMs < effStale c ceil)) = true := by
          unfold Fresh at hf; simp [hf.1, hf.2]
        rw [hf']
        simp only [Bool.not_true, Bool.false_eq_true, if_false]
        have hrs : (if (c.recoverySince == 0) = true then now else c.recoverySince) = runStart c now := by
          unfold runStart; by_cases h0 : c.recoverySince = 0 <;> simp [h0]
        rw [hrs, h2]
        by_cases hd : now - runStart c now ≥ 2 * effStale c ceil
        · right; right; right; right; left
          refine ⟨ht, hl, hf, hd, ?_⟩
          rw [if_pos (by omega)]
        · right; right; right; right; right
          refine ⟨ht, hl, hf, by omega, ?_⟩
          rw [if_neg (by omega)]
      · have hf' : (decide (c.proofMs ≠ 0) && decide (now - c.proofMs < effStale c ceil)) = false := by
          unfold Fresh at hf
          by_cases hp : c.proofMs = 0
          · simp [hp]
          · have : ¬ (now - c.proofMs < effStale c ceil) := fun h => hf ⟨hp, h⟩
            simp [this]
        rw [hf']
        right; right; right; left
        exact ⟨ht, hl, hf, by simp⟩

/-! ## Complete case analysis of `updateSilencePull` -/

/-- Loaded and totally silent for a pull window (`is_briefly_silent`). -/
def Silent (c : SLink F) (now : Nat) (minInf : Int) (ceil : Nat) : Prop :=
  c.connected = true ∧ c.inFlight ≥ minInf ∧
    ∃ lr, c.lastReceived = some lr ∧ now - lr ≥ pullWindow c ceil

/-- The link spoke: `last_received` differs from the mark taken at engage, and is recent. -/
def Spoke (c : SLink F) (now ceil : Nat) : Prop :=
  c.lastReceived ≠ c.pullMark ∧ ∃ lr, c.lastReceived = some lr ∧ now - lr < pullWindow c ceil

theorem brieflySilent_iff (c : SLink F) (now : Nat) (minInf : Int) (ceil : Nat) :
    brieflySilent c now minInf ceil = true ↔ Silent c now minInf ceil := by
  unfold brieflySilent Silent
  by_cases hg : (!c.connected || decide (c.inFlight < minInf)) = true
  · rw [if_pos hg]
    simp only [Bool.or_eq_true, Bool.not_eq_true', decide_eq_true_eq] at hg
    constructor
    · intro h; cases h
    · rintro ⟨h1, h2, -⟩
      rcases hg with hg | hg
      · rw [h1] at hg; cases hg
      · omega
  · rw [if_neg hg]
    simp only [Bool.or_eq_true, Bool.not_eq_true', decide_eq_true_eq, not_or, Bool.not_eq_false,
      Int.not_lt] at hg
    cases hlr : c.lastReceived with
    | none =>
      constructor
      · intro h; cases h
      · rintro ⟨-, -, lr, h, -⟩; cases h
    | some lr =>
      simp only [decide_eq_true_eq]
      constructor
      · intro h; exact ⟨hg.1, hg.2, lr, rfl, h⟩
      · rintro ⟨-, -, lr', h, h'⟩
        cases h; exact h'

theorem pull_cases (c : SLink F) (now : Nat) (minInf : Int) (ceil : Nat) :
    let c' := updateSilencePull c now minInf ceil
    (Silent c now minInf ceil ∧ c.silencePulled = false ∧
        c' = { c with silencePulls := c.silencePulls + 1, pullMark := c.lastReceived,
                      silencePulled := true }) ∨
    (Silent c now minInf ceil ∧ c.silencePulled = true ∧ c' = c) ∨
    (¬ Silent c now minInf ceil ∧ c.silencePulled = false ∧ c' = c) ∨
    (¬ Silent c now minInf ceil ∧ c.silencePulled = true ∧
        (Spoke c now ceil ∨ c.connected = false) ∧ c' = { c with silencePulled := false }) ∨
    (¬ Silent c now minInf ceil ∧ c.silencePulled = true ∧
        ¬ Spoke c now ceil ∧ c.connected = true ∧ c' = c) := by
  intro c'
  show _ ∨ _
  simp only [c']
  unfold updateSilencePull
  simp only []
  have hspoke : (c.lastReceived != c.pullMark &&
      (match c.lastReceived with
        | some lr => decide (now - lr < pullWindow c ceil)
        | none => false)) = true ↔ Spoke c now ceil := by
    unfold Spoke
    cases hlr : c.lastReceived <;> simp
  by_cases hs : Silent c now minInf ceil
  · rw [if_pos ((brieflySilent_iff ..).mpr hs)]
    by_cases hp : c.silencePulled = true
    · right; left; refine ⟨hs, hp, ?_⟩
      rw [if_neg (by simp [hp])]
    · left
      have hp' : c.silencePulled = false := by simpa using hp
      refine ⟨hs, hp', ?_⟩
      rw [if_pos (by simp [hp'])]
  · rw [if_neg (fun h => hs ((brieflySilent_iff ..).mp h))]
    by_cases hp : c.silencePulled = true
    · rw [if_neg (by simp [hp])]
      by_cases hk : Spoke c now ceil
      · right; right; right; left
        refine ⟨hs, hp, Or.inl hk, ?_⟩
        rw [if_pos (by rw [Bool.or_eq_true]; exact Or.inl (hspoke.mpr hk))]
      · by_cases hc : c.connected = true
        · right; right; right; right
          refine ⟨hs, hp, hk, hc, ?_⟩
          rw [if_neg]
          intro h
          rw [Bool.or_eq_true] at h
          rcases h with h | h
          · exact hk (hspoke.mp h)
          · simp [hc] at h
        · right; right; right; left
          have hc' : c.connected = false := by simpa using hc
          refine ⟨hs, hp, Or.inr hc', ?_⟩
          rw [if_pos (by simp [hc'])]
    · right; right; left
      have hp' : c.silencePulled = false := by simpa using hp
      refine ⟨hs, hp', ?_⟩
      rw [if_pos (by simp [hp'])]

/-! ## `updateSilencePull` leaves everything the latch reads untouched -/

theorem usp_fields (c : SLink F) (now : Nat) (m : Int) (cl : Nat) :
    (updateSilencePull c now m cl).latchedSince = c.latchedSince ∧
    (updateSilencePull c now m cl).recoverySince = c.recoverySince ∧
    (updateSilencePull c now m cl).gateEvents = c.gateEvents ∧
    (updateSilencePull c now m cl).proofMs = c.proofMs ∧
    (updateSilencePull c now m cl).srttPos = c.srttPos ∧
    (updateSilencePull c now m cl).srttTrunc = c.srttTrunc ∧
    (updateSilencePull c now m cl).connected = c.connected ∧
    (updateSilencePull c now m cl).inFlight = c.inFlight ∧
    (updateSilencePull c now m cl).lastReceived = c.lastReceived := by
  rcases pull_cases c now m cl with ⟨-, -, h⟩ | ⟨-, -, h⟩ | ⟨-, -, h⟩ | ⟨-, -, -, h⟩ | ⟨-, -, -, -, h⟩ <;>
    (rw [h]; exact ⟨rfl, rfl, rfl, rfl, rfl, rfl, rfl, rfl, rfl⟩)

theorem effStale_congr {c d : SLink F} (h1 : d.srttPos = c.srttPos) (h2 : d.srttTrunc = c.srttTrunc)
    (cl : Nat) : effStale d cl = effStale c cl := by
  unfold effStale; rw [h1, h2]

theorem effStale_usp (c : SLink F) (now : Nat) (m : Int) (cl : Nat) (cl' : Nat) :
    effStale (updateSilencePull c now m cl) cl' = effStale c cl' :=
  effStale_congr (usp_fields c now m cl).2.2.2.2.1 (usp_fields c now m cl).2.2.2.2.2.1 cl'

theorem fresh_congr {c d : SLink F} (h0 : d.proofMs = c.proofMs) (h1 : d.srttPos = c.srttPos)
    (h2 : d.srttTrunc = c.srttTrunc) (now cl : Nat) : Fresh d now cl ↔ Fresh c now cl := by
  unfold Fresh; rw [h0, effStale_congr h1 h2]

theorem fresh_usp (c : SLink F) (now : Nat) (m : Int) (cl : Nat) (now' cl' : Nat) :
    Fresh (updateSilencePull c now m cl) now' cl' ↔ Fresh c now' cl' :=
  fresh_congr (usp_fields c now m cl).2.2.2.1 (usp_fields c now m cl).2.2.2.2.1
    (usp_fields c now m cl).2.2.2.2.2.1 now' cl'

/-- After `updateSilencePull` a pulled link is connected. -/
theorem usp_pulled_connected (c : SLink F) (now : Nat) (m : Int) (cl : Nat)
    (h : (updateSilencePull c now m cl).silencePulled = true) :
    (updateSilencePull c now m cl).connected = true := by
  rcases pull_cases c now m cl with ⟨hs, -, e⟩ | ⟨hs, -, e⟩ | ⟨-, hp, e⟩ | ⟨-, -, -, e⟩ | ⟨-, -, -, hc, e⟩
  · rw [e]; exact hs.1
  · rw [e]; exact hs.1
  · rw [e] at h; rw [hp] at h; cases h
  · rw [e] at h; cases h
  · rw [e]; exact hc

/-! ## Steps of one link's history -/

/-- One scheduling pass over one link with the guard on (`apply_stall_gate`, per link). -/
def sel (c : SLink F) (now : Nat) (minInf : Int) (ceil : Nat) : SLink F :=
  updateStallLatch (updateSilencePull c now minInf ceil) now minInf ceil

/-- One scheduling pass with the guard off. -/
def selOff (c : SLink F) : SLink F :=
  { c with stallGated := false, silencePulled := false, latchedSince := 0, recoverySince := 0 }

/-- `reset_core_state` (mod.rs 867-889), as far as `SLink` sees it. -/
def reset (c : SLink F) : SLink F :=
  { c with connected := false, window := Conn.WINDOW_INIT, inFlight := 0, phase := .registering,
           proofMs := 0, stallGated := false, latchedSince := 0, recoverySince := 0,
           probeCounter := 0, silencePulled := false, pullMark := none }

/-- Everything else that happens to a link between passes: all fields take the values of `e`,
except the six fields only the guard writes (`latchedSince, recoverySince, gateEvents,
silencePulled, pullMark, silencePulls`), which keep their values; the delivery-proof stamp either
keeps its value (`e.proofMs = 0`) or takes a non-zero value (the two writers stamp the clock). -/
def envStep (c e : SLink F) : SLink F :=
  { e with latchedSince := c.latchedSince, recoverySince := c.recoverySince,
           gateEvents := c.gateEvents, silencePulled := c.silencePulled, pullMark := c.pullMark,
           silencePulls := c.silencePulls,
           proofMs := if e.proofMs = 0 then c.proofMs else e.proofMs }

inductive Step (F : Type) where
  | sel (now : Nat) (minInf : Int) (ceil : Nat)
  | selOff
  | env (e : SLink F)
  | reset

def step (c : SLink F) : Step F → SLink F
  | .sel now m cl => sel c now m cl
  | .selOff => selOff c
  | .env e => envStep c e
  | .reset => reset c

/-- Chronological execution of a history. -/
def run (c : SLink F) (steps : List (Step F)) : SLink F := steps.foldl step c

@[simp] theorem run_nil (c : SLink F) : run c [] = c := rfl
theorem run_snoc (c : SLink F) (steps : List (Step F)) (st : Step F) :
    run c (steps ++ [st]) = step (run c steps) st := by
  simp [run, List.foldl_append]
theorem run_append (c : SLink F) (a b : List (Step F)) : run c (a ++ b) = run (run c a) b := by
  simp [run, List.foldl_append]

theorem snoc_induction {α : Type _} {P : List α → Prop} (nil : P [])
    (snoc : ∀ l a, P l → P (l ++ [a])) : ∀ l, P l := by
  intro l
  have : ∀ r : List α, P r.reverse := by
    intro r
    induction r with
    | nil => exact nil
    | cons a r ih => rw [List.reverse_cons]; exact snoc _ _ ih
  have h := this l.reverse
  rwa [List.reverse_reverse] at h

/-! ## One-step facts about `sel` -/

/-- What one pass does to the latch, in terms of the state *before* the pass (`c`); the trigger is
evaluated after the pull update of the same pass. -/
theorem sel_latch_cases (c : SLink F) (now : Nat) (m : Int) (cl : Nat) :
    let c1 := updateSilencePull c now m cl
    let c' := sel c now m cl
    (Trigger c1 now m cl ∧ c.latchedSince = 0 ∧
        c'.latchedSince = now ∧ c'.gateEvents = c.gateEvents + 1 ∧ c'.recoverySince = 0) ∨
    (Trigger c1 now m cl ∧ c.latchedSince ≠ 0 ∧ ¬ Fresh c now cl ∧
        c'.latchedSince = c.latchedSince ∧ c'.gateEvents = c.gateEvents ∧ c'.recoverySince = 0) ∨
    (c.latchedSince = 0 ∧
        c'.latchedSince = 0 ∧ c'.gateEvents = c.gateEvents ∧ c'.recoverySince = c.recoverySince) ∨
    (c.latchedSince ≠ 0 ∧ ¬ Fresh c now cl ∧
        c'.latchedSince = c.latchedSince ∧ c'.gateEvents = c.gateEvents ∧ c'.recoverySince = 0) ∨
    (c.latchedSince ≠ 0 ∧ Fresh c now cl ∧ now - runStart c now ≥ 2 * effStale c cl ∧
        c'.latchedSince = 0 ∧ c'.gateEvents = c.gateEvents ∧ c'.recoverySince = 0) ∨
    (c.latchedSince ≠ 0 ∧ Fresh c now cl ∧ now - runStart c now < 2 * effStale c cl ∧
        c'.latchedSince = c.latchedSince ∧ c'.gateEvents = c.gateEvents ∧
        c'.recoverySince = runStart c now) := by
  intro c1 c'
  obtain ⟨hL, hR, hG, -⟩ := usp_fields c now m cl
  have hF : Fresh c1 now cl ↔ Fresh c now cl := fresh_usp c now m cl now cl
  have hE : effStale c1 cl = effStale c cl := effStale_usp c now m cl cl
  have hRS : runStart c1 now = runStart c now := by unfold runStart; simp only [c1]; rw [hR]
  have hc' : c' = updateStallLatch c1 now m cl := rfl
  rcases latch_cases c1 now m cl with ⟨ht, hl, e⟩ | ⟨ht, hl, e⟩ | ⟨-, hl, e⟩ | ⟨-, hl, hf, e⟩ |
      ⟨-, hl, hf, hd, e⟩ | ⟨-, hl, hf, hd, e⟩
  · left; rw [hc', e]; exact ⟨ht, hL ▸ hl, rfl, by simp only [c1] at *; rw [← hG], rfl⟩
  · right; left; rw [hc', e]
    refine ⟨ht, hL ▸ hl, ?_, hL, hG, rfl⟩
    intro hfr; exact fresh_not_stale (hF.mpr hfr) ht.2
  · right; right; left; rw [hc', e]; exact ⟨hL ▸ hl, hL ▸ hl, hG, hR⟩
  · right; right; right; left; rw [hc', e]
    exact ⟨hL ▸ hl, fun h => hf (hF.mpr h), hL, hG, rfl⟩
  · right; right; right; right; left; rw [hc', e]
    exact ⟨hL ▸ hl, hF.mp hf, by rw [← hRS, ← hE]; exact hd, rfl, hG, rfl⟩
  · right; right; right; right; right; rw [hc', e]
    exact ⟨hL ▸ hl, hF.mp hf, by rw [← hRS, ← hE]; exact hd, hL, hG, hRS⟩

theorem usl_fields (c : SLink F) (now : Nat) (m : Int) (cl : Nat) :
    (updateStallLatch c now m cl).silencePulled = c.silencePulled ∧
    (updateStallLatch c now m cl).pullMark = c.pullMark ∧
    (updateStallLatch c now m cl).silencePulls = c.silencePulls ∧
    (updateStallLatch c now m cl).proofMs = c.proofMs ∧
    (updateStallLatch c now m cl).srttPos = c.srttPos ∧
    (updateStallLatch c now m cl).srttTrunc = c.srttTrunc ∧
    (updateStallLatch c now m cl).connected = c.connected ∧
    (updateStallLatch c now m cl).inFlight = c.inFlight ∧
    (updateStallLatch c now m cl).lastReceived = c.lastReceived := by
  rcases latch_cases c now m cl with ⟨-, -, h⟩ | ⟨-, -, h⟩ | ⟨-, -, h⟩ | ⟨-, -, -, h⟩ |
      ⟨-, -, -, -, h⟩ | ⟨-, -, -, -, h⟩ <;>
    (rw [h]; exact ⟨rfl, rfl, rfl, rfl, rfl, rfl, rfl, rfl, rfl⟩)

/-- A pass changes none of the inputs of the guard. -/
theorem sel_inputs (c : SLink F) (now : Nat) (m : Int) (cl : Nat) :
    (sel c now m cl).proofMs = c.proofMs ∧ (sel c now m cl).srttPos = c.srttPos ∧
    (sel c now m cl).srttTrunc = c.srttTrunc ∧ (sel c now m cl).connected = c.connected ∧
    (sel c now m cl).inFlight = c.inFlight ∧ (sel c now m cl).lastReceived = c.lastReceived := by
  obtain ⟨-, -, -, a1, a2, a3, a4, a5, a6⟩ := usp_fields c now m cl
  obtain ⟨-, -, -, b1, b2, b3, b4, b5, b6⟩ := usl_fields (updateSilencePull c now m cl) now m cl
  unfold sel
  exact ⟨b1.trans a1, b2.trans a2, b3.trans a3, b4.trans a4, b5.trans a5, b6.trans a6⟩

/-- The latch update of a pass does not touch the pull flag. -/
theorem sel_pulled (c : SLink F) (now : Nat) (m : Int) (cl : Nat) :
    (sel c now m cl).silencePulled = (updateSilencePull c now m cl).silencePulled :=
  (usl_fields (updateSilencePull c now m cl) now m cl).1

/-- What one pass does to the silence pull, in terms of the state before the pass. -/
theorem sel_pull_cases (c : SLink F) (now : Nat) (m : Int) (cl : Nat) :
    let c' := sel c now m cl
    (Silent c now m cl ∧ c.silencePulled = false ∧
        c'.silencePulled = true ∧ c'.pullMark = c.lastReceived ∧ c'.silencePulls = c.silencePulls + 1) ∨
    (c'.silencePulled = c.silencePulled ∧ c'.pullMark = c.pullMark ∧ c'.silencePulls = c.silencePulls) ∨
    (¬ Silent c now m cl ∧ c.silencePulled = true ∧ (Spoke c now cl ∨ c.connected = false) ∧
        c'.silencePulled = false ∧ c'.pullMark = c.pullMark ∧ c'.silencePulls = c.silencePulls) := by
  intro c'
  obtain ⟨b1, b2, b3, -⟩ := usl_fields (updateSilencePull c now m cl) now m cl
  have hc' : c' = updateStallLatch (updateSilencePull c now m cl) now m cl := rfl
  rw [hc', b1, b2, b3]
  rcases pull_cases c now m cl with ⟨hs, hp, e⟩ | ⟨-, -, e⟩ | ⟨-, -, e⟩ | ⟨hs, hp, hk, e⟩ | ⟨-, -, -, -, e⟩
  · left; rw [e]; exact ⟨hs, hp, rfl, rfl, rfl⟩
  · right; left; rw [e]; exact ⟨rfl, rfl, rfl⟩
  · right; left; rw [e]; exact ⟨rfl, rfl, rfl⟩
  · right; right; rw [e]; exact ⟨hs, hp, hk, rfl, rfl, rfl⟩
  · right; left; rw [e]; exact ⟨rfl, rfl, rfl⟩

/-! ## Ghost-augmented histories (the ghost is the one the harness monitor keeps) -/

structure Ghost where
  /-- time of the first pass of the current uninterrupted run of passes that found the link
  latched with fresh proof; `none` when the last pass did not (or after reset / guard off). -/
  freshRunStart : Option Nat := none
  /-- `lastReceived` as seen by the pass that engaged the current silence pull. -/
  lrAtPull : Option (Option Nat) := none

structure GState (F : Type) where
  c : SLink F
  g : Ghost

/-- Ghost update of a pass; it looks only at the inputs of the pass (state before, time, ceiling)
and at whether the pull is held after it — never at `recoverySince` or `pullMark`. -/
def ghostSel (c : SLink F) (g : Ghost) (now : Nat) (m : Int) (cl : Nat) : Ghost :=
  { freshRunStart :=
      if c.latchedSince ≠ 0 ∧ Fresh c now cl then some (g.freshRunStart.getD now) else none
    lrAtPull :=
      if (sel c now m cl).silencePulled then
        (if c.silencePulled then g.lrAtPull else some c.lastReceived)
      else none }

def gstep (s : GState F) : Step F → GState F
  | .sel now m cl => ⟨sel s.c now m cl, ghostSel s.c s.g now m cl⟩
  | .selOff => ⟨selOff s.c, {}⟩
  | .env e => ⟨envStep s.c e, s.g⟩
  | .reset => ⟨reset s.c, {}⟩

def grun (s : GState F) (steps : List (Step F)) : GState F := steps.foldl gstep s

@[simp] theorem grun_nil (s : GState F) : grun s [] = s := rfl
theorem grun_snoc (s : GState F) (steps : List (Step F)) (st : Step F) :
    grun s (steps ++ [st]) = gstep (grun s steps) st := by
  simp [grun, List.foldl_append]

theorem gstep_c (s : GState F) (st : Step F) : (gstep s st).c = step s.c st := by
  cases st <;> rfl

theorem grun_c (s : GState F) (steps : List (Step F)) : (grun s steps).c = run s.c steps := by
  induction steps using snoc_induction with
  | nil => rfl
  | snoc l a ih => rw [grun_snoc, run_snoc, gstep_c, ih]

/-- The ghost describes the link (this is how the harness seeds its ghost when guard state is
injected; every un-latched, un-pulled state with an empty ghost satisfies it). Time 0 is the code's
"none" sentinel: a run that starts at time 0 is not recorded by the code, which is why the second
disjunct `t0 = 0` is needed; see `GInvPos` for the exact relation when all passes have `0 < now`. -/
def LatchInv (s : GState F) : Prop :=
  s.c.latchedSince ≠ 0 →
    (s.c.recoverySince = 0 → s.g.freshRunStart = none ∨ s.g.freshRunStart = some 0) ∧
    (s.c.recoverySince ≠ 0 →
      s.g.freshRunStart = some s.c.recoverySince ∨ s.g.freshRunStart = some 0)

def PullInv (s : GState F) : Prop :=
  s.c.silencePulled = true → s.g.lrAtPull = some s.c.pullMark

theorem latchInv_step (s : GState F) (st : Step F) (h : LatchInv s) : LatchInv (gstep s st) := by
  cases st with
  | selOff => intro hl; exact absurd rfl hl
  | reset => intro hl; exact absurd rfl hl
  | env e => exact h
  | sel now m cl =>
    intro hl
    change (sel s.c now m cl).latchedSince ≠ 0 at hl
    show ((sel s.c now m cl).recoverySince = 0 →
          (ghostSel s.c s.g now m cl).freshRunStart = none ∨
          (ghostSel s.c s.g now m cl).freshRunStart = some 0) ∧
        ((sel s.c now m cl).recoverySince ≠ 0 →
          (ghostSel s.c s.g now m cl).freshRunStart = some (sel s.c now m cl).recoverySince ∨
          (ghostSel s.c s.g now m cl).freshRunStart = some 0)
    have hg : (ghostSel s.c s.g now m cl).freshRunStart =
        if s.c.latchedSince ≠ 0 ∧ Fresh s.c now cl then some (s.g.freshRunStart.getD now) else none := rfl
    rw [hg]
    rcases sel_latch_cases s.c now m cl with ⟨-, h0, -, -, hr⟩ | ⟨-, -, hf, -, -, hr⟩ | ⟨-, h0, -, -⟩ |
        ⟨-, hf, -, -, hr⟩ | ⟨-, -, -, h0, -, -⟩ | ⟨hl0, hf, -, -, -, hr⟩
    · rw [hr, if_neg (fun hh => hh.1 h0)]; exact ⟨fun _ => Or.inl rfl, fun hh => absurd rfl hh⟩
    · rw [hr, if_neg (fun hh => hf hh.2)]; exact ⟨fun _ => Or.inl rfl, fun hh => absurd rfl hh⟩
    · exact absurd h0 hl
    · rw [hr, if_neg (fun hh => hf hh.2)]; exact ⟨fun _ => Or.inl rfl, fun hh => absurd rfl hh⟩
    · exact absurd h0 hl
    · rw [hr, if_pos ⟨hl0, hf⟩]
      obtain ⟨i0, i1⟩ := h hl0
      unfold runStart
      by_cases hz : s.c.recoverySince = 0
      · rw [if_pos hz]
        rcases i0 hz with e | e <;> rw [e]
        · exact ⟨fun hn => Or.inr (by simp [hn]), fun _ => Or.inl (by simp)⟩
        · exact ⟨fun _ => Or.inr rfl, fun _ => Or.inr rfl⟩
      · rw [if_neg hz]
        rcases i1 hz with e | e <;> rw [e]
        · exact ⟨fun hn => absurd hn hz, fun _ => Or.inl rfl⟩
        · exact ⟨fun _ => Or.inr rfl, fun _ => Or.inr rfl⟩

theorem pullInv_step (s : GState F) (st : Step F) (h : PullInv s) : PullInv (gstep s st) := by
  cases st with
  | selOff => intro hp; cases hp
  | reset => intro hp; cases hp
  | env e => exact h
  | sel now m cl =>
    intro hp
    change (sel s.c now m cl).silencePulled = true at hp
    change (if (sel s.c now m cl).silencePulled then
        (if s.c.silencePulled then s.g.lrAtPull else some s.c.lastReceived) else none) =
      some (sel s.c now m cl).pullMark
    rw [if_pos hp]
    rcases sel_pull_cases s.c now m cl with ⟨-, h0, -, hm, -⟩ | ⟨e, hm, -⟩ | ⟨-, -, -, e, -⟩
    · rw [hm, if_neg (by rw [h0]; exact Bool.false_ne_true)]
    · rw [hm]; rw [e] at hp; rw [if_pos hp]; exact h hp
    · rw [e] at hp; cases hp

theorem latchInv_run (s : GState F) (steps : List (Step F)) (h : LatchInv s) :
    LatchInv (grun s steps) := by
  induction steps using snoc_induction with
  | nil => exact h
  | snoc l a ih => rw [grun_snoc]; exact latchInv_step _ _ ih

theorem pullInv_run (s : GState F) (steps : List (Step F)) (h : PullInv s) :
    PullInv (grun s steps) := by
  induction steps using snoc_induction with
  | nil => exact h
  | snoc l a ih => rw [grun_snoc]; exact pullInv_step _ _ ih

/-! ### Exact ghost relation when every pass has a non-zero clock -/

def Step.timeOk : Step F → Prop
  | .sel now _ _ => 0 < now
  | _ => True

/-- With `0 < now` at every pass, `recoverySince` *is* the ghost run start. -/
def LatchInvPos (s : GState F) : Prop :=
  s.c.latchedSince ≠ 0 →
    (s.c.recoverySince = 0 → s.g.freshRunStart = none) ∧
    (s.c.recoverySince ≠ 0 → s.g.freshRunStart = some s.c.recoverySince)

theorem latchInvPos_step (s : GState F) (st : Step F) (hok : st.timeOk) (h : LatchInvPos s) :
    LatchInvPos (gstep s st) := by
  cases st with
  | selOff => intro hl; exact absurd rfl hl
  | reset => intro hl; exact absurd rfl hl
  | env e => exact h
  | sel now m cl =>
    have hnow : 0 < now := hok
    intro hl
    change (sel s.c now m cl).latchedSince ≠ 0 at hl
    show ((sel s.c now m cl).recoverySince = 0 → (ghostSel s.c s.g now m cl).freshRunStart = none) ∧
        ((sel s.c now m cl).recoverySince ≠ 0 →
          (ghostSel s.c s.g now m cl).freshRunStart = some (sel s.c now m cl).recoverySince)
    have hg : (ghostSel s.c s.g now m cl).freshRunStart =
        if s.c.latchedSince ≠ 0 ∧ Fresh s.c now cl then some (s.g.freshRunStart.getD now) else none := rfl
    rw [hg]
    rcases sel_latch_cases s.c now m cl with ⟨-, h0, -, -, hr⟩ | ⟨-, -, hf, -, -, hr⟩ | ⟨-, h0, -, -⟩ |
        ⟨-, hf, -, -, hr⟩ | ⟨-, -, -, h0, -, -⟩ | ⟨hl0, hf, -, -, -, hr⟩
    · rw [hr, if_neg (fun hh => hh.1 h0)]; exact ⟨fun _ => rfl, fun hh => absurd rfl hh⟩
    · rw [hr, if_neg (fun hh => hf hh.2)]; exact ⟨fun _ => rfl, fun hh => absurd rfl hh⟩
    · exact absurd h0 hl
    · rw [hr, if_neg (fun hh => hf hh.2)]; exact ⟨fun _ => rfl, fun hh => absurd rfl hh⟩
    · exact absurd h0 hl
    · rw [hr, if_pos ⟨hl0, hf⟩]
      obtain ⟨i0, i1⟩ := h hl0
      unfold runStart
      by_cases hz : s.c.recoverySince = 0
      · rw [if_pos hz, i0 hz]
        exact ⟨fun hn => by omega, fun _ => rfl⟩
      · rw [if_neg hz, i1 hz]
        exact ⟨fun hn => absurd hn hz, fun _ => rfl⟩

theorem latchInvPos_run (s : GState F) (steps : List (Step F)) (hok : ∀ st ∈ steps, st.timeOk)
    (h : LatchInvPos s) : LatchInvPos (grun s steps) := by
  induction steps using snoc_induction with
  | nil => exact h
  | snoc l a ih =>
    rw [grun_snoc]
    exact latchInvPos_step _ _ (hok a (by simp)) (ih (fun st hst => hok st (by simp [hst])))

/-! ## Ghost-free invariants of one link's history -/

/-- A recovery run exists only while latched. -/
def RecInv (c : SLink F) : Prop := c.latchedSince = 0 → c.recoverySince = 0

/-- A link without delivery proof is not latched. -/
def NeverInv (c : SLink F) : Prop := c.proofMs = 0 → c.latchedSince = 0

theorem recInv_step (c : SLink F) (st : Step F) (h : RecInv c) : RecInv (step c st) := by
  cases st with
  | selOff => intro _; rfl
  | reset => intro _; rfl
  | env e => exact h
  | sel now m cl =>
    intro hl
    change (sel c now m cl).latchedSince = 0 at hl
    change (sel c now m cl).recoverySince = 0
    rcases sel_latch_cases c now m cl with ⟨-, -, -, -, hr⟩ | ⟨-, h0, -, e, -, -⟩ | ⟨h0, -, -, hr⟩ |
        ⟨-, -, -, -, hr⟩ | ⟨-, -, -, -, -, hr⟩ | ⟨h0, -, -, e, -, -⟩
    · exact hr
    · rw [e] at hl; exact absurd hl h0
    · rw [hr]; exact h h0
    · exact hr
    · exact hr
    · rw [e] at hl; exact absurd hl h0

theorem neverInv_step (c : SLink F) (st : Step F) (h : NeverInv c) : NeverInv (step c st) := by
  cases st with
  | selOff => intro _; rfl
  | reset => intro _; rfl
  | env e =>
    intro hp
    change (if e.proofMs = 0 then c.proofMs else e.proofMs) = 0 at hp
    change c.latchedSince = 0
    apply h
    split at hp
    · exact hp
    · contradiction
  | sel now m cl =>
    intro hp
    change (sel c now m cl).proofMs = 0 at hp
    change (sel c now m cl).latchedSince = 0
    rw [(sel_inputs c now m cl).1] at hp
    have hl := h hp
    rcases sel_latch_cases c now m cl with ⟨ht, -, -, -, -⟩ | ⟨-, h0, -⟩ | ⟨-, e, -, -⟩ |
        ⟨h0, -⟩ | ⟨h0, -⟩ | ⟨h0, -⟩
    · exact absurd ((usp_fields c now m cl).2.2.2.1 ▸ hp) ht.2.1
    · exact absurd hl h0
    · exact e
    · exact absurd hl h0
    · exact absurd hl h0
    · exact absurd hl h0

theorem recInv_run (c : SLink F) (steps : List (Step F)) (h : RecInv c) : RecInv (run c steps) := by
  induction steps using snoc_induction with
  | nil => exact h
  | snoc l a ih => rw [run_snoc]; exact recInv_step _ _ ih

theorem neverInv_run (c : SLink F) (steps : List (Step F)) (h : NeverInv c) :
    NeverInv (run c steps) := by
  induction steps using snoc_induction with
  | nil => exact h
  | snoc l a ih => rw [run_snoc]; exact neverInv_step _ _ ih

/-! ## Ghost-free description of the recovery run and of a held pull -/

/-- `FreshRun s steps t0 c`: from state `s` the steps `steps` lead to `c`; the first step is a
pass at time `t0`; every step is either a pass that found the link latched with fresh proof, or an
environment step.  In particular no step is a reset, a guard-off pass, or a pass that found the
proof stale or missing. -/
inductive FreshRun : SLink F → List (Step F) → Nat → SLink F → Prop
  | start (s : SLink F) (now : Nat) (m : Int) (cl : Nat) :
      s.latchedSince ≠ 0 → Fresh s now cl → FreshRun s [.sel now m cl] now (sel s now m cl)
  | sel {s : SLink F} {steps : List (Step F)} {t0 : Nat} {c : SLink F} (now : Nat) (m : Int) (cl : Nat) :
      FreshRun s steps t0 c → c.latchedSince ≠ 0 → Fresh c now cl →
      FreshRun s (steps ++ [.sel now m cl]) t0 (sel c now m cl)
  | env {s : SLink F} {steps : List (Step F)} {t0 : Nat} {c : SLink F} (e : SLink F) :
      FreshRun s steps t0 c → FreshRun s (steps ++ [.env e]) t0 (envStep c e)

theorem FreshRun.end_eq {s : SLink F} {steps : List (Step F)} {t0 : Nat} {c : SLink F}
    (h : FreshRun s steps t0 c) : c = run s steps := by
  induction h with
  | start now m cl _ _ => rfl
  | sel now m cl _ _ _ ih => rw [run_snoc, ← ih]; rfl
  | env e _ ih => rw [run_snoc, ← ih]; rfl

/-- While latched with a recorded recovery start, the history ends in a fresh run that started
at exactly `recoverySince`. -/
theorem freshRun_inv (s0 : SLink F) (h0 : s0.latchedSince ≠ 0 → s0.recoverySince = 0)
    (steps : List (Step F)) :
    (run s0 steps).latchedSince ≠ 0 → (run s0 steps).recoverySince ≠ 0 →
    ∃ pre suf, steps = pre ++ suf ∧
      FreshRun (run s0 pre) suf (run s0 steps).recoverySince (run s0 steps) := by
  induction steps using snoc_induction with
  | nil => intro hl hr; exact absurd (h0 hl) hr
  | snoc l st ih =>
    rw [run_snoc]
    cases st with
    | selOff => intro hl; exact absurd rfl hl
    | reset => intro hl; exact absurd rfl hl
    | env e =>
      intro hl hr
      obtain ⟨pre, suf, hsplit, hrun⟩ := ih hl hr
      exact ⟨pre, suf ++ [.env e], by rw [hsplit, List.append_assoc], FreshRun.env e hrun⟩
    | sel now m cl =>
      intro hl hr
      change (sel (run s0 l) now m cl).latchedSince ≠ 0 at hl
      change (sel (run s0 l) now m cl).recoverySince ≠ 0 at hr
      show ∃ pre suf, l ++ [.sel now m cl] = pre ++ suf ∧
        FreshRun (run s0 pre) suf (sel (run s0 l) now m cl).recoverySince (sel (run s0 l) now m cl)
      rcases sel_latch_cases (run s0 l) now m cl with ⟨-, -, -, -, e⟩ | ⟨-, -, -, -, -, e⟩ |
          ⟨h0', e, -, -⟩ | ⟨-, -, -, -, e⟩ | ⟨-, -, -, e, -, -⟩ | ⟨hl0, hf, -, -, -, e⟩
      · exact absurd e hr
      · exact absurd e hr
      · exact absurd e hl
      · exact absurd e hr
      · exact absurd e hl
      · rw [e]
        unfold runStart
        by_cases hz : (run s0 l).recoverySince = 0
        · rw [if_pos hz]
          exact ⟨l, [.sel now m cl], rfl, FreshRun.start _ now m cl hl0 hf⟩
        · rw [if_neg hz]
          obtain ⟨pre, suf, hsplit, hrun⟩ := ih hl0 hz
          exact ⟨pre, suf ++ [.sel now m cl], by rw [hsplit, List.append_assoc],
            FreshRun.sel now m cl hrun hl0 hf⟩

/-- The ghost means what it says: whenever the ghost run start is `some t0`, the history ends in
a `FreshRun` that started at `t0`. -/
theorem ghostRun_sound (s0 : GState F) (h0 : s0.g.freshRunStart = none) (steps : List (Step F)) :
    ∀ t0, (grun s0 steps).g.freshRunStart = some t0 →
    ∃ pre suf, steps = pre ++ suf ∧ FreshRun (run s0.c pre) suf t0 (run s0.c steps) := by
  induction steps using snoc_induction with
  | nil => intro t0 h; rw [grun_nil, h0] at h; cases h
  | snoc l st ih =>
    intro t0
    rw [grun_snoc, run_snoc]
    cases st with
    | selOff => intro h; cases h
    | reset => intro h; cases h
    | env e =>
      intro h
      obtain ⟨pre, suf, hsplit, hrun⟩ := ih t0 h
      exact ⟨pre, suf ++ [.env e], by rw [hsplit, List.append_assoc], FreshRun.env e hrun⟩
    | sel now m cl =>
      intro h
      change (if (grun s0 l).c.latchedSince ≠ 0 ∧ Fresh (grun s0 l).c now cl then
        some ((grun s0 l).g.freshRunStart.getD now) else none) = some t0 at h
      show ∃ pre suf, l ++ [.sel now m cl] = pre ++ suf ∧
        FreshRun (run s0.c pre) suf t0 (sel (run s0.c l) now m cl)
      by_cases hc : (grun s0 l).c.latchedSince ≠ 0 ∧ Fresh (grun s0 l).c now cl
      · rw [if_pos hc] at h
        rw [grun_c] at hc
        cases hg : (grun s0 l).g.freshRunStart with
        | none =>
          rw [hg] at h
          have : now = t0 := by simpa using h
          subst this
          exact ⟨l, [.sel now m cl], rfl, FreshRun.start _ now m cl hc.1 hc.2⟩
        | some t =>
          rw [hg] at h
          have : t = t0 := by simpa using h
          subst this
          obtain ⟨pre, suf, hsplit, hrun⟩ := ih t hg
          exact ⟨pre, suf ++ [.sel now m cl], by rw [hsplit, List.append_assoc],
            FreshRun.sel now m cl hrun hc.1 hc.2⟩
      · rw [if_neg hc] at h; cases h

/-- `PullHeld s steps lr0 c`: from `s` (not pulled) the steps lead to `c`; the first step is the pass
that engaged the pull, and saw `lastReceived = lr0`; every later step is a pass after which the pull
is still held, or an environment step. -/
inductive PullHeld : SLink F → List (Step F) → Option Nat → SLink F → Prop
  | engage (s : SLink F) (now : Nat) (m : Int) (cl : Nat) :
      s.silencePulled = false → (sel s now m cl).silencePulled = true →
      PullHeld s [.sel now m cl] s.lastReceived (sel s now m cl)
  | sel {s : SLink F} {steps : List (Step F)} {lr0 : Option Nat} {c : SLink F}
      (now : Nat) (m : Int) (cl : Nat) :
      PullHeld s steps lr0 c → (sel c now m cl).silencePulled = true →
      PullHeld s (steps ++ [.sel now m cl]) lr0 (sel c now m cl)
  | env {s : SLink F} {steps : List (Step F)} {lr0 : Option Nat} {c : SLink F} (e : SLink F) :
      PullHeld s steps lr0 c → PullHeld s (steps ++ [.env e]) lr0 (envStep c e)

theorem PullHeld.end_eq {s : SLink F} {steps : List (Step F)} {lr0 : Option Nat} {c : SLink F}
    (h : PullHeld s steps lr0 c) : c = run s steps := by
  induction h with
  | engage now m cl _ _ => rfl
  | sel now m cl _ _ ih => rw [run_snoc, ← ih]; rfl
  | env e _ ih => rw [run_snoc, ← ih]; rfl

/-- While pulled, the history ends in a held pull whose engaging pass saw `lastReceived = pullMark`. -/
theorem pullHeld_inv (s0 : SLink F) (h0 : s0.silencePulled = false) (steps : List (Step F)) :
    (run s0 steps).silencePulled = true →
    ∃ pre suf, steps = pre ++ suf ∧
      PullHeld (run s0 pre) suf (run s0 steps).pullMark (run s0 steps) := by
  induction steps using snoc_induction with
  | nil => intro hp; rw [run_nil, h0] at hp; cases hp
  | snoc l st ih =>
    rw [run_snoc]
    cases st with
    | selOff => intro hp; cases hp
    | reset => intro hp; cases hp
    | env e =>
      intro hp
      obtain ⟨pre, suf, hsplit, hrun⟩ := ih hp
      exact ⟨pre, suf ++ [.env e], by rw [hsplit, List.append_assoc], PullHeld.env e hrun⟩
    | sel now m cl =>
      intro hp
      change (sel (run s0 l) now m cl).silencePulled = true at hp
      show ∃ pre suf, l ++ [.sel now m cl] = pre ++ suf ∧
        PullHeld (run s0 pre) suf (sel (run s0 l) now m cl).pullMark (sel (run s0 l) now m cl)
      rcases sel_pull_cases (run s0 l) now m cl with ⟨-, hp0, -, hm, -⟩ | ⟨e, hm, -⟩ | ⟨-, -, -, e, -⟩
      · rw [hm]
        exact ⟨l, [.sel now m cl], rfl, PullHeld.engage _ now m cl hp0 hp⟩
      · rw [hm]
        obtain ⟨pre, suf, hsplit, hrun⟩ := ih (e ▸ hp)
        exact ⟨pre, suf ++ [.sel now m cl], by rw [hsplit, List.append_assoc],
          PullHeld.sel now m cl hrun hp⟩
      · rw [e] at hp; cases hp

/-! ## The real entry point `applyStallGate` is `sel` / `selOff` on every link -/

/-- The routing stamp `apply_stall_gate` puts on each link at the end of the pass. -/
def gateStamp (anyHealthy : Bool) (c : SLink F) : SLink F :=
  { c with stallGated := anyHealthy && (latched c || c.silencePulled) }

theorem applyStallGate_on (ls : List (SLink F)) (now : Nat) (cfg : Cfg) (h : cfg.stallDeselect = true) :
    ∃ anyHealthy : Bool, applyStallGate ls now cfg = ls.map fun c =>
      gateStamp anyHealthy
        (sel { c with connTimeoutMs := cfg.connTimeoutMs } now cfg.stallMinInFlight cfg.stallCeilingMs) := by
  unfold applyStallGate
  simp only [h, Bool.not_true, Bool.false_eq_true, if_false, List.map_map]
  exact ⟨_, rfl⟩

theorem applyStallGate_off (ls : List (SLink F)) (now : Nat) (cfg : Cfg) (h : cfg.stallDeselect = false) :
    applyStallGate ls now cfg = ls.map fun c => selOff { c with connTimeoutMs := cfg.connTimeoutMs } := by
  unfold applyStallGate
  simp only [h, Bool.not_false, if_true, List.map_map]
  rfl

theorem envStep_eq (c e : SLink F) (h1 : e.latchedSince = c.latchedSince)
    (h2 : e.recoverySince = c.recoverySince) (h3 : e.gateEvents = c.gateEvents)
    (h4 : e.silencePulled = c.silencePulled) (h5 : e.pullMark = c.pullMark)
    (h6 : e.silencePulls = c.silencePulls) (h7 : e.proofMs = c.proofMs) : envStep c e = e := by
  unfold envStep
  rw [← h1, ← h2, ← h3, ← h4, ← h5, ← h6, ← h7, ite_self]

theorem envStep_self (c : SLink F) : envStep c c = c :=
  envStep_eq c c rfl rfl rfl rfl rfl rfl rfl

theorem envStep_setTimeout (c : SLink F) (t : Nat) :
    envStep c { c with connTimeoutMs := t } = { c with connTimeoutMs := t } :=
  envStep_eq c { c with connTimeoutMs := t } rfl rfl rfl rfl rfl rfl rfl

theorem envStep_gateStamp (c : SLink F) (a : Bool) : envStep c (gateStamp a c) = gateStamp a c :=
  envStep_eq c (gateStamp a c) rfl rfl rfl rfl rfl rfl rfl

end Srtla.StallLatch
