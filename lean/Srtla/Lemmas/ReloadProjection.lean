import Srtla.Lemmas.Reload
import Srtla.Lemmas.ReloadBasic
/-!
# The two hand-written models of `apply_connection_changes` agree

`Reload.applyChanges` (`Model/Reload.lean`, C19's model: opaque link tokens, `Ip` / `Label` strings, an
association-list tracker, an I/O map with socket tokens) and `Sys.applyConnectionChanges` (`Model/Sys.lean`, the
shell model: FULL link records, address tokens, the tracker as a total function on slots, the I/O map as a key
list) are two hand-written copies of one Rust function, each tied to the code by its own differential run.

Here: a PROJECTION `Proj` from shell states to states of C19's model —
* links: `projLink` (conn id, `ipOf addr`, `mk (ipOf addr)`, an arbitrary token `stOf l` of the whole record), in
  order;
* `last_selected_idx`: equal;
* tracker: `TrkRel` — slot by slot the same entry (an absent slot of the association list is the all-zero entry);
  `TrkRel.get`: both `get`s then agree on every query (`seq & 16383 = seq % 16384`);
* I/O map: the same KEY SET (the shell model has no socket tokens and appends where C19's model prepends, so the
  lists are not compared) —
and the theorem `applyChanges_projects`: the projection COMMUTES with the reload step, under the one side condition
the two models need — label equality is address equality (`Function.Injective fun a => mk (ipOf a)`; the production
label `"{host}:{port} via {ip}"` is injective in the address: `Reload.mkLabel_injective`).  The outcome lists are
related by `projOuts`: attempt `k` has the same success / failure and the same drawn id on both sides, and the state
token of a created link is the token of `FLink.newUplink id a now`.
-/
set_option linter.unusedSectionVars false

namespace Srtla.ReloadProj
open Srtla Srtla.Link

variable {F : Type} [Scalar F]

/-! ## Generic list facts -/

theorem contains_map_inj {α β : Type} [BEq α] [LawfulBEq α] [BEq β] [LawfulBEq β] {g : α → β}
    (hg : Function.Injective g) (xs : List α) (x : α) : (xs.map g).contains (g x) = xs.contains x := by
  induction xs with
  | nil => rfl
  | cons y ys ih =>
    have hxy : (g x == g y) = (x == y) := by
      by_cases h : x = y
      · subst h; rw [beq_self_eq_true, beq_self_eq_true]
      · have : g x ≠ g y := fun e => h (hg e)
        rw [beq_eq_false_iff_ne.2 h, beq_eq_false_iff_ne.2 this]
    rw [List.map_cons, List.contains_cons, List.contains_cons, ih, hxy]

/-- `dedupSeen` of the two models commute with an injective renaming of the addresses. -/
theorem dedupSeen_map {ipOf : Nat → Reload.Ip} (hinj : Function.Injective ipOf) (seen xs : List Nat) :
    Reload.dedupSeen (seen.map ipOf) (xs.map ipOf) = (Sys.dedupSeen seen xs).map ipOf := by
  induction xs generalizing seen with
  | nil => rfl
  | cons x xs ih =>
    simp only [List.map_cons, Reload.dedupSeen, Sys.dedupSeen, contains_map_inj hinj]
    split
    · exact ih seen
    · rw [List.map_cons, ← ih (x :: seen)]; rfl

/-! ## The tracker -/

/-- The entry of slot `i` of C19's association-list ring (an absent slot is the all-zero entry). -/
def slotEntry (t : Reload.Tracker) (i : Nat) : Reload.TrackEntry :=
  match t.find? (fun e => e.1 == i) with
  | some e => e.2
  | none => ⟨0, 0, 0⟩

/-- Slot by slot the same entry. -/
def TrkRel (t : Conn.Tracker) (t' : Reload.Tracker) : Prop :=
  ∀ i, slotEntry t' i = ⟨(t.ent i).connId, (t.ent i).ts, (t.ent i).seq⟩

theorem slotEntry_removeConnection (t' : Reload.Tracker) (id i : Nat) :
    slotEntry (t'.removeConnection id) i =
      if (slotEntry t' i).connId = id then ⟨0, 0, 0⟩ else slotEntry t' i := by
  unfold slotEntry Reload.Tracker.removeConnection
  rw [List.find?_map]
  have hcomp : ((fun e : Nat × Reload.TrackEntry => e.1 == i) ∘
      fun e : Nat × Reload.TrackEntry =>
        if (e.2.connId == id) = true then (e.1, (⟨0, 0, 0⟩ : Reload.TrackEntry)) else e)
      = fun e => e.1 == i := by
    funext e
    simp only [Function.comp]
    split <;> rfl
  rw [hcomp]
  cases List.find? (fun e => e.1 == i) t' with
  | none => simp
  | some e =>
    simp only [Option.map_some]
    by_cases h : e.2.connId = id
    · simp [h]
    · have : (e.2.connId == id) = false := by simpa using h
      simp [this, h]

theorem TrkRel.removeConnection {t : Conn.Tracker} {t' : Reload.Tracker} (h : TrkRel t t') (id : Nat) :
    TrkRel (t.removeConnection id) (t'.removeConnection id) := by
  intro i
  rw [slotEntry_removeConnection, h i]
  show _ = Reload.TrackEntry.mk (if (t.ent i).connId = id then ({} : Conn.TrkEntry) else t.ent i).connId
    (if (t.ent i).connId = id then ({} : Conn.TrkEntry) else t.ent i).ts
    (if (t.ent i).connId = id then ({} : Conn.TrkEntry) else t.ent i).seq
  dsimp only
  split <;> rfl

theorem TrkRel.foldl_removeConnection {t : Conn.Tracker} {t' : Reload.Tracker} (h : TrkRel t t') (ids : List Nat) :
    TrkRel (ids.foldl Conn.Tracker.removeConnection t) (ids.foldl Reload.Tracker.removeConnection t') := by
  induction ids generalizing t t' with
  | nil => exact h
  | cons i ids ih => exact ih (h.removeConnection i)

theorem slot_eq (seq : Nat) : Reload.slot seq = Conn.slotOf seq := by
  unfold Reload.slot Conn.slotOf
  rw [Gen.Seq.SEQ_TRACKING_MASK_eq, Gen.Seq.SEQ_TRACKING_SIZE_eq]
  exact Nat.and_two_pow_sub_one_eq_mod seq 14

theorem TrkRel.empty : TrkRel Conn.Tracker.empty [] := fun _ => rfl

/-- `seq_tracker.insert` of the two models (the shell's `forward_via_connection`, C19's environment step `track`). -/
theorem TrkRel.insert {t : Conn.Tracker} {t' : Reload.Tracker} (h : TrkRel t t') (seq id ts : Nat) :
    TrkRel (t.insert seq id ts) (t'.insert seq id ts) := by
  intro i
  have hi := h i
  unfold slotEntry at hi ⊢
  unfold Reload.Tracker.insert Conn.Tracker.insert
  rw [slot_eq]
  dsimp only
  by_cases hs : i = Conn.slotOf seq
  · subst hs
    simp
  · have h1 : (Conn.slotOf seq == i) = false := by simpa using fun e => hs e.symm
    rw [List.find?_cons, h1, List.find?_filter, if_neg hs]
    have hp : (fun e : Nat × Reload.TrackEntry => decide ((e.1 != Conn.slotOf seq) = true ∧ (e.1 == i) = true)) =
        fun e => e.1 == i := by
      funext e
      by_cases he : e.1 = i
      · simp [he, hs]
      · simp [he]
    rw [hp]
    exact hi

/-- Related trackers answer every query alike: the projection preserves what the tracker is read for. -/
theorem TrkRel.get {t : Conn.Tracker} {t' : Reload.Tracker} (h : TrkRel t t') (seq now : Nat) :
    t'.get seq now = t.get seq now := by
  have hi := h (Conn.slotOf seq)
  unfold slotEntry at hi
  unfold Reload.Tracker.get Conn.Tracker.get
  rw [slot_eq]
  cases hf : List.find? (fun e => e.1 == Conn.slotOf seq) t' with
  | none =>
    rw [hf] at hi
    have h0 : (t.ent (Conn.slotOf seq)).connId = 0 := by
      have := congrArg Reload.TrackEntry.connId hi
      exact this.symm
    simp [h0]
  | some e =>
    rw [hf] at hi
    obtain ⟨k, e⟩ := e
    have he : e = ⟨(t.ent (Conn.slotOf seq)).connId, (t.ent (Conn.slotOf seq)).ts, (t.ent (Conn.slotOf seq)).seq⟩ := hi
    subst he
    simp only [Reload.TrackEntry.isValid]
    by_cases h1 : (t.ent (Conn.slotOf seq)).connId = 0
    · simp [h1]
    · by_cases h2 : (t.ent (Conn.slotOf seq)).seq = seq
      · simp [h1, h2]
      · simp [h1, h2]

/-! ## Links, outcomes, states -/

/-- A full link record seen by C19's model: identity, address text, label, one opaque token of everything else. -/
def projLink (ipOf : Nat → Reload.Ip) (mk : Reload.Ip → Reload.Label) (stOf : FLink F → Nat) (l : FLink F) :
    Reload.Link :=
  ⟨l.core.connId, ipOf l.addr, mk (ipOf l.addr), stOf l⟩

/-- The outcome list of C19's model that belongs to the shell model's: attempt `k` (for the needed address `a`)
succeeds on both sides or on neither, with the same drawn conn id; the socket token is arbitrary (`sock`), the state
token is the token of the fresh record `FLink.newUplink id a now`. -/
def projOuts (sock : Nat → Nat) (stOf : FLink F → Nat) (now : Nat) :
    List Nat → List (Option Nat) → List (Option Reload.ConnOk)
  | [], _ => []
  | a :: as, outs =>
    (outs.head?.join.map fun id => (⟨id, sock id, stOf (FLink.newUplink id a now)⟩ : Reload.ConnOk)) ::
      projOuts sock stOf now as outs.tail

/-- The projection relation between a shell state and a state of C19's model. -/
structure Proj (ipOf : Nat → Reload.Ip) (mk : Reload.Ip → Reload.Label) (stOf : FLink F → Nat)
    (s : Sys.Sys F) (r : Reload.Sys) : Prop where
  links : r.links = s.links.map (projLink ipOf mk stOf)
  lastSel : r.lastSel = s.lastSelected
  trk : TrkRel s.trk r.tracker
  io : ∀ k, k ∈ r.io.keys ↔ k ∈ s.io

/-- The canonical projection (I/O map: every key with socket token 0; tracker: the given related ring). -/
def projSys (ipOf : Nat → Reload.Ip) (mk : Reload.Ip → Reload.Label) (stOf : FLink F → Nat) (s : Sys.Sys F)
    (trk : Reload.Tracker) (pending : Option (List Reload.Ip)) : Reload.Sys :=
  { links := s.links.map (projLink ipOf mk stOf), io := s.io.map fun k => (k, 0), tracker := trk,
    lastSel := s.lastSelected, pending := pending }

theorem proj_projSys (ipOf : Nat → Reload.Ip) (mk : Reload.Ip → Reload.Label) (stOf : FLink F → Nat) (s : Sys.Sys F)
    (trk : Reload.Tracker) (pending : Option (List Reload.Ip)) (h : TrkRel s.trk trk) :
    Proj ipOf mk stOf s (projSys ipOf mk stOf s trk pending) :=
  ⟨rfl, rfl, h, fun k => by simp [projSys, Reload.IoMap.keys, List.map_map, Function.comp_def]⟩

/-- `create_connections_from_ips` of the two models: the same links (projected), the key set grows by their ids. -/
theorem createConnections_proj (ipOf : Nat → Reload.Ip) (mk : Reload.Ip → Reload.Label) (stOf : FLink F → Nat)
    (sock : Nat → Nat) (now : Nat) (as : List Nat) (outs : List (Option Nat)) (io : Reload.IoMap) :
    (Reload.createConnections mk (as.map ipOf) (projOuts sock stOf now as outs) io).1 =
      (Sys.createConnections now as outs : List (FLink F)).map (projLink ipOf mk stOf) ∧
    ∀ k, k ∈ (Reload.createConnections mk (as.map ipOf) (projOuts sock stOf now as outs) io).2.keys ↔
      k ∈ io.keys ∨ k ∈ (Sys.createConnections now as outs : List (FLink F)).map (·.core.connId) := by
  induction as generalizing outs io with
  | nil => exact ⟨rfl, fun k => by simp [Reload.createConnections, Sys.createConnections]⟩
  | cons a as ih =>
    simp only [List.map_cons, projOuts, Reload.createConnections, Sys.createConnections, List.head?_cons,
      Option.join_some, List.tail_cons]
    cases h : outs.head?.join with
    | none =>
      simp only [Option.map_none]
      exact ih outs.tail io
    | some id =>
      simp only [Option.map_some]
      obtain ⟨h1, h2⟩ := ih outs.tail (io.insert id (sock id))
      refine ⟨?_, fun k => ?_⟩
      · rw [List.map_cons, h1]; rfl
      · rw [h2, Reload.IoMap.mem_keys_insert, List.map_cons, List.mem_cons]
        show _ ↔ k ∈ io.keys ∨ k = id ∨ _
        constructor
        · rintro ((h | h) | h)
          · exact .inr (.inl h)
          · exact .inl h
          · exact .inr (.inr h)
        · rintro (h | h | h)
          · exact .inl (.inr h)
          · exact .inl (.inl h)
          · exact .inr h

theorem mem_foldl_ioInsert (xs base : List Nat) (x : Nat) :
    x ∈ xs.foldl Sys.ioInsert base ↔ x ∈ base ∨ x ∈ xs := by
  induction xs generalizing base with
  | nil => simp
  | cons k ks ih =>
    rw [List.foldl_cons, ih]
    have hk : x ∈ Sys.ioInsert base k ↔ x ∈ base ∨ x = k := by
      unfold Sys.ioInsert
      split
      · rename_i hc
        constructor
        · exact fun h => .inl h
        · rintro (h | rfl)
          · exact h
          · simpa using hc
      · simp
    rw [hk, List.mem_cons]
    constructor
    · rintro ((h | h) | h)
      · exact .inl h
      · exact .inr (.inl h)
      · exact .inr (.inr h)
    · rintro (h | h | h)
      · exact .inl (.inl h)
      · exact .inl (.inr h)
      · exact .inr h

section main
variable (ipOf : Nat → Reload.Ip) (mk : Reload.Ip → Reload.Label) (stOf : FLink F → Nat)

/-- The label test of C19's model on a projected link is the address test of the shell model. -/
theorem desired_proj (hinj : Function.Injective fun a => mk (ipOf a)) (addrs : List Nat) (l : FLink F) :
    (Reload.desiredLabels mk (addrs.map ipOf)).contains (projLink ipOf mk stOf l).label = addrs.contains l.addr := by
  unfold Reload.desiredLabels projLink
  rw [List.map_map]
  exact contains_map_inj (g := fun a => mk (ipOf a)) hinj addrs l.addr

theorem retained_proj (hinj : Function.Injective fun a => mk (ipOf a)) {s : Sys.Sys F} {r : Reload.Sys}
    (hl : r.links = s.links.map (projLink ipOf mk stOf)) (addrs : List Nat) :
    Reload.retained mk r (addrs.map ipOf) = (Sys.retained s.links addrs).map (projLink ipOf mk stOf) := by
  unfold Reload.retained Sys.retained
  rw [hl, List.filter_map]
  congr 1
  apply List.filter_congr
  intro l _
  exact desired_proj ipOf mk stOf hinj addrs l

theorem removedIds_proj (hinj : Function.Injective fun a => mk (ipOf a)) {s : Sys.Sys F} {r : Reload.Sys}
    (hl : r.links = s.links.map (projLink ipOf mk stOf)) (addrs : List Nat) :
    Reload.removedIds mk r (addrs.map ipOf) = Sys.removedIds s.links addrs := by
  unfold Reload.removedIds Sys.removedIds
  rw [hl, List.filter_map, List.map_map]
  have : (s.links.filter ((fun c => !(Reload.desiredLabels mk (addrs.map ipOf)).contains c.label) ∘
      projLink ipOf mk stOf)) = s.links.filter fun l => !addrs.contains l.addr := by
    apply List.filter_congr
    intro l _
    simp only [Function.comp]
    rw [desired_proj ipOf mk stOf hinj addrs l]
  rw [this]
  rfl

theorem neededIps_proj (hinj : Function.Injective fun a => mk (ipOf a)) {s : Sys.Sys F} {r : Reload.Sys}
    (hl : r.links = s.links.map (projLink ipOf mk stOf)) (addrs : List Nat) :
    Reload.neededIps mk r (addrs.map ipOf) = (Sys.neededAddrs s.links addrs).map ipOf := by
  have hip : Function.Injective ipOf := fun a b h => hinj (congrArg mk h)
  unfold Reload.neededIps Sys.neededAddrs
  have hd := dedupSeen_map hip [] addrs
  simp only [List.map_nil] at hd
  rw [hd, List.filter_map]
  congr 1
  apply List.filter_congr
  intro a _
  simp only [Function.comp]
  have : r.links.map (·.label) = (s.links.map (·.addr)).map fun a => mk (ipOf a) := by
    rw [hl, List.map_map, List.map_map]; rfl
  rw [this, contains_map_inj (g := fun a => mk (ipOf a)) hinj]

/-- **The projection commutes with the reload step.**  Side condition: label equality is address equality
(`hinj`).  For every shell state `s` and every state `r` of C19's model related by `Proj` (same links in order under
`projLink`, same anchor, slot-wise the same tracker, the same I/O key set) — whatever `r.pending` is —, every clock
`now`, desired address list `addrs` and outcome list `outs`: the state of C19's model after
`applyChanges mk r (addrs.map ipOf) (projOuts …)` is related to the shell state after
`applyConnectionChanges s now addrs outs`. -/
theorem applyChanges_projects (hinj : Function.Injective fun a => mk (ipOf a)) (sock : Nat → Nat) (s : Sys.Sys F)
    (r : Reload.Sys) (h : Proj ipOf mk stOf s r) (now : Nat) (addrs : List Nat) (outs : List (Option Nat)) :
    Proj ipOf mk stOf (Sys.applyConnectionChanges s now addrs outs)
      (Reload.applyChanges mk r (addrs.map ipOf)
        (projOuts sock stOf now (Sys.neededAddrs s.links addrs) outs)) := by
  have hret := retained_proj ipOf mk stOf hinj h.links addrs
  have hrem := removedIds_proj ipOf mk stOf hinj h.links addrs
  have hneed := neededIps_proj ipOf mk stOf hinj h.links addrs
  have hlen : r.links.length = s.links.length := by rw [h.links, List.length_map]
  have hchg : ((Reload.retained mk r (addrs.map ipOf)).length != r.links.length) =
      ((Sys.retained s.links addrs).length != s.links.length) := by
    rw [hret, List.length_map, hlen]
  unfold Reload.applyChanges Sys.applyConnectionChanges
  dsimp only
  rw [hchg, hrem, hneed]
  refine ⟨?_, ?_, ?_, ?_⟩
  · -- links
    dsimp only
    rw [hret, List.map_append, (createConnections_proj ipOf mk stOf sock now _ outs _).1]
  · -- last_selected_idx
    dsimp only
    rw [h.lastSel]
  · -- tracker
    dsimp only
    split
    · exact h.trk.foldl_removeConnection _
    · exact h.trk
  · -- I/O key set
    intro k
    dsimp only
    rw [(createConnections_proj ipOf mk stOf sock now _ outs _).2 k, mem_foldl_ioInsert]
    refine or_congr ?_ Iff.rfl
    split
    · rw [Reload.IoMap.mem_keys_foldl_remove, h.io k, List.mem_filter]
      simp
    · exact h.io k

/-- The same at the level of the two step functions: the shell's `Ev.reload` against C19's housekeeping tick with
the list queued by a SIGHUP (`pending = some (addrs.map ipOf)`); `pending` is `none` afterwards. -/
theorem step_projects (hinj : Function.Injective fun a => mk (ipOf a)) (sock : Nat → Nat) (s : Sys.Sys F)
    (r : Reload.Sys) (h : Proj ipOf mk stOf s r) (now : Nat) (addrs : List Nat) (outs : List (Option Nat))
    (hp : r.pending = some (addrs.map ipOf)) :
    Proj ipOf mk stOf (Sys.step s (.reload now addrs outs)).1
      (Reload.step mk r (.tick (projOuts sock stOf now (Sys.neededAddrs s.links addrs) outs))) ∧
    (Reload.step mk r (.tick (projOuts sock stOf now (Sys.neededAddrs s.links addrs) outs))).pending = none := by
  have h' : Proj ipOf mk stOf s { r with pending := none } := ⟨h.links, h.lastSel, h.trk, h.io⟩
  have := applyChanges_projects ipOf mk stOf hinj sock s _ h' now addrs outs
  unfold Reload.step
  rw [hp]
  exact ⟨this, rfl⟩

end main

end Srtla.ReloadProj
