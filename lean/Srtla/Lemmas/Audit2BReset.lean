import Srtla.Lemmas.Housekeeping
import Srtla.Lemmas.Uplink
import Srtla.Lemmas.Audit2BHk
import Srtla.Lemmas.SelShellFrame
/-!
# Audit round 2 (P-B): tear-downs as CONDITION ⇒ RESET (C06)

The data path (`forward_via_connection`, `send_stall_probes`) link by link, EXACTLY: a link either keeps
window / connected flag / registering-ness / conn id (`Kept`), or it is reset (`Reset`: window 20000, nothing
logged / in flight / queued, not connected, registering) and an injected send failure for ITS conn id was
consumed (`client_px`).  Conversely an injected failure is consumed only by a send on a link with that conn id,
which is then reset (`client_consumed`).  REG_ERR on a link's conn id is `mark_for_recovery` of that link
(`regErr_link`).
-/
namespace Srtla.Audit2B
open Srtla Srtla.Gen Srtla.Conn Srtla.Select Srtla.Link Srtla.Sys

set_option linter.unusedSectionVars false
set_option linter.unusedVariables false

variable {F : Type} [Scalar F]
variable {fa : List (Nat × Nat)}

theorem pw_get' {α : Type} {R : α → α → Prop} {as bs : List α} (h : Hk.PW R as bs) {j : Nat} {b : α}
    (hb : bs[j]? = some b) : ∃ a, as[j]? = some a ∧ R a b := by
  induction h generalizing j with
  | nil => simp at hb
  | cons hr _ ih =>
    cases j with
    | zero => simp at hb; subst hb; exact ⟨_, by simp, hr⟩
    | succ j => simp at hb; simpa using ih hb

/-- Window, connected flag, conn id and registering-ness are what they were. -/
structure Kept (l l' : FLink F) : Prop where
  window : l'.core.window = l.core.window
  connected : l'.core.connected = l.core.connected
  connId : l'.core.connId = l.core.connId
  phaseReg : l'.core.phase = .registering ↔ l.core.phase = .registering

theorem Kept.refl (l : FLink F) : Kept l l := ⟨rfl, rfl, rfl, Iff.rfl⟩

theorem Kept.trans {a b c : FLink F} (h1 : Kept a b) (h2 : Kept b c) : Kept a c :=
  ⟨h2.window.trans h1.window, h2.connected.trans h1.connected, h2.connId.trans h1.connId,
   h2.phaseReg.trans h1.phaseReg⟩

/-- A torn-down link: clean accounting, registering. -/
def Reset (l : FLink F) : Prop := Hk.Clean l ∧ l.core.phase = .registering

theorem reset_markForRecovery (l : FLink F) : Reset l.markForRecovery :=
  ⟨Hk.clean_markForRecovery l, rfl⟩

theorem kept_takeBatch (l : FLink F) (now : Nat) : Kept l (l.takeBatch now).1 := by
  have h := Hk.ev_takeBatch false none l now
  exact ⟨(Hk.takeBatch_window l now).1, h.connected, h.connId, h.phaseReg⟩

theorem kept_queue (l : FLink F) (pkt : Link.Bytes) (seq : Option Nat) (t : Nat) :
    Kept l (l.queueDataPacket pkt seq t).1 := ⟨rfl, rfl, rfl, Iff.rfl⟩

theorem kept_stallProbeDue (l : FLink F) : Kept l l.stallProbeDue.1 := by
  have h := Hk.stallProbeDue_core l
  exact ⟨by rw [h], by rw [h], by rw [h], by rw [h]⟩

/-- `forward_via_connection` on one link, exactly: kept and no failure consumed, or — batch threshold
reached and an injected failure pending for the link's conn id — reset, that failure consumed. -/
theorem fwdLink_exact (l : FLink F) (pkt : Link.Bytes) (seq : Option Nat) (now : Nat) (fn : List Nat) :
    (Kept l (Hk.fwdLink fa l pkt seq now fn).1 ∧ (Hk.fwdLink fa l pkt seq now fn).2.2 = fn ∧
      ¬ ((l.queueDataPacket pkt seq now).2 = true ∧ fn.contains l.core.connId = true)) ∨
    (Reset (Hk.fwdLink fa l pkt seq now fn).1 ∧ (Hk.fwdLink fa l pkt seq now fn).1.core.connId = l.core.connId ∧
      (l.queueDataPacket pkt seq now).2 = true ∧ fn.contains l.core.connId = true ∧
      (Hk.fwdLink fa l pkt seq now fn).2.2 = fn.erase l.core.connId) := by
  cases hq : (l.queueDataPacket pkt seq now).2
  · have e : Hk.fwdLink fa l pkt seq now fn = ((l.queueDataPacket pkt seq now).1, [], fn) := by
      unfold Hk.fwdLink; rw [hq]; rfl
    rw [e]
    exact Or.inl ⟨kept_queue l pkt seq now, rfl, fun h => by cases h.1⟩
  · have hid : (l.queueDataPacket pkt seq now).1.core.connId = l.core.connId := rfl
    obtain ⟨h1, h2⟩ := Hk.sendBatch_cases (l.queueDataPacket pkt seq now).1 now fn
    have e : Hk.fwdLink fa l pkt seq now fn =
        (if (sendConnectionBatch fa (l.queueDataPacket pkt seq now).1 now fn).2.2.1 then
            (sendConnectionBatch fa (l.queueDataPacket pkt seq now).1 now fn).1
          else (sendConnectionBatch fa (l.queueDataPacket pkt seq now).1 now fn).1.markForRecovery,
         (sendConnectionBatch fa (l.queueDataPacket pkt seq now).1 now fn).2.1,
         (sendConnectionBatch fa (l.queueDataPacket pkt seq now).1 now fn).2.2.2) := by
      unfold Hk.fwdLink; rw [hq]; rfl
    rw [e]
    rcases h2 with ⟨ok, hfn⟩ | ⟨ok, hc, hfn⟩
    · left
      rw [ok, hfn, h1]
      refine ⟨(kept_queue l pkt seq now).trans (kept_takeBatch _ now), rfl, ?_⟩
      rintro ⟨-, hc⟩
      -- the send succeeded although a failure was pending: only for an empty batch, impossible here
      have hne : ((l.queueDataPacket pkt seq now).1.takeBatch now).2.isEmpty = false := by
        rw [Hk.takeBatch_eq]
        have hq' : (l.queueDataPacket pkt seq now).1.queue = l.queue ++ [(pkt, seq, now)] := rfl
        rw [hq']
        cases hl : l.queue <;> simp
      unfold sendConnectionBatch at ok
      dsimp only at ok
      rw [hne, hid] at ok
      simp only [Bool.false_eq_true, if_false, hc, if_true] at ok
    · right
      rw [ok, hfn, h1]
      exact ⟨reset_markForRecovery _, (kept_takeBatch _ now).connId.trans hid, rfl, by rw [← hid]; exact hc,
        by rw [hid]⟩

/-- The same for one probe visit. -/
theorem probeLink_exact (l : FLink F) (pkt : Link.Bytes) (seq : Option Nat) (now : Nat) (fn : List Nat) :
    (Kept l (Hk.probeLink fa l pkt seq now fn).1 ∧ (Hk.probeLink fa l pkt seq now fn).2.2 = fn) ∨
    (Reset (Hk.probeLink fa l pkt seq now fn).1 ∧ (Hk.probeLink fa l pkt seq now fn).1.core.connId = l.core.connId ∧
      fn.contains l.core.connId = true ∧ (Hk.probeLink fa l pkt seq now fn).2.2 = fn.erase l.core.connId) := by
  have hp := kept_stallProbeDue l
  unfold Hk.probeLink
  split
  · exact Or.inl ⟨hp, rfl⟩
  · rcases fwdLink_exact l.stallProbeDue.1 pkt seq now fn with ⟨a, b, -⟩ | ⟨a, b, -, d, e⟩
    · exact Or.inl ⟨hp.trans a, b⟩
    · rw [hp.connId] at b d e
      exact Or.inr ⟨a, b, d, e⟩

/-- Exact per-link effect of the data path, relative to the fault lists before / after. -/
def SendX (fn fn' : List Nat) (l l' : FLink F) : Prop :=
  Kept l l' ∨ (Reset l' ∧ l'.core.connId = l.core.connId ∧ fn'.count l.core.connId < fn.count l.core.connId)

theorem SendX.refl (fn fn' : List Nat) (l : FLink F) : SendX fn fn' l l := Or.inl (Kept.refl l)

theorem SendX.mono {fn0 fn fn' fn1 : List Nat} {l l' : FLink F}
    (h : SendX fn fn' l l') (h0 : Hk.FnLe fn0 fn) (h1 : Hk.FnLe fn' fn1) : SendX fn0 fn1 l l' := by
  rcases h with h | ⟨h, hid, hlt⟩
  · exact Or.inl h
  · exact Or.inr ⟨h, hid, Nat.lt_of_le_of_lt (h1 _) (Nat.lt_of_lt_of_le hlt (h0 _))⟩

theorem SendX.of_kept {fn fn' : List Nat} {a b c : FLink F} (h1 : Kept a b) (h2 : SendX fn fn' b c) :
    SendX fn fn' a c := by
  rcases h2 with h | ⟨h, hid, hlt⟩
  · exact Or.inl (h1.trans h)
  · exact Or.inr ⟨h, hid.trans h1.connId, by rw [← h1.connId]; exact hlt⟩

theorem fwdLink_sendX (l : FLink F) (pkt : Link.Bytes) (seq : Option Nat) (now : Nat) (fn : List Nat) :
    SendX fn (Hk.fwdLink fa l pkt seq now fn).2.2 l (Hk.fwdLink fa l pkt seq now fn).1 := by
  rcases fwdLink_exact l pkt seq now fn with ⟨a, -, -⟩ | ⟨a, b, -, d, e⟩
  · exact Or.inl a
  · exact Or.inr ⟨a, b, by rw [e]; exact Hk.count_erase_lt fn _ d⟩

theorem forwardVia_px (s : Sys F) (sel : Nat) (pkt : Sys.Bytes) (seq : Option Nat) (now : Nat) :
    Hk.PW (SendX s.failNext (forwardVia s sel pkt seq now).1.failNext) s.links (forwardVia s sel pkt seq now).1.links := by
  cases hl : s.links[sel]? with
  | none =>
    rw [Hk.forwardVia_none s sel pkt seq now hl]
    exact Hk.PW.refl (SendX.refl _ _) _
  | some l =>
    obtain ⟨e1, e2, -, -⟩ := Hk.forwardVia_eq s sel pkt seq now l hl
    rw [e1, e2]
    exact Hk.pw_setAt (SendX.refl _ _) _ _ l _ hl (fwdLink_sendX l pkt seq now s.failNext)

/-- What a probe pass does to one link: nothing at all, or — the link is connected — the data path. -/
def ProbeX (fn fn' : List Nat) (l l' : FLink F) : Prop :=
  l' = l ∨ (l.core.connected = true ∧ SendX fn fn' l l')

theorem stallProbes_px (pkt : Sys.Bytes) (seq : Option Nat) (now sel : Nat) (ls : List (FLink F)) (i : Nat)
    (fn : List Nat) :
    Hk.PW (ProbeX fn (stallProbesGo fa pkt seq now sel ls i fn).2.2) ls (stallProbesGo fa pkt seq now sel ls i fn).1 := by
  induction ls generalizing i fn with
  | nil => exact .nil
  | cons l rest ih =>
    rw [Hk.stallProbesGo_cons]
    split
    · exact .cons (Or.inl rfl) (ih (i + 1) fn)
    · rename_i hcond
      have hconn : l.core.connected = true := by
        simp only [Bool.or_eq_true, Bool.not_eq_true', not_or] at hcond
        simpa using hcond.2
      obtain ⟨-, p2⟩ := Hk.probeLink_step false none l pkt seq now fn hconn
      obtain ⟨-, h2⟩ := Hk.stallProbes_pw false none pkt seq now sel rest (i + 1) (Hk.probeLink fa l pkt seq now fn).2.2
      dsimp only
      refine .cons (Or.inr ⟨hconn, ?_⟩) ((ih (i + 1) _).mono (fun a b h => ?_))
      · have hx : SendX fn (Hk.probeLink fa l pkt seq now fn).2.2 l (Hk.probeLink fa l pkt seq now fn).1 := by
          rcases probeLink_exact l pkt seq now fn with ⟨a, -⟩ | ⟨a, b, d, e⟩
          · exact Or.inl a
          · exact Or.inr ⟨a, b, by rw [e]; exact Hk.count_erase_lt fn _ d⟩
        exact hx.mono (Hk.FnLe.refl _) h2
      · rcases h with h | ⟨hc, h⟩
        · exact Or.inl h
        · exact Or.inr ⟨hc, h.mono p2 (Hk.FnLe.refl _)⟩

/-- Composition: the data path on the chosen link, then the probe pass. -/
theorem SendX.then_probe {fn fn1 fn2 : List Nat} {a b c : FLink F}
    (h1 : SendX fn fn1 a b) (h2 : ProbeX fn1 fn2 b c) (l1 : Hk.FnLe fn fn1) (l2 : Hk.FnLe fn1 fn2) :
    SendX fn fn2 a c := by
  rcases h2 with rfl | ⟨hc, h2⟩
  · exact h1.mono (Hk.FnLe.refl _) l2
  · rcases h1 with h1 | ⟨h1, hid, lt1⟩
    · exact (SendX.of_kept h1 h2).mono l1 (Hk.FnLe.refl _)
    · rw [h1.1.connected] at hc; cases hc

/-- The selection pass keeps the accounting core of every link. -/
theorem runSelect_kept (s : Sys F) (now : Nat) : Hk.PW Kept s.links (runSelect s now).1.links := by
  obtain ⟨g, h1, -, -, -⟩ := Hk.runSelect_links s now
  rw [h1]
  exact Hk.PW.map _ _ (fun l => ⟨rfl, rfl, rfl, Iff.rfl⟩)

/-- **Client event, link by link, exactly.**  Every link is `Kept` (window, connected flag, conn id,
registering-ness unchanged), or it is reset and an injected send failure for its conn id was consumed by
this event. -/
theorem client_px (s : Sys F) (pkt : Sys.Bytes) (now : Nat) :
    Hk.PW (SendX s.failNext (handleSrtPacket s pkt now).1.failNext) s.links (handleSrtPacket s pkt now).1.links := by
  cases hne : pkt.isEmpty
  case true =>
    have : handleSrtPacket s pkt now = (s, {}) := by unfold handleSrtPacket; simp [hne]
    rw [this]
    exact Hk.PW.refl (SendX.refl _ _) _
  case false =>
  cases hc : s.reg.hasConnected
  case false =>
    rw [Hk.handleSrtPacket_pre s pkt now hne hc]
    split
    · rename_i i _
      exact forwardVia_px s i pkt (Codec.getSrtSequenceNumberS pkt) now
    · exact Hk.PW.refl (SendX.refl _ _) _
  case true =>
    have hsel1 := runSelect_kept s now
    obtain ⟨r1, r2, r3⟩ := Hk.runSelect_other s now
    cases hsel : Hk.clientSel s pkt now with
    | none =>
      rw [Hk.handleSrtPacket_none s pkt now hne hc hsel]
      exact hsel1.mono (fun a b h => Or.inl h)
    | some i =>
      rw [Hk.handleSrtPacket_some s pkt now i hne hc hsel]
      have f1 := forwardVia_px (runSelect s now).1 i pkt (Codec.getSrtSequenceNumberS pkt) now
      obtain ⟨-, f2, -, -⟩ := Hk.forwardVia_pw false none (runSelect s now).1 i pkt
        (Codec.getSrtSequenceNumberS pkt) now (fun h => by cases h)
      rw [r3] at f1 f2
      have hstage2 : Hk.PW (SendX s.failNext
          (forwardVia (runSelect s now).1 i pkt (Codec.getSrtSequenceNumberS pkt) now).1.failNext) s.links
          (forwardVia (runSelect s now).1 i pkt (Codec.getSrtSequenceNumberS pkt) now).1.links :=
        Hk.PW.comp hsel1 f1 (fun a b c h1 h2 => SendX.of_kept h1 h2)
      unfold Hk.clientFwd
      dsimp only
      split
      · have p1 := stallProbes_px (fa := (forwardVia (runSelect s now).1 i pkt (Codec.getSrtSequenceNumberS pkt) now).1.failAfter) pkt (Codec.getSrtSequenceNumberS pkt) now i
          (forwardVia (runSelect s now).1 i pkt (Codec.getSrtSequenceNumberS pkt) now).1.links 0
          (forwardVia (runSelect s now).1 i pkt (Codec.getSrtSequenceNumberS pkt) now).1.failNext
        obtain ⟨-, p2⟩ := Hk.stallProbes_pw false none pkt (Codec.getSrtSequenceNumberS pkt) now i
          (forwardVia (runSelect s now).1 i pkt (Codec.getSrtSequenceNumberS pkt) now).1.links 0
          (forwardVia (runSelect s now).1 i pkt (Codec.getSrtSequenceNumberS pkt) now).1.failNext
        exact Hk.PW.comp hstage2 p1 (fun a b c h1 h2 => SendX.then_probe h1 h2 f2 p2)
      · exact hstage2

/-! ## Consumption ⇒ reset -/

/-- The link at some index with conn id `c` was reset. -/
def ResetAt (c : Nat) (ls ls' : List (FLink F)) : Prop :=
  ∃ (k : Nat) (l l' : FLink F), ls[k]? = some l ∧ l.core.connId = c ∧ ls'[k]? = some l' ∧ Reset l'

theorem count_erase_ne (fn : List Nat) (a c : Nat) (h : c ≠ a) : (fn.erase a).count c = fn.count c := by
  rw [List.count_erase]
  have : (a == c) = false := by simpa using fun e => h e.symm
  simp [this]

/-- The probe pass consumes an injected failure for conn id `c` only by resetting a link with that id. -/
theorem stallProbes_consumed (pkt : Sys.Bytes) (seq : Option Nat) (now sel : Nat) (ls : List (FLink F)) (i : Nat)
    (fn : List Nat) (c : Nat)
    (h : (stallProbesGo fa pkt seq now sel ls i fn).2.2.count c < fn.count c) :
    ResetAt c ls (stallProbesGo fa pkt seq now sel ls i fn).1 := by
  induction ls generalizing i fn with
  | nil => simp [stallProbesGo] at h
  | cons l rest ih =>
    rw [Hk.stallProbesGo_cons] at h ⊢
    split at h
    · rename_i hcond
      rw [if_pos hcond]
      obtain ⟨k, a, a', h1, h2, h3, h4⟩ := ih (i + 1) fn h
      exact ⟨k + 1, a, a', by simpa using h1, h2, by simpa using h3, h4⟩
    · rename_i hcond
      rw [if_neg hcond]
      dsimp only at h ⊢
      rcases probeLink_exact l pkt seq now fn with ⟨-, e⟩ | ⟨a, b, d, e⟩
      · rw [e] at h ⊢
        obtain ⟨k, x, x', h1, h2, h3, h4⟩ := ih (i + 1) fn h
        exact ⟨k + 1, x, x', by simpa using h1, h2, by simpa using h3, h4⟩
      · by_cases hc : c = l.core.connId
        · exact ⟨0, l, _, rfl, hc.symm, rfl, a⟩
        · rw [e] at h
          have h' := h
          rw [← count_erase_ne fn l.core.connId c hc] at h'
          obtain ⟨k, x, x', h1, h2, h3, h4⟩ := ih (i + 1) (fn.erase l.core.connId) h'
          refine ⟨k + 1, x, x', by simpa using h1, h2, ?_, h4⟩
          rw [e]
          simpa using h3

theorem forwardVia_consumed (s : Sys F) (sel : Nat) (pkt : Sys.Bytes) (seq : Option Nat) (now : Nat) (c : Nat)
    (h : (forwardVia s sel pkt seq now).1.failNext.count c < s.failNext.count c) :
    ∃ l l', s.links[sel]? = some l ∧ l.core.connId = c ∧ (forwardVia s sel pkt seq now).1.links[sel]? = some l' ∧
      Reset l' := by
  cases hl : s.links[sel]? with
  | none =>
    rw [Hk.forwardVia_none s sel pkt seq now hl] at h
    exact absurd h (Nat.lt_irrefl _)
  | some l =>
    obtain ⟨e1, e2, -, -⟩ := Hk.forwardVia_eq s sel pkt seq now l hl
    rw [e2] at h
    rw [e1]
    have hget : (setAt s.links sel (Hk.fwdLink s.failAfter l pkt seq now s.failNext).1)[sel]? =
        some (Hk.fwdLink s.failAfter l pkt seq now s.failNext).1 := by
      rw [Hk.getElem?_setAt, if_pos rfl, hl]; rfl
    rcases fwdLink_exact l pkt seq now s.failNext with ⟨-, e, -⟩ | ⟨a, b, -, d, e⟩
    · rw [e] at h; exact absurd h (Nat.lt_irrefl _)
    · by_cases hc : c = l.core.connId
      · exact ⟨l, _, rfl, hc.symm, hget, a⟩
      · rw [e, count_erase_ne _ _ _ hc] at h
        exact absurd h (Nat.lt_irrefl _)

/-- The probe pass never touches a link that is not connected (in particular one that was just reset). -/
theorem stallProbes_skip_down (pkt : Sys.Bytes) (seq : Option Nat) (now sel : Nat) (ls : List (FLink F)) (i : Nat)
    (fn : List Nat) (k : Nat) (l : FLink F) (hl : ls[k]? = some l) (hd : l.core.connected = false) :
    (stallProbesGo fa pkt seq now sel ls i fn).1[k]? = some l := by
  obtain ⟨l', h1, h2⟩ := (stallProbes_px pkt seq now sel ls i fn).get k l hl
  rcases h2 with rfl | ⟨hc, -⟩
  · exact h1
  · rw [hd] at hc; cases hc

/-- **Consumption ⇒ reset, client event.**  If a client event consumed an injected send failure for conn id
`c`, a link with conn id `c` was reset by it. -/
theorem client_consumed (s : Sys F) (pkt : Sys.Bytes) (now : Nat) (c : Nat)
    (h : (handleSrtPacket s pkt now).1.failNext.count c < s.failNext.count c) :
    ResetAt c s.links (handleSrtPacket s pkt now).1.links := by
  cases hne : pkt.isEmpty
  case true =>
    have : handleSrtPacket s pkt now = (s, {}) := by unfold handleSrtPacket; simp [hne]
    rw [this] at h
    exact absurd h (Nat.lt_irrefl _)
  case false =>
  cases hc : s.reg.hasConnected
  case false =>
    rw [Hk.handleSrtPacket_pre s pkt now hne hc] at h ⊢
    split at h
    · rename_i i _
      obtain ⟨l, l', h1, h2, h3, h4⟩ := forwardVia_consumed s i pkt _ now c h
      exact ⟨i, l, l', h1, h2, h3, h4⟩
    · exact absurd h (Nat.lt_irrefl _)
  case true =>
    obtain ⟨r1, r2, r3⟩ := Hk.runSelect_other s now
    have hsel1 := runSelect_kept s now
    cases hsel : Hk.clientSel s pkt now with
    | none =>
      rw [Hk.handleSrtPacket_none s pkt now hne hc hsel] at h
      exact absurd h (Nat.lt_irrefl _)
    | some i =>
      rw [Hk.handleSrtPacket_some s pkt now i hne hc hsel] at h ⊢
      -- stage 2: the chosen link
      have hfwd : ∀ (hh : (forwardVia (runSelect s now).1 i pkt (Codec.getSrtSequenceNumberS pkt) now).1.failNext.count c
            < s.failNext.count c),
          ∃ l l', s.links[i]? = some l ∧ l.core.connId = c ∧
            (forwardVia (runSelect s now).1 i pkt (Codec.getSrtSequenceNumberS pkt) now).1.links[i]? = some l' ∧
            Reset l' := by
        intro hh
        rw [← r3] at hh
        obtain ⟨m, l', h1, h2, h3, h4⟩ := forwardVia_consumed (runSelect s now).1 i pkt _ now c hh
        obtain ⟨l, hl, hk⟩ := pw_get' hsel1 h1
        exact ⟨l, l', hl, by rw [← hk.connId]; exact h2, h3, h4⟩
      unfold Hk.clientFwd at h ⊢
      dsimp only at h ⊢
      split at h
      · rename_i hseq
        rw [if_pos hseq]
        dsimp only at h ⊢
        by_cases h2 : (forwardVia (runSelect s now).1 i pkt (Codec.getSrtSequenceNumberS pkt) now).1.failNext.count c
            < s.failNext.count c
        · obtain ⟨l, l', a1, a2, a3, a4⟩ := hfwd h2
          exact ⟨i, l, l', a1, a2, stallProbes_skip_down _ _ _ _ _ _ _ i l' a3 a4.1.connected, a4⟩
        · have h3 : (stallProbesGo (forwardVia (runSelect s now).1 i pkt (Codec.getSrtSequenceNumberS pkt) now).1.failAfter pkt (Codec.getSrtSequenceNumberS pkt) now i
              (forwardVia (runSelect s now).1 i pkt (Codec.getSrtSequenceNumberS pkt) now).1.links 0
              (forwardVia (runSelect s now).1 i pkt (Codec.getSrtSequenceNumberS pkt) now).1.failNext).2.2.count c <
              (forwardVia (runSelect s now).1 i pkt (Codec.getSrtSequenceNumberS pkt) now).1.failNext.count c := by
            omega
          obtain ⟨k, m, m', b1, b2, b3, b4⟩ := stallProbes_consumed _ _ _ _ _ _ _ c h3
          -- the link at index `k` before the event has the same conn id
          have f1 := forwardVia_px (runSelect s now).1 i pkt (Codec.getSrtSequenceNumberS pkt) now
          obtain ⟨x, hx, hxm⟩ := pw_get' f1 b1
          obtain ⟨l, hl, hk⟩ := pw_get' hsel1 hx
          have hid : m.core.connId = x.core.connId := by
            rcases hxm with hk' | ⟨-, hid, -⟩
            · exact hk'.connId
            · exact hid
          exact ⟨k, l, m', hl, by rw [← hk.connId, ← hid]; exact b2, b3, b4⟩
      · rename_i hseq
        rw [if_neg hseq]
        dsimp only at h ⊢
        obtain ⟨l, l', a1, a2, a3, a4⟩ := hfwd h
        exact ⟨i, l, l', a1, a2, a3, a4⟩

/-! ## REG_ERR -/

/-- **REG_ERR on a link's conn id is `mark_for_recovery` of that link.** -/
theorem regErr_link (s : Sys F) (cid : Nat) (data : Sys.Bytes) (now j : Nat) (l : FLink F)
    (hl : s.links[j]? = some l) (hidx : s.links.findIdx? (·.core.connId == cid) = some j)
    (hty : Codec.getPacketTypeS data = some 0x9210) :
    (handleUplinkPacket s cid data now).1.links[j]? = some l.markForRecovery := by
  have hne : data ≠ [] := by
    rintro rfl
    simp [Codec.getPacketTypeS] at hty
  rw [Uplink.handleUplinkPacket_eq s cid data now j l hne hidx hl]
  dsimp only
  obtain ⟨-, -, i3, i4, i5, -⟩ := Uplink.incoming_spec l j s.reg s.clientKnown data now 0x9210 hty
  have harr : Uplink.arrival l j s.reg s.clientKnown data now = l.markForRecovery := by
    rcases Uplink.arrival_cases l j s.reg s.clientKnown data now 0x9210 hty with
      ⟨e, -⟩ | ⟨e, -⟩ | ⟨e, -⟩ | ⟨-, h⟩ | ⟨e, -⟩ | ⟨-, -, -, p4, -, -⟩
    · cases e
    · cases e
    · cases e
    · exact h
    · cases e
    · exact absurd rfl p4
  rw [Hk.procEvents_empty _ j _ now ⟨by rw [i4]; rfl, by rw [i3]; rfl, by rw [i5]; rfl⟩, harr]
  show (setAt s.links j l.markForRecovery)[j]? = _
  rw [Hk.getElem?_setAt, if_pos rfl, hl]
  rfl

/-! ## Distinct conn ids: the reset link is THE link with that id -/

theorem idx_unique (ls : List (FLink F)) (h : (ls.map (·.core.connId)).Nodup) {k j : Nat} {a l : FLink F}
    (hk : ls[k]? = some a) (hj : ls[j]? = some l) (e : a.core.connId = l.core.connId) : k = j := by
  have hk' : (ls.map (·.core.connId))[k]? = some a.core.connId := by rw [List.getElem?_map, hk]; rfl
  have hj' : (ls.map (·.core.connId))[j]? = some l.core.connId := by rw [List.getElem?_map, hj]; rfl
  have hlt : k < (ls.map (·.core.connId)).length := (List.getElem?_eq_some_iff.1 hk').1
  exact (List.getElem?_inj hlt h).1 (by rw [hk', hj', e])

/-- **Consumption ⇒ reset of THIS link** (pairwise distinct conn ids): if a client event consumed an injected
send failure for link `j`'s conn id, link `j` comes out reset. -/
theorem client_consumed_link (s : Sys F) (pkt : Sys.Bytes) (now j : Nat) (l l' : FLink F)
    (hnd : (s.links.map (·.core.connId)).Nodup) (hl : s.links[j]? = some l)
    (hl' : (handleSrtPacket s pkt now).1.links[j]? = some l')
    (h : (handleSrtPacket s pkt now).1.failNext.count l.core.connId < s.failNext.count l.core.connId) :
    Reset l' := by
  obtain ⟨k, a, a', h1, h2, h3, h4⟩ := client_consumed s pkt now l.core.connId h
  have : k = j := idx_unique s.links hnd h1 hl h2
  subst this
  rw [hl'] at h3
  cases h3
  exact h4

/-! ## The chosen link: a failing threshold send is a consumed failure -/

/-- The fault list after a client event is what forwarding on the chosen link left, minus what the probe pass
consumed.  `m` is the chosen link as the selection pass left it: same liveness / accounting fields as `l`. -/
theorem client_target_fn (s : Sys F) (pkt : Sys.Bytes) (now j : Nat) (l : FLink F) (hl : s.links[j]? = some l)
    (htgt : SelShell.clientTarget s pkt now = some j) :
    ∃ m, SelShell.liveAcct m = SelShell.liveAcct l ∧
      Hk.FnLe (Hk.fwdLink s.failAfter m pkt (Codec.getSrtSequenceNumberS pkt) now s.failNext).2.2
        (handleSrtPacket s pkt now).1.failNext := by
  unfold SelShell.clientTarget at htgt
  cases hne : pkt.isEmpty
  case true => rw [hne] at htgt; simp at htgt
  case false =>
  rw [hne] at htgt
  simp only [Bool.false_eq_true, if_false] at htgt
  cases hc : s.reg.hasConnected
  case false =>
    rw [hc] at htgt
    simp only [Bool.false_eq_true, if_false] at htgt
    rw [Hk.handleSrtPacket_pre s pkt now hne hc, htgt]
    dsimp only
    obtain ⟨-, e2, -, -⟩ := Hk.forwardVia_eq s j pkt (Codec.getSrtSequenceNumberS pkt) now l hl
    refine ⟨l, rfl, ?_⟩
    show Hk.FnLe _ (forwardVia s j pkt (Codec.getSrtSequenceNumberS pkt) now).1.failNext
    rw [e2]
    exact Hk.FnLe.refl _
  case true =>
    rw [hc] at htgt
    simp only [if_true] at htgt
    obtain ⟨-, -, r3⟩ := Hk.runSelect_other s now
    obtain ⟨m, hm, hml, -, -⟩ := SelShell.passLinks_liveAcct s pkt now j l hl
    have hpass : SelShell.passLinks s pkt now = (runSelect s now).1.links := by
      unfold SelShell.passLinks SelShell.passRan
      simp [hne, hc]
    rw [hpass] at hm
    rw [Hk.handleSrtPacket_some s pkt now j hne hc htgt]
    obtain ⟨-, e2, -, -⟩ := Hk.forwardVia_eq (runSelect s now).1 j pkt (Codec.getSrtSequenceNumberS pkt) now m hm
    have hfa : (runSelect s now).1.failAfter = s.failAfter := rfl
    rw [r3, hfa] at e2
    refine ⟨m, hml, ?_⟩
    unfold Hk.clientFwd
    dsimp only
    split
    · dsimp only
      rw [← e2]
      exact (Hk.stallProbes_pw false none pkt (Codec.getSrtSequenceNumberS pkt) now j _ 0 _).2
    · dsimp only
      rw [e2]
      exact Hk.FnLe.refl _

/-- **The chosen link, pre-state form**: threshold reached and a failure pending for its conn id ⇒ the link
comes out reset and the event consumed that failure. -/
theorem client_target_fails (s : Sys F) (pkt : Sys.Bytes) (now j : Nat) (l l' : FLink F)
    (hl : s.links[j]? = some l) (hl' : (handleSrtPacket s pkt now).1.links[j]? = some l')
    (htgt : SelShell.clientTarget s pkt now = some j)
    (hq : (l.queueDataPacket pkt (Codec.getSrtSequenceNumberS pkt) now).2 = true)
    (hfn : s.failNext.contains l.core.connId = true) :
    Reset l' ∧ (handleSrtPacket s pkt now).1.failNext.count l.core.connId < s.failNext.count l.core.connId := by
  constructor
  · cases SelShell.client_liveAcct s pkt now j l l' hl hl' with
    | idle ht _ => exact absurd htgt ht
    | probe ht => exact absurd htgt ht
    | target _ h =>
      rcases fwdLink_exact l pkt (Codec.getSrtSequenceNumberS pkt) now s.failNext with ⟨-, -, hn⟩ | ⟨hrs, -, -, -, -⟩
      · exact absurd ⟨hq, hfn⟩ hn
      · have hc : l'.core = (Hk.fwdLink s.failAfter l pkt (Codec.getSrtSequenceNumberS pkt) now s.failNext).1.core :=
          congrArg (·.core) h
        have hqq : l'.queue = (Hk.fwdLink s.failAfter l pkt (Codec.getSrtSequenceNumberS pkt) now s.failNext).1.queue :=
          congrArg (·.queue) h
        exact ⟨⟨by rw [hc]; exact hrs.1.window, by rw [hc]; exact hrs.1.log, by rw [hqq]; exact hrs.1.queue,
          by rw [hc]; exact hrs.1.inFlight, by rw [hc]; exact hrs.1.connected⟩, by rw [hc]; exact hrs.2⟩
  · obtain ⟨m, hml, hle⟩ := client_target_fn s pkt now j l hl htgt
    -- forwarding on `m` and on `l` leave the same fault list
    have h1 := congrArg (fun x => x.2.2) (SelShell.liveAcct_fwdLink (fa := s.failAfter) m pkt (Codec.getSrtSequenceNumberS pkt) now s.failNext)
    have h2 := congrArg (fun x => x.2.2) (SelShell.liveAcct_fwdLink (fa := s.failAfter) l pkt (Codec.getSrtSequenceNumberS pkt) now s.failNext)
    dsimp only at h1 h2
    rw [hml, h2] at h1
    rw [← h1] at hle
    rcases fwdLink_exact l pkt (Codec.getSrtSequenceNumberS pkt) now s.failNext with ⟨-, -, hn⟩ | ⟨-, -, -, -, e⟩
    · exact absurd ⟨hq, hfn⟩ hn
    · rw [e] at hle
      exact Nat.lt_of_le_of_lt (hle _) (Hk.count_erase_lt _ _ hfn)

end Srtla.Audit2B
