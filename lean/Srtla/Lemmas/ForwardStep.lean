import Srtla.Lemmas.ForwardHk
import Srtla.Lemmas.Audit2AClient
/-!
# One event, any event: the master per-link theorem, the invariant, runs (C01)

The shell model has ELEVEN event constructors: `client uplink flush hk setCfg crit failNext failBind stamp
syncTimeout` (`Model/Sys.lean`).  Only the first four can discard a queued datagram, and each only with its
CAUSE (`LossCause`); the seven others (`setCfg`, `crit`, the two fault injections `failNext` / `failBind`, the
verdict stamp `stamp` and the timeout refresh `syncTimeout`) never touch a queue.
-/
namespace Srtla.Sys
open Srtla Srtla.Gen Srtla.Conn Srtla.Select Srtla.Rtt Srtla.Link Scalar

set_option linter.unusedSectionVars false

variable {F : Type} [Scalar F]

/-! ## Specification functions of one event -/

/-- What event `ev` appends to link `i`'s queue: only a client datagram appends anything. -/
def appended (s : Sys F) (ev : Ev) (i : Nat) : List QItem :=
  match ev with
  | .client now pkt => appendedClient s pkt now i
  | _ => []

/-- The data-path datagrams event `ev` put on the socket of conn id `c`, in order.  Queued datagrams
leave only in `client` events (threshold flush) and `flush` events (15 ms tick); what `uplink` and
`hk` events send (REG1/REG2, keepalives) is built by the shell and never comes from a queue. -/
def dataWire (ev : Ev) (o : Out) (c : Nat) : List Bytes :=
  match ev with
  | .client _ _ => wireOf c o.wire
  | .flush _ => wireOf c o.wire
  | _ => []

/-- Event `ev` is a data packet routed elsewhere while link `i` was stall-gated and connected
(`stall_probe_due` consulted for link `i`). -/
def consulted (s : Sys F) (ev : Ev) (i : Nat) : Bool :=
  match ev with
  | .client now pkt => probeConsulted s pkt now i
  | _ => false

/-- The only ways event `ev` can discard what link `i` holds (`l` before, `l'` after).  Every arm carries the
CAUSE, i.e. a fact about the PRE-state and the event, not only the shape of the post-state:
* `client`: a send failure was pending for the conn id AND THIS EVENT CONSUMED IT (the multiplicity of the
  conn id in `failNext` is strictly smaller afterwards): the threshold flush failed, and the link was reset by
  `mark_for_recovery` (not connected, phase registering);
* `flush`: a send failure was pending for the conn id and this event consumed it (the failed periodic send;
  the drained batch is lost, the link is not reset);
* `uplink`: the datagram arrived on THIS link's conn id and the registration layer classified it as REG3
  (`clear_pre_registration_state`) or REG_ERR (`mark_for_recovery`) — by `Hk.regEvent_of_type` exactly the
  type codes 0x9202 / 0x9210 (spelled out in `C01_loss_cause_def`);
* `hk`: the record the tick started with was timed out at `now` AND `should_attempt_reconnect(now)` held, and
  housekeeping started the reconnect (attempt stamped `now`, not connected, phase registering:
  `reset_for_reconnect`, or `mark_for_recovery` when the socket re-creation failed);
* `setCfg`, `crit`, `failNext`, `failBind`, `stamp`, `syncTimeout`: never;
* `reload`: not an event of the INDEX-based walk (`step_link` excludes it, `hnr`): a reload discards the whole
  queue of every link whose address is no longer desired, together with the link — the cause
  `Props/SysReload.lean: C01_reload_accounting` states. -/
def LossCause (s : Sys F) (ev : Ev) (i : Nat) (l l' : FLink F) : Prop :=
  match ev with
  | .client now pkt => FailedSendReset s.failNext l l' ∧
      (handleSrtPacket s pkt now).1.failNext.count l.core.connId < s.failNext.count l.core.connId
  | .flush now => l.core.connId ∈ s.failNext ∧
      (flushAllBatches s now).1.failNext.count l.core.connId < s.failNext.count l.core.connId
  | .uplink now cid data => UplinkReset s i cid data now l
  | .hk now => HkReset now l l'
  | _ => False

/-- A prefix that is not shorter than the list is the list. -/
theorem take_eq_self_of_length_ge {α : Type} (k : Nat) (xs : List α) (h : ¬ (xs.take k).length < xs.length) :
    xs.take k = xs := by
  rw [List.length_take] at h
  exact List.take_of_length_le (by omega)

/-- Strengthen the cause of a `LinkFx`: the new cause has to be shown only when something really vanished
(the queue with the appended items was non-empty, is empty now, and FEWER datagrams went on the wire than it
held - nothing, or a proper prefix) — a "discard" of nothing is a "held", a "discard" after the whole queue went
out (a send that reported failure after the last datagram) is a "sent". -/
theorem LinkFx.strengthen {c1 c2 : Prop} {app : List QItem} {l l' : FLink F} {b : List Bytes}
    (h : LinkFx c1 app l l' b)
    (hc : l.queue ++ app ≠ [] → l'.queue = [] → b.length < (l.queue ++ app).length → c1 → c2) :
    LinkFx c2 app l l' b := by
  obtain ⟨h1, h2 | h2 | h2⟩ := h
  · exact ⟨h1, Or.inl h2⟩
  · exact ⟨h1, Or.inr (Or.inl h2)⟩
  · obtain ⟨hq', ⟨k, hk⟩, hcause⟩ := h2
    by_cases hq : l.queue ++ app = []
    · refine ⟨h1, Or.inl ⟨by rw [hq', hq], ?_, Or.inl (List.append_eq_nil_iff.1 hq).2⟩⟩
      rw [hk, hq]; simp
    · by_cases hlen : b.length < (l.queue ++ app).length
      · exact ⟨h1, Or.inr (Or.inr ⟨hq', ⟨k, hk⟩, hc hq hq' hlen hcause⟩)⟩
      · refine ⟨h1, Or.inr (Or.inl ⟨hq', ?_⟩)⟩
        rw [hk]
        apply take_eq_self_of_length_ge
        rw [← hk]
        simpa [bytesOf] using hlen

theorem linkFx_of_frame {cause : Prop} {l l' : FLink F} (hc : l'.core.connId = l.core.connId)
    (h : (l'.queue = l.queue ∧ l'.probeCounter = l.probeCounter) ∨ (l'.queue = [] ∧ cause)) :
    LinkFx cause [] l l' [] := by
  refine ⟨hc, ?_⟩
  rcases h with h | h
  · exact Or.inl ⟨by simp [h.1], rfl, Or.inl rfl⟩
  · exact Or.inr (Or.inr ⟨h.1, ⟨0, rfl⟩, h.2⟩)

/-- **Master theorem**: the effect of ANY event on EVERY link.  The number of links is constant; link
`i` keeps its conn id; its queue grows by exactly `appended s ev i` at the end and then is either
held, or put on the wire whole, in order, byte for byte (`dataWire` for its conn id), or discarded
with a `LossCause` after at most a proper prefix of it went on the wire; the probe counter advances exactly when `consulted`. -/
theorem step_link (s : Sys F) (ev : Ev) (hnd : (ids s.links).Nodup) (hnr : ev.isReload = false) :
    (step s ev).1.links.length = s.links.length ∧
    ∀ (i : Nat) (l : FLink F), s.links[i]? = some l → ∃ l', (step s ev).1.links[i]? = some l' ∧
      LinkFx (LossCause s ev i l l') (appended s ev i) l l' (dataWire ev (step s ev).2 l.core.connId) ∧
      ProbeFx (consulted s ev i = true) l l' ∧
      (appended s ev i = [] → l'.queue = l.queue ∨ l'.queue = []) := by
  cases ev with
  | reload rnow raddrs routs => cases hnr
  | client now pkt =>
    obtain ⟨h1, -, -, -, -, -, -, h8⟩ := client_links s pkt now hnd
    refine ⟨h1, fun i l hl => ?_⟩
    obtain ⟨l', g1, g2, g3, g4⟩ := h8 i l hl
    refine ⟨l', g1, ?_, g3, fun h => Or.inl (g4 h).1⟩
    exact g2.strengthen fun hne hq hw hc => ⟨hc, client_consumed s pkt now hnd i l l' hl g1 hne hq hw⟩
  | flush now =>
    obtain ⟨h1, -, -, -, -, -, h7⟩ := flush_links s now hnd
    refine ⟨h1, fun i l hl => ?_⟩
    obtain ⟨l', g1, g2, g3, g4⟩ := h7 i l hl
    refine ⟨l', g1, ?_, ?_, fun _ => Or.inr g3⟩
    · exact g2.strengthen fun hne _ hw hc =>
        ⟨hc, flush_consumed s now i l hl (by simpa [appended] using hne) (by simpa [appended] using hw)⟩
    · unfold ProbeFx; rw [if_neg (by simp [consulted])]; exact Or.inl g4
  | uplink now cid data =>
    obtain ⟨h1, -, -, -, h5⟩ := uplink_links s cid data now
    refine ⟨h1, fun i l hl => ?_⟩
    obtain ⟨l', g1, g2, g3⟩ := h5 i l hl
    refine ⟨l', g1, ?_, ?_, fun _ => ?_⟩
    · exact linkFx_of_frame g2 (g3.imp id fun h => ⟨h.1, h.2.2⟩)
    · unfold ProbeFx; rw [if_neg (by simp [consulted])]
      rcases g3 with h | h
      · exact Or.inl h.2
      · exact h.2.1
    · rcases g3 with h | h
      · exact Or.inl h.1
      · exact Or.inr h.1
  | hk now =>
    obtain ⟨-, -, -, hp⟩ := hk_links s now
    refine ⟨hp.length_eq, fun i l hl => ?_⟩
    obtain ⟨l', g1, g2, g3⟩ := hp.get i l hl
    refine ⟨l', g1, ?_, ?_, fun _ => ?_⟩
    · exact linkFx_of_frame g2 (g3.imp id fun h => ⟨h.1, h.2.2⟩)
    · unfold ProbeFx; rw [if_neg (by simp [consulted])]
      rcases g3 with h | h
      · exact Or.inl h.2
      · exact Or.inr h.2.1
    · rcases g3 with h | h
      · exact Or.inl h.1
      · exact Or.inr h.1
  | setCfg cfg =>
    refine ⟨rfl, fun i l hl => ⟨l, hl, LinkFx.refl _ l, ?_, fun _ => Or.inl rfl⟩⟩
    unfold ProbeFx; rw [if_neg (by simp [consulted])]; exact Or.inl rfl
  | crit d =>
    refine ⟨rfl, fun i l hl => ⟨l, hl, LinkFx.refl _ l, ?_, fun _ => Or.inl rfl⟩⟩
    unfold ProbeFx; rw [if_neg (by simp [consulted])]; exact Or.inl rfl
  | failNext cid =>
    refine ⟨rfl, fun i l hl => ⟨l, hl, LinkFx.refl _ l, ?_, fun _ => Or.inl rfl⟩⟩
    unfold ProbeFx; rw [if_neg (by simp [consulted])]; exact Or.inl rfl
  | failAfter cid kfa =>
    refine ⟨rfl, fun i l hl => ⟨l, hl, LinkFx.refl _ l, ?_, fun _ => Or.inl rfl⟩⟩
    unfold ProbeFx; rw [if_neg (by simp [consulted])]; exact Or.inl rfl
  | failBind cid =>
    refine ⟨rfl, fun i l hl => ⟨l, hl, LinkFx.refl _ l, ?_, fun _ => Or.inl rfl⟩⟩
    unfold ProbeFx; rw [if_neg (by simp [consulted])]; exact Or.inl rfl
  | stamp idx weak ld ccb cct =>
    -- a verdict stamp rewrites four fields outside the data path of one link
    refine ⟨by show (stampLink s.links idx weak ld ccb cct).length = _; unfold stampLink; exact List.length_mapIdx,
      fun i l hl => ?_⟩
    have hg : (step s (.stamp idx weak ld ccb cct)).1.links[i]? =
        some (if i = idx then { l with weak := weak, lossDegraded := ld, ccBackingOff := ccb, ccTarget := cct }
          else l) := by
      show (stampLink s.links idx weak ld ccb cct)[i]? = _
      unfold stampLink
      rw [List.getElem?_mapIdx, hl]; rfl
    refine ⟨_, hg, ?_, ?_, fun _ => Or.inl ?_⟩
    · split
      · exact ⟨rfl, Or.inl ⟨by simp [appended], rfl, Or.inl rfl⟩⟩
      · exact LinkFx.refl _ l
    · unfold ProbeFx; rw [if_neg (by simp [consulted])]
      split <;> exact Or.inl rfl
    · split <;> rfl
  | syncTimeout =>
    -- `sync_conn_timeout` rewrites the timeout copy of every link, outside the data path
    refine ⟨by show (s.links.map _).length = _; exact List.length_map _, fun i l hl => ?_⟩
    refine ⟨{ l with connTimeoutMs := s.cfg.connTimeoutMs }, ?_, ?_, ?_, fun _ => Or.inl rfl⟩
    · show (s.links.map fun l => ({ l with connTimeoutMs := s.cfg.connTimeoutMs } : FLink F))[i]? = _
      rw [List.getElem?_map, hl]; rfl
    · exact ⟨rfl, Or.inl ⟨by simp [appended], rfl, Or.inl rfl⟩⟩
    · unfold ProbeFx; rw [if_neg (by simp [consulted])]; exact Or.inl rfl

/-! ## The invariant -/

/-- Conn ids are pairwise distinct (they are allocated from a counter and never rewritten) and no
queue holds 32 datagrams. -/
structure Inv (s : Sys F) : Prop where
  nodup : (ids s.links).Nodup
  hold : ∀ l ∈ s.links, l.queue.length < 32

theorem ids_eq_of_get {ls ls' : List (FLink F)} (hlen : ls'.length = ls.length)
    (h : ∀ (i : Nat) (l : FLink F), ls[i]? = some l → ∃ l', ls'[i]? = some l' ∧ l'.core.connId = l.core.connId) :
    ids ls' = ids ls := by
  apply List.ext_getElem?
  intro i
  simp only [ids, List.getElem?_map]
  cases hl : ls[i]? with
  | none =>
    have : ls'[i]? = none := by
      rw [List.getElem?_eq_none_iff, hlen]; exact List.getElem?_eq_none_iff.1 hl
    rw [this]
  | some l =>
    obtain ⟨l', h1, h2⟩ := h i l hl
    rw [h1]; simp [h2]

theorem step_ids (s : Sys F) (ev : Ev) (hnd : (ids s.links).Nodup) (hnr : ev.isReload = false) :
    ids (step s ev).1.links = ids s.links := by
  obtain ⟨h1, h2⟩ := step_link s ev hnd hnr
  exact ids_eq_of_get h1 fun i l hl => by
    obtain ⟨l', g1, g2, -⟩ := h2 i l hl
    exact ⟨l', g1, g2.1⟩

theorem Inv.step {s : Sys F} (h : Inv s) (ev : Ev) (hnr : ev.isReload = false) : Inv (step s ev).1 := by
  obtain ⟨h1, h2⟩ := step_link s ev h.nodup hnr
  refine ⟨by rw [step_ids s ev h.nodup hnr]; exact h.nodup, ?_⟩
  intro l' hl'
  obtain ⟨i, hi, hget⟩ := List.getElem_of_mem hl'
  have hi' : i < s.links.length := by omega
  obtain ⟨l'', g1, g2, -, g4⟩ := h2 i s.links[i] (List.getElem?_eq_getElem hi')
  have : l'' = l' := by
    have := List.getElem?_eq_getElem hi
    rw [g1, hget] at this; exact Option.some.inj this
  subst this
  have hold := h.hold s.links[i] (List.getElem_mem hi')
  rcases g2.2 with g | g | g
  · rcases g.2.2 with happ | hlt
    · rw [g.1, happ, List.append_nil]; exact hold
    · exact hlt.2
  · rw [g.1]; simp
  · rw [g.1]; simp

/-! ## Runs -/

/-- Run a list of events; returns the final state and the outputs, one per event. -/
def run (s : Sys F) : List Ev → Sys F × List Out
  | [] => (s, [])
  | ev :: evs => ((run (step s ev).1 evs).1, (step s ev).2 :: (run (step s ev).1 evs).2)

/-- Over runs that keep the link set.  Runs WITH reloads: `Props/SysReload.lean` (`Inv_run_reload`, under the
hypothesis `FreshRun` that the drawn conn ids are new). -/
theorem Inv.run {s : Sys F} (h : Inv s) (evs : List Ev) (hnr : NoReload evs) : Inv (run s evs).1 := by
  induction evs generalizing s with
  | nil => exact h
  | cons ev evs ih => exact ih (h.step ev hnr.head) hnr.tail

/-- The conn id of link `i` (0 if there is no such link). -/
def connIdOf (s : Sys F) (i : Nat) : Nat := (s.links[i]?.map (·.core.connId)).getD 0

/-- The queue of link `i`. -/
def queueOf (s : Sys F) (i : Nat) : List QItem := (s.links[i]?.map (·.queue)).getD []

/-- **Wire log** of link `i` over a run: the data-path datagrams put on its socket, in order. -/
def wireLog (s : Sys F) : List Ev → Nat → List Bytes
  | [], _ => []
  | ev :: evs, i => dataWire ev (step s ev).2 (connIdOf s i) ++ wireLog (step s ev).1 evs i

/-- **Arrival log** of link `i` over a run: everything appended to its queue, in order. -/
def arrivals (s : Sys F) : List Ev → Nat → List QItem
  | [], _ => []
  | ev :: evs, i => appended s ev i ++ arrivals (step s ev).1 evs i

/-- The client datagrams of an event list, in order, as queue items. -/
def clientItems : List Ev → List QItem
  | [] => []
  | .client now pkt :: evs => clientItem pkt now :: clientItems evs
  | _ :: evs => clientItems evs

/-- Number of probe copies queued on link `i` over a run. -/
def probeCopies (s : Sys F) : List Ev → Nat → Nat
  | [], _ => 0
  | ev :: evs, i =>
    (if consulted s ev i && decide ((s.links[i]?.map (·.probeCounter)).getD 0 + 1 ≥ 100) then 1 else 0) +
      probeCopies (step s ev).1 evs i

/-- Number of data packets routed (to another link) while link `i` was stall-gated and connected. -/
def gatedRouted (s : Sys F) : List Ev → Nat → Nat
  | [], _ => 0
  | ev :: evs, i => (if consulted s ev i then 1 else 0) + gatedRouted (step s ev).1 evs i

theorem connIdOf_step (s : Sys F) (ev : Ev) (hnd : (ids s.links).Nodup) (hnr : ev.isReload = false) (i : Nat) :
    connIdOf (step s ev).1 i = connIdOf s i := by
  have := congrArg (fun (x : List Nat) => x[i]?) (step_ids s ev hnd hnr)
  simp only [ids, List.getElem?_map] at this
  unfold connIdOf
  rw [this]

end Srtla.Sys
