import Srtla.Lemmas.ClassicRun
import Srtla.Lemmas.Audit2BHk
/-!
# C10 (audit round 2): the EXACT forms of the housekeeping and uplink arms against the reference machine

`ClassicRun.hk_sim` names the reset links by what they look like AFTER the tick, `ClassicRun.uplink_sim`
leaves the environment event of the arrival link existential.  Here:

* `hkResets s now` — the indices a tick at `now` tears down, defined on the PRE-state: the link is timed
  out and a reconnect attempt is due (`isTimedOut now ∧ shouldAttemptReconnect now`), except the one
  never-established link whose start-up grace window this very tick re-arms (probing completion);
  `hk_sim_exact`: the windows after a classic tick are the machine's after `tick` and `linkReset` on
  exactly those links.
* `uplink_sim_exact`: nothing changes IFF the datagram is empty or no link has the conn id; otherwise the
  environment event is `linkReset idx` exactly for REG_ERR (type 0x9210) and
  `linkState idx u lv` with `u`, `lv` the arrival link's usable / live flags in the post-state for every
  other type.
-/
namespace Srtla.Audit2B
open Srtla Srtla.Gen Srtla.Conn Srtla.Select Srtla.Link Srtla.Sys Srtla.Spec.ClassicRef Srtla.ClassicRef
  Srtla.ClassicRun Srtla.SysInv

set_option linter.unusedSectionVars false
set_option linter.unusedVariables false

variable {F : Type} [Scalar F]

/-! ## 1. Housekeeping -/

theorem aliveLink_window_classic (now : Nat) (l : FLink F) :
    (Hk.aliveLink true now l).core.window = l.core.window ∧ (Hk.aliveLink true now l).core.cong = l.core.cong := by
  unfold Hk.aliveLink
  dsimp only
  have h1 : (if l.needsKeepalive now then (l.keepalivePacket now).1 else l).core.window = l.core.window ∧
      (if l.needsKeepalive now then (l.keepalivePacket now).1 else l).core.cong = l.core.cong := by
    split
    · exact ⟨rfl, rfl⟩
    · exact ⟨rfl, rfl⟩
  generalize (if l.needsKeepalive now then (l.keepalivePacket now).1 else l) = l1 at h1 ⊢
  have h2 : (if l1.needsRttMeasurement now then (l1.keepalivePacket now).1 else l1).core.window = l1.core.window ∧
      (if l1.needsRttMeasurement now then (l1.keepalivePacket now).1 else l1).core.cong = l1.core.cong := by
    split
    · exact ⟨rfl, rfl⟩
    · exact ⟨rfl, rfl⟩
  generalize (if l1.needsRttMeasurement now then (l1.keepalivePacket now).1 else l1) = l2 at h2 ⊢
  simp only [Bool.not_true, Bool.false_eq_true, if_false]
  obtain ⟨u1, u2⟩ := updatePhase_frame ({ l2 with bitrate := l2.bitrate.calculate now } : FLink F) now
  exact ⟨u1.trans (h2.1.trans h1.1), u2.trans (h2.2.trans h1.2)⟩

/-- One link of a classic tick, exactly: torn down iff the loop sees it timed out and due. -/
theorem hkLink_window_classic (now : Nat) (pending : Option Nat) (fails : Bool) (j : Nat) (v : FLink F)
    (t : Option Nat) :
    (v.isTimedOut now = true ∧ v.shouldAttemptReconnect now = true →
      (Hk.withSent (Hk.hkLink true now pending fails j v) t).core.window = 20000 ∧
      (Hk.withSent (Hk.hkLink true now pending fails j v) t).core.connected = false ∧
      (Hk.withSent (Hk.hkLink true now pending fails j v) t).core.phase = .registering) ∧
    (¬ (v.isTimedOut now = true ∧ v.shouldAttemptReconnect now = true) →
      (Hk.withSent (Hk.hkLink true now pending fails j v) t).core.window = v.core.window) := by
  unfold Hk.hkLink
  constructor
  · rintro ⟨hto, hsa⟩
    rw [if_pos hto, if_pos hsa]
    obtain ⟨-, -, -, f4, -, -, f7⟩ := Hk.attemptLink_fields fails v now
    split
    · split
      · exact ⟨f7.window, f7.connected, f4⟩
      · exact ⟨f7.window, f7.connected, f4⟩
    · exact ⟨f7.window, f7.connected, f4⟩
  · intro hn
    split
    · rename_i hto
      split
      · rename_i hsa
        exact absurd ⟨hto, hsa⟩ hn
      · rfl
    · exact (aliveLink_window_classic now v).1

/-- **A classic housekeeping tick, link by link, exactly**: link `j` (record `l` before) comes out with
window 20000, disconnected, registering if `hkDue`, and with its window untouched otherwise. -/
theorem hk_classic_pw (s : Sys F) (now : Nat) (hc : s.cfg.classic = true) (j : Nat) (l : FLink F)
    (hl : s.links[j]? = some l) :
    ∃ l', (handleHousekeeping s now).1.links[j]? = some l' ∧
      (hkDue s now j l = true →
        l'.core.window = 20000 ∧ l'.core.connected = false ∧ l'.core.phase = .registering) ∧
      (hkDue s now j l = false → l'.core.window = l.core.window) := by
  obtain ⟨τ, h⟩ := Hk.hk_links s now
  rw [h, List.getElem?_mapIdx, hl, hc]
  refine ⟨_, rfl, ?_, ?_⟩
  · intro hd
    exact (hkLink_window_classic now _ _ j _ _).1 ((hkDue_iff_view s now j l).1 hd)
  · intro hd
    have hn : ¬ ((Hk.graceFix (Hk.hkGraceIdx s now) now j l).isTimedOut now = true ∧
        (Hk.graceFix (Hk.hkGraceIdx s now) now j l).shouldAttemptReconnect now = true) := by
      intro hv
      rw [(hkDue_iff_view s now j l).2 hv] at hd
      cases hd
    have := (hkLink_window_classic now (Hk.hkP1 s now).1.pending
      (Hk.hkFails s now j l.core.connId) j _ (τ j (Hk.hkLink true now (Hk.hkP1 s now).1.pending
        (Hk.hkFails s now j l.core.connId) j (Hk.graceFix (Hk.hkGraceIdx s now) now j l)).core.lastSent)).2 hn
    rw [this]
    unfold Hk.graceFix
    split <;> rfl

/-- **A classic housekeeping tick against the reference machine, exact form**: the windows after the tick
are the machine's after `tick` (nothing) and the environment event `linkReset` on EXACTLY the links of
`hkResets s now` — a set defined on the pre-state. -/
theorem hk_sim_exact (s : Sys F) (now : Nat) (hc : s.cfg.classic = true) :
    (∀ j ∈ hkResets s now, ∃ l', (handleHousekeeping s now).1.links[j]? = some l' ∧
        l'.core.window = 20000 ∧ l'.core.connected = false ∧ l'.core.phase = .registering) ∧
    windowsOf (handleHousekeeping s now).1 =
      rWindows (rrun (absSent s now) (.tick :: (hkResets s now).map REv.linkReset)) := by
  constructor
  · intro j hj
    obtain ⟨l, hl, hd⟩ := (mem_hkResets s now j).1 hj
    obtain ⟨l', hl', h1, -⟩ := hk_classic_pw s now hc j l hl
    exact ⟨l', hl', h1 hd⟩
  · rw [rrun_cons, rstep_tick]
    apply List.ext_getElem?
    intro p
    rw [getElem?_rWindows_resets, getElem?_absSent]
    unfold windowsOf
    rw [List.getElem?_map]
    cases hl : s.links[p]? with
    | none =>
      have hlen := (Hk.hk_step s now).2
      have : (handleHousekeeping s now).1.links[p]? = none := by
        apply List.getElem?_eq_none
        rw [hlen]
        exact List.getElem?_eq_none_iff.1 hl
      rw [this]
      rfl
    | some l =>
      obtain ⟨l', hl', h1, h2⟩ := hk_classic_pw s now hc p l hl
      rw [hl']
      simp only [Option.map_some]
      congr 1
      by_cases hd : hkDue s now p l = true
      · rw [if_pos ((mem_hkResets s now p).2 ⟨l, hl, hd⟩)]
        exact (h1 hd).1
      · have hd' : hkDue s now p l = false := by simpa using hd
        have hnm : ¬ p ∈ hkResets s now := by
          intro hm
          obtain ⟨l0, hl0, hd0⟩ := (mem_hkResets s now p).1 hm
          rw [hl] at hl0; cases hl0
          exact hd hd0
        rw [if_neg hnm]
        exact h2 hd'

/-! ## 2. The uplink arm -/

/-- The arrival link's usable / live flags are not touched by the ACK / NAK fan-out. -/
theorem absSent_pCE_idx (s1 : Sys F) (idx : Nat) (inc : Incoming) (now : Nat) (a : FLink F)
    (h : s1.links[idx]? = some a) :
    ∃ r, (absSent (processConnectionEvents s1 idx inc now).1 now)[idx]? = some r ∧
      r.usable = usableL s1.cfg.connTimeoutMs now a ∧ r.live = live a.core := by
  have hpw := Uplink.pCE_links s1 idx inc now
  obtain ⟨l', hl', hst⟩ := hpw.get h
  have hu := congrFun (usableAt_pCE s1.cfg.connTimeoutMs s1 idx inc now) idx
  unfold usableAt at hu
  rw [hl', h] at hu
  have hk := congrArg (fun (x : List (Bool × Phase × Option Nat)) => x[idx]?) (ukeys_pCE s1 idx inc now)
  simp only [cores, List.map_map, List.getElem?_map] at hk
  rw [h, hl'] at hk
  have hk' : ukey l'.core = ukey a.core := by simpa using hk
  unfold ukey at hk'
  have hc : l'.core.connected = a.core.connected := congrArg Prod.fst hk'
  have hr : l'.core.lastReceived = a.core.lastReceived := congrArg (fun x => x.2.2) hk'
  refine ⟨absSentL s1.cfg.connTimeoutMs now l', ?_, hu, ?_⟩
  · rw [getElem?_absSent, hl']
    rfl
  · show live l'.core = live a.core
    unfold live
    rw [hc, hr]

/-- **The uplink arm against the reference machine for a known arrival link, exact form.**  The
environment event of the arrival link is `linkReset idx` exactly when the datagram is a REG_ERR (type code
0x9210), and for every other datagram `linkState idx u lv` with `u`, `lv` the arrival link's usable / live
flags in the abstraction of the POST-state. -/
theorem uplink_sim_at_exact (s : Sys F) (cid : Nat) (data : List UInt8) (now : Nat)
    (hclassic : s.cfg.classic = true) (hinv : All LinkInv s.links) (hne : data ≠ []) (idx : Nat) (l : FLink F)
    (hf : s.links.findIdx? (·.core.connId == cid) = some idx) (hl : s.links[idx]? = some l) :
    ∃ env,
      ((Codec.getPacketTypeS data = some 0x9210 ∧ env = .linkReset idx) ∨
       (Codec.getPacketTypeS data ≠ some 0x9210 ∧
         ∃ r, (absSent (handleUplinkPacket s cid data now).1 now)[idx]? = some r ∧
           env = .linkState idx r.usable r.live)) ∧
      rWv (absSent (handleUplinkPacket s cid data now).1 now) =
        rWv (rrun (absSent s now)
          (env :: fanEvents (cores s.links) s.trk idx (Uplink.pupSpec l idx s.reg s.clientKnown data now).2.2 now)) ∧
      (((Uplink.pupSpec l idx s.reg s.clientKnown data now).2.2.acks ≠ [] ∨
        (Uplink.pupSpec l idx s.reg s.clientKnown data now).2.2.sacks ≠ [] ∨
        (Uplink.pupSpec l idx s.reg s.clientKnown data now).2.2.naks ≠ []) →
        absSent (handleUplinkPacket s cid data now).1 now =
          rrun (absSent s now)
            (env :: fanEvents (cores s.links) s.trk idx (Uplink.pupSpec l idx s.reg s.clientKnown data now).2.2 now)) := by
    have hidx : idx < s.links.length := (List.getElem?_eq_some_iff.1 hl).1
    rw [Uplink.handleUplinkPacket_eq s cid data now idx l hne hf hl]
    dsimp only
    generalize hinc : (Uplink.pupSpec l idx s.reg s.clientKnown data now).2.2 = inc
    generalize hreg : (Uplink.pupSpec l idx s.reg s.clientKnown data now).2.1 = reg1
    generalize ha : Uplink.arrival l idx s.reg s.clientKnown data now = a
    -- the three shapes of the arrival arm, with the type code
    have hshape : (inc.acks = [] ∧ inc.sacks = [] ∧ inc.naks = [] ∧
          ((a.core.window = l.core.window ∧ Codec.getPacketTypeS data ≠ some 0x9210) ∨
           (a = l.markForRecovery ∧ Codec.getPacketTypeS data = some 0x9210))) ∨
        (a = Uplink.stamp l now ∧ Codec.getPacketTypeS data ≠ some 0x9210) := by
      cases hpt : Codec.getPacketTypeS data with
      | none =>
        left
        have hp := Uplink.pupSpec_none l idx s.reg s.clientKnown data now hpt
        have : a = l := by rw [← ha]; unfold Uplink.arrival; rw [hp]
        rw [← hinc, hp, this]
        exact ⟨rfl, rfl, rfl, Or.inl ⟨rfl, fun h => by cases h⟩⟩
      | some pt =>
        obtain ⟨-, -, i3, i4, i5, -⟩ := Uplink.incoming_spec l idx s.reg s.clientKnown data now pt hpt
        rw [hinc] at i3 i4 i5
        have hne9210 : ∀ {q : Nat}, pt = q → q ≠ 0x9210 → (some pt : Option Nat) ≠ some 0x9210 := by
          intro q e hq h
          have : pt = 0x9210 := Option.some.inj h
          exact hq (e ▸ this)
        rcases Uplink.arrival_cases l idx s.reg s.clientKnown data now pt hpt with
          ⟨e, h | h⟩ | ⟨e, h⟩ | ⟨e, h⟩ | ⟨e, h⟩ | ⟨e, h⟩ | ⟨-, -, -, p4, -, h⟩
        · left; rw [ha] at h
          refine ⟨by rw [i4, e]; rfl, by rw [i3, e]; rfl, by rw [i5, e]; rfl, Or.inl ⟨by rw [h], hne9210 e (by decide)⟩⟩
        · left; rw [ha] at h
          refine ⟨by rw [i4, e]; rfl, by rw [i3, e]; rfl, by rw [i5, e]; rfl, Or.inl ⟨by rw [h], hne9210 e (by decide)⟩⟩
        · left; rw [ha] at h
          refine ⟨by rw [i4, e]; rfl, by rw [i3, e]; rfl, by rw [i5, e]; rfl, Or.inl ⟨by rw [h], hne9210 e (by decide)⟩⟩
        · left; rw [ha] at h
          refine ⟨by rw [i4, e]; rfl, by rw [i3, e]; rfl, by rw [i5, e]; rfl,
            Or.inl ⟨by rw [h]; rfl, hne9210 e (by decide)⟩⟩
        · left; rw [ha] at h
          refine ⟨by rw [i4, e]; rfl, by rw [i3, e]; rfl, by rw [i5, e]; rfl, Or.inr ⟨h, by rw [e]⟩⟩
        · left; rw [ha] at h
          refine ⟨by rw [i4, e]; rfl, by rw [i3, e]; rfl, by rw [i5, e]; rfl, Or.inl ⟨?_, hne9210 e (by decide)⟩⟩
          rw [h]
          unfold Uplink.kaLink
          have key := handleKeepaliveResponse_core (Uplink.stamp l now) data now
          generalize (Uplink.stamp l now).handleKeepaliveResponse data now = r at key
          obtain ⟨l2, sample⟩ := r
          dsimp only at key ⊢
          cases sample with
          | none => dsimp only; rw [key]; rfl
          | some x =>
            dsimp only
            rw [(recordRttProbe_window l2).1, key]; rfl
        · right; rw [ha] at h
          exact ⟨h, fun hh => p4 (Option.some.inj hh)⟩
    have hset : (setAt s.links idx a)[idx]? = some a := by
      rw [ClassicRef.getElem?_setAt, if_pos rfl, hl]; rfl
    rcases hshape with ⟨h1, h2, h3, hw⟩ | ⟨hst, hty⟩
    · -- nothing to fan out: only the arrival link's own arm
      rw [pCE_nothing _ idx inc now h1 h2 h3]
      rcases hw with ⟨hw, hty⟩ | ⟨hm, hty⟩
      · refine ⟨.linkState idx (usableL s.cfg.connTimeoutMs now a) (live a.core),
          Or.inr ⟨hty, absSentL s.cfg.connTimeoutMs now a, ?_, rfl⟩, ?_, fun h => ?_⟩
        · rw [getElem?_absSent]
          show ((setAt s.links idx a)[idx]?).map _ = _
          rw [hset]; rfl
        · rw [rrun_cons, fanEvents_nothing _ _ _ _ _ _ h1 h2 h3]
          show rWv ((setAt s.links idx a).map (absSentL s.cfg.connTimeoutMs now)) = _
          apply rWv_congr
          · show ((setAt s.links idx a).map _).length = (modifyAt _ (s.links.map _) idx).length
            rw [length_modifyAt, List.length_map, List.length_map, length_setAt]
          · intro j x y hx hy
            change (modifyAt _ (s.links.map (absSentL s.cfg.connTimeoutMs now)) idx)[j]? = some y at hy
            rw [List.getElem?_map, ClassicRef.getElem?_setAt] at hx
            rw [getElem?_modifyAt, List.getElem?_map] at hy
            by_cases hj : j = idx
            · subst hj
              rw [if_pos rfl, hl] at hx hy
              cases hx; cases hy
              exact ⟨hw, rfl⟩
            · rw [if_neg hj] at hx hy
              rw [hx] at hy; cases hy
              exact ⟨rfl, rfl⟩
        · rcases h with h | h | h
          · exact absurd h1 h
          · exact absurd h2 h
          · exact absurd h3 h
      · subst hm
        refine ⟨.linkReset idx, Or.inl ⟨hty, rfl⟩, ?_, fun h => ?_⟩
        · rw [rrun_cons, fanEvents_nothing _ _ _ _ _ _ h1 h2 h3]
          show rWv ((setAt s.links idx l.markForRecovery).map (absSentL s.cfg.connTimeoutMs now)) = _
          rw [map_setAt_eq_modifyAt s.links idx l l.markForRecovery _ resetLink hl (absSentL_mark _ _ l).symm]
          rfl
        · rcases h with h | h | h
          · exact absurd h1 h
          · exact absurd h2 h
          · exact absurd h3 h
    · -- a plain datagram: the arrival link is stamped, then the fan-out
      subst hst
      have hfull :
          absSent (processConnectionEvents
              ({ s with links := setAt s.links idx (Uplink.stamp l now), reg := reg1 } : Sys F) idx inc now).1 now =
            rrun (absSent s now)
              (.linkState idx (usableL s.cfg.connTimeoutMs now (Uplink.stamp l now)) (live (Uplink.stamp l now).core) ::
                fanEvents (cores s.links) s.trk idx inc now) := by
        have hinv1 : All LinkInv (setAt s.links idx (Uplink.stamp l now)) := by
          intro x hx
          rcases mem_setAt _ _ _ _ hx with rfl | hm
          · exact linkInv_stamp l now (hinv l (List.mem_of_getElem? hl))
          · exact hinv x hm
        have hids : idsOf (cores (setAt s.links idx (Uplink.stamp l now))) = idsOf (cores s.links) := by
          apply List.ext_getElem?
          intro j
          unfold idsOf cores
          rw [List.map_map, List.map_map, List.getElem?_map, List.getElem?_map, ClassicRef.getElem?_setAt]
          by_cases hj : j = idx
          · subst hj; rw [if_pos rfl, hl]; rfl
          · rw [if_neg hj]
        obtain ⟨e1, -, -⟩ := processConnectionEvents_sim
          (usableAt s.cfg.connTimeoutMs now (setAt s.links idx (Uplink.stamp l now)))
          ({ s with links := setAt s.links idx (Uplink.stamp l now), reg := reg1 } : Sys F) idx inc now hclassic
          (allCore_cores _ hinv1) (by rw [length_setAt]; exact hidx)
        dsimp only at e1
        have hu := usableAt_pCE s.cfg.connTimeoutMs
          ({ s with links := setAt s.links idx (Uplink.stamp l now), reg := reg1 } : Sys F) idx inc now
        dsimp only at hu
        rw [absSent_eq_absFrom]
        show absFrom (usableAt s.cfg.connTimeoutMs now _) 0 _ = _
        rw [hu, e1, rrun_cons]
        have hs1 := absSent_eq_absFrom
          ({ s with links := setAt s.links idx (Uplink.stamp l now), reg := reg1 } : Sys F) now
        dsimp only at hs1
        rw [← hs1]
        have hfan : fanEvents (cores (setAt s.links idx (Uplink.stamp l now))) s.trk idx inc now =
            fanEvents (cores s.links) s.trk idx inc now := by
          unfold fanEvents
          congr 1
          apply List.map_congr_left
          intro n _
          rw [rememberedM_ids _ _ s.trk n now hids]
        rw [hfan]
        congr 1
        show (setAt s.links idx (Uplink.stamp l now)).map (absSentL s.cfg.connTimeoutMs now) = _
        exact map_setAt_eq_modifyAt s.links idx l (Uplink.stamp l now) _ _ hl rfl
      obtain ⟨r, hr, hru, hrl⟩ := absSent_pCE_idx
        ({ s with links := setAt s.links idx (Uplink.stamp l now), reg := reg1 } : Sys F) idx inc now
        (Uplink.stamp l now) hset
      refine ⟨_, Or.inr ⟨hty, r, hr, ?_⟩, by rw [hfull], fun _ => hfull⟩
      rw [hru, hrl]

/-- **The uplink arm against the reference machine, exact form.**  The event changes nothing IFF the
datagram is empty or no link has the conn id (and then really nothing: the state is the same); otherwise,
with `idx` the arrival link and `inc` what `process_uplink_packet` parsed: the window / live vector after
the event is that of the reference machine run from `absSent s now` on ONE environment event for the
arrival link — `linkReset idx` exactly for REG_ERR (0x9210), `linkState idx u lv` with the arrival link's
post-state usable / live flags for every other type — followed by `fanEvents`; and for a datagram that
carries cumulative ACKs, SRTLA ACKs or NAKs the WHOLE machine state agrees. -/
theorem uplink_sim_exact (s : Sys F) (cid : Nat) (data : List UInt8) (now : Nat)
    (hclassic : s.cfg.classic = true) (hinv : All LinkInv s.links) :
    ((data = [] ∨ s.links.findIdx? (·.core.connId == cid) = none) ∧ (handleUplinkPacket s cid data now).1 = s) ∨
    (data ≠ [] ∧
     ∃ idx l env, s.links.findIdx? (·.core.connId == cid) = some idx ∧ s.links[idx]? = some l ∧
      ((Codec.getPacketTypeS data = some 0x9210 ∧ env = .linkReset idx) ∨
       (Codec.getPacketTypeS data ≠ some 0x9210 ∧
         ∃ r, (absSent (handleUplinkPacket s cid data now).1 now)[idx]? = some r ∧
           env = .linkState idx r.usable r.live)) ∧
      rWv (absSent (handleUplinkPacket s cid data now).1 now) =
        rWv (rrun (absSent s now)
          (env :: fanEvents (cores s.links) s.trk idx (processUplinkPacket l idx s.reg s.clientKnown data now).2.2 now)) ∧
      (((processUplinkPacket l idx s.reg s.clientKnown data now).2.2.acks ≠ [] ∨
        (processUplinkPacket l idx s.reg s.clientKnown data now).2.2.sacks ≠ [] ∨
        (processUplinkPacket l idx s.reg s.clientKnown data now).2.2.naks ≠ []) →
        absSent (handleUplinkPacket s cid data now).1 now =
          rrun (absSent s now)
            (env :: fanEvents (cores s.links) s.trk idx (processUplinkPacket l idx s.reg s.clientKnown data now).2.2 now))) := by
  by_cases hne : data = []
  · left; subst hne; exact ⟨Or.inl rfl, by simp [handleUplinkPacket]⟩
  cases hf : s.links.findIdx? (·.core.connId == cid) with
  | none => left; exact ⟨Or.inr rfl, by rw [Uplink.unknown_link s cid data now hf]⟩
  | some idx =>
    right
    obtain ⟨l, hl, -⟩ := Uplink.findIdx_get s.links cid idx hf
    obtain ⟨env, h1, h2, h3⟩ := uplink_sim_at_exact s cid data now hclassic hinv hne idx l hf hl
    refine ⟨hne, idx, l, env, rfl, hl, h1, ?_, ?_⟩
    · rw [Uplink.processUplinkPacket_eq]; exact h2
    · rw [Uplink.processUplinkPacket_eq]; exact h3

end Srtla.Audit2B
