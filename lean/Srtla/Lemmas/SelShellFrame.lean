import Srtla.Lemmas.SelShellStep
import Srtla.Lemmas.SelShellLatch
/-!
# The complement of the guard fields along a `client` event (C12 at shell level)

`liveAcct l` erases from a link everything a routing decision may write — the ten fields of
`C12.SameUpToGuard` (guard-private state, the timeout copy, the quality cache) and the probe counter
(which `send_stall_probes` advances for stall-gated links only, i.e. only because of the guard) — and
keeps every liveness / accounting field: the whole accounting core (`connected`, `last_received`,
`last_sent`, window, in-flight, packet log, NAK / congestion state, phase, proof stamp), the keepalive
stamp, RTT and bitrate trackers, reconnection state, batch queue, classifier / CC stamps.

* the data-path operations commute with `liveAcct` (`liveAcct_fwdLink`): what queueing a datagram does
  to the liveness / accounting fields does not depend on the erased fields;
* `client_liveAcct`: after a `client` event, `liveAcct` of link `j` is `liveAcct` of the old link
  (nothing), or of `fwdLink` of the old link (the datagram, or a probe copy, was queued here);
* `step_withGuard`: no event other than `client` reads the guard switch.
-/
set_option linter.unusedSectionVars false

namespace Srtla.SelShell
open Srtla Srtla.Gen Srtla.Conn Srtla.Select Srtla.Rtt Srtla.Link Srtla.Sys Scalar

variable {F : Type} [Scalar F]
variable {fa : List (Nat × Nat)}

/-- Erase what a routing decision may write; keep every liveness / accounting field. -/
def liveAcct (l : FLink F) : FLink F :=
  { l with stallGated := false, latchedSince := 0, recoverySince := 0, gateEvents := 0, probeCounter := 0,
           silencePulled := false, pullMark := none, silencePulls := 0, connTimeoutMs := 0,
           qualMult := Rtt.one, qualAt := 0 }

theorem liveAcct_idem (l : FLink F) : liveAcct (liveAcct l) = liveAcct l := rfl

theorem liveAcct_absorb (l : FLink F) (x : SLink F) : liveAcct (l.absorb x) = liveAcct l := rfl

theorem liveAcct_queue (l : FLink F) (pkt : Link.Bytes) (seq : Option Nat) (t : Nat) :
    (liveAcct l).queueDataPacket pkt seq t =
      (liveAcct (l.queueDataPacket pkt seq t).1, (l.queueDataPacket pkt seq t).2) := rfl

theorem liveAcct_takeBatch (l : FLink F) (now : Nat) :
    (liveAcct l).takeBatch now = (liveAcct (l.takeBatch now).1, (l.takeBatch now).2) := by
  rw [Hk.takeBatch_eq, Hk.takeBatch_eq]
  have h : (liveAcct l).queue = l.queue := rfl
  rw [h]
  split <;> rfl

theorem liveAcct_markForRecovery (l : FLink F) : (liveAcct l).markForRecovery = liveAcct l.markForRecovery := rfl

theorem liveAcct_sendBatch (l : FLink F) (now : Nat) (fn : List Nat) :
    sendConnectionBatch fa (liveAcct l) now fn =
      (liveAcct (sendConnectionBatch fa l now fn).1, (sendConnectionBatch fa l now fn).2) := by
  unfold sendConnectionBatch
  rw [liveAcct_takeBatch]
  dsimp only
  have h : (liveAcct l).core.connId = l.core.connId := rfl
  rw [h]
  split
  · rfl
  · split <;> rfl

/-- **The data path commutes with `liveAcct`**: queue, threshold flush, tear-down on a failed flush —
link, wire output and remaining fault set. -/
theorem liveAcct_fwdLink (l : FLink F) (pkt : Link.Bytes) (seq : Option Nat) (now : Nat) (fn : List Nat) :
    Hk.fwdLink fa (liveAcct l) pkt seq now fn =
      (liveAcct (Hk.fwdLink fa l pkt seq now fn).1, (Hk.fwdLink fa l pkt seq now fn).2) := by
  unfold Hk.fwdLink
  rw [liveAcct_queue]
  dsimp only
  split
  · rw [liveAcct_sendBatch]
    dsimp only
    split
    · rfl
    · rw [liveAcct_markForRecovery]
  · rfl

/-- Consequently the liveness / accounting result of forwarding depends on the liveness / accounting
fields only. -/
theorem liveAcct_fwdLink_congr {a b : FLink F} (h : liveAcct a = liveAcct b) (pkt : Link.Bytes)
    (seq : Option Nat) (now : Nat) (fn : List Nat) :
    liveAcct (Hk.fwdLink fa a pkt seq now fn).1 = liveAcct (Hk.fwdLink fa b pkt seq now fn).1 := by
  have h1 := congrArg Prod.fst (liveAcct_fwdLink (fa := fa) a pkt seq now fn)
  have h2 := congrArg Prod.fst (liveAcct_fwdLink (fa := fa) b pkt seq now fn)
  dsimp only at h1 h2
  rw [← h1, ← h2, h]

theorem liveAcct_stallProbeDue (l : FLink F) : liveAcct l.stallProbeDue.1 = liveAcct l := by
  unfold FLink.stallProbeDue
  dsimp only
  split <;> rfl

/-- A probe visit: nothing, or a copy queued exactly like a routed datagram. -/
theorem liveAcct_probeLink (l : FLink F) (pkt : Link.Bytes) (seq : Option Nat) (now : Nat) (fn : List Nat) :
    liveAcct (Hk.probeLink fa l pkt seq now fn).1 = liveAcct l ∨
    liveAcct (Hk.probeLink fa l pkt seq now fn).1 = liveAcct (Hk.fwdLink fa l pkt seq now fn).1 := by
  unfold Hk.probeLink
  split
  · exact .inl (liveAcct_stallProbeDue l)
  · exact .inr (liveAcct_fwdLink_congr (liveAcct_stallProbeDue l) pkt seq now fn)

/-- The selection pass (if it ran) keeps `liveAcct` of every link. -/
theorem passLinks_liveAcct (s : Sys F) (pkt : Sys.Bytes) (now j : Nat) (l : FLink F) (hl : s.links[j]? = some l) :
    ∃ m, (passLinks s pkt now)[j]? = some m ∧ liveAcct m = liveAcct l ∧ m.core = l.core ∧
      (passRan s pkt = false → m = l) := by
  obtain ⟨m, hm, hcase⟩ := passLinks_get s pkt now j l hl
  refine ⟨m, hm, ?_⟩
  rcases hcase with ⟨hp, rfl⟩ | ⟨hp, hr⟩
  · exact ⟨rfl, rfl, fun _ => rfl⟩
  · obtain ⟨g, h1, -, -, -⟩ := Hk.runSelect_links s now
    rw [h1, List.getElem?_map, hl] at hr
    simp only [Option.map_some, Option.some.injEq] at hr
    subst hr
    exact ⟨rfl, rfl, fun h => by rw [hp] at h; cases h⟩

/-! ### The fault list a probe copy's flush sees (audit round 2)

`SelShellStep.stallProbesGo_link` / `ClientFx.probe` leave the fault list `fn` of a probe visit existential.  It
is what the earlier sends of the same event left of `s.failNext`: nothing is ever added. -/

/-- `stallProbesGo_link` with the origin of the probe's fault list: it is below the list the pass started with. -/
theorem stallProbesGo_link_fn (pkt : Sys.Bytes) (seq : Option Nat) (now sel : Nat) (ls : List (FLink F)) (i : Nat)
    (fn : List Nat) (k : Nat) (m : FLink F) (hm : ls[k]? = some m) :
    ∃ l', (stallProbesGo fa pkt seq now sel ls i fn).1[k]? = some l' ∧
      ((l' = m ∧ (i + k = sel ∨ m.stallGated = false ∨ m.core.connected = false)) ∨
       (i + k ≠ sel ∧ m.stallGated = true ∧ m.core.connected = true ∧
          ∃ fn', Hk.FnLe fn fn' ∧ l' = (Hk.probeLink fa m pkt seq now fn').1)) := by
  induction ls generalizing i fn k with
  | nil => simp at hm
  | cons a rest ih =>
    rw [Hk.stallProbesGo_cons]
    split
    · rename_i hc
      cases k with
      | zero =>
        simp only [List.getElem?_cons_zero, Option.some.injEq] at hm
        subst hm
        refine ⟨_, by simp, .inl ⟨rfl, ?_⟩⟩
        simp only [Bool.or_eq_true, decide_eq_true_eq, Bool.not_eq_true'] at hc
        rcases hc with (h | h) | h
        · exact .inl (by omega)
        · exact .inr (.inl h)
        · exact .inr (.inr h)
      | succ k =>
        simp only [List.getElem?_cons_succ] at hm ⊢
        obtain ⟨l', h1, h2⟩ := ih (i + 1) fn k hm
        refine ⟨l', h1, ?_⟩
        have : i + 1 + k = i + (k + 1) := by omega
        rw [this] at h2
        exact h2
    · rename_i hc
      simp only [Bool.or_eq_true, decide_eq_true_eq, Bool.not_eq_true', not_or, Bool.not_eq_false] at hc
      cases k with
      | zero =>
        simp only [List.getElem?_cons_zero, Option.some.injEq] at hm
        subst hm
        exact ⟨_, by simp, .inr ⟨by omega, hc.1.2, hc.2, fn, Hk.FnLe.refl _, rfl⟩⟩
      | succ k =>
        simp only [List.getElem?_cons_succ] at hm ⊢
        obtain ⟨l', h1, h2⟩ := ih (i + 1) _ k hm
        refine ⟨l', h1, ?_⟩
        have : i + 1 + k = i + (k + 1) := by omega
        rw [this] at h2
        rcases h2 with h2 | ⟨a1, a2, a3, fn', hle, e⟩
        · exact .inl h2
        · exact .inr ⟨a1, a2, a3, fn', (Hk.probeLink_step false none a pkt seq now fn hc.2).2.trans hle, e⟩

/-- **The fault list of a probe copy is what is left of `s.failNext`** (every conn id at most as often). -/
theorem client_probe_fn (s : Sys F) (pkt : Sys.Bytes) (now j : Nat) (m l' : FLink F)
    (hm : (passLinks s pkt now)[j]? = some m) (hl' : (handleSrtPacket s pkt now).1.links[j]? = some l')
    (ht : clientTarget s pkt now ≠ some j) (hpass : passRan s pkt = true)
    (hseq : (Codec.getSrtSequenceNumberS pkt).isSome = true) (hsome : (clientTarget s pkt now).isSome = true)
    (hg : m.stallGated = true) (hc : m.core.connected = true) :
    ∃ fn, Hk.FnLe s.failNext fn ∧ l' = (Hk.probeLink s.failAfter m pkt (Codec.getSrtSequenceNumberS pkt) now fn).1 := by
  have hne : pkt.isEmpty = false := by
    unfold passRan at hpass
    cases h : pkt.isEmpty
    · rfl
    · rw [h] at hpass; simp at hpass
  have hreg : s.reg.hasConnected = true := by
    unfold passRan at hpass
    rw [hne] at hpass
    simpa using hpass
  have hp : passLinks s pkt now = (runSelect s now).1.links := by
    unfold passLinks; rw [hpass]; rfl
  have htg : clientTarget s pkt now = Hk.clientSel s pkt now := by
    unfold clientTarget; simp [hne, hreg]
  rw [hp] at hm
  cases hsel : Hk.clientSel s pkt now with
  | none => rw [htg, hsel] at hsome; cases hsome
  | some i =>
    have hji : j ≠ i := by
      intro h; subst h; exact ht (by rw [htg, hsel])
    rw [Hk.handleSrtPacket_some s pkt now i hne hreg hsel] at hl'
    have hf := forwardVia_link (runSelect s now).1 i pkt (Codec.getSrtSequenceNumberS pkt) now j m hm
    rw [if_neg hji] at hf
    obtain ⟨-, f2, -, -⟩ := Hk.forwardVia_pw false none (runSelect s now).1 i pkt
      (Codec.getSrtSequenceNumberS pkt) now (fun h => by cases h)
    have hfn : (runSelect s now).1.failNext = s.failNext := rfl
    rw [hfn] at f2
    unfold Hk.clientFwd at hl'
    dsimp only at hl'
    rw [if_pos hseq] at hl'
    dsimp only at hl'
    obtain ⟨x, h1, h2⟩ := stallProbesGo_link_fn pkt (Codec.getSrtSequenceNumberS pkt) now i _ 0
      (forwardVia (runSelect s now).1 i pkt (Codec.getSrtSequenceNumberS pkt) now).1.failNext j m hf
    rw [hl'] at h1
    cases h1
    rcases h2 with ⟨-, h | h | h⟩ | ⟨-, -, -, fn', hle, e⟩
    · exact absurd (by omega) hji
    · rw [hg] at h; cases h
    · rw [hc] at h; cases h
    · rw [Hk.forwardVia_runSelect_failAfter] at e
      exact ⟨fn', f2.trans hle, e⟩

/-- What a `client` event does to the liveness / accounting fields of link `j`. -/
inductive ClientAcct (s : Sys F) (pkt : Sys.Bytes) (now j : Nat) (l l' : FLink F) : Prop
  /-- not the target, no probe copy: untouched -/
  | idle (ht : clientTarget s pkt now ≠ some j) (h : liveAcct l' = liveAcct l)
  /-- the target -/
  | target (ht : clientTarget s pkt now = some j)
      (h : liveAcct l' = liveAcct (Hk.fwdLink s.failAfter l pkt (Codec.getSrtSequenceNumberS pkt) now s.failNext).1)
  /-- a duplicate probe copy on a link the guard of THIS pass holds stall-gated: registered session,
  data packet, guard on, link connected and latched or silence-pulled; the fault list `fn` its threshold flush
  sees is what the earlier sends of this event left of `s.failNext` (no conn id more often than there) -/
  | probe (ht : clientTarget s pkt now ≠ some j) (hne : pkt ≠ []) (hreg : s.reg.hasConnected = true)
      (hon : s.cfg.stallDeselect = true) (hseq : (Codec.getSrtSequenceNumberS pkt).isSome = true)
      (hsome : (clientTarget s pkt now).isSome = true) (hc : l.core.connected = true)
      (hg : l'.core.connected = false ∨ l'.latchedSince ≠ 0 ∨ l'.silencePulled = true)
      (h : ∃ fn, (∀ a, fn.count a ≤ s.failNext.count a) ∧
        liveAcct l' = liveAcct (Hk.fwdLink s.failAfter l pkt (Codec.getSrtSequenceNumberS pkt) now fn).1)

omit [Scalar F] in
theorem passRan_iff' (s : Sys F) (pkt : Sys.Bytes) :
    passRan s pkt = true ↔ pkt ≠ [] ∧ s.reg.hasConnected = true := by
  unfold passRan
  cases pkt <;> simp

/-- **`client` event, liveness / accounting of link `j`.** -/
theorem client_liveAcct (s : Sys F) (pkt : Sys.Bytes) (now j : Nat) (l l' : FLink F)
    (hl : s.links[j]? = some l) (hl' : (handleSrtPacket s pkt now).1.links[j]? = some l') :
    ClientAcct s pkt now j l l' := by
  obtain ⟨m, hm, hml, hcore, -⟩ := passLinks_liveAcct s pkt now j l hl
  obtain ⟨x, hx, hfx⟩ := client_link s pkt now j m hm
  rw [hx] at hl'
  cases hl'
  cases hfx with
  | idle ht h => exact .idle ht (by rw [h, hml])
  | target ht h => exact .target ht (by rw [h]; exact liveAcct_fwdLink_congr hml _ _ _ _)
  | probe ht hpass hseq hsome hg hc h =>
    obtain ⟨fn, hfnle, rfl⟩ := client_probe_fn s pkt now j m _ hm hx ht hpass hseq hsome hg hc
    obtain ⟨hne, hreg⟩ := (passRan_iff' s pkt).1 hpass
    -- the pass that gated the link ran with the guard on
    have hr : (runSelect s now).1.links[j]? = some m := by
      have : passLinks s pkt now = (runSelect s now).1.links := by unfold passLinks; rw [hpass]; rfl
      rw [← this]; exact hm
    obtain ⟨-, hon, hoff⟩ := pass_guard s now j l m hl hr
    have hon' : s.cfg.stallDeselect = true := by
      cases hd : s.cfg.stallDeselect
      · have := (hoff hd).2.2.2.1
        rw [hg] at this; cases this
      · rfl
    have hlp := (hon hon').2.2.2.2.2.2 hg
    rcases liveAcct_probeLink m pkt (Codec.getSrtSequenceNumberS pkt) now fn with h | h
    · exact .idle ht (by rw [h, hml])
    · refine .probe ht hne hreg hon' hseq hsome (by rw [← hcore]; exact hc) ?_
        ⟨fn, hfnle, by rw [h]; exact liveAcct_fwdLink_congr hml _ _ _ _⟩
      rcases probeLink_guard m pkt (Codec.getSrtSequenceNumberS pkt) now fn with hk | ht'
      · rcases hlp with hlp | hlp
        · exact .inr (.inl (by rw [hk.latched]; exact hlp))
        · exact .inr (.inr (by rw [hk.pulled]; exact hlp))
      · exact .inl ht'.connected

/-! ## The guard switch is read by `client` events only -/

/-- The same shell with the stall guard switched to `b`. -/
def withGuard (b : Bool) (s : Sys F) : Sys F := { s with cfg := { s.cfg with stallDeselect := b } }

/-- **No event other than `client` reads the guard switch**: same links, same registration state, same
output. -/
theorem step_withGuard (b : Bool) (s : Sys F) (e : Ev) (hne : ∀ now pkt, e ≠ .client now pkt) :
    (step (withGuard b s) e).1.links = (step s e).1.links ∧
    (step (withGuard b s) e).1.reg = (step s e).1.reg ∧
    (step (withGuard b s) e).1.trk = (step s e).1.trk ∧
    (step (withGuard b s) e).1.failNext = (step s e).1.failNext ∧
    (step (withGuard b s) e).2 = (step s e).2 := by
  cases e with
  | client now pkt => exact absurd rfl (hne now pkt)
  | uplink now cid data =>
    show (handleUplinkPacket (withGuard b s) cid data now).1.links = (handleUplinkPacket s cid data now).1.links ∧
      (handleUplinkPacket (withGuard b s) cid data now).1.reg = (handleUplinkPacket s cid data now).1.reg ∧
      (handleUplinkPacket (withGuard b s) cid data now).1.trk = (handleUplinkPacket s cid data now).1.trk ∧
      (handleUplinkPacket (withGuard b s) cid data now).1.failNext = (handleUplinkPacket s cid data now).1.failNext ∧
      (handleUplinkPacket (withGuard b s) cid data now).2 = (handleUplinkPacket s cid data now).2
    unfold handleUplinkPacket withGuard
    dsimp only
    split
    · exact ⟨rfl, rfl, rfl, rfl, rfl⟩
    · split
      · exact ⟨rfl, rfl, rfl, rfl, rfl⟩
      · split
        · exact ⟨rfl, rfl, rfl, rfl, rfl⟩
        · exact ⟨rfl, rfl, rfl, rfl, rfl⟩
  | flush now =>
    show (flushAllBatches (withGuard b s) now).1.links = (flushAllBatches s now).1.links ∧
      (flushAllBatches (withGuard b s) now).1.reg = (flushAllBatches s now).1.reg ∧
      (flushAllBatches (withGuard b s) now).1.trk = (flushAllBatches s now).1.trk ∧
      (flushAllBatches (withGuard b s) now).1.failNext = (flushAllBatches s now).1.failNext ∧
      (flushAllBatches (withGuard b s) now).2 = (flushAllBatches s now).2
    unfold flushAllBatches withGuard
    dsimp only
    split
    · exact ⟨rfl, rfl, rfl, rfl, rfl⟩
    · exact ⟨rfl, rfl, rfl, rfl, rfl⟩
  | hk now => exact ⟨rfl, rfl, rfl, rfl, rfl⟩
  | _ => exact ⟨rfl, rfl, rfl, rfl, rfl⟩

/-! ## Configuration along events -/

/-- Only `setCfg` changes the configuration. -/
theorem step_cfg (s : Sys F) (e : Ev) (hne : ∀ cfg, e ≠ .setCfg cfg) : (step s e).1.cfg = s.cfg := by
  cases e with
  | client now pkt => exact (Hk.client_pw s pkt now).2.2
  | uplink now cid data => exact (Hk.uplink_links s cid data now).2.2.2.2
  | flush now => exact (Hk.flush_pw false none s now).2.2
  | hk now => exact (Hk.hk_eq s now).2.2.2.1
  | setCfg cfg => exact absurd rfl (hne cfg)
  | _ => rfl

end Srtla.SelShell
