import Srtla.Lemmas.SelShellFrame
/-!
# Audit round 2 (P-B), C12: the one indirect channel from the guard to a LATER phase decision

`liveAcct` (Lemmas/SelShellFrame.lean) erases, besides the guard-private fields, the timeout copy and the
quality cache.  Later NON-client events read two of the erased fields: `isTimedOut` reads `connTimeoutMs`,
`updatePhase` reads `qualMult`.  The timeout copy is written by EVERY selection pass with the configured value
whatever the guard does, so it carries no guard decision.  The quality cache does:

* `selectIdx_gated_cache` / `client_gated_cache`: a link that a pass leaves stall-gated was skipped by the
  enhanced loop, so its quality cache is exactly what it was — NOT refreshed while gated;
* `updatePhase_reads`: housekeeping's `update_phase` reads, of the erased fields, only `qualMult`; two links
  that agree on the liveness / accounting fields can come out of it differing only in `live` vs `degraded`;
* `phaseWeight_live_degraded`, `unDegrade`-invariance of the selectors: `live` and `degraded` are
  indistinguishable to every routing decision.
-/
namespace Srtla.Audit2B
open Srtla Srtla.Gen Srtla.Conn Srtla.Select Srtla.Rtt Srtla.Link Srtla.Sys Scalar

set_option linter.unusedSectionVars false
set_option linter.unusedVariables false

variable {F : Type}
variable {fa : List (Nat × Nat)}

/-! ## 1. A gated link's quality cache is not refreshed -/

theorem qual_updateSilencePull (c : SLink F) (now : Nat) (m : Int) (ce : Nat) :
    (updateSilencePull c now m ce).qualMult = c.qualMult ∧ (updateSilencePull c now m ce).qualAt = c.qualAt := by
  unfold updateSilencePull
  dsimp only
  repeat' split
  all_goals exact ⟨rfl, rfl⟩

theorem qual_updateStallLatch (c : SLink F) (now : Nat) (m : Int) (ce : Nat) :
    (updateStallLatch c now m ce).qualMult = c.qualMult ∧ (updateStallLatch c now m ce).qualAt = c.qualAt := by
  unfold updateStallLatch
  dsimp only
  repeat' split
  all_goals exact ⟨rfl, rfl⟩

/-- The gate is a link-by-link map that never touches the quality cache. -/
theorem applyStallGate_qual (ls : List (SLink F)) (now : Nat) (cfg : Cfg) :
    ∃ g : SLink F → SLink F, applyStallGate ls now cfg = ls.map g ∧
      ∀ c, (g c).qualMult = c.qualMult ∧ (g c).qualAt = c.qualAt := by
  cases hs : cfg.stallDeselect
  · exact ⟨guardOff cfg, applyStallGate_off ls now cfg hs, fun c => ⟨rfl, rfl⟩⟩
  · refine ⟨fun c => setGated ((ls.map (guardStep now cfg)).any (healthy now)) (guardStep now cfg c), ?_, ?_⟩
    · rw [applyStallGate_on ls now cfg hs, List.map_map]; rfl
    · intro c
      show (guardStep now cfg c).qualMult = c.qualMult ∧ (guardStep now cfg c).qualAt = c.qualAt
      unfold guardStep
      obtain ⟨a1, a2⟩ := qual_updateStallLatch
        (updateSilencePull { c with connTimeoutMs := cfg.connTimeoutMs } now cfg.stallMinInFlight cfg.stallCeilingMs)
        now cfg.stallMinInFlight cfg.stallCeilingMs
      obtain ⟨b1, b2⟩ := qual_updateSilencePull ({ c with connTimeoutMs := cfg.connTimeoutMs } : SLink F) now
        cfg.stallMinInFlight cfg.stallCeilingMs
      exact ⟨a1.trans b1, a2.trans b2⟩

section scalar
variable [Scalar F]

/-- **A link the pass leaves stall-gated keeps its quality cache** (`select_connection_idx`, both modes, any
config): the enhanced loop skips gated links before it consults `get_cached_quality_multiplier`. -/
theorem selectIdx_gated_cache (ls : List (SLink F)) (last : Option Nat) (now : Nat) (cfg : Cfg) (i : Nat)
    (c c' : SLink F) (h : ls[i]? = some c) (h' : (selectIdx ls last now cfg).1[i]? = some c')
    (hg : c'.stallGated = true) : c'.qualMult = c.qualMult ∧ c'.qualAt = c.qualAt := by
  obtain ⟨g, hgm, hq⟩ := applyStallGate_qual ls now cfg
  unfold selectIdx at h'
  dsimp only at h'
  split at h'
  · rw [hgm, List.getElem?_map, h] at h'
    cases h'
    exact hq c
  · rw [enhancedSelect_fst, hgm, List.map_map, List.getElem?_map, h] at h'
    simp only [Option.map_some, Option.some.injEq, Function.comp] at h'
    subst h'
    have hce := cacheEq_enhStep now (cfg.quality && !cfg.classic) (anyUnconstrained (ls.map g) now) (g c)
    rw [hce.stallGated] at hg
    have hskip : enhSkip (g c) now (anyUnconstrained (ls.map g) now) = true := by
      unfold enhSkip
      rw [hg]
      simp
    have : enhStep now (cfg.quality && !cfg.classic) (anyUnconstrained (ls.map g) now) (g c) = g c := by
      unfold enhStep
      rw [if_pos hskip]
    rw [this]
    exact hq c

/-- The same at the shell: after `runSelect`, a stall-gated link has the quality cache it had. -/
theorem runSelect_gated_cache (s : Sys F) (now j : Nat) (l m : FLink F) (hl : s.links[j]? = some l)
    (hm : (runSelect s now).1.links[j]? = some m) (hg : m.stallGated = true) :
    m.qualMult = l.qualMult ∧ m.qualAt = l.qualAt := by
  unfold runSelect at hm
  dsimp only at hm
  rw [List.getElem?_map] at hm
  obtain ⟨⟨a, b⟩, hab, rfl⟩ := Option.map_eq_some_iff.1 hm
  obtain ⟨ha, hb⟩ := List.getElem?_zip_eq_some.1 hab
  rw [hl] at ha
  have ha' : l = a := Option.some.inj ha
  subst ha'
  have hl' : (s.links.map FLink.toSLink)[j]? = some l.toSLink := by rw [List.getElem?_map, hl]; rfl
  exact selectIdx_gated_cache _ _ _ _ j l.toSLink b hl' hb hg

theorem fwdLink_qual (l : FLink F) (pkt : Link.Bytes) (seq : Option Nat) (now : Nat) (fn : List Nat) :
    (Hk.fwdLink fa l pkt seq now fn).1.qualMult = l.qualMult ∧ (Hk.fwdLink fa l pkt seq now fn).1.qualAt = l.qualAt := by
  have hq : ∀ x : FLink F, (x.takeBatch now).1.qualMult = x.qualMult ∧ (x.takeBatch now).1.qualAt = x.qualAt := by
    intro x
    rw [Hk.takeBatch_eq]
    split <;> exact ⟨rfl, rfl⟩
  unfold Hk.fwdLink
  split
  · dsimp only
    rw [(Hk.sendBatch_cases _ now fn).1]
    split
    · exact hq _
    · exact hq _
  · exact ⟨rfl, rfl⟩

theorem probeLink_qual (l : FLink F) (pkt : Link.Bytes) (seq : Option Nat) (now : Nat) (fn : List Nat) :
    (Hk.probeLink fa l pkt seq now fn).1.qualMult = l.qualMult ∧ (Hk.probeLink fa l pkt seq now fn).1.qualAt = l.qualAt := by
  have hp : l.stallProbeDue.1.qualMult = l.qualMult ∧ l.stallProbeDue.1.qualAt = l.qualAt := by
    unfold FLink.stallProbeDue
    dsimp only
    split <;> exact ⟨rfl, rfl⟩
  unfold Hk.probeLink
  split
  · exact hp
  · obtain ⟨a, b⟩ := fwdLink_qual l.stallProbeDue.1 pkt seq now fn
    exact ⟨a.trans hp.1, b.trans hp.2⟩

/-- **Client event: a link that comes out stall-gated has exactly the quality cache it went in with** — the
cache of a gated link is not refreshed, however old it is. -/
theorem client_gated_cache (s : Sys F) (pkt : Sys.Bytes) (now j : Nat) (l l' : FLink F)
    (hl : s.links[j]? = some l) (hl' : (handleSrtPacket s pkt now).1.links[j]? = some l')
    (hg : l'.stallGated = true) : l'.qualMult = l.qualMult ∧ l'.qualAt = l.qualAt := by
  obtain ⟨m, hm, hcase⟩ := SelShell.passLinks_get s pkt now j l hl
  obtain ⟨x, hx, hfx⟩ := SelShell.client_link s pkt now j m hm
  rw [hx] at hl'
  cases hl'
  -- the event after the pass keeps the cache, and keeps or clears the gate flag
  have hpost : (l'.qualMult = m.qualMult ∧ l'.qualAt = m.qualAt) ∧ (l'.stallGated = true → m.stallGated = true) := by
    cases hfx with
    | idle _ h => rw [h]; exact ⟨⟨rfl, rfl⟩, fun h => h⟩
    | target _ h =>
      rw [h]
      refine ⟨fwdLink_qual m pkt _ now s.failNext, fun hgt => ?_⟩
      rcases SelShell.fwdLink_guard m pkt (Codec.getSrtSequenceNumberS pkt) now s.failNext with hk | ht
      · rw [← hk.gated]; exact hgt
      · rw [ht.gated] at hgt; cases hgt
    | probe _ _ _ _ hgm _ h =>
      obtain ⟨fn, rfl⟩ := h
      exact ⟨probeLink_qual m pkt _ now fn, fun _ => hgm⟩
  obtain ⟨⟨q1, q2⟩, hgm⟩ := hpost
  rcases hcase with ⟨-, rfl⟩ | ⟨-, hr⟩
  · exact ⟨q1, q2⟩
  · obtain ⟨r1, r2⟩ := runSelect_gated_cache s now j l m hl hr (hgm hg)
    exact ⟨q1.trans r1, q2.trans r2⟩

/-! ## 2. Who reads the cache later: `update_phase` -/

/-- Overwrite the phase. -/
def setPhase (p : Phase) (x : FLink F) : FLink F := { x with core := { x.core with phase := p } }

theorem liveAcct_setPhase (p : Phase) (x : FLink F) :
    SelShell.liveAcct (setPhase p x) = setPhase p (SelShell.liveAcct x) := rfl

/-- The phase `update_phase` computes, as a function of exactly what it reads: the old phase, the cached quality
multiplier, the NAK-burst counter, the loss-degraded stamp and the clock. -/
def phaseFn (ph : Phase) (q : F) (burst : Int) (ld : Bool) (now : Nat) : Phase :=
  let thr : F := lit Conn.DEGRADED_QUALITY_THRESHOLD_f Conn.DEGRADED_QUALITY_THRESHOLD_num Conn.DEGRADED_QUALITY_THRESHOLD_den
  let burstHi := decide (burst ≥ Conn.DEGRADED_NAK_BURST_THRESHOLD)
  match ph with
  | .warming p e => if now - e ≥ Conn.WARMING_TIMEOUT_MS then .live else .warming p e
  | .live => if (lt q thr && burstHi) || ld then .degraded else .live
  | .degraded => if (ge q thr && !burstHi) && !ld then .live else .degraded
  | .registering => .registering

theorem updatePhase_eq (x : FLink F) (now : Nat) :
    x.updatePhase now = setPhase (phaseFn x.core.phase x.qualMult x.core.cong.nakBurstCount x.lossDegraded now) x := by
  have eta : ∀ (y : FLink F) (q : Phase), y.core.phase = q → y = setPhase q y := by
    intro y q hq; subst hq; rfl
  unfold FLink.updatePhase phaseFn
  dsimp only
  cases hph : x.core.phase with
  | registering => exact eta x _ hph
  | warming p e =>
    dsimp only
    split
    · rfl
    · exact eta x _ hph
  | live =>
    dsimp only
    split
    · rfl
    · exact eta x _ hph
  | degraded =>
    dsimp only
    split
    · rfl
    · exact eta x _ hph

/-- `phaseFn` can differ between two cached multipliers only as `live` vs `degraded`. -/
theorem phaseFn_diff (ph : Phase) (q q' : F) (burst : Int) (ld : Bool) (now : Nat) :
    phaseFn ph q burst ld now = phaseFn ph q' burst ld now ∨
    ((phaseFn ph q burst ld now = .live ∨ phaseFn ph q burst ld now = .degraded) ∧
     (phaseFn ph q' burst ld now = .live ∨ phaseFn ph q' burst ld now = .degraded)) := by
  unfold phaseFn
  dsimp only
  cases ph with
  | registering => left; rfl
  | warming p e => left; rfl
  | live =>
    right
    dsimp only
    constructor
    · split
      · right; rfl
      · left; rfl
    · split
      · right; rfl
      · left; rfl
  | degraded =>
    right
    dsimp only
    constructor
    · split
      · left; rfl
      · right; rfl
    · split
      · left; rfl
      · right; rfl

/-- **`update_phase` reads, of the fields `liveAcct` erases, only `qualMult`**; it writes only the phase
(`updatePhase_eq`); and two links with the same liveness / accounting fields come out of it with the same such
fields EXCEPT, possibly, that one is `live` where the other is `degraded` (only when their cached quality
multipliers differ). -/
theorem updatePhase_reads (a b : FLink F) (now : Nat) (h : SelShell.liveAcct a = SelShell.liveAcct b) :
    (a.qualMult = b.qualMult → SelShell.liveAcct (a.updatePhase now) = SelShell.liveAcct (b.updatePhase now)) ∧
    (∃ p, SelShell.liveAcct (a.updatePhase now) = SelShell.liveAcct (setPhase p (b.updatePhase now)) ∧
      (p = (b.updatePhase now).core.phase ∨
       ((p = .live ∨ p = .degraded) ∧
        ((b.updatePhase now).core.phase = .live ∨ (b.updatePhase now).core.phase = .degraded)))) := by
  have hc : a.core = b.core := congrArg (·.core) h
  have hld : a.lossDegraded = b.lossDegraded := congrArg (·.lossDegraded) h
  have key : ∀ p, SelShell.liveAcct (setPhase p a) = SelShell.liveAcct (setPhase p b) := by
    intro p
    rw [liveAcct_setPhase, liveAcct_setPhase, h]
  have hb : (b.updatePhase now).core.phase =
      phaseFn b.core.phase b.qualMult b.core.cong.nakBurstCount b.lossDegraded now := by
    rw [updatePhase_eq]; rfl
  constructor
  · intro hq
    rw [updatePhase_eq a, updatePhase_eq b, hc, hq, hld]
    exact key _
  · refine ⟨phaseFn a.core.phase a.qualMult a.core.cong.nakBurstCount a.lossDegraded now, ?_, ?_⟩
    · rw [updatePhase_eq a, updatePhase_eq b]
      exact key _
    · rw [hb, hc, hld]
      exact phaseFn_diff _ _ _ _ _ _

/-! ## 3. `live` and `degraded` are the same to every routing decision -/

/-- **Both phases carry the same weight** (`LinkPhase::phase_weight`: `Live | Degraded => 1.0`). -/
theorem phaseWeight_live_degraded : (phaseWeight .live : F) = phaseWeight .degraded := rfl

end scalar

/-- Read `degraded` as `live`. -/
def unPhase : Phase → Phase
  | .degraded => .live
  | p => p

/-- The selection view of a link with `degraded` read as `live`. -/
def unDegrade (c : SLink F) : SLink F := { c with phase := unPhase c.phase }

theorem schedulable_unDegrade (c : SLink F) : schedulable (unDegrade c) = schedulable c := by
  unfold schedulable unDegrade unPhase
  cases c.phase <;> rfl

theorem updateSilencePull_unDegrade (c : SLink F) (now : Nat) (m : Int) (ce : Nat) :
    updateSilencePull (unDegrade c) now m ce = unDegrade (updateSilencePull c now m ce) := by
  have h1 : brieflySilent (unDegrade c) now m ce = brieflySilent c now m ce := rfl
  have h2 : pullWindow (unDegrade c) ce = pullWindow c ce := rfl
  unfold updateSilencePull
  simp only [h1, h2]
  simp only [apply_ite unDegrade]
  rfl

theorem updateStallLatch_unDegrade (c : SLink F) (now : Nat) (m : Int) (ce : Nat) :
    updateStallLatch (unDegrade c) now m ce = unDegrade (updateStallLatch c now m ce) := by
  have h1 : isStalled (unDegrade c) now m ce = isStalled c now m ce := rfl
  have h2 : effStale (unDegrade c) ce = effStale c ce := rfl
  unfold updateStallLatch
  simp only [h1, h2]
  simp only [apply_ite unDegrade]
  rfl

theorem guardStep_unDegrade (now : Nat) (cfg : Cfg) (c : SLink F) :
    guardStep now cfg (unDegrade c) = unDegrade (guardStep now cfg c) := by
  unfold guardStep
  have : ({ unDegrade c with connTimeoutMs := cfg.connTimeoutMs } : SLink F) =
      unDegrade { c with connTimeoutMs := cfg.connTimeoutMs } := rfl
  rw [this, updateSilencePull_unDegrade, updateStallLatch_unDegrade]

theorem healthy_unDegrade (now : Nat) (c : SLink F) : healthy now (unDegrade c) = healthy now c := by
  unfold healthy
  rw [schedulable_unDegrade]
  rfl

/-- **The stall gate does not tell `degraded` from `live`.** -/
theorem applyStallGate_unDegrade (ls : List (SLink F)) (now : Nat) (cfg : Cfg) :
    applyStallGate (ls.map unDegrade) now cfg = (applyStallGate ls now cfg).map unDegrade := by
  cases hs : cfg.stallDeselect
  · rw [applyStallGate_off _ now cfg hs, applyStallGate_off _ now cfg hs, List.map_map, List.map_map]
    rfl
  · rw [applyStallGate_on _ now cfg hs, applyStallGate_on _ now cfg hs]
    have e1 : (ls.map unDegrade).map (guardStep now cfg) = (ls.map (guardStep now cfg)).map unDegrade := by
      rw [List.map_map, List.map_map]
      exact List.map_congr_left fun c _ => guardStep_unDegrade now cfg c
    have e2 : ((ls.map (guardStep now cfg)).map unDegrade).any (healthy now) =
        (ls.map (guardStep now cfg)).any (healthy now) := by
      rw [List.any_map]
      congr 1
      funext c
      exact healthy_unDegrade now c
    rw [e1, e2]
    simp only [List.map_map]
    exact List.map_congr_left fun c _ => rfl

theorem classicGo_unDegrade (ls : List (SLink F)) (i now : Nat) (best : Option Nat) (bs : Int) :
    classicGo (ls.map unDegrade) i now best bs = classicGo ls i now best bs := by
  induction ls generalizing i best bs with
  | nil => rfl
  | cons c rest ih =>
    simp only [List.map_cons]
    unfold classicGo
    have h1 : isTimedOut (unDegrade c) now = isTimedOut c now := rfl
    have h2 := schedulable_unDegrade c
    have h3 : (unDegrade c).stallGated = c.stallGated := rfl
    have h4 : score (unDegrade c) = score c := rfl
    simp only [h1, h2, h3, h4, ih]

section scalar2
variable [Scalar F]

theorem phaseWeight_unPhase (p : Phase) : (phaseWeight (unPhase p) : F) = phaseWeight p := by
  cases p <;> rfl

theorem anyUnconstrained_unDegrade (ls : List (SLink F)) (now : Nat) :
    anyUnconstrained (ls.map unDegrade) now = anyUnconstrained ls now := by
  unfold anyUnconstrained
  rw [List.any_map]
  congr 1
  funext c
  simp only [Function.comp]
  rw [schedulable_unDegrade]
  rfl

theorem cachedQuality_unDegrade (c : SLink F) (now : Nat) :
    cachedQuality (unDegrade c) now = (unDegrade (cachedQuality c now).1, (cachedQuality c now).2) := by
  unfold cachedQuality
  have h1 : (unDegrade c).qualAt = c.qualAt := rfl
  rw [h1]
  split <;> rfl

theorem enhScore_unDegrade (c : SLink F) (now : Nat) (q a : Bool) :
    enhScore (unDegrade c) now q a = (unDegrade (enhScore c now q a).1, (enhScore c now q a).2) := by
  unfold enhScore
  dsimp only
  have hw : (phaseWeight (unDegrade c).phase : F) = phaseWeight c.phase := phaseWeight_unPhase c.phase
  have hs : score (unDegrade c) = score c := rfl
  have hcap : softCapMult (unDegrade c) = softCapMult c := rfl
  have h1 : (unDegrade c).weak = c.weak := rfl
  have h2 : (unDegrade c).lossDegraded = c.lossDegraded := rfl
  rw [hw, hs, hcap, h1, h2]
  split
  · rfl
  · rw [cachedQuality_unDegrade]

theorem enhSkip_unDegrade (c : SLink F) (now : Nat) (a : Bool) : enhSkip (unDegrade c) now a = enhSkip c now a := by
  unfold enhSkip
  rw [schedulable_unDegrade]
  rfl

theorem enhAccStep_unDegrade (now : Nat) (q a : Bool) (last : Option Nat) (i : Nat) (acc : EnhAcc F) (c : SLink F) :
    enhAccStep now q a last i (acc.mapOut unDegrade) (unDegrade c) = (enhAccStep now q a last i acc c).mapOut unDegrade := by
  unfold enhAccStep
  rw [enhSkip_unDegrade, enhScore_unDegrade]
  split <;> rfl

theorem enhGo_unDegrade (now : Nat) (q a : Bool) (last : Option Nat) (ls : List (SLink F)) (i : Nat) (acc : EnhAcc F) :
    enhGo now q a last (ls.map unDegrade) i (acc.mapOut unDegrade) = (enhGo now q a last ls i acc).mapOut unDegrade := by
  induction ls generalizing i acc with
  | nil => rfl
  | cons c rest ih =>
    simp only [List.map_cons]
    rw [enhGo_cons, enhGo_cons, enhAccStep_unDegrade, ih]

theorem enhancedSelect_unDegrade (ls : List (SLink F)) (last : Option Nat) (now : Nat) (q : Bool) :
    enhancedSelect (ls.map unDegrade) last now q =
      ((enhancedSelect ls last now q).1.map unDegrade, (enhancedSelect ls last now q).2) := by
  unfold enhancedSelect
  dsimp only
  rw [anyUnconstrained_unDegrade]
  have h := enhGo_unDegrade now q (anyUnconstrained ls now) last ls 0
    { out := [], best := none, bestScore := lit (-1.0) (-1) 1, current := none }
  have h' : (EnhAcc.mapOut unDegrade { out := [], best := none, bestScore := lit (-1.0) (-1) 1, current := none } : EnhAcc F)
      = { out := [], best := none, bestScore := lit (-1.0) (-1) 1, current := none } := rfl
  rw [h'] at h
  rw [h]
  generalize enhGo now q (anyUnconstrained ls now) last ls 0 _ = X
  refine Prod.ext ?_ rfl
  simp [EnhAcc.mapOut]

/-- **`select_connection_idx` does not tell `degraded` from `live`**: the same decision, and the same post-state
up to that reading — any list of links, any previous pick, any clock, any configuration (both modes, guard on or
off). -/
theorem selectIdx_unDegrade (ls : List (SLink F)) (last : Option Nat) (now : Nat) (cfg : Cfg) :
    selectIdx (ls.map unDegrade) last now cfg =
      ((selectIdx ls last now cfg).1.map unDegrade, (selectIdx ls last now cfg).2) := by
  unfold selectIdx
  dsimp only
  rw [applyStallGate_unDegrade]
  split
  · unfold classicSelect
    rw [classicGo_unDegrade]
  · exact enhancedSelect_unDegrade _ last now _

theorem bestQualityGo_unDegrade (now : Nat) (ls : List (SLink F)) (i : Nat) (best : Option Nat) (bq : F) :
    bestQualityGo now (ls.map unDegrade) i best bq = bestQualityGo now ls i best bq := by
  induction ls generalizing i best bq with
  | nil => rfl
  | cons c rest ih =>
    simp only [List.map_cons]
    unfold bestQualityGo
    have h1 : (unDegrade c).connected = c.connected := rfl
    have h2 := schedulable_unDegrade c
    have h3 : isTimedOut (unDegrade c) now = isTimedOut c now := rfl
    have h4 : (unDegrade c).stallGated = c.stallGated := rfl
    have h5 : (unDegrade c).qualMult = c.qualMult := rfl
    simp only [h1, h2, h3, h4, h5, ih]

/-- … nor does the best-quality override (`select_best_quality_eligible_idx`). -/
theorem bestQualityEligible_unDegrade (ls : List (SLink F)) (now : Nat) :
    bestQualityEligible (ls.map unDegrade) now = bestQualityEligible ls now := by
  unfold bestQualityEligible
  exact bestQualityGo_unDegrade now ls 0 none _

end scalar2

end Srtla.Audit2B
