import Srtla.Lemmas.SysDirKeys
import Srtla.Props.SysReload
/-!
# C02 at shell level, followed BY CONN ID across reloads

`Props/C02.lean: C02_shell_refines*` follow a link by its INDEX and carry `NoReload`.  Here the same refinement is
stated by conn id, so that it spans reloads (the way `Lemmas/KeepaliveReload.lean` did it for C14 and
`Lemmas/ReloadKeys.lean` for C09):

* `Origin s c pre k0`: where the link that carries conn id `c` at the end of a run came from — it is a link of the
  start state (`pre = []`, `k0` its key list there), or it was CREATED by a reload of the run (`pre` = the events up to
  and including that reload, `c` names no link before it, `k0 = []`: a created link starts with the empty set);
* `IdHist s post c hist`: the shell-visible history of the link with conn id `c` over `post`, during which it is
  PRESENT THROUGHOUT: an event that is not a reload contributes a block of set operations allowed for the INDEX the
  link has in the state the run had reached (`kopOk (evOps s e j)`, as in `RunHist`); a reload contributes NOTHING and
  retains the link (its address is still desired: the whole record moves to its new index);
* `IdHistX`: the same with the EXACT blocks of the data path (`clientBlock`, `flushBlock`, functions of the state
  reached and of the index the link has there);
* `refines_by_id`: along ANY run (reloads included; `FreshRun`: the ids a reload draws are new), every link of the end
  state has its key list = the fold of the set machine over an `IdHist` that starts at its `Origin`.

Only the interface lemmas `step_run` / `keys_run` / `connId_run` (per-link walk) and `mem_reload` are used: nothing
here depends on the shape of `sendConnectionBatch`.
-/
set_option linter.unusedSectionVars false
set_option linter.unusedVariables false

namespace Srtla.SysDir
open Srtla Srtla.Gen Srtla.Conn Srtla.Link Srtla.Sys Srtla.SysInv Srtla.Props.SysReload

variable {F : Type} [Scalar F]

/-- Where the link that carries conn id `c` after `pre` came from, and the key list `k0` it had there: a link of
the start state (`pre = []`), or a link CREATED by the last event of `pre`, a reload, before which no link carried
`c` (its set starts empty). -/
inductive Origin (s : Sys F) (c : Nat) : List Ev → List Int → Prop
  | start {l : FLink F} : l ∈ s.links → l.core.connId = c → Origin s c [] l.core.keys
  | created {pre : List Ev} {now : Nat} {addrs : List Nat} {outs : List (Option Nat)} :
      c ∉ ids (run s pre).1.links → c ∈ ids (run s (pre ++ [.reload now addrs outs])).1.links →
      Origin s c (pre ++ [.reload now addrs outs]) []

/-- The shell-visible history of the link with conn id `c` over an event list during which it is present
throughout.  An event other than a reload: a block of set operations allowed for the index `j` the link has in the
state reached.  A reload: no set operation; the link is retained (its address is still desired). -/
inductive IdHist : Sys F → List Ev → Nat → List KOp → Prop
  | nil {s : Sys F} {c : Nat} {l : FLink F} : l ∈ s.links → l.core.connId = c → IdHist s [] c []
  | ev {s : Sys F} {e : Ev} {evs : List Ev} {c j : Nat} {l : FLink F} {ks rest : List KOp} :
      e.isReload = false → s.links[j]? = some l → l.core.connId = c → (∀ k ∈ ks, kopOk (evOps s e j) k) →
      IdHist (step s e).1 evs c rest → IdHist s (e :: evs) c (ks ++ rest)
  | reload {s : Sys F} {now : Nat} {addrs : List Nat} {outs : List (Option Nat)} {evs : List Ev} {c : Nat}
      {l : FLink F} {rest : List KOp} :
      l ∈ s.links → l.core.connId = c → addrs.contains l.addr = true →
      IdHist (step s (.reload now addrs outs)).1 evs c rest → IdHist s (.reload now addrs outs :: evs) c rest

/-- As `IdHist`, with the EXACT blocks of the data-path events: a `client` event contributes `clientBlock` and a
`flush` event `flushBlock`, both functions of the state reached and of the index `j` the link has there. -/
inductive IdHistX : Sys F → List Ev → Nat → List KOp → Prop
  | nil {s : Sys F} {c : Nat} {l : FLink F} : l ∈ s.links → l.core.connId = c → IdHistX s [] c []
  | client {s : Sys F} {now : Nat} {pkt : Sys.Bytes} {evs : List Ev} {c j : Nat} {l : FLink F} {rest : List KOp} :
      s.links[j]? = some l → l.core.connId = c → IdHistX (step s (.client now pkt)).1 evs c rest →
      IdHistX s (.client now pkt :: evs) c (clientBlock s now pkt j ++ rest)
  | flush {s : Sys F} {now : Nat} {evs : List Ev} {c j : Nat} {l : FLink F} {rest : List KOp} :
      s.links[j]? = some l → l.core.connId = c → IdHistX (step s (.flush now)).1 evs c rest →
      IdHistX s (.flush now :: evs) c (flushBlock s j ++ rest)
  | other {s : Sys F} {e : Ev} {evs : List Ev} {c j : Nat} {l : FLink F} {ks rest : List KOp} :
      e.isReload = false → (∀ now pkt, e ≠ .client now pkt) → (∀ now, e ≠ .flush now) →
      s.links[j]? = some l → l.core.connId = c → (∀ k ∈ ks, kopOk (evOps s e j) k) →
      IdHistX (step s e).1 evs c rest → IdHistX s (e :: evs) c (ks ++ rest)
  | reload {s : Sys F} {now : Nat} {addrs : List Nat} {outs : List (Option Nat)} {evs : List Ev} {c : Nat}
      {l : FLink F} {rest : List KOp} :
      l ∈ s.links → l.core.connId = c → addrs.contains l.addr = true →
      IdHistX (step s (.reload now addrs outs)).1 evs c rest → IdHistX s (.reload now addrs outs :: evs) c rest

/-- A link with conn id `c` is present where an `IdHist` starts. -/
theorem IdHist.present {s : Sys F} {evs : List Ev} {c : Nat} {h : List KOp} (hh : IdHist s evs c h) :
    ∃ l ∈ s.links, l.core.connId = c := by
  cases hh with
  | nil hl hc => exact ⟨_, hl, hc⟩
  | ev _ hl hc _ _ => exact ⟨_, List.mem_of_getElem? hl, hc⟩
  | reload hl hc _ _ => exact ⟨_, hl, hc⟩

theorem IdHistX.present {s : Sys F} {evs : List Ev} {c : Nat} {h : List KOp} (hh : IdHistX s evs c h) :
    ∃ l ∈ s.links, l.core.connId = c := by
  cases hh with
  | nil hl hc => exact ⟨_, hl, hc⟩
  | client hl hc _ => exact ⟨_, List.mem_of_getElem? hl, hc⟩
  | flush hl hc _ => exact ⟨_, List.mem_of_getElem? hl, hc⟩
  | other _ _ _ hl hc _ _ => exact ⟨_, List.mem_of_getElem? hl, hc⟩
  | reload hl hc _ _ => exact ⟨_, hl, hc⟩

/-- The exact history is a shell-visible history, GIVEN that the exact blocks of `client` / `flush` events are allowed
blocks (hypotheses `hc`, `hf`, left to the caller: `clientBlock` consists of `send`s and `reset`s, `flushBlock` of
`send`s; kept as hypotheses so that nothing here depends on the shape of the blocks).  Not used by the theorems of
`Props/C02.lean`, which prove the `IdHist` and the `IdHistX` form separately. -/
theorem IdHistX.toIdHist {s : Sys F} {evs : List Ev} {c : Nat} {h : List KOp} (hh : IdHistX s evs c h)
    (hc : ∀ (s : Sys F) now pkt j, ∀ k ∈ clientBlock s now pkt j, kopOk (evOps s (.client now pkt) j) k)
    (hf : ∀ (s : Sys F) now j, ∀ k ∈ flushBlock s j, kopOk (evOps s (.flush now) j) k) : IdHist s evs c h := by
  induction hh with
  | nil hl hc' => exact .nil hl hc'
  | client hl hc' _ ih => exact .ev rfl hl hc' (hc _ _ _ _) ih
  | flush hl hc' _ ih => exact .ev rfl hl hc' (hf _ _ _) ih
  | other hnr _ _ hl hc' hk _ ih => exact .ev hnr hl hc' hk ih
  | reload hl hc' ha _ ih => exact .reload hl hc' ha ih

/-- `Origin` one event earlier: a link created later in the run was created later in the longer run. -/
theorem Origin.cons_created {s : Sys F} {c : Nat} {e : Ev} {pre : List Ev} {now : Nat} {addrs : List Nat}
    {outs : List (Option Nat)} (h1 : c ∉ ids (run (step s e).1 pre).1.links)
    (h2 : c ∈ ids (run (step s e).1 (pre ++ [.reload now addrs outs])).1.links) :
    Origin s c (e :: (pre ++ [.reload now addrs outs])) [] :=
  Origin.created (s := s) (pre := e :: pre) h1 h2

/-- One event that is not a reload, one link: index kept, conn id kept, the key list moves by an allowed block. -/
theorem step_keys_at (s : Sys F) (e : Ev) (hnr : e.isReload = false) (hli : All LinkInv s.links) {j : Nat}
    {l1 : FLink F} (h1 : (step s e).1.links[j]? = some l1) :
    ∃ l0, s.links[j]? = some l0 ∧ l0.core.connId = l1.core.connId ∧
      ∃ kops : List KOp, (∀ k ∈ kops, kopOk (evOps s e j) k) ∧ l1.core.keys = kops.foldl kstep l0.core.keys := by
  obtain ⟨hlen, hrun⟩ := step_run s e hnr
  have hj : j < s.links.length := by rw [← hlen]; exact (List.getElem?_eq_some_iff.1 h1).1
  have hl0 : s.links[j]? = some s.links[j] := List.getElem?_eq_getElem hj
  obtain ⟨l', hl', hr⟩ := hrun j _ hl0
  have : l' = l1 := by rw [hl'] at h1; exact Option.some.inj h1
  subst this
  obtain ⟨-, kops, hk1, hk2⟩ := keys_run hr (hli _ (List.getElem_mem hj))
  exact ⟨_, hl0, (connId_run hr).symm, kops, hk1, hk2⟩

/-- Freshness along a run is freshness along every prefix. -/
theorem freshRun_take (s : Sys F) (evs : List Ev) (k : Nat) (hf : FreshRun s evs) : FreshRun s (evs.take k) := by
  induction evs generalizing s k with
  | nil => rw [List.take_nil]; trivial
  | cons e es ih =>
    cases k with
    | zero => trivial
    | succ k => exact ⟨hf.1, ih _ k hf.2⟩

/-- **Conn ids are pairwise distinct in EVERY state along a run with reloads** (`Inv` + `FreshRun`): "the link with
conn id `c`" is unambiguous at every moment of the run. -/
theorem ids_nodup_along (s : Sys F) (hI : Inv s) (evs : List Ev) (hf : FreshRun s evs) (k : Nat) :
    (ids (run s (evs.take k)).1.links).Nodup :=
  (Inv_run_reload s hI (evs.take k) (freshRun_take s evs k hf)).nodup

/-- The set of a freshly created link is empty. -/
theorem keys_newUplink (id a now : Nat) : (FLink.newUplink id a now : FLink F).core.keys = [] := rfl

/-- **C02 by conn id over ANY run** (reloads included).  `hf`: the ids a reload draws are new among the present
links.  Every link `l'` of the end state: the run splits into `pre ++ post`, the link's `Origin` is at the end of
`pre` (start state: `pre = []`; or `pre` ends with the reload that created it), it is present throughout `post`, and
its key list is the fold of the per-link set machine over a shell-visible history of `post` (`IdHist`), started from
the key list at the origin (`[]` for a created link). -/
theorem refines_by_id (s : Sys F) (evs : List Ev) (hli : All LinkInv s.links) (hf : FreshRun s evs) :
    ∀ l' ∈ (run s evs).1.links, ∃ pre post k0 hist, evs = pre ++ post ∧ Origin s l'.core.connId pre k0 ∧
      IdHist (run s pre).1 post l'.core.connId hist ∧ l'.core.keys = hist.foldl kstep k0 := by
  induction evs generalizing s with
  | nil =>
    intro l' hl'
    exact ⟨[], [], _, [], rfl, .start hl' rfl, .nil hl' rfl, rfl⟩
  | cons e es ih =>
    intro l' hl'
    obtain ⟨pre, post, k0, hist, hsplit, horig, hhist, hkeys⟩ :=
      ih (step s e).1 (linkInv_step s e hli) hf.2 l' hl'
    cases horig with
    | created h1 h2 =>
      exact ⟨_, post, [], hist, by rw [hsplit]; rfl, Origin.cons_created h1 h2, hhist, hkeys⟩
    | start hl1 hc1 =>
      rename_i l1
      have hes : es = post := hsplit
      subst hes
      cases hnr : e.isReload with
      | false =>
        obtain ⟨j, hj, hget⟩ := List.getElem_of_mem hl1
        have h1 : (step s e).1.links[j]? = some l1 := by rw [List.getElem?_eq_getElem hj, hget]
        obtain ⟨l0, hl0, hid, kops, hk1, hk2⟩ := step_keys_at s e hnr hli h1
        refine ⟨[], e :: es, l0.core.keys, kops ++ hist, rfl, .start (List.mem_of_getElem? hl0) (hid.trans hc1),
          .ev hnr hl0 (hid.trans hc1) hk1 hhist, ?_⟩
        rw [List.foldl_append, ← hk2]
        exact hkeys
      | true =>
        cases e with
        | reload now addrs outs =>
          rcases mem_reload hl1 with ⟨hm, ha⟩ | ⟨id, a, -, hid, rfl⟩
          · exact ⟨[], _ :: es, l1.core.keys, hist, rfl, .start hm hc1, .reload hm hc1 ha hhist, hkeys⟩
          · have hc : l'.core.connId = id := hc1.symm
            refine ⟨[.reload now addrs outs], es, [], hist, rfl, ?_, hhist, hkeys⟩
            refine Origin.created (s := s) (pre := []) ?_ ?_
            · rw [hc]; exact (hf.1 now addrs outs rfl).2 id hid
            · rw [hc]; exact List.mem_map.2 ⟨_, hl1, rfl⟩
        | _ => cases hnr

end Srtla.SysDir
