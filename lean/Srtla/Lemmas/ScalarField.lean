import Mathlib.Algebra.Order.Floor.Ring
import Mathlib.Algebra.Order.Field.Basic
import Mathlib.Data.Rat.Floor
import Mathlib.Tactic.Linarith
import Mathlib.Tactic.Positivity
import Mathlib.Tactic.NormNum
import Mathlib.Tactic.NormNum.OfScientific
import Srtla.Model.Scalar
/-!
# The ordered-field instance of `Scalar` (proof side of the float code)

`fieldScalar F e` interprets every scalar operation of the model exactly (no rounding, no NaN, no
infinities) in an arbitrary linearly ordered field `F` with a floor function; `e` stands for
`exp`, of which the proofs only use `ExpLaw e` (`0 < e x ≤ 1` for `x ≤ 0`).  Decimal literals are
their exact rational value `num/den` (the same `num/den` the constants translator emits next to the
IEEE literal the `Float` instance uses).

What this instance does NOT capture (stated limitation of every theorem proved through it): IEEE
rounding, NaN, ±∞ and overflow.  "Finite" therefore means "bounded in exact arithmetic".
-/
namespace Srtla

/-- `Scalar` over a linearly ordered field.  `ninf` is the value of `negInf` (the only use of
`negInf` in the model is the initial best of `bestQualityEligible`; any value below every quality
multiplier will do, the default is `-1`). -/
@[reducible] noncomputable def fieldScalar (F : Type) [Field F] [LinearOrder F] [IsStrictOrderedRing F]
    [FloorRing F] (e : F → F) (ninf : F := -1) : Scalar F where
  lit _ n d := (n : F) / (d : F)
  ofNat n := (n : F)
  ofInt i := (i : F)
  add a b := a + b
  sub a b := a - b
  mul a b := a * b
  div a b := a / b
  neg a := -a
  lt a b := decide (a < b)
  le a b := decide (a ≤ b)
  fmax a b := max a b
  fmin a b := min a b
  exp := e
  floor x := ((⌊x⌋ : Int) : F)
  toNatSat x := ⌊x⌋₊
  isFinite _ := true
  negInf := ninf

/-- All that the proofs use of `exp`: on non-positive arguments it is in `(0, 1]`. -/
def ExpLaw {F : Type} [Zero F] [One F] [LT F] [LE F] (e : F → F) : Prop :=
  ∀ x, x ≤ 0 → 0 < e x ∧ e x ≤ 1

/-- The hypotheses are satisfiable: `ℚ` with `e x = 1 / (1 - x)`. -/
theorem expLaw_rat : ExpLaw (fun x : ℚ => 1 / (1 - x)) := by
  intro x hx
  have h1 : (0 : ℚ) < 1 - x := by linarith
  refine ⟨by positivity, ?_⟩
  rw [div_le_one h1]
  linarith

/-- A concrete instance (used by the `example`s next to the theorems). -/
noncomputable abbrev ratScalar : Scalar ℚ := fieldScalar ℚ (fun x => 1 / (1 - x))

section
variable {F : Type} [Field F] [LinearOrder F] [IsStrictOrderedRing F] [FloorRing F] (e : F → F) (ninf : F)

theorem fs_lt (a b : F) : @Scalar.lt F (fieldScalar F e ninf) a b = decide (a < b) := rfl
theorem fs_le (a b : F) : @Scalar.le F (fieldScalar F e ninf) a b = decide (a ≤ b) := rfl
theorem fs_gt (a b : F) : @Scalar.gt F (fieldScalar F e ninf) a b = decide (b < a) := rfl
theorem fs_ge (a b : F) : @Scalar.ge F (fieldScalar F e ninf) a b = decide (b ≤ a) := rfl
theorem fs_lit (f : Float) (n : Int) (d : Nat) :
    @Scalar.lit F (fieldScalar F e ninf) f n d = (n : F) / (d : F) := rfl

/-- `clamp x lo hi` is in `[lo, hi]` whenever `lo ≤ hi`. -/
theorem fs_clamp_mem (x lo hi : F) (h : lo ≤ hi) :
    lo ≤ @Scalar.clamp F (fieldScalar F e ninf) x lo hi ∧
    @Scalar.clamp F (fieldScalar F e ninf) x lo hi ≤ hi := by
  unfold Scalar.clamp
  simp only [fs_lt, decide_eq_true_eq]
  split
  · exact ⟨le_refl _, h⟩
  · split
    · exact ⟨h, le_refl _⟩
    · constructor <;> (apply le_of_not_gt; assumption)

end
end Srtla
