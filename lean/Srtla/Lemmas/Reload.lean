import Srtla.Model.Reload
/-!
# Helper lemmas for the `reload` model (C19). Core Lean only.
-/
namespace Srtla.Reload
open Srtla.Gen

/-! ## Specification-level vocabulary -/

/-- The parsable lines, in order. -/
def Line.ip? : Line → Option Ip
  | .ok ip => some ip
  | _ => none

def okIps (lines : List Line) : List Ip := lines.filterMap Line.ip?

@[simp] theorem okIps_nil : okIps [] = [] := rfl
@[simp] theorem okIps_blank (ls : List Line) : okIps (.blank :: ls) = okIps ls := rfl
@[simp] theorem okIps_bad (ls : List Line) : okIps (.bad :: ls) = okIps ls := rfl
@[simp] theorem okIps_ok (ip : Ip) (ls : List Line) : okIps (.ok ip :: ls) = ip :: okIps ls := rfl

def Line.isBad : Line → Bool
  | .bad => true
  | _ => false

def Line.isBlank : Line → Bool
  | .blank => true
  | _ => false

/-- 1-based number of the first non-blank line that does not parse. -/
def firstBad (lines : List Line) : Option Nat := (lines.findIdx? Line.isBad).map (· + 1)

/-! ## `scan` -/

theorem scan_spec (ls : List Line) (idx : Nat) (acc : Scan) :
    scan ls idx acc =
      { ips := acc.ips ++ okIps ls
        firstInvalid :=
          if acc.firstInvalid.isNone then (ls.findIdx? Line.isBad).map (· + idx + 1) else acc.firstInvalid
        sawContent := acc.sawContent || ls.any (fun l => !l.isBlank) } := by
  induction ls generalizing idx acc with
  | nil => cases acc; simp [scan]
  | cons l ls ih =>
    rw [scan, ih]
    cases l with
    | blank =>
      cases acc
      simp [scanLine, List.findIdx?_cons, Line.isBad, Line.isBlank, Option.map_map,
        Function.comp_def, Nat.add_assoc, Nat.add_comm 1]
    | ok ip =>
      cases acc
      simp [scanLine, List.findIdx?_cons, Line.isBad, Line.isBlank, Option.map_map,
        Function.comp_def, Nat.add_assoc, Nat.add_comm 1]
    | bad =>
      obtain ⟨ips, fi, sc⟩ := acc
      cases fi <;>
      simp [scanLine, List.findIdx?_cons, Line.isBad, Line.isBlank]

theorem analyzeText_spec (lines : List Line) :
    analyzeText lines =
      if okIps lines = [] then
        if lines.all Line.isBlank then .refuse .empty
        else .refuse (.noValidIps ((firstBad lines).getD 1))
      else .apply (okIps lines) (firstBad lines) := by
  unfold analyzeText
  rw [scan_spec]
  simp only [List.nil_append, Option.isNone_none, if_true, Bool.false_or, List.isEmpty_iff,
    Nat.add_zero, firstBad]
  by_cases h : okIps lines = []
  · simp only [h, if_true]
    by_cases hb : lines.all Line.isBlank = true
    · have : (lines.any fun l => !l.isBlank) = false := by
        simp only [List.all_eq_true] at hb
        simp only [List.any_eq_false, Bool.not_eq_true', Bool.not_eq_false]
        intro x hx; simp [hb x hx]
      simp [hb, this]
    · have : (lines.any fun l => !l.isBlank) = true := by
        cases hany : (lines.any fun l => !l.isBlank) with
        | true => rfl
        | false =>
          exfalso; apply hb
          simp only [List.any_eq_false, Bool.not_eq_true', Bool.not_eq_false] at hany
          simp only [List.all_eq_true]
          intro x hx; simpa using hany x hx
      simp [hb, this]
  · simp [h]

/-- If nothing parses, every non-blank line is bad; so the reported line is the first non-blank one. -/
theorem firstBad_of_no_ok {lines : List Line} (h : okIps lines = []) :
    firstBad lines = (lines.findIdx? (fun l => !l.isBlank)).map (· + 1) := by
  unfold firstBad
  congr 1
  induction lines with
  | nil => rfl
  | cons l ls ih =>
    cases l with
    | blank => simp [List.findIdx?_cons, Line.isBad, Line.isBlank, ih (by simpa using h)]
    | ok ip => simp at h
    | bad => simp [List.findIdx?_cons, Line.isBad, Line.isBlank]

theorem ip?_classify (trim : String → String) (parseIp : String → Option Ip) (l : String) :
    (classify trim parseIp l).ip? = if (trim l).isEmpty then none else parseIp (trim l) := by
  unfold classify
  by_cases he : (trim l).isEmpty = true
  · simp [he, Line.ip?]
  · cases hp : parseIp (trim l) <;> simp [he, hp, Line.ip?]

theorem okIps_map_classify (trim : String → String) (parseIp : String → Option Ip) (raw : List String) :
    okIps (raw.map (classify trim parseIp)) =
      raw.filterMap (fun l => if (trim l).isEmpty then none else parseIp (trim l)) := by
  unfold okIps
  rw [List.filterMap_map]
  congr 1
  funext l
  exact ip?_classify trim parseIp l

/-! ## `IoMap` -/

theorem IoMap.mem_keys_remove {m : IoMap} {k x : Nat} :
    x ∈ (m.remove k).keys ↔ x ∈ m.keys ∧ x ≠ k := by
  simp only [IoMap.keys, IoMap.remove, List.mem_map, List.mem_filter, bne_iff_ne, ne_eq]
  constructor
  · rintro ⟨e, ⟨he, hne⟩, rfl⟩; exact ⟨⟨e, he, rfl⟩, hne⟩
  · rintro ⟨⟨e, he, rfl⟩, hne⟩; exact ⟨e, ⟨he, hne⟩, rfl⟩

theorem IoMap.nodup_keys_remove {m : IoMap} {k : Nat} (h : m.keys.Nodup) : (m.remove k).keys.Nodup :=
  List.Nodup.sublist (List.Sublist.map _ List.filter_sublist) h

theorem IoMap.mem_keys_insert {m : IoMap} {k v x : Nat} :
    x ∈ (m.insert k v).keys ↔ x = k ∨ x ∈ m.keys := by
  simp only [IoMap.insert, IoMap.keys, List.map_cons, List.mem_cons]
  have := @IoMap.mem_keys_remove m k x
  simp only [IoMap.keys] at this
  rw [this]
  by_cases hx : x = k <;> simp [hx]

theorem IoMap.nodup_keys_insert {m : IoMap} {k v : Nat} (h : m.keys.Nodup) : (m.insert k v).keys.Nodup := by
  simp only [IoMap.insert, IoMap.keys, List.map_cons, List.nodup_cons]
  refine ⟨?_, IoMap.nodup_keys_remove h⟩
  intro hk
  have := (@IoMap.mem_keys_remove m k k).1 hk
  exact this.2 rfl

theorem IoMap.keys_replace (m : IoMap) (k v : Nat) : (m.replace k v).keys = m.keys := by
  simp only [IoMap.keys, IoMap.replace, List.map_map]
  apply List.map_congr_left
  intro e _
  simp only [Function.comp]
  split
  · rename_i h
    have : e.1 = k := by simpa using h
    exact this.symm
  · rfl

theorem IoMap.get_remove {m : IoMap} {k x : Nat} :
    (m.remove k).get x = if x = k then none else m.get x := by
  simp only [IoMap.get, IoMap.remove, List.find?_filter]
  by_cases hx : x = k
  · subst hx
    have : ∀ a : Nat × Nat, decide ((a.1 != x) = true ∧ (a.1 == x) = true) = false := by
      intro a; by_cases h : a.1 = x <;> simp [h]
    simp only [this]
    simp
  · have : ∀ a : Nat × Nat, decide ((a.1 != k) = true ∧ (a.1 == x) = true) = (a.1 == x) := by
      intro a
      by_cases h : a.1 = x
      · simp [h, hx]
      · simp [h]
    simp only [this]
    simp [hx]

theorem IoMap.get_insert {m : IoMap} {k v x : Nat} :
    (m.insert k v).get x = if x = k then some v else m.get x := by
  by_cases hx : x = k
  · simp [IoMap.insert, IoMap.get, hx]
  · have h1 : (k == x) = false := by simp; exact fun h => hx h.symm
    have := @IoMap.get_remove m k x
    simp only [IoMap.get] at this
    simp [IoMap.insert, IoMap.get, h1, hx, this]

theorem IoMap.mem_keys_foldl_remove (ids : List Nat) (m : IoMap) (x : Nat) :
    x ∈ (ids.foldl IoMap.remove m).keys ↔ x ∈ m.keys ∧ x ∉ ids := by
  induction ids generalizing m with
  | nil => simp
  | cons i ids ih =>
    rw [List.foldl_cons, ih, IoMap.mem_keys_remove]
    simp only [List.mem_cons, not_or]
    constructor
    · rintro ⟨⟨h1, h2⟩, h3⟩; exact ⟨h1, h2, h3⟩
    · rintro ⟨h1, h2, h3⟩; exact ⟨⟨h1, h2⟩, h3⟩

theorem IoMap.nodup_keys_foldl_remove (ids : List Nat) (m : IoMap) (h : m.keys.Nodup) :
    (ids.foldl IoMap.remove m).keys.Nodup := by
  induction ids generalizing m with
  | nil => simpa
  | cons i ids ih => rw [List.foldl_cons]; exact ih _ (IoMap.nodup_keys_remove h)

theorem IoMap.get_foldl_remove (ids : List Nat) (m : IoMap) (x : Nat) :
    (ids.foldl IoMap.remove m).get x = if x ∈ ids then none else m.get x := by
  induction ids generalizing m with
  | nil => simp
  | cons i ids ih =>
    rw [List.foldl_cons, ih, IoMap.get_remove]
    by_cases h1 : x ∈ ids <;> by_cases h2 : x = i <;> simp [h1, h2]

/-! ## `Tracker` -/

theorem Tracker.get_removeConnection (t : Tracker) (id seq now : Nat) :
    (t.removeConnection id).get seq now =
      match t.get seq now with
      | some x => if x = id then none else some x
      | none => none := by
  unfold Tracker.get Tracker.removeConnection
  rw [List.find?_map]
  have hcomp : ((fun e : Nat × TrackEntry => e.1 == slot seq) ∘
      fun e : Nat × TrackEntry => if (e.2.connId == id) = true then (e.1, (⟨0, 0, 0⟩ : TrackEntry)) else e)
      = fun e => e.1 == slot seq := by
    funext e
    simp only [Function.comp]
    split <;> rfl
  rw [hcomp]
  have h0 : (⟨0, 0, 0⟩ : TrackEntry).isValid seq now = false := by simp [TrackEntry.isValid]
  cases hf : List.find? (fun e => e.1 == slot seq) t with
  | none => simp
  | some e =>
    obtain ⟨k, e⟩ := e
    simp only [Option.map_some]
    by_cases hid : e.connId = id
    · simp only [hid, beq_self_eq_true, if_true, h0, Bool.false_eq_true, if_false]
      cases hv : e.isValid seq now <;> simp
    · have : (e.connId == id) = false := by simpa using hid
      simp only [this, Bool.false_eq_true, if_false]
      cases hv : e.isValid seq now <;> simp [hid]

theorem Tracker.get_foldl_removeConnection (ids : List Nat) (t : Tracker) (seq now : Nat) :
    (ids.foldl Tracker.removeConnection t).get seq now =
      match t.get seq now with
      | some x => if x ∈ ids then none else some x
      | none => none := by
  induction ids generalizing t with
  | nil => cases h : t.get seq now <;> simp [h]
  | cons i ids ih =>
    rw [List.foldl_cons, ih, Tracker.get_removeConnection]
    cases t.get seq now with
    | none => simp
    | some x =>
      by_cases h1 : x = i
      · simp [h1]
      · by_cases h2 : x ∈ ids <;> simp [h1, h2]

/-- A freshly inserted sequence number is attributed to the inserting link while it is young. -/
theorem Tracker.get_insert_self (t : Tracker) (seq id ts now : Nat) (hid : id ≠ 0)
    (hage : now - ts ≤ 5000) : (t.insert seq id ts).get seq now = some id := by
  simp [Tracker.get, Tracker.insert, TrackEntry.isValid, hid, Nat.not_lt.2 hage]

/-! ## `dedupSeen` -/

theorem dedupSeen_spec (seen l : List Ip) :
    (dedupSeen seen l).Nodup ∧ ∀ x, x ∈ dedupSeen seen l ↔ x ∈ l ∧ x ∉ seen := by
  induction l generalizing seen with
  | nil => simp [dedupSeen]
  | cons a l ih =>
    unfold dedupSeen
    by_cases ha : a ∈ seen
    · simp only [List.contains_eq_mem, ha, decide_true, if_true]
      refine ⟨(ih seen).1, fun x => ?_⟩
      rw [(ih seen).2]
      simp only [List.mem_cons]
      constructor
      · rintro ⟨h1, h2⟩; exact ⟨Or.inr h1, h2⟩
      · rintro ⟨h1 | h1, h2⟩
        · subst h1; exact absurd ha h2
        · exact ⟨h1, h2⟩
    · simp only [List.contains_eq_mem, ha, decide_false, Bool.false_eq_true, if_false]
      obtain ⟨hnd, hmem⟩ := ih (a :: seen)
      refine ⟨?_, fun x => ?_⟩
      · rw [List.nodup_cons]
        refine ⟨fun h => ?_, hnd⟩
        have := ((hmem a).1 h).2
        simp at this
      · simp only [List.mem_cons, hmem, not_or]
        constructor
        · rintro (h | ⟨h1, h2, h3⟩)
          · subst h; exact ⟨Or.inl rfl, ha⟩
          · exact ⟨Or.inr h1, h3⟩
        · rintro ⟨h1 | h1, h2⟩
          · exact Or.inl h1
          · by_cases hx : x = a
            · exact Or.inl hx
            · exact Or.inr ⟨h1, hx, h2⟩

theorem dedupSeen_sublist (seen l : List Ip) : (dedupSeen seen l).Sublist l := by
  induction l generalizing seen with
  | nil => simp [dedupSeen]
  | cons a l ih =>
    unfold dedupSeen
    split
    · exact List.Sublist.cons _ (ih seen)
    · exact List.Sublist.cons_cons _ (ih _)

/-! ## `create_connections_from_ips` -/

/-- The `conn_id`s handed out by the successful attempts of an outcome list. -/
def okIds (outs : List (Option ConnOk)) : List Nat := outs.filterMap (fun o => o.map (·.connId))

theorem okIds_cons_some (c : ConnOk) (os : List (Option ConnOk)) :
    okIds (some c :: os) = c.connId :: okIds os := rfl
theorem okIds_cons_none (os : List (Option ConnOk)) : okIds (none :: os) = okIds os := rfl
theorem okIds_nil : okIds [] = [] := rfl

theorem okIds_tail_sublist (outs : List (Option ConnOk)) : (okIds outs.tail).Sublist (okIds outs) := by
  cases outs with
  | nil => exact List.Sublist.refl _
  | cons o os =>
    cases o with
    | none => exact List.Sublist.refl _
    | some c => exact List.Sublist.cons _ (List.Sublist.refl _)

theorem createConnections_spec (mk : Ip → Label) (ips : List Ip) (outs : List (Option ConnOk)) (io : IoMap) :
    ((createConnections mk ips outs io).1.map (·.connId)).Sublist (okIds outs) ∧
    ((createConnections mk ips outs io).1.map (·.ip)).Sublist ips ∧
    (∀ l ∈ (createConnections mk ips outs io).1, l.label = mk l.ip) ∧
    (∀ k, k ∈ (createConnections mk ips outs io).2.keys ↔
        k ∈ io.keys ∨ k ∈ (createConnections mk ips outs io).1.map (·.connId)) ∧
    (io.keys.Nodup → (createConnections mk ips outs io).2.keys.Nodup) ∧
    (∀ k, k ∉ (createConnections mk ips outs io).1.map (·.connId) →
        (createConnections mk ips outs io).2.get k = io.get k) := by
  induction ips generalizing outs io with
  | nil => simp [createConnections]
  | cons ip rest ih =>
    unfold createConnections
    cases hh : outs.head?.join with
    | none =>
      simp only
      obtain ⟨h1, h2, h3, h4, h5, h6⟩ := ih outs.tail io
      exact ⟨h1.trans (okIds_tail_sublist outs), List.Sublist.cons _ h2, h3, h4, h5, h6⟩
    | some c =>
      simp only
      obtain ⟨h1, h2, h3, h4, h5, h6⟩ := ih outs.tail (io.insert c.connId c.sock)
      have houts : outs = some c :: outs.tail := by
        cases outs with
        | nil => simp at hh
        | cons o os => cases o <;> simp_all
      refine ⟨?_, ?_, ?_, ?_, ?_, ?_⟩
      · rw [houts, okIds_cons_some, List.map_cons]
        exact List.Sublist.cons_cons _ h1
      · rw [List.map_cons]; exact List.Sublist.cons_cons _ h2
      · intro l hl
        rcases List.mem_cons.1 hl with rfl | hl
        · rfl
        · exact h3 l hl
      · intro k
        rw [h4 k, IoMap.mem_keys_insert, List.map_cons, List.mem_cons]
        constructor
        · rintro ((h | h) | h)
          · exact Or.inr (Or.inl h)
          · exact Or.inl h
          · exact Or.inr (Or.inr h)
        · rintro (h | h | h)
          · exact Or.inl (Or.inr h)
          · exact Or.inl (Or.inl h)
          · exact Or.inr h
      · intro hnd; exact h5 (IoMap.nodup_keys_insert hnd)
      · intro k hk
        rw [List.map_cons, List.mem_cons, not_or] at hk
        rw [h6 k hk.2, IoMap.get_insert, if_neg hk.1]

/-- If every attempt succeeds, there is exactly one new link per attempted address, in order. -/
theorem createConnections_all_ok (mk : Ip → Label) (ips : List Ip) (cs : List ConnOk) (io : IoMap)
    (hlen : cs.length = ips.length) :
    (createConnections mk ips (cs.map some) io).1.map (·.ip) = ips ∧
    (createConnections mk ips (cs.map some) io).1.map (·.connId) = cs.map (·.connId) := by
  induction ips generalizing cs io with
  | nil => cases cs <;> simp_all [createConnections]
  | cons ip rest ih =>
    cases cs with
    | nil => simp at hlen
    | cons c cs =>
      have := ih cs (io.insert c.connId c.sock) (by simpa using hlen)
      simp [createConnections, this.1, this.2]

/-! ## `apply_connection_changes` in closed form -/

theorem mem_removedIds (mk : Ip → Label) (s : Sys) (newIps : List Ip) (id : Nat) :
    id ∈ removedIds mk s newIps ↔ ∃ l, l ∈ s.links ∧ l.label ∉ newIps.map mk ∧ l.connId = id := by
  unfold removedIds desiredLabels
  rw [List.mem_map]
  constructor
  · rintro ⟨l, hl, rfl⟩
    rw [List.mem_filter] at hl
    refine ⟨l, hl.1, ?_, rfl⟩
    have := hl.2
    rw [List.contains_eq_mem] at this
    simpa using this
  · rintro ⟨l, hl, hno, rfl⟩
    refine ⟨l, List.mem_filter.2 ⟨hl, ?_⟩, rfl⟩
    rw [List.contains_eq_mem]
    simpa using hno

theorem mem_retained (mk : Ip → Label) (s : Sys) (newIps : List Ip) (l : Link) :
    l ∈ retained mk s newIps ↔ l ∈ s.links ∧ l.label ∈ newIps.map mk := by
  unfold retained desiredLabels
  rw [List.mem_filter, List.contains_eq_mem]
  simp only [decide_eq_true_eq]

theorem removedIds_eq_nil_iff (mk : Ip → Label) (s : Sys) (newIps : List Ip) :
    removedIds mk s newIps = [] ↔ ∀ l ∈ s.links, l.label ∈ newIps.map mk := by
  simp [removedIds, desiredLabels, List.filter_eq_nil_iff]

theorem retained_length_eq_iff (mk : Ip → Label) (s : Sys) (newIps : List Ip) :
    (retained mk s newIps).length = s.links.length ↔ ∀ l ∈ s.links, l.label ∈ newIps.map mk := by
  simp [retained, desiredLabels, List.length_filter_eq_length_iff]

theorem applyChanges_eq (mk : Ip → Label) (s : Sys) (newIps : List Ip) (outs : List (Option ConnOk)) :
    applyChanges mk s newIps outs =
      { links := retained mk s newIps ++
          (createConnections mk (neededIps mk s newIps) outs
            ((removedIds mk s newIps).foldl IoMap.remove s.io)).1
        io := (createConnections mk (neededIps mk s newIps) outs
            ((removedIds mk s newIps).foldl IoMap.remove s.io)).2
        tracker := (removedIds mk s newIps).foldl Tracker.removeConnection s.tracker
        lastSel := if removedIds mk s newIps = [] then s.lastSel else none
        pending := s.pending } := by
  unfold applyChanges
  by_cases h : removedIds mk s newIps = []
  · have hl : (retained mk s newIps).length = s.links.length :=
      (retained_length_eq_iff mk s newIps).2 ((removedIds_eq_nil_iff mk s newIps).1 h)
    simp [h, hl]
  · have hl : ¬ (retained mk s newIps).length = s.links.length := fun hl =>
      h ((removedIds_eq_nil_iff mk s newIps).2 ((retained_length_eq_iff mk s newIps).1 hl))
    simp [h, hl]

/-! ## Invariant vocabulary -/

def ids (s : Sys) : List Nat := s.links.map (·.connId)

/-- The three structures agree: distinct `conn_id`s, and the I/O map is keyed by exactly them. -/
def Wf (s : Sys) : Prop := (ids s).Nodup ∧ s.io.keys.Nodup ∧ ∀ k, k ∈ s.io.keys ↔ k ∈ ids s

/-- What `rand::rng().next_u64()` is trusted to deliver: ids that are new and pairwise distinct. -/
def Fresh (s : Sys) (outs : List (Option ConnOk)) : Prop :=
  (okIds outs).Nodup ∧ ∀ id ∈ okIds outs, id ∉ ids s

def OpFresh (s : Sys) : Op → Prop
  | .tick outs => Fresh s outs
  | _ => True

/-- Every `tick` of the run draws fresh ids (relative to the state it is applied in). -/
def Admissible (mk : Ip → Label) : Sys → List Op → Prop
  | _, [] => True
  | s, op :: ops => OpFresh s op ∧ Admissible mk (step mk s op) ops

theorem inj_of_nodup_map {α β : Type} (f : α → β) {l : List α} (h : (l.map f).Nodup)
    {a b : α} (ha : a ∈ l) (hb : b ∈ l) (hab : f a = f b) : a = b := by
  induction l with
  | nil => cases ha
  | cons x xs ih =>
    rw [List.map_cons, List.nodup_cons] at h
    rcases List.mem_cons.1 ha with rfl | ha' <;> rcases List.mem_cons.1 hb with rfl | hb'
    · rfl
    · exact absurd (List.mem_map.2 ⟨b, hb', hab.symm⟩) h.1
    · exact absurd (List.mem_map.2 ⟨a, ha', hab⟩) h.1
    · exact ih h.2 ha' hb'

theorem map_connId_setState (links : List Link) (idx tok : Nat) :
    (setState links idx tok).map (·.connId) = links.map (·.connId) := by
  induction links generalizing idx with
  | nil => rfl
  | cons l ls ih =>
    cases idx with
    | zero => rfl
    | succ i => simp [setState, ih]

theorem map_label_setState (links : List Link) (idx tok : Nat) :
    (setState links idx tok).map (·.label) = links.map (·.label) := by
  induction links generalizing idx with
  | nil => rfl
  | cons l ls ih =>
    cases idx with
    | zero => rfl
    | succ i => simp [setState, ih]

/-! ## Survivors across a whole run -/

/-- What never changes about a link, whatever protocol activity happens on it. -/
def Link.key (l : Link) : Nat × Ip × Label := (l.connId, l.ip, l.label)

/-- The `conn_id`s drawn by one step / by a run. -/
def opDrawn : Op → List Nat
  | .tick outs => okIds outs
  | _ => []

def drawn : List Op → List Nat
  | [] => []
  | op :: ops => opDrawn op ++ drawn ops

def Op.isMutate : Op → Bool
  | .mutate _ _ => true
  | .resock _ _ _ => true
  | _ => false

theorem map_setState_of_inv {β : Type} (f : Link → β) (hf : ∀ l tok, f { l with state := tok } = f l)
    (links : List Link) (idx tok : Nat) : (setState links idx tok).map f = links.map f := by
  induction links generalizing idx with
  | nil => rfl
  | cons l ls ih =>
    cases idx with
    | zero => simp [setState, hf]
    | succ i => simp [setState, ih]

theorem setState_append (a b : List Link) (idx tok : Nat) :
    setState (a ++ b) idx tok =
      if idx < a.length then setState a idx tok ++ b else a ++ setState b (idx - a.length) tok := by
  induction a generalizing idx with
  | nil => simp
  | cons x xs ih =>
    cases idx with
    | zero => simp [setState]
    | succ i =>
      simp only [List.cons_append, setState, ih, List.length_cons, Nat.add_lt_add_iff_right,
        Nat.add_sub_add_right]
      split <;> rfl

/-- `links` = (old links that are still there, in their old order) ++ (links created since, all
carrying ids from `D`); `f` is the view of a link that is compared with the old list `K`. -/
def Split {β : Type} (f : Link → β) (K : List β) (D : List Nat) (links : List Link) : Prop :=
  ∃ pre post, links = pre ++ post ∧ (pre.map f).Sublist K ∧ ∀ l ∈ post, l.connId ∈ D

theorem split_mono {β : Type} {f : Link → β} {K : List β} {D D' : List Nat} {links : List Link}
    (h : Split f K D links) (hD : ∀ x ∈ D, x ∈ D') : Split f K D' links := by
  obtain ⟨pre, post, h1, h2, h3⟩ := h
  exact ⟨pre, post, h1, h2, fun l hl => hD _ (h3 l hl)⟩

theorem split_step {β : Type} (f : Link → β) (K : List β) (D : List Nat) (mk : Ip → Label) (s : Sys)
    (op : Op) (hop : (∀ l tok, f { l with state := tok } = f l) ∨ op.isMutate = false)
    (h : Split f K D s.links) : Split f K (D ++ opDrawn op) (step mk s op).links := by
  have hmono : Split f K (D ++ opDrawn op) s.links := split_mono h (fun x hx => List.mem_append_left _ hx)
  cases op with
  | sighup file =>
    simp only [step]; split <;> exact hmono
  | track seq id ts => exact hmono
  | select v => exact hmono
  | tick outs =>
    simp only [step]
    split
    · rename_i ips hp
      obtain ⟨pre, post, h1, h2, h3⟩ := h
      rw [applyChanges_eq]
      have hc1 := fun needed io => (createConnections_spec mk needed outs io).1
      simp only [retained, h1, List.filter_append, List.append_assoc]
      refine ⟨_, _, rfl, ?_, ?_⟩
      · exact (List.Sublist.map f List.filter_sublist).trans h2
      · intro l hl
        rcases List.mem_append.1 hl with hl | hl
        · exact List.mem_append_left _ (h3 l (List.mem_filter.1 hl).1)
        · exact List.mem_append_right _ ((hc1 _ _).subset (List.mem_map.2 ⟨l, hl, rfl⟩))
    · exact hmono
  | mutate idx tok =>
    rcases hop with hf | hno
    · obtain ⟨pre, post, h1, h2, h3⟩ := hmono
      simp only [step, h1, setState_append]
      split
      · exact ⟨_, _, rfl, by rw [map_setState_of_inv f hf]; exact h2, h3⟩
      · refine ⟨_, _, rfl, h2, ?_⟩
        intro l hl
        have : l.connId ∈ (setState post (idx - pre.length) tok).map (·.connId) :=
          List.mem_map.2 ⟨l, hl, rfl⟩
        rw [map_connId_setState] at this
        obtain ⟨l0, hl0, he⟩ := List.mem_map.1 this
        exact he ▸ h3 l0 hl0
    · simp [Op.isMutate] at hno
  | resock idx sock tok =>
    simp only [step]
    split
    · rcases hop with hf | hno
      · obtain ⟨pre, post, h1, h2, h3⟩ := hmono
        simp only [h1, setState_append]
        split
        · exact ⟨_, _, rfl, by rw [map_setState_of_inv f hf]; exact h2, h3⟩
        · refine ⟨_, _, rfl, h2, ?_⟩
          intro l hl
          have : l.connId ∈ (setState post (idx - pre.length) tok).map (·.connId) :=
            List.mem_map.2 ⟨l, hl, rfl⟩
          rw [map_connId_setState] at this
          obtain ⟨l0, hl0, he⟩ := List.mem_map.1 this
          exact he ▸ h3 l0 hl0
      · simp [Op.isMutate] at hno
    · exact hmono

theorem split_run {β : Type} (f : Link → β) (K : List β) (mk : Ip → Label) (ops : List Op) (s : Sys)
    (D : List Nat)
    (hop : (∀ l tok, f { l with state := tok } = f l) ∨ ∀ op ∈ ops, op.isMutate = false)
    (h : Split f K D s.links) : Split f K (D ++ drawn ops) (run mk s ops).links := by
  induction ops generalizing s D with
  | nil => simpa [drawn, Srtla.Reload.run] using h
  | cons op ops ih =>
    have hop1 : (∀ l tok, f { l with state := tok } = f l) ∨ op.isMutate = false :=
      hop.imp id (fun hh => hh op (List.mem_cons_self ..))
    have hop2 : (∀ l tok, f { l with state := tok } = f l) ∨ ∀ op ∈ ops, op.isMutate = false :=
      hop.imp id (fun hh o ho => hh o (List.mem_cons_of_mem _ ho))
    have := ih (step mk s op) (D ++ opDrawn op) hop2 (split_step f K D mk s op hop1 h)
    simpa [drawn, Srtla.Reload.run, List.append_assoc] using this

/-! ## Labels stay unique when the label function is injective -/

theorem nodup_map_of_injective {α β : Type} (f : α → β) (hinj : Function.Injective f) (l : List α)
    (h : l.Nodup) : (l.map f).Nodup := by
  induction l with
  | nil => simp
  | cons x xs ih =>
    rw [List.nodup_cons] at h
    rw [List.map_cons, List.nodup_cons]
    refine ⟨fun hmem => ?_, ih h.2⟩
    obtain ⟨y, hy, hxy⟩ := List.mem_map.1 hmem
    exact h.1 (hinj hxy ▸ hy)

theorem mkLabel_injective (host : String) (port : Nat) : Function.Injective (mkLabel host port) := by
  intro a b h
  exact (String.append_right_inj _).1 h

/-! ## Label invariant: every link's label is the label of its address

`apply_connection_changes` compares LABELS (`format!("{host}:{port} via {ip}")`); the property speaks
about ADDRESSES. The two readings coincide on every reachable state because a link's label is always
the label function applied to its address (`LabelInv`), and the real label function is injective. -/

/-- Every link carries the label computed from its own address. -/
def LabelInv (mk : Ip → Label) (s : Sys) : Prop := ∀ l ∈ s.links, l.label = mk l.ip

/-- `setState` changes nothing but the state token of (at most) one link. -/
theorem mem_setState {links : List Link} {idx tok : Nat} {l : Link} (h : l ∈ setState links idx tok) :
    ∃ l0 ∈ links, l.connId = l0.connId ∧ l.ip = l0.ip ∧ l.label = l0.label := by
  induction links generalizing idx with
  | nil => simp [setState] at h
  | cons x xs ih =>
    cases idx with
    | zero =>
      simp only [setState, List.mem_cons] at h
      rcases h with rfl | h
      · exact ⟨x, List.mem_cons_self .., rfl, rfl, rfl⟩
      · exact ⟨l, List.mem_cons_of_mem _ h, rfl, rfl, rfl⟩
    | succ i =>
      simp only [setState, List.mem_cons] at h
      rcases h with rfl | h
      · exact ⟨l, List.mem_cons_self .., rfl, rfl, rfl⟩
      · obtain ⟨l0, hl0, h1⟩ := ih h
        exact ⟨l0, List.mem_cons_of_mem _ hl0, h1⟩

theorem labelInv_setState (mk : Ip → Label) {links : List Link} (idx tok : Nat)
    (h : ∀ l ∈ links, l.label = mk l.ip) : ∀ l ∈ setState links idx tok, l.label = mk l.ip := by
  intro l hl
  obtain ⟨l0, hl0, -, hip, hlab⟩ := mem_setState hl
  rw [hlab, hip]; exact h l0 hl0

theorem labelInv_startup (mk : Ip → Label) (ips : List Ip) (outs : List (Option ConnOk)) :
    LabelInv mk (startup mk ips outs) :=
  (createConnections_spec mk ips outs []).2.2.1

theorem labelInv_applyChanges (mk : Ip → Label) (s : Sys) (newIps : List Ip) (outs : List (Option ConnOk))
    (h : LabelInv mk s) : LabelInv mk (applyChanges mk s newIps outs) := by
  intro l hl
  rw [applyChanges_eq] at hl
  rcases List.mem_append.1 hl with hl | hl
  · exact h l ((mem_retained mk s newIps l).1 hl).1
  · exact (createConnections_spec mk _ outs _).2.2.1 l hl

theorem labelInv_step (mk : Ip → Label) (s : Sys) (op : Op) (h : LabelInv mk s) :
    LabelInv mk (step mk s op) := by
  cases op with
  | sighup file =>
    simp only [step]
    split <;> exact h
  | tick outs =>
    simp only [step]
    split
    · exact labelInv_applyChanges mk _ _ outs h
    · exact h
  | track seq id ts => exact h
  | mutate idx tok => exact labelInv_setState mk idx tok h
  | select v => exact h
  | resock idx sock tok =>
    simp only [step]
    split
    · exact labelInv_setState mk idx tok h
    · exact h

theorem labelInv_run (mk : Ip → Label) (s : Sys) (ops : List Op) (h : LabelInv mk s) :
    LabelInv mk (run mk s ops) := by
  induction ops generalizing s with
  | nil => exact h
  | cons op ops ih =>
    simp only [run, List.foldl_cons]
    exact ih _ (labelInv_step mk s op h)

/-! ### Label membership = address membership (injective label function) -/

theorem mk_mem_map_iff {mk : Ip → Label} (hinj : Function.Injective mk) (ip : Ip) (newIps : List Ip) :
    mk ip ∈ newIps.map mk ↔ ip ∈ newIps := by
  rw [List.mem_map]
  constructor
  · rintro ⟨x, hx, he⟩; exact hinj he ▸ hx
  · intro h; exact ⟨ip, h, rfl⟩

/-- Under the invariant a link's label is desired iff its address is listed. -/
theorem label_desired_iff {mk : Ip → Label} (hinj : Function.Injective mk) {s : Sys}
    (hinv : LabelInv mk s) (newIps : List Ip) {l : Link} (hl : l ∈ s.links) :
    l.label ∈ newIps.map mk ↔ l.ip ∈ newIps := by
  rw [hinv l hl]; exact mk_mem_map_iff hinj _ _

/-- Under the invariant `mk ip` is a current label iff `ip` is a current address. -/
theorem mk_mem_labels_iff {mk : Ip → Label} (hinj : Function.Injective mk) {s : Sys}
    (hinv : LabelInv mk s) (ip : Ip) :
    mk ip ∈ s.links.map (·.label) ↔ ip ∈ s.links.map (·.ip) := by
  simp only [List.mem_map]
  constructor
  · rintro ⟨l, hl, he⟩
    rw [hinv l hl] at he
    exact ⟨l, hl, hinj he⟩
  · rintro ⟨l, hl, he⟩
    exact ⟨l, hl, by rw [hinv l hl, he]⟩

theorem filter_label_eq_filter_ip {mk : Ip → Label} (hinj : Function.Injective mk) {s : Sys}
    (hinv : LabelInv mk s) (newIps : List Ip) :
    s.links.filter (fun l => decide (l.label ∈ newIps.map mk)) =
      s.links.filter (fun l => decide (l.ip ∈ newIps)) := by
  apply List.filter_congr
  intro l hl
  rw [decide_eq_decide]
  exact label_desired_iff hinj hinv newIps hl

theorem retained_eq_filter_ip {mk : Ip → Label} (hinj : Function.Injective mk) {s : Sys}
    (hinv : LabelInv mk s) (newIps : List Ip) :
    retained mk s newIps = s.links.filter (fun l => decide (l.ip ∈ newIps)) := by
  rw [← filter_label_eq_filter_ip hinj hinv newIps]
  simp only [retained, desiredLabels, List.contains_eq_mem]

/-- The removed `conn_id`s, by address. -/
theorem mem_removedIds_by_ip {mk : Ip → Label} (hinj : Function.Injective mk) {s : Sys}
    (hinv : LabelInv mk s) (newIps : List Ip) (id : Nat) :
    id ∈ removedIds mk s newIps ↔ ∃ l, l ∈ s.links ∧ l.ip ∉ newIps ∧ l.connId = id := by
  rw [mem_removedIds]
  constructor
  · rintro ⟨l, hl, hno, he⟩
    exact ⟨l, hl, fun h => hno ((label_desired_iff hinj hinv newIps hl).2 h), he⟩
  · rintro ⟨l, hl, hno, he⟩
    exact ⟨l, hl, fun h => hno ((label_desired_iff hinj hinv newIps hl).1 h), he⟩

theorem removedIds_eq_map_filter_ip {mk : Ip → Label} (hinj : Function.Injective mk) {s : Sys}
    (hinv : LabelInv mk s) (newIps : List Ip) :
    removedIds mk s newIps = (s.links.filter (fun l => !decide (l.ip ∈ newIps))).map (·.connId) := by
  unfold removedIds desiredLabels
  congr 1
  apply List.filter_congr
  intro l hl
  rw [List.contains_eq_mem]
  congr 1
  rw [decide_eq_decide]
  exact label_desired_iff hinj hinv newIps hl

end Srtla.Reload
