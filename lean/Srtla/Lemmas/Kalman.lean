import Mathlib.Tactic.FieldSimp
import Mathlib.Tactic.Ring
import Srtla.Lemmas.ScalarField
import Srtla.Model.Rtt
/-!
# The RTT Kalman filter in exact arithmetic: the covariance stays PSD, the innovation covariance ≥ r

`Kalman.update` (crates/srtla-core/src/kalman.rs) instantiated at `fieldScalar F e`: every scalar
operation is the exact field operation, literals are their exact rationals (`q_value = 1/2`,
`q_velocity = 1/10`, `r = 2`).  IEEE rounding, NaN, ±∞ are NOT covered here.
-/
namespace Srtla.KalmanField
open Srtla Srtla.Rtt

section
variable {F : Type} [Field F] [LinearOrder F] [IsStrictOrderedRing F] [FloorRing F] (e : F → F)

local notation "𝕊" => fieldScalar F e

/-- Reduce the scalar operations of the field instance to field operations. -/
macro "ks_dsimp" loc:(Lean.Parser.Tactic.location)? : tactic =>
  `(tactic| dsimp only [Scalar.lit, Scalar.ofNat, Scalar.ofInt, Scalar.add, Scalar.sub, Scalar.mul,
      Scalar.div, Scalar.neg, Scalar.lt, Scalar.le, Scalar.gt, Scalar.ge, Scalar.fmax, Scalar.fmin,
      Scalar.exp, Scalar.floor, Scalar.toNatSat, Scalar.isFinite, Scalar.negInf] $[$loc]?)

/-- The covariance matrix `[[p0, p1], [p2, p3]]` is symmetric positive semi-definite. -/
def PSD (k : Kalman F) : Prop :=
  0 ≤ k.p0 ∧ 0 ≤ k.p3 ∧ k.p1 = k.p2 ∧ k.p1 * k.p2 ≤ k.p0 * k.p3

/-- The innovation covariance `s = p00 + r` that `update` divides by (exact arithmetic). -/
def innov (k : Kalman F) : F := k.p0 + k.p2 + k.p1 + k.p3 + 1 / 2 + 2

theorem zero_eq : (@Rtt.zero F 𝕊) = 0 := by unfold Rtt.zero; ks_dsimp; simp
theorem one_eq : (@Rtt.one F 𝕊) = 1 := by unfold Rtt.one; ks_dsimp; simp
theorem qValue_eq : (@Rtt.qValue F 𝕊) = 1 / 2 := by unfold Rtt.qValue; ks_dsimp; simp
theorem qVelocity_eq : (@Rtt.qVelocity F 𝕊) = 1 / 10 := by unfold Rtt.qVelocity; ks_dsimp; simp
theorem rNoise_eq : (@Rtt.rNoise F 𝕊) = 2 := by unfold Rtt.rNoise; ks_dsimp; simp

/-- A symmetric PSD 2×2 matrix has a non-negative sum of entries. -/
theorem sum_nonneg (p0 p1 p3 : F) (h0 : 0 ≤ p0) (h3 : 0 ≤ p3) (hd : p1 * p1 ≤ p0 * p3) :
    0 ≤ p0 + p1 + p1 + p3 := by
  by_contra hn
  have ht : 0 < -(p0 + p1 + p1 + p3) := by linarith [not_le.mp hn]
  have hu : 0 ≤ p0 + p3 := by linarith
  nlinarith [mul_pos ht ht, mul_nonneg ht.le hu, sq_nonneg (p0 - p3)]

/-- One predict + correct step on the covariance, as pure field algebra. `a, b, d` are the predicted
`p00, p01 = p10, p11`; the four outputs are the new `p0, p1, p2, p3`. -/
theorem psd_step (p0 p1 p3 : F) (h0 : 0 ≤ p0) (h3 : 0 ≤ p3) (hd : p1 * p1 ≤ p0 * p3) :
    let a := p0 + p1 + p1 + p3 + 1 / 2
    let b := p1 + p3
    let d := p3 + 1 / 10
    let s := a + 2
    2 < s ∧ 0 ≤ (1 - a / s) * a ∧ 0 ≤ d - b / s * b ∧ (1 - a / s) * b = b - b / s * a ∧
    (1 - a / s) * b * (b - b / s * a) ≤ (1 - a / s) * a * (d - b / s * b) := by
  intro a b d s
  have hsum := sum_nonneg p0 p1 p3 h0 h3 hd
  have ha : 1 / 2 ≤ a := by simp only [a]; linarith
  have ha0 : 0 ≤ a := by linarith
  have hd0 : 0 ≤ d := by simp only [d]; linarith
  have hs : 0 < s := by simp only [s]; linarith
  have hdet : b * b ≤ a * d := by
    simp only [a, b, d]
    nlinarith [hd, h3, hsum]
  have e1 : 1 - a / s = 2 / s := by
    have : s - a = 2 := by simp only [s]; ring
    field_simp
    linarith
  have e2 : d - b / s * b = (a * d - b * b + 2 * d) / s := by
    field_simp
    simp only [s]; ring
  have e3 : b - b / s * a = 2 / s * b := by
    field_simp
    simp only [s]; ring
  refine ⟨by simp only [s]; linarith, ?_, ?_, ?_, ?_⟩
  · rw [e1]; exact mul_nonneg (div_nonneg (by norm_num) hs.le) ha0
  · rw [e2]; exact div_nonneg (by linarith) hs.le
  · rw [e1, e3]
  · rw [e3, e1, e2]
    have key : 2 / s * a * ((a * d - b * b + 2 * d) / s) - 2 / s * b * (2 / s * b) =
        2 * (a * d - b * b) / s := by
      field_simp
      simp only [s]; ring
    have : 0 ≤ 2 * (a * d - b * b) / s := div_nonneg (by linarith) hs.le
    linarith

/-- The filter before any sample and right after the initialising sample is PSD. -/
theorem psd_new : PSD (@Kalman.new F 𝕊) := by
  unfold PSD Kalman.new
  simp only [zero_eq]
  simp

/-- **PSD is preserved by every update**, and on the correcting branch the denominator is `> 2`. -/
theorem psd_update (k : Kalman F) (m : F) (h : PSD k) : PSD (@Kalman.update F 𝕊 k m) := by
  obtain ⟨h0, h3, hsym, hdet⟩ := h
  unfold Kalman.update
  have hfin : (@Scalar.isFinite F 𝕊 m) = true := rfl
  simp only [hfin, Bool.not_true, Bool.false_eq_true, if_false]
  split
  · -- initialising sample
    simp only [PSD, zero_eq, rNoise_eq]
    norm_num
  · split
    · exact ⟨h0, h3, hsym, hdet⟩
    · simp only [PSD, one_eq, qValue_eq, qVelocity_eq, rNoise_eq]
      ks_dsimp
      rw [← hsym] at hdet ⊢
      obtain ⟨-, g0, g3, gsym, gdet⟩ := psd_step k.p0 k.p1 k.p3 h0 h3 hdet
      exact ⟨g0, g3, gsym, gdet⟩

/-- **Denominator**: for a PSD covariance the innovation covariance is `> r = 2 > 0`, so the
`|s| < 1e-12` guard is false and `update` never divides by a non-positive number. -/
theorem innov_gt (k : Kalman F) (h : PSD k) :
    2 < innov k ∧
    (@Rtt.tiny F 𝕊 (@Scalar.add F 𝕊
      (@Scalar.add F 𝕊 (@Scalar.add F 𝕊 (@Scalar.add F 𝕊 (@Scalar.add F 𝕊 k.p0 k.p2) k.p1) k.p3) (@Rtt.qValue F 𝕊))
      (@Rtt.rNoise F 𝕊))) = false := by
  obtain ⟨h0, h3, hsym, hdet⟩ := h
  rw [← hsym] at hdet
  have hsum := sum_nonneg k.p0 k.p1 k.p3 h0 h3 hdet
  have hi : 2 < innov k := by unfold innov; rw [← hsym]; linarith
  refine ⟨hi, ?_⟩
  unfold Rtt.tiny
  simp only [zero_eq, qValue_eq, rNoise_eq]
  ks_dsimp
  have hpos : ¬ (k.p0 + k.p2 + k.p1 + k.p3 + 1 / 2 + 2 < 0) := by
    unfold innov at hi; linarith
  simp only [hpos, decide_false, Bool.false_eq_true, if_false, decide_eq_false_iff_not, not_lt]
  unfold innov at hi
  have : ((1 : ℤ) : F) / ((1000000000000 : ℕ) : F) ≤ 1 := by
    rw [div_le_one (by positivity)]; norm_num
  linarith

/-- The correcting update written out: with a PSD covariance the guard branch is not taken and the
only divisions are by `innov k` (`> 2`). -/
theorem update_eq_of_psd (k : Kalman F) (m : F) (h : PSD k) (hi : k.initialized = true) :
    @Kalman.update F 𝕊 k m =
      { x := k.x + k.v + (k.p0 + k.p2 + k.p1 + k.p3 + 1 / 2) / innov k * (m - (k.x + k.v)),
        v := k.v + (k.p2 + k.p3) / innov k * (m - (k.x + k.v)),
        p0 := (1 - (k.p0 + k.p2 + k.p1 + k.p3 + 1 / 2) / innov k) * (k.p0 + k.p2 + k.p1 + k.p3 + 1 / 2),
        p1 := (1 - (k.p0 + k.p2 + k.p1 + k.p3 + 1 / 2) / innov k) * (k.p1 + k.p3),
        p2 := k.p2 + k.p3 - (k.p2 + k.p3) / innov k * (k.p0 + k.p2 + k.p1 + k.p3 + 1 / 2),
        p3 := k.p3 + 1 / 10 - (k.p2 + k.p3) / innov k * (k.p1 + k.p3),
        initialized := true } := by
  have ht := (innov_gt e k h).2
  unfold Kalman.update
  have hfin : (@Scalar.isFinite F 𝕊 m) = true := rfl
  simp only [hfin, hi, ht, Bool.not_true, Bool.false_eq_true, if_false]
  simp only [one_eq, qValue_eq, qVelocity_eq, rNoise_eq, innov]
  rfl

/-- Any sample history from the fresh filter keeps the covariance PSD. -/
theorem psd_history (ms : List F) : PSD (ms.foldl (@Kalman.update F 𝕊) (@Kalman.new F 𝕊)) := by
  suffices h : ∀ k : Kalman F, PSD k → PSD (ms.foldl (@Kalman.update F 𝕊) k) from h _ (psd_new e)
  induction ms with
  | nil => intro k hk; exact hk
  | cons m ms ih => intro k hk; exact ih _ (psd_update e k m hk)

/-- `RttTracker::update_estimate` touches the filter only through `Kalman.update`. -/
theorem psd_updateEstimate (t : RttTracker F) (rtt now : Nat) (h : PSD t.kalman) :
    PSD (@RttTracker.updateEstimate F 𝕊 t rtt now).kalman := by
  unfold RttTracker.updateEstimate
  dsimp only
  split <;> exact psd_update e _ _ h

theorem psd_tracker_new : PSD (@RttTracker.new F 𝕊).kalman := psd_new e

/-- `get_smooth_rtt_ms` is never negative. -/
theorem smooth_nonneg (t : RttTracker F) : 0 ≤ @RttTracker.smooth F 𝕊 t := by
  unfold RttTracker.smooth
  rw [zero_eq]
  ks_dsimp
  exact le_max_right _ _

end
end Srtla.KalmanField
