import Srtla.Model.Reg
/-!
# C07 helper definitions and the inductive invariant

The **ghost** (`Ghost`) is a specification automaton that reads only what an outside observer of
the sender can see: the events fed to it (packets with their uplink and bytes, housekeeping steps
with their clock) and the packets it emits.  It never reads the manager's private state.

* `out`        uplinks with a REG1 emitted and neither answered (a ≥ 258-byte REG2 on that uplink),
               cancelled (REG_ERR on any uplink) nor abandoned (housekeeping at least 4000 ms after
               the latest REG1)
* `lastReg1At` time of the latest REG1 emission
* `flag`       a REG2 was accepted (by the rule above) since the last broadcast
* `adopted`    the id of the latest accepted REG2 (bytes 2..258), initially the start-up id
* `nAcc/nBc`   number of acceptances / broadcasts so far

`Inv` ties the real manager state to the ghost; `inv_step` shows every atomic event preserves it.
-/
namespace Srtla.Reg
open Srtla.Gen

def pktType (buf : Bytes) : Option Nat := Codec.getPacketTypeS buf

structure Ghost where
  out : List Nat := []
  lastReg1At : Nat := 0
  flag : Bool := false
  adopted : Bytes
  nAcc : Nat := 0
  nBc : Nat := 0

def Ev.time : Ev → Nat
  | .pkt _ now _ => now
  | .clearTimeout now => now
  | .probeCheck now => now
  | .reconnect _ now => now
  | .drop _ => 0
  | .updateActive => 0
  | .driver now => now

/-- Spec acceptance rule: a REG2 (type 0x9201 = 37377) of at least 258 bytes arriving on an uplink
that has an outstanding REG1. -/
def Ghost.Accepts (g : Ghost) (idx : Nat) (buf : Bytes) : Prop :=
  pktType buf = some 37377 ∧ 258 ≤ buf.length ∧ idx ∈ g.out

instance (g : Ghost) (idx : Nat) (buf : Bytes) : Decidable (g.Accepts idx buf) := by
  unfold Ghost.Accepts; infer_instance

/-- Spec abandonment rule: housekeeping at least 4000 ms after the latest REG1. -/
def Ghost.Abandons (g : Ghost) (now : Nat) : Prop :=
  g.out ≠ [] ∧ g.lastReg1At + 4000 ≤ now

instance (g : Ghost) (now : Nat) : Decidable (g.Abandons now) := by
  unfold Ghost.Abandons; infer_instance

/-- Ghost reaction to an incoming event (before the emissions of that event are noted). -/
def Ghost.react (g : Ghost) : Ev → Ghost
  | .pkt idx _ buf =>
    if g.Accepts idx buf then
      { g with
          out := g.out.filter (· ≠ idx)
          flag := true
          adopted := (buf.drop 2).take 256
          nAcc := g.nAcc + 1 }
    else if pktType buf = some 37392 then { g with out := [] }   -- REG_ERR (0x9210)
    else g
  | .clearTimeout now => if g.Abandons now then { g with out := [] } else g
  | _ => g

/-- Ghost reaction to one emitted packet. -/
def Ghost.note (now : Nat) (g : Ghost) (s : Send) : Ghost :=
  if s.isReg1 then
    { g with out := if s.target ∈ g.out then g.out else s.target :: g.out, lastReg1At := now }
  else if s.kind = .bcast then { g with flag := false, nBc := g.nBc + 1 }
  else g

def Ghost.step (g : Ghost) (e : Ev) (outs : List Send) : Ghost :=
  outs.foldl (Ghost.note e.time) (g.react e)

/-- Real model state + ghost. -/
structure St where
  sys : Sys
  gh : Ghost

def St.step (x : St) (e : Ev) : St × List Send :=
  (⟨(x.sys.step e).1, x.gh.step e (x.sys.step e).2⟩, (x.sys.step e).2)

def St.run (x : St) : List Ev → St
  | [] => x
  | e :: es => St.run (x.step e).1 es

def St.init (id probeId : Bytes) (n : Nat) : St :=
  ⟨Sys.init id probeId n, { adopted := id }⟩

def St.initProbing (id probeId : Bytes) (n now : Nat) : St :=
  ⟨(Sys.initProbing id probeId n now).1, { adopted := id }⟩

/-- States the sender can be in: start-up (with or without the single initial `start_probing`)
followed by any finite sequence of atomic events. -/
def Reachable (x : St) : Prop :=
  ∃ (id probeId : Bytes) (n : Nat) (tr : List Ev), id.length = 256 ∧
    (x = (St.init id probeId n).run tr ∨ ∃ now, x = (St.initProbing id probeId n now).run tr)

structure Inv (x : St) : Prop where
  out_eq : x.gh.out = x.sys.reg.pending.toList
  deadline : ∀ i, x.sys.reg.pending = some i → x.sys.reg.pendingTimeoutAt = x.gh.lastReg1At + 4000
  flag_eq : x.gh.flag = x.sys.reg.broadcastPending
  id_eq : x.gh.adopted = x.sys.reg.id
  waiting : x.sys.reg.probing = .waiting → x.sys.reg.pending = none ∧ x.sys.reg.target = none
  counts : x.gh.nBc + (if x.gh.flag then 1 else 0) ≤ x.gh.nAcc

end Srtla.Reg

namespace Srtla.Reg
open Srtla.Gen

theorem reg2WaitMs_eq : reg2WaitMs = 4000 := rfl
theorem reg3WaitMs_eq : reg3WaitMs = 4000 := rfl

/-- Case analysis of `process_registration_packet` on the packet type
(37393 = 0x9211 REG_NGP, 37377 = 0x9201 REG2, 37378 = 0x9202 REG3, 37392 = 0x9210 REG_ERR). -/
theorem processRegistrationPacket_cases (r : Reg) (i now : Nat) (buf : Bytes) :
    (pktType buf = some 37393 ∧ processRegistrationPacket r i buf now = (handleRegNgp r i now, some .regNgp)) ∨
    (pktType buf = some 37377 ∧ processRegistrationPacket r i buf now = (handleReg2 r i buf now, some .reg2)) ∨
    (pktType buf = some 37378 ∧ processRegistrationPacket r i buf now = (handleReg3 r, some .reg3)) ∨
    (pktType buf = some 37392 ∧ processRegistrationPacket r i buf now = (handleRegErr r now, some .regErr)) ∨
    (pktType buf ≠ some 37393 ∧ pktType buf ≠ some 37377 ∧ pktType buf ≠ some 37378 ∧ pktType buf ≠ some 37392 ∧
      processRegistrationPacket r i buf now = (r, none)) := by
  unfold processRegistrationPacket pktType
  simp only [Proto.SRTLA_TYPE_REG_NGP_eq, Proto.SRTLA_TYPE_REG2_eq, Proto.SRTLA_TYPE_REG3_eq, Proto.SRTLA_TYPE_REG_ERR_eq]
  cases Codec.getPacketTypeS buf with
  | none => simp
  | some t =>
    by_cases h1 : t = 37393
    · simp [h1]
    · by_cases h2 : t = 37377
      · simp [h2]
      · by_cases h3 : t = 37378
        · simp [h3]
        · by_cases h4 : t = 37392
          · simp [h4]
          · simp [h1, h2, h3, h4]

/-! ## Invariant preservation, one lemma per atomic event -/

theorem inv_pkt (x : St) (h : Inv x) (i now : Nat) (buf : Bytes) : Inv (x.step (.pkt i now buf)).1 := by
  obtain ⟨⟨r, c⟩, g⟩ := x
  obtain ⟨h1, h2, h3, h4, h5, h6⟩ := h
  simp only at h1 h2 h3 h4 h5 h6
  rcases processRegistrationPacket_cases r i now buf with ⟨ht, hp⟩ | ⟨ht, hp⟩ | ⟨ht, hp⟩ | ⟨ht, hp⟩ | ⟨_, n2, _, n4, hp⟩
  · constructor
    all_goals simp only [St.step, Sys.step, Ghost.step, Ghost.react, stepPkt, hp, ht, Ghost.Accepts, Ev.time]
    all_goals grind [Ghost.note, Send.isReg1, handleRegNgp, handleProbeResponse,
      reg1IfNgpImmediate, buildReg1For, reg2WaitMs_eq]
  · constructor
    all_goals simp only [St.step, Sys.step, Ghost.step, Ghost.react, stepPkt, hp, ht, Ghost.Accepts, Ev.time]
    all_goals grind [handleReg2, reg3WaitMs_eq, Proto.SRTLA_ID_LEN_eq]
  · constructor
    all_goals simp only [St.step, Sys.step, Ghost.step, Ghost.react, stepPkt, hp, ht, Ghost.Accepts, Ev.time]
    all_goals grind [handleReg3]
  · constructor
    all_goals simp only [St.step, Sys.step, Ghost.step, Ghost.react, stepPkt, hp, ht, Ghost.Accepts, Ev.time]
    all_goals grind [handleRegErr]
  · constructor
    all_goals simp only [St.step, Sys.step, Ghost.step, Ghost.react, stepPkt, hp, n2, n4, Ghost.Accepts, Ev.time]
    all_goals grind

theorem inv_clearTimeout (x : St) (h : Inv x) (now : Nat) : Inv (x.step (.clearTimeout now)).1 := by
  obtain ⟨⟨r, c⟩, g⟩ := x
  obtain ⟨h1, h2, h3, h4, h5, h6⟩ := h
  simp only at h1 h2 h3 h4 h5 h6
  constructor
  all_goals simp only [St.step, Sys.step, Ghost.step, List.foldl_nil, Ghost.react, clearPendingIfTimedOut,
    Ghost.Abandons]
  all_goals grind

theorem inv_probeCheck (x : St) (h : Inv x) (now : Nat) : Inv (x.step (.probeCheck now)).1 := by
  obtain ⟨⟨r, c⟩, g⟩ := x
  obtain ⟨h1, h2, h3, h4, h5, h6⟩ := h
  simp only at h1 h2 h3 h4 h5 h6
  constructor
  all_goals simp only [St.step, Sys.step, Ghost.step, Ghost.react, checkProbingComplete, isProbing]
  all_goals grind

theorem inv_drop (x : St) (h : Inv x) (i : Nat) : Inv (x.step (.drop i)).1 := by
  obtain ⟨⟨r, c⟩, g⟩ := x
  obtain ⟨h1, h2, h3, h4, h5, h6⟩ := h
  simp only at h1 h2 h3 h4 h5 h6
  constructor
  all_goals simp only [St.step, Sys.step, Ghost.step, List.foldl_nil, Ghost.react]
  all_goals grind

theorem inv_updateActive (x : St) (h : Inv x) : Inv (x.step .updateActive).1 := by
  obtain ⟨⟨r, c⟩, g⟩ := x
  obtain ⟨h1, h2, h3, h4, h5, h6⟩ := h
  simp only at h1 h2 h3 h4 h5 h6
  constructor
  all_goals simp only [St.step, Sys.step, Ghost.step, List.foldl_nil, Ghost.react, updateActiveConnections]
  all_goals grind

theorem inv_reconnect (x : St) (h : Inv x) (i now : Nat) : Inv (x.step (.reconnect i now)).1 := by
  obtain ⟨⟨r, c⟩, g⟩ := x
  obtain ⟨h1, h2, h3, h4, h5, h6⟩ := h
  simp only at h1 h2 h3 h4 h5 h6
  constructor
  all_goals simp only [St.step, Sys.step, Ghost.step, Ghost.react, stepReconnect, buildReg1For, buildReg2,
    reg2WaitMs_eq, Ev.time]
  all_goals grind [Ghost.note, Send.isReg1]

theorem inv_driver (x : St) (h : Inv x) (now : Nat) : Inv (x.step (.driver now)).1 := by
  obtain ⟨⟨r, c⟩, g⟩ := x
  obtain ⟨h1, h2, h3, h4, h5, h6⟩ := h
  simp only at h1 h2 h3 h4 h5 h6
  constructor
  all_goals simp only [St.step, Sys.step, Ghost.step, Ghost.react, stepDriver, regDriverPendingSends, driverReg1,
    driverBroadcast, reg2WaitMs_eq, Ev.time]
  all_goals grind [Ghost.note, Send.isReg1]

theorem inv_step (x : St) (h : Inv x) (e : Ev) : Inv (x.step e).1 := by
  cases e with
  | pkt i now buf => exact inv_pkt x h i now buf
  | clearTimeout now => exact inv_clearTimeout x h now
  | probeCheck now => exact inv_probeCheck x h now
  | reconnect i now => exact inv_reconnect x h i now
  | drop i => exact inv_drop x h i
  | updateActive => exact inv_updateActive x h
  | driver now => exact inv_driver x h now

theorem inv_init (id probeId : Bytes) (n : Nat) : Inv (St.init id probeId n) := by
  constructor <;> simp [St.init, Sys.init, Reg.new]

theorem inv_initProbing (id probeId : Bytes) (n now : Nat) : Inv (St.initProbing id probeId n now) := by
  constructor
  all_goals simp only [St.initProbing, Sys.initProbing, Sys.init, Reg.new, startProbing]
  all_goals grind

/-! ## The id changes only by an accepted REG2 -/

/-- One atomic event either leaves the id alone or is a ≥ 258-byte REG2 from the pending uplink,
in which case the new id is bytes 2..258 of the packet. -/
theorem step_id (s : Sys) (e : Ev) :
    (s.step e).1.reg.id = s.reg.id ∨
    ∃ idx now buf, e = .pkt idx now buf ∧ pktType buf = some 37377 ∧ 258 ≤ buf.length ∧
      s.reg.pending = some idx ∧ (s.step e).1.reg.id = (buf.drop 2).take 256 := by
  obtain ⟨r, c⟩ := s
  cases e with
  | pkt i now buf =>
    rcases processRegistrationPacket_cases r i now buf with ⟨_, hp⟩ | ⟨ht, hp⟩ | ⟨_, hp⟩ | ⟨_, hp⟩ | ⟨_, _, _, _, hp⟩
    · left
      simp only [Sys.step, stepPkt, hp]
      grind [handleRegNgp, handleProbeResponse, reg1IfNgpImmediate, buildReg1For]
    · simp only [Sys.step, stepPkt, hp]
      by_cases hacc : 258 ≤ buf.length ∧ r.pending = some i
      · right
        refine ⟨i, now, buf, rfl, ht, hacc.1, hacc.2, ?_⟩
        grind [handleReg2, Proto.SRTLA_ID_LEN_eq]
      · left
        grind [handleReg2, Proto.SRTLA_ID_LEN_eq]
    · left; simp only [Sys.step, stepPkt, hp, handleReg3]
    · left; simp only [Sys.step, stepPkt, hp, handleRegErr]
    · left; simp only [Sys.step, stepPkt, hp]
  | clearTimeout now => left; simp only [Sys.step, clearPendingIfTimedOut]; grind
  | probeCheck now => left; simp only [Sys.step, checkProbingComplete]; grind
  | reconnect i now => left; simp only [Sys.step, stepReconnect, buildReg1For]; grind
  | drop i => left; simp only [Sys.step]
  | updateActive => left; simp only [Sys.step, updateActiveConnections]
  | driver now =>
    left; simp only [Sys.step, stepDriver, regDriverPendingSends, driverReg1, driverBroadcast]; grind

/-- The id always has 256 bytes. -/
theorem idlen_step (s : Sys) (e : Ev) (h : s.reg.id.length = 256) : (s.step e).1.reg.id.length = 256 := by
  rcases step_id s e with h1 | ⟨idx, now, buf, _, _, hl, _, h1⟩
  · rw [h1]; exact h
  · rw [h1, List.length_take, List.length_drop]; omega

theorem startProbing_id (r : Reg) (n now : Nat) : (startProbing r n now).1.id = r.id := by
  unfold startProbing
  split
  · rfl
  · dsimp only
    split <;> rfl

/-! ## Induction over runs -/

theorem run_ind (P : St → Prop) (hstep : ∀ x e, P x → P (x.step e).1) :
    ∀ (tr : List Ev) (x : St), P x → P (x.run tr) := by
  intro tr
  induction tr with
  | nil => intro x h; exact h
  | cons e es ih => intro x h; exact ih _ (hstep x e h)

/-- Everything the proofs need to know about a reachable state. -/
structure Good (x : St) : Prop where
  inv : Inv x
  idlen : x.sys.reg.id.length = 256

theorem good_step (x : St) (e : Ev) (h : Good x) : Good (x.step e).1 :=
  ⟨inv_step x h.inv e, idlen_step x.sys e h.idlen⟩

theorem reachable_good {x : St} (h : Reachable x) : Good x := by
  obtain ⟨id, pid, n, tr, hl, hx | ⟨now, hx⟩⟩ := h
  · subst hx
    exact run_ind Good good_step tr _ ⟨inv_init id pid n, by simpa [St.init, Sys.init, Reg.new] using hl⟩
  · subst hx
    refine run_ind Good good_step tr _ ⟨inv_initProbing id pid n now, ?_⟩
    simp only [St.initProbing, Sys.initProbing, startProbing_id]
    simpa [Sys.init, Reg.new] using hl

theorem reachable_step {x : St} (h : Reachable x) (e : Ev) : Reachable (x.step e).1 := by
  have run_snoc : ∀ (tr : List Ev) (y : St), (y.run tr).step e = ((y.run (tr ++ [e])), ((y.run tr).step e).2) := by
    intro tr
    induction tr with
    | nil => intro y; rfl
    | cons a as ih => intro y; simpa [St.run] using ih (y.step a).1
  obtain ⟨id, pid, n, tr, hl, hx | ⟨now, hx⟩⟩ := h
  · exact ⟨id, pid, n, tr ++ [e], hl, .inl (by rw [hx, run_snoc])⟩
  · exact ⟨id, pid, n, tr ++ [e], hl, .inr ⟨now, by rw [hx, run_snoc]⟩⟩

end Srtla.Reg

/-! ## What an atomic event emits and how it moves the `connected` flags -/
namespace Srtla.Reg
open Srtla.Gen

/-- `e` is the arrival of a packet of type `ty` on uplink `idx`. -/
def Ev.IsPktOn (e : Ev) (idx ty : Nat) : Prop :=
  match e with
  | .pkt i _ buf => i = idx ∧ pktType buf = some ty
  | _ => False

/-- `e` is a registration-driver call (`reg_driver_pending_sends`). -/
def Ev.IsDriver : Ev → Prop
  | .driver _ => True
  | _ => False

/-- `e` is the housekeeping reconnect branch of uplink `idx`. -/
def Ev.IsReconnectOf (e : Ev) (idx : Nat) : Prop :=
  match e with
  | .reconnect i _ => i = idx
  | _ => False

/-- Every packet an atomic event emits, with the path that produced it and the state it was
produced from. -/
theorem step_sends (s : Sys) (e : Ev) (o : Send) (ho : o ∈ (s.step e).2) :
    (o.kind = .reg1Imm ∧ e.IsPktOn o.target 37393 ∧
      s.reg.pending = none ∧ s.reg.active = 0 ∧ o.pkt = Codec.createReg1 s.reg.id) ∨
    (o.kind = .reg1Drv ∧ e.IsDriver ∧ s.reg.pending = none ∧ s.reg.active = 0 ∧
      s.reg.target = some o.target ∧ o.pkt = Codec.createReg1 s.reg.id) ∨
    (o.kind = .reg1Hk ∧ e.IsReconnectOf o.target ∧ s.reg.pending = some o.target ∧
      o.pkt = Codec.createReg1 s.reg.id) ∨
    (o.kind = .reg2Hk ∧ e.IsReconnectOf o.target ∧ s.reg.pending = none ∧
      o.pkt = Codec.createReg2 s.reg.id) ∨
    (o.kind = .bcast ∧ e.IsDriver ∧ s.reg.broadcastPending = true ∧
      o.pkt = Codec.createReg2 s.reg.id) := by
  obtain ⟨r, c⟩ := s
  cases e with
  | pkt i now buf =>
    rcases processRegistrationPacket_cases r i now buf with ⟨ht, hp⟩ | ⟨ht, hp⟩ | ⟨_, hp⟩ | ⟨_, hp⟩ | ⟨_, _, _, _, hp⟩
    · left
      simp only [Sys.step, stepPkt, hp] at ho
      simp only [Ev.IsPktOn, ht]
      grind [handleRegNgp, handleProbeResponse, reg1IfNgpImmediate, buildReg1For]
    · simp [Sys.step, stepPkt, hp] at ho
    · simp [Sys.step, stepPkt, hp] at ho
    · simp [Sys.step, stepPkt, hp] at ho
    · simp [Sys.step, stepPkt, hp] at ho
  | clearTimeout now => simp [Sys.step] at ho
  | probeCheck now =>
    simp only [Sys.step] at ho
    split at ho <;> simp at ho
  | reconnect i now =>
    simp only [Sys.step, stepReconnect, buildReg1For, buildReg2] at ho
    simp only [Ev.IsReconnectOf, Ev.IsDriver, Ev.IsPktOn]
    grind
  | drop i => simp [Sys.step] at ho
  | updateActive => simp [Sys.step] at ho
  | driver now =>
    simp only [Sys.step, stepDriver, regDriverPendingSends, driverReg1, driverBroadcast] at ho
    simp only [Ev.IsReconnectOf, Ev.IsDriver, Ev.IsPktOn]
    grind

/-- A `connected` flag turns true only in the REG3 (0x9202 = 37378) arm, for the arrival uplink. -/
theorem step_connected (s : Sys) (e : Ev) (k : Nat)
    (h1 : (s.step e).1.connected[k]? = some true) (h0 : s.connected[k]? ≠ some true) :
    e.IsPktOn k 37378 := by
  obtain ⟨r, c⟩ := s
  cases e with
  | pkt i now buf =>
    rcases processRegistrationPacket_cases r i now buf with ⟨_, hp⟩ | ⟨_, hp⟩ | ⟨ht, hp⟩ | ⟨_, hp⟩ | ⟨_, _, _, _, hp⟩
    · simp only [Sys.step, stepPkt, hp] at h1
      grind
    · simp only [Sys.step, stepPkt, hp] at h1
      grind
    · simp only [Sys.step, stepPkt, hp] at h1
      simp only [Ev.IsPktOn, ht]
      grind
    · simp only [Sys.step, stepPkt, hp] at h1
      grind
    · simp only [Sys.step, stepPkt, hp] at h1
      grind
  | clearTimeout now => simp only [Sys.step] at h1; grind
  | probeCheck now => simp only [Sys.step] at h1; grind
  | reconnect i now => simp only [Sys.step, stepReconnect] at h1; grind
  | drop i => simp only [Sys.step] at h1; grind
  | updateActive => simp only [Sys.step] at h1; grind
  | driver now => simp only [Sys.step, stepDriver] at h1; grind

theorem driverReg1_bp (r : Reg) (now : Nat) :
    (driverReg1 r now).1.broadcastPending = r.broadcastPending := by
  unfold driverReg1
  grind

/-- The driver broadcasts iff the flag is up, and lowers the flag. -/
theorem driver_bcast (s : Sys) (now : Nat) :
    ((∃ o ∈ (s.step (.driver now)).2, o.kind = .bcast) ↔ s.reg.broadcastPending = true) ∧
    (s.step (.driver now)).1.reg.broadcastPending = false := by
  obtain ⟨r, c⟩ := s
  have hbp := driverReg1_bp r now
  simp only [Sys.step, stepDriver, regDriverPendingSends, driverBroadcast]
  cases hd : driverReg1 r now with
  | mk r1 s1 =>
    rw [hd] at hbp
    simp only at hbp
    simp only [hbp]
    cases s1 with
    | none => by_cases hb : r.broadcastPending = true <;> simp [hb, hbp]
    | some ip => by_cases hb : r.broadcastPending = true <;> simp [hb, hbp]

theorem bcast_count_le_one (s : Sys) (e : Ev) :
    ((s.step e).2.filter (fun o => o.kind = .bcast)).length ≤ 1 := by
  obtain ⟨r, c⟩ := s
  cases e with
  | pkt i now buf =>
    rcases processRegistrationPacket_cases r i now buf with ⟨_, hp⟩ | ⟨_, hp⟩ | ⟨_, hp⟩ | ⟨_, hp⟩ | ⟨_, _, _, _, hp⟩
    all_goals simp only [Sys.step, stepPkt, hp]
    all_goals grind
  | clearTimeout now => simp [Sys.step]
  | probeCheck now => simp only [Sys.step]; split <;> simp
  | reconnect i now => simp only [Sys.step, stepReconnect]; grind
  | drop i => simp [Sys.step]
  | updateActive => simp [Sys.step]
  | driver now =>
    simp only [Sys.step, stepDriver, regDriverPendingSends, driverReg1, driverBroadcast]
    grind

/-- REG_ERR (0x9210 = 37392) on any uplink. -/
theorem step_regerr (s : Sys) (idx now : Nat) (buf : Bytes) (ht : pktType buf = some 37392) :
    s.step (.pkt idx now buf) =
      ({ reg := handleRegErr s.reg now, connected := s.connected.set idx false }, []) := by
  rcases processRegistrationPacket_cases s.reg idx now buf with ⟨h, _⟩ | ⟨h, _⟩ | ⟨h, _⟩ | ⟨_, hp⟩ | ⟨_, _, _, h, _⟩
  · rw [ht] at h; simp at h
  · rw [ht] at h; simp at h
  · rw [ht] at h; simp at h
  · simp only [Sys.step, stepPkt, hp]
  · exact absurd ht h

/-- REG_NGP (0x9211 = 37393) with nothing pending, `active = 0` and not waiting for probe replies
is answered at once with a REG1 on the same uplink; the attempt gets the 4000 ms deadline. -/
theorem step_ngp_answered (s : Sys) (j now : Nat) (buf : Bytes) (ht : pktType buf = some 37393)
    (hp : s.reg.pending = none) (ha : s.reg.active = 0) (hw : s.reg.probing ≠ .waiting) :
    (s.step (.pkt j now buf)).2 = [{ kind := .reg1Imm, target := j, pkt := Codec.createReg1 s.reg.id }] ∧
    (s.step (.pkt j now buf)).1.reg.pending = some j ∧
    (s.step (.pkt j now buf)).1.reg.pendingTimeoutAt = now + 4000 := by
  rcases processRegistrationPacket_cases s.reg j now buf with ⟨_, hq⟩ | ⟨h, _⟩ | ⟨h, _⟩ | ⟨h, _⟩ | ⟨h, _⟩
  · obtain ⟨r, c⟩ := s
    simp only at hp ha hw hq
    simp only [Sys.step, stepPkt, hq]
    grind [handleRegNgp, reg1IfNgpImmediate, buildReg1For, reg2WaitMs_eq]
  · rw [ht] at h; simp at h
  · rw [ht] at h; simp at h
  · rw [ht] at h; simp at h
  · exact absurd ht h

theorem Sys.run_append (s : Sys) (a b : List Ev) :
    s.run (a ++ b) = ((((s.run a).1).run b).1, (s.run a).2 ++ (((s.run a).1).run b).2) := by
  induction a generalizing s with
  | nil => simp [Sys.run]
  | cons e es ih => simp [Sys.run, ih]

/-- Ghost bookkeeping of emissions never touches `adopted`. -/
theorem foldl_note_adopted (now : Nat) (outs : List Send) (g : Ghost) :
    (outs.foldl (Ghost.note now) g).adopted = g.adopted := by
  induction outs generalizing g with
  | nil => rfl
  | cons o os ih =>
    simp only [List.foldl_cons, ih]
    unfold Ghost.note
    split
    · rfl
    · split <;> rfl

theorem step_clear_nosend (s : Sys) (now : Nat) : (s.step (.clearTimeout now)).2 = [] := rfl

theorem step_probeCheck_nosend (s : Sys) (now : Nat) : (s.step (.probeCheck now)).2 = [] := by
  simp only [Sys.step]; split <;> rfl

/-- The reconnect branches of a housekeeping pass never emit a driver REG1. -/
theorem no_drv_in_reconnects (now : Nat) (rcs : List Nat) (s : Sys) (o : Send)
    (ho : o ∈ (s.run (rcs.map fun i => Ev.reconnect i now)).2) : o.kind ≠ .reg1Drv := by
  induction rcs generalizing s with
  | nil => simp [Sys.run] at ho
  | cons i is ih =>
    simp only [List.map_cons, Sys.run, List.mem_append] at ho
    rcases ho with h | h
    · intro hk
      rcases step_sends s _ o h with h' | h' | h' | h' | h'
      · rw [h'.1] at hk; cases hk
      · exact absurd h'.2.1 (by simp [Ev.IsDriver])
      · rw [h'.1] at hk; cases hk
      · rw [h'.1] at hk; cases hk
      · rw [h'.1] at hk; cases hk
    · exact ih _ h

end Srtla.Reg

/-! ## Run-level facts used by the shell projection (`Lemmas/RegShell.lean`, round 3) -/
namespace Srtla.Reg
open Srtla.Gen

/-- `e` is a packet arrival. -/
def Ev.IsPkt : Ev → Prop
  | .pkt _ _ _ => True
  | _ => False

/-- `e` can end an attempt: a packet arrival (REG2 acceptance, REG_ERR) or the timeout check. -/
def Ev.MayClear : Ev → Prop
  | .pkt _ _ _ => True
  | .clearTimeout _ => True
  | _ => False

theorem St.run_sys (x : St) (tr : List Ev) : (x.run tr).sys = (x.sys.run tr).1 := by
  induction tr generalizing x with
  | nil => rfl
  | cons e es ih => simp only [St.run, Sys.run]; rw [ih]; rfl

theorem St.run_append (x : St) (a b : List Ev) : x.run (a ++ b) = (x.run a).run b := by
  induction a generalizing x with
  | nil => rfl
  | cons e es ih => simp only [List.cons_append, St.run]; exact ih _

theorem reachable_run {x : St} (h : Reachable x) (tr : List Ev) : Reachable (x.run tr) := by
  induction tr generalizing x with
  | nil => exact h
  | cons e es ih => exact ih (reachable_step h e)

/-- Every REG1 emission leaves its target as the pending uplink. -/
theorem step_reg1_pending (s : Sys) (e : Ev) (o : Send) (ho : o ∈ (s.step e).2) (h1 : o.isReg1 = true) :
    (s.step e).1.reg.pending = some o.target := by
  obtain ⟨r, c⟩ := s
  cases e with
  | pkt i now buf =>
    rcases processRegistrationPacket_cases r i now buf with ⟨ht, hp⟩ | ⟨ht, hp⟩ | ⟨_, hp⟩ | ⟨_, hp⟩ | ⟨_, _, _, _, hp⟩
    · simp only [Sys.step, stepPkt, hp] at ho ⊢
      grind [handleRegNgp, handleProbeResponse, reg1IfNgpImmediate, buildReg1For]
    · simp [Sys.step, stepPkt, hp] at ho
    · simp [Sys.step, stepPkt, hp] at ho
    · simp [Sys.step, stepPkt, hp] at ho
    · simp [Sys.step, stepPkt, hp] at ho
  | clearTimeout now => simp [Sys.step] at ho
  | probeCheck now =>
    simp only [Sys.step] at ho
    split at ho <;> simp at ho
  | reconnect i now =>
    simp only [Sys.step, stepReconnect, buildReg1For, buildReg2] at ho ⊢
    grind [Send.isReg1]
  | drop i => simp [Sys.step] at ho
  | updateActive => simp [Sys.step] at ho
  | driver now =>
    simp only [Sys.step, stepDriver, regDriverPendingSends, driverReg1, driverBroadcast] at ho ⊢
    grind [Send.isReg1]

/-- Only a packet arrival or the timeout check can take an attempt away from its uplink. -/
theorem step_pending_kept (s : Sys) (e : Ev) (he : ¬ e.MayClear) (i : Nat) (hp : s.reg.pending = some i) :
    (s.step e).1.reg.pending = some i := by
  obtain ⟨r, c⟩ := s
  cases e with
  | pkt i now buf => exact absurd trivial he
  | clearTimeout now => exact absurd trivial he
  | probeCheck now => simp only [Sys.step, checkProbingComplete]; grind
  | reconnect j now => simp only [Sys.step, stepReconnect, buildReg1For]; grind
  | drop j => exact hp
  | updateActive => exact hp
  | driver now =>
    simp only [Sys.step, stepDriver, regDriverPendingSends, driverReg1, driverBroadcast]; grind

theorem run_pending_kept (tr : List Ev) (s : Sys) (he : ∀ e ∈ tr, ¬ e.MayClear) (i : Nat)
    (hp : s.reg.pending = some i) : (s.run tr).1.reg.pending = some i := by
  induction tr generalizing s with
  | nil => exact hp
  | cons e es ih =>
    simp only [Sys.run]
    exact ih _ (fun e' h' => he e' (by simp [h'])) (step_pending_kept s e (he e (by simp)) i hp)

/-- In a stretch of events none of which can end an attempt, every REG1 goes to the uplink that is
pending at the end of the stretch: all REG1s of the stretch go to ONE uplink. -/
theorem run_reg1_pending (tr : List Ev) (s : Sys) (he : ∀ e ∈ tr, ¬ e.MayClear) (o : Send)
    (ho : o ∈ (s.run tr).2) (h1 : o.isReg1 = true) : (s.run tr).1.reg.pending = some o.target := by
  induction tr generalizing s with
  | nil => simp [Sys.run] at ho
  | cons e es ih =>
    simp only [Sys.run, List.mem_append] at ho ⊢
    rcases ho with ho | ho
    · exact run_pending_kept es _ (fun e' h' => he e' (by simp [h'])) _ (step_reg1_pending s e o ho h1)
    · exact ih _ (fun e' h' => he e' (by simp [h'])) ho

/-- The same for a whole housekeeping pass (whose first step, the timeout check, emits nothing). -/
theorem tick_reg1_pending (s : Sys) (now : Nat) (rcs : List Nat) (o : Send)
    (ho : o ∈ (s.run (tickEvs now rcs)).2) (h1 : o.isReg1 = true) :
    (s.run (tickEvs now rcs)).1.reg.pending = some o.target := by
  have htick : tickEvs now rcs = .clearTimeout now ::
      (.probeCheck now :: (rcs.map (fun i => Ev.reconnect i now) ++ [.updateActive, .driver now])) := by
    simp [tickEvs]
  rw [htick] at ho ⊢
  simp only [Sys.run, step_clear_nosend, step_probeCheck_nosend, List.nil_append] at ho ⊢
  apply run_reg1_pending _ _ _ o ho h1
  intro e he
  simp only [List.mem_cons, List.mem_append, List.mem_map, List.not_mem_nil, or_false] at he
  rcases he with ⟨i, -, rfl⟩ | rfl | rfl <;> simp [Ev.MayClear]

/-- Without a packet arrival the id does not move, and everything emitted is built from it. -/
theorem run_ids (tr : List Ev) (s : Sys) (he : ∀ e ∈ tr, ¬ e.IsPkt) :
    (s.run tr).1.reg.id = s.reg.id ∧
    ∀ o ∈ (s.run tr).2, o.pkt = (if o.isReg1 then Codec.createReg1 s.reg.id else Codec.createReg2 s.reg.id) := by
  induction tr generalizing s with
  | nil => exact ⟨rfl, fun o ho => by simp [Sys.run] at ho⟩
  | cons e es ih =>
    have hid : (s.step e).1.reg.id = s.reg.id := by
      rcases step_id s e with h | ⟨idx, now, buf, rfl, -⟩
      · exact h
      · exact absurd (show (Ev.pkt idx now buf).IsPkt from trivial) (he _ (by simp))
    obtain ⟨i1, i2⟩ := ih (s.step e).1 (fun e' h' => he e' (by simp [h']))
    simp only [Sys.run]
    refine ⟨i1.trans hid, fun o ho => ?_⟩
    rcases List.mem_append.1 ho with ho | ho
    · rcases step_sends s e o ho with h | h | h | h | h
      · simp [Send.isReg1, h.1, h.2.2.2.2]
      · simp [Send.isReg1, h.1, h.2.2.2.2.2]
      · simp [Send.isReg1, h.1, h.2.2.2]
      · simp [Send.isReg1, h.1, h.2.2.2]
      · simp [Send.isReg1, h.1, h.2.2.2]
    · rw [← hid]; exact i2 o ho

theorem tickEvs_noPkt (now : Nat) (rcs : List Nat) : ∀ e ∈ tickEvs now rcs, ¬ e.IsPkt := by
  intro e he
  simp only [tickEvs, List.mem_cons, List.mem_append, List.mem_map, List.not_mem_nil, or_false] at he
  rcases he with ((rfl | rfl) | ⟨i, -, rfl⟩) | rfl | rfl <;> simp [Ev.IsPkt]

/-- Over a run, a flag that ends up `true` without having been `true` was raised by a REG3 on that uplink. -/
theorem run_connected (tr : List Ev) (s : Sys) (k : Nat)
    (h1 : (s.run tr).1.connected[k]? = some true) (h0 : s.connected[k]? ≠ some true) :
    ∃ e ∈ tr, e.IsPktOn k 37378 := by
  induction tr generalizing s with
  | nil => exact absurd h1 h0
  | cons e es ih =>
    simp only [Sys.run] at h1
    by_cases hk : (s.step e).1.connected[k]? = some true
    · exact ⟨e, by simp, step_connected s e k hk h0⟩
    · obtain ⟨e', he', h⟩ := ih _ h1 hk
      exact ⟨e', by simp [he'], h⟩

/-- The broadcast debt is raised only by an accepted REG2 and paid only by the driver; the id moves
only with an accepted REG2. -/
theorem step_bp (s : Sys) (e : Ev) :
    ((s.step e).1.reg.broadcastPending = s.reg.broadcastPending ∨ e.IsDriver ∨
      ∃ idx now buf, e = .pkt idx now buf ∧ pktType buf = some 37377 ∧ 258 ≤ buf.length ∧
        s.reg.pending = some idx) := by
  obtain ⟨r, c⟩ := s
  cases e with
  | pkt i now buf =>
    rcases processRegistrationPacket_cases r i now buf with ⟨_, hp⟩ | ⟨ht, hp⟩ | ⟨_, hp⟩ | ⟨_, hp⟩ | ⟨_, _, _, _, hp⟩
    · left
      simp only [Sys.step, stepPkt, hp]
      grind [handleRegNgp, handleProbeResponse, reg1IfNgpImmediate, buildReg1For]
    · simp only [Sys.step, stepPkt, hp]
      by_cases hacc : 258 ≤ buf.length ∧ r.pending = some i
      · right; right
        exact ⟨i, now, buf, rfl, ht, hacc.1, hacc.2⟩
      · left
        grind [handleReg2, Proto.SRTLA_ID_LEN_eq]
    · left; simp only [Sys.step, stepPkt, hp, handleReg3]
    · left; simp only [Sys.step, stepPkt, hp, handleRegErr]
    · left; simp only [Sys.step, stepPkt, hp]
  | clearTimeout now => left; simp only [Sys.step, clearPendingIfTimedOut]; grind
  | probeCheck now => left; simp only [Sys.step, checkProbingComplete]; grind
  | reconnect i now => left; simp only [Sys.step, stepReconnect, buildReg1For]; grind
  | drop i => left; rfl
  | updateActive => left; rfl
  | driver now => right; left; trivial

theorem run_bp (tr : List Ev) (s : Sys) (he : ∀ e ∈ tr, ¬ e.IsPkt ∧ ¬ e.IsDriver) :
    (s.run tr).1.reg.broadcastPending = s.reg.broadcastPending := by
  induction tr generalizing s with
  | nil => rfl
  | cons e es ih =>
    simp only [Sys.run]
    rw [ih _ (fun e' h' => he e' (by simp [h']))]
    rcases step_bp s e with h | h | ⟨idx, now, buf, rfl, -⟩
    · exact h
    · exact absurd h (he e (by simp)).2
    · exact absurd (show (Ev.pkt idx now buf).IsPkt from trivial) (he _ (by simp)).1

/-- What the driver's answer says about the broadcast: one REG2 carrying the id iff a broadcast is
owed; the debt is cleared. -/
theorem driver_bcast_eq (r : Reg) (now : Nat) :
    (regDriverPendingSends r now).2.broadcastReg2 =
      (if r.broadcastPending then some (Codec.createReg2 r.id) else none) ∧
    (regDriverPendingSends r now).1.broadcastPending = false ∧
    (regDriverPendingSends r now).1.id = r.id := by
  simp only [regDriverPendingSends, driverReg1, driverBroadcast]
  grind

end Srtla.Reg

/-! ## The REG2 wait: which events move the deadline of a pending attempt (round 3, `C07_abandon_bound`) -/
namespace Srtla.Reg
open Srtla.Gen

/-- A packet arrival that leaves an attempt pending leaves it on the same uplink, with the same deadline. -/
theorem pkt_deadline (s : Sys) (idx now : Nat) (buf : Bytes) (i i' : Nat) (hp : s.reg.pending = some i)
    (hp' : (s.step (.pkt idx now buf)).1.reg.pending = some i') :
    i' = i ∧ (s.step (.pkt idx now buf)).1.reg.pendingTimeoutAt = s.reg.pendingTimeoutAt := by
  obtain ⟨r, c⟩ := s
  simp only at hp
  rcases processRegistrationPacket_cases r idx now buf with ⟨_, hq⟩ | ⟨_, hq⟩ | ⟨_, hq⟩ | ⟨_, hq⟩ | ⟨_, _, _, _, hq⟩
  · simp only [Sys.step, stepPkt, hq] at hp' ⊢
    grind [handleRegNgp, handleProbeResponse, reg1IfNgpImmediate, buildReg1For]
  · simp only [Sys.step, stepPkt, hq] at hp' ⊢
    grind [handleReg2]
  · simp only [Sys.step, stepPkt, hq, handleReg3] at hp' ⊢
    grind
  · simp only [Sys.step, stepPkt, hq, handleRegErr] at hp' ⊢
    grind
  · simp only [Sys.step, stepPkt, hq] at hp' ⊢
    grind

/-- The reconnect branches of a pass while uplink `i` is pending: the attempt stays on `i`; its
deadline is renewed to `now + 4000` iff `i` itself takes the branch. -/
theorem reconnects_pending (now : Nat) (rcs : List Nat) (s : Sys) (i : Nat) (hp : s.reg.pending = some i) :
    (s.run (rcs.map fun k => Ev.reconnect k now)).1.reg.pending = some i ∧
    (s.run (rcs.map fun k => Ev.reconnect k now)).1.reg.pendingTimeoutAt =
      (if i ∈ rcs then now + 4000 else s.reg.pendingTimeoutAt) ∧
    (s.run (rcs.map fun k => Ev.reconnect k now)).1.reg.probing = s.reg.probing := by
  induction rcs generalizing s with
  | nil => simp [Sys.run, hp]
  | cons k ks ih =>
    simp only [List.map_cons, Sys.run]
    have hstep : (s.step (.reconnect k now)).1.reg.pending = some i ∧
        (s.step (.reconnect k now)).1.reg.pendingTimeoutAt =
          (if k = i then now + 4000 else s.reg.pendingTimeoutAt) ∧
        (s.step (.reconnect k now)).1.reg.probing = s.reg.probing := by
      obtain ⟨r, c⟩ := s
      simp only at hp
      simp only [Sys.step, stepReconnect, buildReg1For, hp, reg2WaitMs_eq]
      by_cases hk : i = k
      · simp [hk]
      · have : ¬ k = i := fun h => hk h.symm
        simp [hk, this, hp]
    obtain ⟨a1, a2, a3⟩ := hstep
    obtain ⟨b1, b2, b3⟩ := ih _ a1
    refine ⟨b1, ?_, b3.trans a3⟩
    rw [b2, a2]
    by_cases hk : k = i
    · subst hk; simp
    · have : ¬ i = k := fun h => hk h.symm
      by_cases hm : i ∈ ks <;> simp [hk, this, hm]

/-- With nothing pending the reconnect branches leave the manager alone (they re-send REG2). -/
theorem reconnects_none (now : Nat) (rcs : List Nat) (s : Sys) (hp : s.reg.pending = none) :
    (s.run (rcs.map fun k => Ev.reconnect k now)).1.reg = s.reg := by
  induction rcs generalizing s with
  | nil => rfl
  | cons k ks ih =>
    simp only [List.map_cons, Sys.run]
    have hstep : (s.step (.reconnect k now)).1.reg = s.reg := by
      obtain ⟨r, c⟩ := s
      simp only at hp
      simp only [Sys.step, stepReconnect, hp]
    rw [ih _ (by rw [hstep]; exact hp), hstep]

/-- **One housekeeping pass while uplink `i` is pending** (deadline set, not waiting for probe
replies).  From the deadline on the pass abandons the attempt and starts no new one; before the
deadline the attempt stays on `i` and its deadline is renewed to `now + 4000` iff `i` is among the
links that take the reconnect branch in this pass — otherwise it is unchanged. -/
theorem tick_deadline (s : Sys) (now : Nat) (rcs : List Nat) (i : Nat) (hp : s.reg.pending = some i)
    (hw : s.reg.probing ≠ .waiting) (hD : s.reg.pendingTimeoutAt ≠ 0) :
    (s.reg.pendingTimeoutAt ≤ now → (s.run (tickEvs now rcs)).1.reg.pending = none) ∧
    (now < s.reg.pendingTimeoutAt →
      (s.run (tickEvs now rcs)).1.reg.pending = some i ∧
      (s.run (tickEvs now rcs)).1.reg.pendingTimeoutAt =
        (if i ∈ rcs then now + 4000 else s.reg.pendingTimeoutAt)) := by
  have htick : tickEvs now rcs = [.clearTimeout now, .probeCheck now] ++
      ((rcs.map fun k => Ev.reconnect k now) ++ [.updateActive, .driver now]) := by
    simp [tickEvs]
  rw [htick, Sys.run_append, Sys.run_append]
  simp only
  generalize hs1 : (s.run [Ev.clearTimeout now, Ev.probeCheck now]).1 = s1
  -- the state after `clear_pending_if_timed_out` and the probing check
  have h1 : s1.reg.probing = s.reg.probing ∧
      (s.reg.pendingTimeoutAt ≤ now → s1.reg.pending = none ∧ s1.reg.target = none) ∧
      (now < s.reg.pendingTimeoutAt → s1.reg.pending = some i ∧
        s1.reg.pendingTimeoutAt = s.reg.pendingTimeoutAt) := by
    rw [← hs1]
    obtain ⟨r, c⟩ := s
    simp only at hp hw hD
    simp only [Sys.run, Sys.step, clearPendingIfTimedOut, checkProbingComplete, isProbing, hp]
    grind
  obtain ⟨w1, c1, c2⟩ := h1
  -- the tail: `update_active_connections`, driver
  have htail : ∀ x : Sys, (x.run [Ev.updateActive, Ev.driver now]).1.reg.pendingTimeoutAt = x.reg.pendingTimeoutAt ∨
      x.reg.pending = none := by
    intro x
    obtain ⟨r, c⟩ := x
    simp only [Sys.run, Sys.step, stepDriver, regDriverPendingSends, driverReg1, driverBroadcast,
      updateActiveConnections]
    grind
  have htailp : ∀ (x : Sys) j, x.reg.pending = some j →
      (x.run [Ev.updateActive, Ev.driver now]).1.reg.pending = some j :=
    fun x j hj => run_pending_kept _ x (by
      intro e he
      simp only [List.mem_cons, List.not_mem_nil, or_false] at he
      rcases he with rfl | rfl <;> simp [Ev.MayClear]) j hj
  have htailn : ∀ x : Sys, x.reg.pending = none → x.reg.target = none →
      (x.run [Ev.updateActive, Ev.driver now]).1.reg.pending = none := by
    intro x h1 h2
    obtain ⟨r, c⟩ := x
    simp only at h1 h2
    simp only [Sys.run, Sys.step, stepDriver, regDriverPendingSends, driverReg1, driverBroadcast,
      updateActiveConnections, h1, h2]
    grind
  constructor
  · intro hle
    obtain ⟨p1, t1⟩ := c1 hle
    have hr := reconnects_none now rcs s1 p1
    exact htailn _ (by rw [hr]; exact p1) (by rw [hr]; exact t1)
  · intro hlt
    obtain ⟨p1, d1⟩ := c2 hlt
    obtain ⟨r1, r2, -⟩ := reconnects_pending now rcs s1 i p1
    refine ⟨htailp _ i r1, ?_⟩
    rcases htail (s1.run (rcs.map fun k => Ev.reconnect k now)).1 with h | h
    · rw [h, r2, d1]
    · rw [r1] at h; cases h

end Srtla.Reg
