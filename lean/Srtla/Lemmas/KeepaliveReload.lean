import Srtla.Lemmas.KeepaliveTrace
import Srtla.Lemmas.ReloadBasic
/-!
# The keepalive stamp between two housekeeping ticks, followed BY CONN ID across reloads

`KaTrace.runEvs_frame` follows a link by its index (`NoReload`).  Here the same fact is stated by conn id, so that
it spans reloads: after any events other than housekeeping ticks — reloads included — every link either carries no
stamp (`last_keepalive_sent = None`: cleared by a reset, or the link was freshly created by a reload) or carries the
stamp of a link of the start state with the same conn id (a retained link's record is unchanged by a reload).
-/
namespace Srtla.KaTrace
open Srtla Srtla.Gen Srtla.Conn Srtla.Link Srtla.Sys Srtla.Rtt Srtla.Uplink Srtla.Keepalive

set_option linter.unusedSectionVars false

variable {F : Type} [Scalar F]

/-- Every link afterwards has no stamp, or the stamp of a link before with the same conn id. -/
def LksById (ls ls' : List (FLink F)) : Prop :=
  ∀ m ∈ ls', m.lastKeepaliveSent = none ∨
    ∃ l ∈ ls, l.core.connId = m.core.connId ∧ m.lastKeepaliveSent = l.lastKeepaliveSent

theorem LksById.refl (ls : List (FLink F)) : LksById ls ls := fun m hm => .inr ⟨m, hm, rfl, rfl⟩

theorem LksById.trans {a b c : List (FLink F)} (h1 : LksById a b) (h2 : LksById b c) : LksById a c := by
  intro m hm
  rcases h2 m hm with h | ⟨l, hl, hid, hs⟩
  · exact .inl h
  · rcases h1 l hl with h | ⟨l0, hl0, hid0, hs0⟩
    · exact .inl (hs.trans h)
    · exact .inr ⟨l0, hl0, hid0.trans hid, hs.trans hs0⟩

/-- One event other than a housekeeping tick — a reload included. -/
theorem step_lksById (s : Sys F) (e : Ev) (h : notHk e = true) : LksById s.links (step s e).1.links := by
  cases hnr : e.isReload with
  | false =>
    intro m hm
    obtain ⟨j, hj, hget⟩ := List.getElem_of_mem hm
    have hm' : (step s e).1.links[j]? = some m := by rw [List.getElem?_eq_getElem hj, hget]
    have hfr := step_frame s e h hnr
    have hid := step_id s e hnr
    have hj' : j < s.links.length := by rw [hfr.1]; exact hj
    have hl : s.links[j]? = some s.links[j] := List.getElem?_eq_getElem hj'
    rcases hfr.2 j _ m hl hm' with h1 | h1
    · exact .inr ⟨_, List.getElem_mem hj', (hid.2 j _ m hl hm').symm, h1⟩
    · exact .inl h1
  | true =>
    cases e with
    | reload now addrs outs =>
      intro m hm
      rcases mem_reload hm with ⟨h1, -⟩ | ⟨id, a, -, -, rfl⟩
      · exact .inr ⟨m, h1, rfl, rfl⟩
      · exact .inl rfl
    | _ => cases hnr

/-- Any events other than housekeeping ticks, reloads included. -/
theorem runEvs_lksById (s : Sys F) (evs : List Ev) (h : ∀ e ∈ evs, notHk e = true) :
    LksById s.links (runEvs s evs).links := by
  unfold runEvs
  induction evs generalizing s with
  | nil => exact LksById.refl _
  | cons e es ih =>
    simp only [List.foldl_cons]
    exact (step_lksById s e (h e (by simp))).trans (ih _ (fun e' he' => h e' (by simp [he'])))

omit [Scalar F] in
/-- With distinct conn ids a link is determined by its conn id. -/
theorem eq_of_mem_of_id {ls : List (FLink F)} (hnd : (ls.map (·.core.connId)).Nodup) {a b : FLink F}
    (ha : a ∈ ls) (hb : b ∈ ls) (h : a.core.connId = b.core.connId) : a = b := by
  induction ls with
  | nil => cases ha
  | cons x xs ih =>
    have hnd' : x.core.connId ∉ xs.map (·.core.connId) ∧ (xs.map (·.core.connId)).Nodup := by
      rw [List.map_cons] at hnd
      exact List.nodup_cons.1 hnd
    rcases List.mem_cons.1 ha with rfl | ha' <;> rcases List.mem_cons.1 hb with rfl | hb'
    · rfl
    · exact absurd (List.mem_map.2 ⟨b, hb', h.symm⟩) hnd'.1
    · exact absurd (List.mem_map.2 ⟨a, ha', h⟩) hnd'.1
    · exact ih hnd'.2 ha' hb'

omit [Scalar F] in
/-- Conn ids stay in place under an event that keeps the link set: the id LIST is unchanged. -/
theorem ids_of_idFrame {ls ls' : List (FLink F)} (h : PW IdFrame ls ls') :
    ls'.map (·.core.connId) = ls.map (·.core.connId) := by
  apply List.ext_getElem?
  intro i
  simp only [List.getElem?_map]
  cases hl : ls[i]? with
  | none =>
    have : ls'[i]? = none := by
      rw [List.getElem?_eq_none_iff, ← h.1]; exact List.getElem?_eq_none_iff.1 hl
    rw [this]
  | some l =>
    have hi : i < ls'.length := by rw [← h.1]; exact (List.getElem?_eq_some_iff.1 hl).1
    have hl' : ls'[i]? = some ls'[i] := List.getElem?_eq_getElem hi
    rw [hl']
    simp only [Option.map_some]
    exact congrArg some (h.2 i l _ hl hl')

end Srtla.KaTrace
