import Srtla.Lemmas.Housekeeping
import Srtla.Lemmas.Uplink
/-!
# One event of the shell, link by link, in closed form (C12 / C13 at shell level)

For every constructor of `Sys.Ev` this file says what the record of link `j` is after the event, as an
explicit function of the record of link `j` before it (same index; the list length is invariant):

* `client`  — `client_link`: the link as the selection pass left it (`passLinks`: `runSelect` if the
  pass ran, i.e. non-empty datagram and completed registration; the old list otherwise), then EXACTLY
  one of: nothing / `fwdLink` (the link is the target) / `probeLink` (stall-gated connected link other
  than the target, data packet: `stall_probe_due`, maybe a duplicate copy);
* `uplink`  — `uplink_link`: the arrival arm (`Uplink.arrival`: nothing, a `last_sent` / `last_received`
  stamp, REG3, REG_ERR's `mark_for_recovery`, the keepalive arm) on the arrival link only, then the
  ACK / NAK fan-out, which rewrites the accounting core and the RTT tracker only (`Uplink.SameShell`);
* `flush`   — `flush_link`: nothing or `take_batch`;
* `hk`      — `hk_link`: `Hk.hkLink` (reconnect attempt, socket re-created or not / nothing / the alive branch) up to a grace
  reset before and a `last_sent` stamp after;
* `setCfg`, `crit`, `failNext`, `failBind` — `cfg_links`: nothing; `stamp` — the four verdict fields of one link.

One lemma per constructor; `step_length` puts the lengths together.  Nothing here mentions a particular
property: `Lemmas/SelShellLatch.lean` (C13) and `Lemmas/SelShellFrame.lean` (C12) read the guard fields,
resp. the complement of the guard fields, off these closed forms.

Imports only `Lemmas/Housekeeping` and `Lemmas/Uplink` (so `Props/C12.lean` can use it: the
`Lemmas/Forward*` chain imports `Props/C12`).  Scalar-generic.
-/
set_option linter.unusedSectionVars false

namespace Srtla.SelShell
open Srtla Srtla.Gen Srtla.Conn Srtla.Select Srtla.Rtt Srtla.Link Srtla.Sys Scalar

variable {F : Type} [Scalar F]
variable {fa : List (Nat × Nat)}

/-! ## flush -/

theorem flushGo_link (now : Nat) (ls : List (FLink F)) (fn : List Nat) (j : Nat) (l : FLink F)
    (hl : ls[j]? = some l) :
    ∃ l', (flushGo fa now ls fn).1[j]? = some l' ∧ (l' = l ∨ l' = (l.takeBatch now).1) := by
  induction ls generalizing fn j with
  | nil => simp at hl
  | cons a rest ih =>
    rw [flushGo]
    split
    · dsimp only
      cases j with
      | zero =>
        simp only [List.getElem?_cons_zero, Option.some.injEq] at hl
        subst hl
        exact ⟨_, by simp, Or.inr (Hk.sendBatch_cases (fa := fa) a now fn).1⟩
      | succ j =>
        simp only [List.getElem?_cons_succ] at hl ⊢
        exact ih _ j hl
    · cases j with
      | zero =>
        simp only [List.getElem?_cons_zero, Option.some.injEq] at hl
        subst hl
        exact ⟨_, by simp, Or.inl rfl⟩
      | succ j =>
        simp only [List.getElem?_cons_succ] at hl ⊢
        exact ih _ j hl

/-- **`flush` event, link `j`.** -/
theorem flush_link (s : Sys F) (now j : Nat) (l : FLink F) (hl : s.links[j]? = some l) :
    ∃ l', (flushAllBatches s now).1.links[j]? = some l' ∧ (l' = l ∨ l' = (l.takeBatch now).1) := by
  unfold flushAllBatches
  split
  · exact ⟨l, hl, Or.inl rfl⟩
  · exact flushGo_link now s.links s.failNext j l hl

theorem flush_length (s : Sys F) (now : Nat) : (flushAllBatches s now).1.links.length = s.links.length :=
  (Hk.flush_pw false none s now).1.length

/-! ## hk -/

/-- **`hk` event, link `j`**: grace reset (only the link probing chose), `hkLink`, a `last_sent` stamp. -/
theorem hk_link (s : Sys F) (now j : Nat) (l : FLink F) (hl : s.links[j]? = some l) :
    ∃ (pending g t : Option Nat) (fails : Bool),
      (handleHousekeeping s now).1.links[j]? =
        some (Hk.withSent (Hk.hkLink s.cfg.classic now pending fails j (Hk.graceFix g now j l)) t) := by
  obtain ⟨τ, h⟩ := Hk.hk_links s now
  refine ⟨(Hk.hkP1 s now).1.pending, Hk.hkGraceIdx s now, ?_⟩
  rw [h, List.getElem?_mapIdx, hl]
  exact ⟨_, _, rfl⟩

theorem hk_length (s : Sys F) (now : Nat) : (handleHousekeeping s now).1.links.length = s.links.length :=
  (Hk.hk_step s now).2

/-! ## uplink -/

/-- The arrival arm without the type code: one of six shapes. -/
theorem arrival_shape (l : FLink F) (idx : Nat) (reg : Reg.Reg) (ck : Bool) (data : Codec.Bytes) (now : Nat) :
    Uplink.arrival l idx reg ck data now = l ∨
    Uplink.arrival l idx reg ck data now = { l with core := { l.core with lastSent := some now } } ∨
    Uplink.arrival l idx reg ck data now = Uplink.reg3Link l now ∨
    (Codec.getPacketTypeS data = some 0x9210 ∧ Uplink.arrival l idx reg ck data now = l.markForRecovery) ∨
    (Codec.getPacketTypeS data = some 0x9000 ∧ Uplink.arrival l idx reg ck data now = Uplink.kaLink l data now) ∨
    Uplink.arrival l idx reg ck data now = Uplink.stamp l now := by
  cases hpt : Codec.getPacketTypeS data with
  | none =>
    left
    unfold Uplink.arrival
    rw [Uplink.pupSpec_none l idx reg ck data now hpt]
  | some pt =>
    rcases Uplink.arrival_cases l idx reg ck data now pt hpt with
      ⟨-, h | h⟩ | ⟨-, h⟩ | ⟨-, h⟩ | ⟨hp, h⟩ | ⟨hp, h⟩ | ⟨-, -, -, -, -, h⟩
    · exact .inl h
    · exact .inr (.inl h)
    · exact .inl h
    · exact .inr (.inr (.inl h))
    · exact .inr (.inr (.inr (.inl ⟨by rw [hp], h⟩)))
    · exact .inr (.inr (.inr (.inr (.inl ⟨by rw [hp], h⟩))))
    · exact .inr (.inr (.inr (.inr (.inr h))))

/-- **`uplink` event, link `j`**: `a` is the link after the arrival arm (the link itself unless `j` is
the arrival link), `l'` is `a` after the ACK / NAK fan-out (`Uplink.EvStep`: it differs from `a` in the
accounting core and the RTT tracker only, `SameShell`; the core moved by `CStep`). -/
theorem uplink_link (s : Sys F) (cid : Nat) (data : Sys.Bytes) (now j : Nat) (l : FLink F)
    (hl : s.links[j]? = some l) :
    ∃ l' a sacks acks, (handleUplinkPacket s cid data now).1.links[j]? = some l' ∧
      Uplink.EvStep sacks acks now a l' ∧
      (a = l ∨ (data ≠ [] ∧ s.links.findIdx? (·.core.connId == cid) = some j ∧
        a = Uplink.arrival l j s.reg s.clientKnown data now)) := by
  have hrefl : Uplink.EvStep [] [] now l l := ⟨Uplink.CStep.rfl' now _, rfl, Uplink.SameShell.rfl' l⟩
  by_cases hne : data = []
  · subst hne
    exact ⟨l, l, [], [], by simpa [handleUplinkPacket] using hl, hrefl, .inl rfl⟩
  cases hf : s.links.findIdx? (·.core.connId == cid) with
  | none =>
    rw [Uplink.unknown_link s cid data now hf]
    exact ⟨l, l, [], [], hl, hrefl, .inl rfl⟩
  | some idx =>
    obtain ⟨l0, hl0, -⟩ := Uplink.findIdx_get s.links cid idx hf
    obtain ⟨b, hb, hev⟩ := Uplink.handleUplinkPacket_link s cid data now idx l0 hne hf hl0 j l hl
    by_cases hj : j = idx
    · subst hj
      rw [hl] at hl0
      cases hl0
      simp only [if_true] at hev
      exact ⟨b, _, _, _, hb, hev, .inr ⟨hne, rfl, rfl⟩⟩
    · simp only [hj, if_false] at hev
      exact ⟨b, l, _, _, hb, hev, .inl rfl⟩

theorem uplink_length (s : Sys F) (cid : Nat) (data : Sys.Bytes) (now : Nat) :
    (handleUplinkPacket s cid data now).1.links.length = s.links.length :=
  Uplink.handleUplinkPacket_length s cid data now

/-! ## client -/

/-- Did `handle_srt_packet` run the scheduler (`select_connection_idx`)?  Only for a non-empty datagram
once registration has completed; before that `select_pre_registration_connection` picks the link. -/
def passRan (s : Sys F) (pkt : Sys.Bytes) : Bool := !pkt.isEmpty && s.reg.hasConnected

/-- The links as the selection pass (if any) of this client event leaves them. -/
def passLinks (s : Sys F) (pkt : Sys.Bytes) (now : Nat) : List (FLink F) :=
  if passRan s pkt then (runSelect s now).1.links else s.links

/-- The link `handle_srt_packet` forwards the datagram on (`none`: dropped / empty datagram). -/
def clientTarget (s : Sys F) (pkt : Sys.Bytes) (now : Nat) : Option Nat :=
  if pkt.isEmpty then none
  else if s.reg.hasConnected then Hk.clientSel s pkt now
  else selectPreRegistration s.links s.lastSelected now

theorem passLinks_length (s : Sys F) (pkt : Sys.Bytes) (now : Nat) :
    (passLinks s pkt now).length = s.links.length := by
  unfold passLinks
  split
  · exact (Hk.runSelect_pw false s now).length
  · rfl

theorem forwardVia_link (s : Sys F) (sel : Nat) (pkt : Sys.Bytes) (seq : Option Nat) (now j : Nat) (m : FLink F)
    (hm : s.links[j]? = some m) :
    (forwardVia s sel pkt seq now).1.links[j]? =
      some (if j = sel then (Hk.fwdLink s.failAfter m pkt seq now s.failNext).1 else m) := by
  cases hs : s.links[sel]? with
  | none =>
    rw [Hk.forwardVia_none s sel pkt seq now hs, hm]
    have : j ≠ sel := by
      intro h; subst h; rw [hm] at hs; cases hs
    rw [if_neg this]
  | some x =>
    rw [(Hk.forwardVia_eq s sel pkt seq now x hs).1, Hk.getElem?_setAt, hm]
    by_cases h : j = sel
    · subst h
      rw [hm] at hs
      cases hs
      simp
    · simp [h]

theorem stallProbesGo_link (pkt : Sys.Bytes) (seq : Option Nat) (now sel : Nat) (ls : List (FLink F)) (i : Nat)
    (fn : List Nat) (k : Nat) (m : FLink F) (hm : ls[k]? = some m) :
    ∃ l', (stallProbesGo fa pkt seq now sel ls i fn).1[k]? = some l' ∧
      ((l' = m ∧ (i + k = sel ∨ m.stallGated = false ∨ m.core.connected = false)) ∨
       (i + k ≠ sel ∧ m.stallGated = true ∧ m.core.connected = true ∧
          ∃ fn', l' = (Hk.probeLink fa m pkt seq now fn').1)) := by
  induction ls generalizing i fn k with
  | nil => simp at hm
  | cons a rest ih =>
    rw [Hk.stallProbesGo_cons]
    split
    · rename_i hc
      cases k with
      | zero =>
        simp only [List.getElem?_cons_zero, Option.some.injEq] at hm
        subst hm
        refine ⟨_, by simp, .inl ⟨rfl, ?_⟩⟩
        simp only [Bool.or_eq_true, decide_eq_true_eq, Bool.not_eq_true'] at hc
        rcases hc with (h | h) | h
        · exact .inl (by omega)
        · exact .inr (.inl h)
        · exact .inr (.inr h)
      | succ k =>
        simp only [List.getElem?_cons_succ] at hm ⊢
        obtain ⟨l', h1, h2⟩ := ih (i + 1) fn k hm
        refine ⟨l', h1, ?_⟩
        have : i + 1 + k = i + (k + 1) := by omega
        rw [this] at h2
        exact h2
    · rename_i hc
      cases k with
      | zero =>
        simp only [List.getElem?_cons_zero, Option.some.injEq] at hm
        subst hm
        simp only [Bool.or_eq_true, decide_eq_true_eq, Bool.not_eq_true', not_or, Bool.not_eq_false] at hc
        exact ⟨_, by simp, .inr ⟨by omega, hc.1.2, hc.2, fn, rfl⟩⟩
      | succ k =>
        simp only [List.getElem?_cons_succ] at hm ⊢
        obtain ⟨l', h1, h2⟩ := ih (i + 1) _ k hm
        refine ⟨l', h1, ?_⟩
        have : i + 1 + k = i + (k + 1) := by omega
        rw [this] at h2
        exact h2

/-- What a client event does to a link after the selection pass. -/
inductive ClientFx (s : Sys F) (pkt : Sys.Bytes) (now j : Nat) (m l' : FLink F) : Prop
  /-- not the target, no probe: untouched -/
  | idle (ht : clientTarget s pkt now ≠ some j) (h : l' = m)
  /-- the target: the datagram is queued here (threshold flush, tear-down on a failed flush) -/
  | target (ht : clientTarget s pkt now = some j)
      (h : l' = (Hk.fwdLink s.failAfter m pkt (Codec.getSrtSequenceNumberS pkt) now s.failNext).1)
  /-- a stall-gated, connected link other than the target, data packet, registered session:
  `stall_probe_due` is consulted and every 100th time a duplicate copy is queued here -/
  | probe (ht : clientTarget s pkt now ≠ some j) (hpass : passRan s pkt = true)
      (hseq : (Codec.getSrtSequenceNumberS pkt).isSome = true) (hsome : (clientTarget s pkt now).isSome = true)
      (hg : m.stallGated = true) (hc : m.core.connected = true)
      (h : ∃ fn, l' = (Hk.probeLink s.failAfter m pkt (Codec.getSrtSequenceNumberS pkt) now fn).1)

/-- **`client` event, link `j`**, relative to the link `m` the selection pass left at index `j`. -/
theorem client_link (s : Sys F) (pkt : Sys.Bytes) (now j : Nat) (m : FLink F)
    (hm : (passLinks s pkt now)[j]? = some m) :
    ∃ l', (handleSrtPacket s pkt now).1.links[j]? = some l' ∧ ClientFx s pkt now j m l' := by
  cases hne : pkt.isEmpty with
  | true =>
    have hs : handleSrtPacket s pkt now = (s, {}) := by unfold handleSrtPacket; simp [hne]
    have hp : passLinks s pkt now = s.links := by unfold passLinks passRan; simp [hne]
    rw [hp] at hm
    rw [hs]
    exact ⟨m, hm, .idle (by unfold clientTarget; simp [hne]) rfl⟩
  | false =>
    cases hreg : s.reg.hasConnected with
    | false =>
      have hp : passLinks s pkt now = s.links := by unfold passLinks passRan; simp [hreg]
      have ht : clientTarget s pkt now = selectPreRegistration s.links s.lastSelected now := by
        unfold clientTarget; simp [hne, hreg]
      rw [hp] at hm
      rw [Hk.handleSrtPacket_pre s pkt now hne hreg]
      cases hsel : selectPreRegistration s.links s.lastSelected now with
      | none =>
        exact ⟨m, hm, .idle (by rw [ht, hsel]; simp) rfl⟩
      | some i =>
        dsimp only
        refine ⟨_, forwardVia_link s i pkt _ now j m hm, ?_⟩
        by_cases hji : j = i
        · subst hji
          rw [if_pos rfl]
          exact .target (by rw [ht, hsel]) rfl
        · rw [if_neg hji]
          exact .idle (by rw [ht, hsel]; intro h; exact hji (Option.some.inj h).symm) rfl
    | true =>
      have hp : passLinks s pkt now = (runSelect s now).1.links := by
        unfold passLinks passRan; simp [hne, hreg]
      have hpr : passRan s pkt = true := by unfold passRan; simp [hne, hreg]
      have ht : clientTarget s pkt now = Hk.clientSel s pkt now := by
        unfold clientTarget; simp [hne, hreg]
      rw [hp] at hm
      cases hsel : Hk.clientSel s pkt now with
      | none =>
        rw [Hk.handleSrtPacket_none s pkt now hne hreg hsel]
        exact ⟨m, hm, .idle (by rw [ht, hsel]; simp) rfl⟩
      | some i =>
        rw [Hk.handleSrtPacket_some s pkt now i hne hreg hsel]
        have hf := forwardVia_link (runSelect s now).1 i pkt (Codec.getSrtSequenceNumberS pkt) now j m hm
        have hfn : (runSelect s now).1.failNext = s.failNext := rfl
        rw [hfn] at hf
        unfold Hk.clientFwd
        dsimp only
        split
        · rename_i hseq
          dsimp only
          by_cases hji : j = i
          · subst hji
            rw [if_pos rfl] at hf
            obtain ⟨l', h1, h2⟩ := stallProbesGo_link pkt (Codec.getSrtSequenceNumberS pkt) now j _ 0 _ j _ hf
            refine ⟨l', h1, ?_⟩
            rcases h2 with ⟨e, -⟩ | ⟨hx, -⟩
            · exact .target (by rw [ht, hsel]) e
            · exact absurd (by omega) hx
          · rw [if_neg hji] at hf
            obtain ⟨l', h1, h2⟩ := stallProbesGo_link pkt (Codec.getSrtSequenceNumberS pkt) now i _ 0 _ j _ hf
            refine ⟨l', h1, ?_⟩
            have hnt : clientTarget s pkt now ≠ some j := by
              rw [ht, hsel]; intro h; exact hji (Option.some.inj h).symm
            rcases h2 with ⟨e, -⟩ | ⟨-, hg, hc, hfn'⟩
            · exact .idle hnt e
            · rw [Hk.forwardVia_runSelect_failAfter] at hfn'
              exact .probe hnt hpr hseq (by rw [ht, hsel]; rfl) hg hc hfn'
        · refine ⟨_, hf, ?_⟩
          by_cases hji : j = i
          · subst hji
            rw [if_pos rfl]
            exact .target (by rw [ht, hsel]) rfl
          · rw [if_neg hji]
            exact .idle (by rw [ht, hsel]; intro h; exact hji (Option.some.inj h).symm) rfl

theorem client_length (s : Sys F) (pkt : Sys.Bytes) (now : Nat) :
    (handleSrtPacket s pkt now).1.links.length = s.links.length :=
  (Hk.client_pw s pkt now).1.length

/-- The pass, link `j`: nothing if the pass did not run, else `runSelect`'s link. -/
theorem passLinks_get (s : Sys F) (pkt : Sys.Bytes) (now j : Nat) (l : FLink F) (hl : s.links[j]? = some l) :
    ∃ m, (passLinks s pkt now)[j]? = some m ∧
      ((passRan s pkt = false ∧ m = l) ∨ (passRan s pkt = true ∧ (runSelect s now).1.links[j]? = some m)) := by
  cases hp : passRan s pkt with
  | false =>
    refine ⟨l, ?_, .inl ⟨rfl, rfl⟩⟩
    unfold passLinks
    rw [hp]
    exact hl
  | true =>
    have hlen := passLinks_length s pkt now
    have hj : j < (passLinks s pkt now).length := by
      rw [hlen]; exact (List.getElem?_eq_some_iff.1 hl).1
    refine ⟨(passLinks s pkt now)[j], List.getElem?_eq_getElem hj, .inr ⟨rfl, ?_⟩⟩
    have : passLinks s pkt now = (runSelect s now).1.links := by unfold passLinks; rw [hp]; rfl
    rw [← this]
    exact List.getElem?_eq_getElem hj

/-! ## the three configuration events -/

/-- The events that run an arm of the event loop; all others only edit the shell's configuration /
fault-injection fields. -/
def isArm : Ev → Bool
  | .client _ _ => true
  | .uplink _ _ _ => true
  | .flush _ => true
  | .hk _ => true
  | _ => false

/-- `setCfg`, `crit`, `failNext`, `failBind` do not touch the links; a verdict `stamp` rewrites the four
verdict fields (`weak`, `loss_degraded`, `cc_backing_off`, `cc_target_bps`) of one link and nothing else;
`syncTimeout` rewrites the timeout copy of every link and nothing else. -/
theorem cfg_links (s : Sys F) (e : Ev) (h : isArm e = false) (hnr : e.isReload = false) (j : Nat) (l : FLink F)
    (hl : s.links[j]? = some l) :
    ∃ l', (step s e).1.links[j]? = some l' ∧
      (l' = l ∨ (∃ weak ld ccb cct,
        l' = { l with weak := weak, lossDegraded := ld, ccBackingOff := ccb, ccTarget := cct }) ∨
       ∃ T, l' = { l with connTimeoutMs := T }) := by
  cases e with
  | client now pkt => cases h
  | uplink now cid data => cases h
  | flush now => cases h
  | hk now => cases h
  | reload now addrs outs => cases hnr
  | setCfg cfg => exact ⟨l, hl, .inl rfl⟩
  | crit d => exact ⟨l, hl, .inl rfl⟩
  | failNext c => exact ⟨l, hl, .inl rfl⟩
  | failAfter c kfa => exact ⟨l, hl, .inl rfl⟩
  | failBind c => exact ⟨l, hl, .inl rfl⟩
  | stamp idx weak ld ccb cct =>
    have hg : (step s (.stamp idx weak ld ccb cct)).1.links[j]? =
        some (if j = idx then { l with weak := weak, lossDegraded := ld, ccBackingOff := ccb, ccTarget := cct }
          else l) := by
      show (stampLink s.links idx weak ld ccb cct)[j]? = _
      rw [Uplink.stampLink_getElem?, hl]; rfl
    refine ⟨_, hg, ?_⟩
    split
    · exact .inr (.inl ⟨weak, ld, ccb, cct, rfl⟩)
    · exact .inl rfl
  | syncTimeout =>
    refine ⟨{ l with connTimeoutMs := s.cfg.connTimeoutMs }, ?_, .inr (.inr ⟨_, rfl⟩)⟩
    show (s.links.map fun l => ({ l with connTimeoutMs := s.cfg.connTimeoutMs } : FLink F))[j]? = _
    rw [List.getElem?_map, hl]; rfl

end Srtla.SelShell
