import Srtla.Model.Arm
import Srtla.Lemmas.SysDir
import Srtla.Lemmas.ForwardStep
import Srtla.Lemmas.LinkCc
import Srtla.Lemmas.Classifier
/-!
# Helper lemmas for the housekeeping arm (`Model/Arm.lean`, `Props/SysArm.lean`)

* the stamping loop (a `map` over the connections that looks the verdicts up by conn id) is the left-to-right run of
  the shell events `Ev.stamp i …` (`run_stamps`, `hkArm_sys`);
* no shell event other than `stamp` (and `reload`, which changes the link set) touches the four verdict fields of any
  link (`verdicts_run`, `step_verdicts`);
* what `tick_all` leaves in the controller (`tickAll_get`, `tickAll_isSome_iff`).
-/
namespace Srtla.Arm
open Srtla Srtla.Link Srtla.Sys Srtla.SysDir

variable {F G : Type} [Scalar F] [LinkCc.Scalar G]

/-! ## 1. The stamping loop as shell events -/

/-- The shell event that writes `st` onto the link at index `i`. -/
def stampEv (i : Nat) (st : Stamp) : Ev := .stamp i st.weak st.lossDegraded st.ccBackingOff st.ccTarget

/-- Conn id of the link at index `i` (0 when there is none). -/
def idAt (ls : List (FLink F)) (i : Nat) : Nat := (ls[i]?.map (·.core.connId)).getD 0

/-- One `stamp` event per link, in index order, carrying the verdicts `g` looked up by the link's conn id. -/
def stampEvs (ls : List (FLink F)) (g : Nat → Stamp) : List Ev :=
  (List.range ls.length).map fun i => stampEv i (g (idAt ls i))

theorem step_stampEv (s : Sys F) (i : Nat) (st : Stamp) :
    step s (stampEv i st) =
      ({ s with links := s.links.mapIdx fun j l => if j = i then FLink.stamped l st else l }, {}) := rfl

theorem mapIdx_eq_of_get {α β : Type} (ls : List α) (f : Nat → α → β) (ms : List β)
    (h : ∀ j, ms[j]? = ls[j]?.map (f j)) : ls.mapIdx f = ms :=
  List.ext_getElem? fun j => by rw [List.getElem?_mapIdx, h]

/-- After the first `k` stamp events exactly the links at the indices below `k` carry their stamp; nothing else in
the state moves. -/
theorem run_stamps_prefix (s : Sys F) (h : Nat → Stamp) (k : Nat) :
    (run s ((List.range k).map fun i => stampEv i (h i))).1 =
      { s with links := s.links.mapIdx fun j l => if j < k then FLink.stamped l (h j) else l } := by
  induction k with
  | zero =>
    have : (s.links.mapIdx fun j l => if j < 0 then FLink.stamped l (h j) else l) = s.links :=
      mapIdx_eq_of_get _ _ _ fun j => by cases s.links[j]? <;> simp
    show s = _
    rw [this]
  | succ k ih =>
    rw [List.range_succ, List.map_append, SysDir.run_append, ih]
    show (step _ (stampEv k (h k))).1 = _
    rw [step_stampEv]
    show ({ s with links := _ } : Sys F) = _
    congr 1
    apply mapIdx_eq_of_get
    intro j
    rw [List.getElem?_mapIdx, List.getElem?_mapIdx]
    cases s.links[j]? with
    | none => rfl
    | some l =>
      simp only [Option.map_some]
      by_cases hjk : j = k
      · subst hjk; simp
      · by_cases hlt : j < k
        · have : j < k + 1 := by omega
          simp [hjk, hlt, this]
        · have : ¬ j < k + 1 := by omega
          simp [hjk, hlt, this]

/-- The outputs of stamp events are empty. -/
theorem run_stamps_out (s : Sys F) (h : Nat → Stamp) (is : List Nat) :
    (run s (is.map fun i => stampEv i (h i))).2 = is.map fun _ => ({} : Out) := by
  induction is generalizing s with
  | nil => rfl
  | cons i is ih =>
    show (step s (stampEv i (h i))).2 :: (run (step s (stampEv i (h i))).1 _).2 = _
    rw [ih]; rfl

/-- **The stamping loop is the run of the `stamp` events.**  Running `stampEvs s.links g` from `s` writes onto every
link the verdicts `g` returns for ITS conn id and changes nothing else. -/
theorem run_stamps (s : Sys F) (g : Nat → Stamp) :
    (run s (stampEvs s.links g)).1 =
      { s with links := s.links.map fun l => FLink.stamped l (g l.core.connId) } := by
  unfold stampEvs
  rw [run_stamps_prefix s (fun i => g (idAt s.links i)) s.links.length]
  congr 1
  apply mapIdx_eq_of_get
  intro j
  rw [List.getElem?_map]
  cases hj : s.links[j]? with
  | none => rfl
  | some l =>
    have hlt : j < s.links.length := by
      rcases Nat.lt_or_ge j s.links.length with h | h
      · exact h
      · rw [List.getElem?_eq_none h] at hj; cases hj
    simp only [Option.map_some, hlt, if_true, idAt, hj, Option.getD_some]

/-! ## 2. The arm projects onto a run of the shell -/

/-- The verdicts the arm at `now` computes, by conn id. -/
def armStamp (v : Views F G) (s : Full F G) (now : Nat) : Nat → Stamp :=
  stampOf (Classifier.classify s.cls (clsTick v (afterHk s.sys now).1.links)).2
    (LinkCc.tickAll s.ctl (ccConns v (afterHk s.sys now).1.links) now)

theorem stampOf_weak (res : Classifier.Result) (ctl : LinkCc.Ctl G) (id : Nat) :
    (stampOf res ctl id).weak = ((res.perLink.find? (·.id == id)).map (·.weak)).getD false := rfl

theorem stampOf_ccTarget (res : Classifier.Result) (ctl : LinkCc.Ctl G) (id : Nat) :
    (stampOf res ctl id).ccTarget = ((ctl.get id).map fun st => (LinkCc.snapshot st).target).getD 0 := by
  unfold stampOf; cases ctl.get id <;> rfl

theorem stampOf_ccBackingOff (res : Classifier.Result) (ctl : LinkCc.Ctl G) (id : Nat) :
    (stampOf res ctl id).ccBackingOff =
      ((ctl.get id).map fun st => decide ((LinkCc.snapshot st).state = .backingOff)).getD false := by
  unfold stampOf; cases ctl.get id <;> rfl

theorem stampOf_lossDegraded (res : Classifier.Result) (ctl : LinkCc.Ctl G) (id : Nat) :
    (stampOf res ctl id).lossDegraded = ((ctl.get id).map fun st => (LinkCc.snapshot st).lossDegraded).getD false := by
  unfold stampOf; cases ctl.get id <;> rfl

omit [Scalar F] in
theorem stamped_weak (l : FLink F) (st : Stamp) : (FLink.stamped l st).weak = st.weak := rfl
omit [Scalar F] in
theorem stamped_ccTarget (l : FLink F) (st : Stamp) : (FLink.stamped l st).ccTarget = st.ccTarget := rfl
omit [Scalar F] in
theorem stamped_ccBackingOff (l : FLink F) (st : Stamp) : (FLink.stamped l st).ccBackingOff = st.ccBackingOff := rfl
omit [Scalar F] in
theorem stamped_lossDegraded (l : FLink F) (st : Stamp) : (FLink.stamped l st).lossDegraded = st.lossDegraded := rfl
omit [Scalar F] in
theorem stamped_connId (l : FLink F) (st : Stamp) : (FLink.stamped l st).core.connId = l.core.connId := rfl

/-- The shell events of the arm at `now`: `sync_conn_timeout`, `handle_housekeeping`, then one `stamp` per link with
the verdicts of the classifier and the controller. -/
def armEvs (v : Views F G) (s : Full F G) (now : Nat) : List Ev :=
  [.syncTimeout, .hk now] ++ stampEvs (afterHk s.sys now).1.links (armStamp v s now)

theorem run_armEvs (v : Views F G) (s : Full F G) (now : Nat) :
    (run s.sys (armEvs v s now)).1 =
      (run (afterHk s.sys now).1 (stampEvs (afterHk s.sys now).1.links (armStamp v s now))).1 := by
  unfold armEvs
  rw [SysDir.run_append]
  rfl

theorem hkArm_sys (v : Views F G) (s : Full F G) (now : Nat) :
    (hkArm v s now).1.sys = (run s.sys (armEvs v s now)).1 := by
  rw [run_armEvs, run_stamps]
  rfl

theorem hkArm_out (v : Views F G) (s : Full F G) (now : Nat) :
    (hkArm v s now).2 = (afterHk s.sys now).2 := rfl

theorem hkArm_cls (v : Views F G) (s : Full F G) (now : Nat) :
    (hkArm v s now).1.cls = Classifier.nextState s.cls (clsTick v (afterHk s.sys now).1.links) := rfl

theorem hkArm_ctl (v : Views F G) (s : Full F G) (now : Nat) :
    (hkArm v s now).1.ctl = LinkCc.tickAll s.ctl (ccConns v (afterHk s.sys now).1.links) now := rfl

theorem hkArm_links (v : Views F G) (s : Full F G) (now : Nat) :
    (hkArm v s now).1.sys.links =
      (afterHk s.sys now).1.links.map fun l => FLink.stamped l (armStamp v s now l.core.connId) := rfl

/-- The shell events of one event of the whole sender. -/
def evsOf (v : Views F G) (s : Full F G) : FEv → List Ev
  | .tick now => armEvs v s now
  | .other e => [e]

/-- The shell events of a run of the whole sender (the verdicts inside are those computed along the run). -/
def trace (v : Views F G) (s : Full F G) : List FEv → List Ev
  | [] => []
  | e :: es => evsOf v s e ++ trace v (Full.step v s e).1 es

theorem step_sys (v : Views F G) (s : Full F G) (e : FEv) :
    (Full.step v s e).1.sys = (run s.sys (evsOf v s e)).1 := by
  cases e with
  | tick now => exact hkArm_sys v s now
  | other e => rfl

theorem run_sys (v : Views F G) (s : Full F G) (es : List FEv) :
    (Full.run v s es).1.sys = (run s.sys (trace v s es)).1 := by
  induction es generalizing s with
  | nil => rfl
  | cons e es ih =>
    show (Full.run v (Full.step v s e).1 es).1.sys = (run s.sys (evsOf v s e ++ trace v (Full.step v s e).1 es)).1
    rw [SysDir.run_append, ih, step_sys]

/-! ## 3. Only `stamp` writes the verdict fields -/

/-- The four fields the stamping loop writes. -/
def verdictsOf (l : FLink F) : Stamp :=
  { weak := l.weak, lossDegraded := l.lossDegraded, ccBackingOff := l.ccBackingOff, ccTarget := l.ccTarget }

theorem verdictsOf_stamped (l : FLink F) (st : Stamp) : verdictsOf (FLink.stamped l st) = st := rfl

theorem vd_recordAttempt (l : FLink F) (now : Nat) : verdictsOf (l.recordAttempt now) = verdictsOf l := by
  unfold FLink.recordAttempt; split <;> rfl

theorem vd_takeBatch (l : FLink F) (now : Nat) : verdictsOf (l.takeBatch now).1 = verdictsOf l := by
  unfold FLink.takeBatch; dsimp only; split <;> rfl

theorem vd_updatePhase (l : FLink F) (now : Nat) : verdictsOf (l.updatePhase now) = verdictsOf l := by
  unfold FLink.updatePhase; dsimp only
  split
  · split <;> rfl
  · split <;> rfl
  · split <;> rfl
  · rfl

theorem vd_recordRttProbe (l : FLink F) : verdictsOf l.recordRttProbe = verdictsOf l := by
  unfold FLink.recordRttProbe
  split
  · split <;> rfl
  · rfl

theorem vd_handleKeepaliveResponse (l : FLink F) (data : Link.Bytes) (now : Nat) :
    verdictsOf (l.handleKeepaliveResponse data now).1 = verdictsOf l := by
  unfold FLink.handleKeepaliveResponse
  split
  · rfl
  · split
    · dsimp only; split <;> rfl
    · rfl

theorem vd_srtAck (l : FLink F) (x : Int) (now : Nat) : verdictsOf (l.srtAck x now) = verdictsOf l := by
  unfold FLink.srtAck
  dsimp only
  split <;> rfl

theorem vd_performWindowRecovery (l : FLink F) (now : Nat) :
    verdictsOf (l.performWindowRecovery now) = verdictsOf l := by
  unfold FLink.performWindowRecovery
  rfl

/-- **No per-link operation of the shell other than `stamp` writes the verdict fields**: a link's `weak`,
`loss_degraded`, `cc_backing_off`, `cc_target_bps` after any sequence of operations that contains no `stamp` are what
they were (tear-down, reconnect, REG3, the selection write-back, … included). -/
theorem verdicts_run {now : Nat} {classic : Bool} {A : Op → Prop} {l l' : FLink F}
    (h : LinkRun now classic A l l') (hA : ¬ A .stamp) : verdictsOf l' = verdictsOf l := by
  induction h with
  | refl => rfl
  | sent _ _ ih => exact ih
  | heard _ _ ih => exact ih
  | grace _ _ ih => exact ih
  | probeDue _ _ ih =>
    rw [← ih]; unfold FLink.stallProbeDue; dsimp only; split <;> rfl
  | queue pkt seq _ _ _ ih => exact ih
  | take _ _ ih => rw [← ih]; exact vd_takeBatch _ _
  | mark _ _ ih => exact ih
  | reconnect _ _ ih =>
    rw [← ih]
    exact vd_recordAttempt _ now
  | attemptFail _ _ ih =>
    rw [← ih]
    exact vd_recordAttempt _ now
  | reg3 _ _ ih => exact ih
  | kaSend _ _ ih => exact ih
  | recover _ _ ih => rw [← ih]; exact vd_performWindowRecovery _ _
  | tick _ _ ih =>
    rw [← ih]
    exact vd_updatePhase _ _
  | kaEcho data _ _ ih =>
    rw [← ih]
    unfold Uplink.kaLink
    split
    · exact (vd_recordRttProbe _).trans (vd_handleKeepaliveResponse _ _ _)
    · exact vd_handleKeepaliveResponse _ _ _
  | srtAck x _ _ ih => rw [← ih]; exact vd_srtAck _ _ _
  | sack seq _ _ ih => exact ih
  | gack _ _ ih => exact ih
  | nak seq _ _ ih => exact ih
  | select x _ _ ih => exact ih
  | stamp w ld ccb cct ha _ _ => exact absurd ha hA
  | syncTimeout T _ _ ih => exact ih

/-- Is the event a verdict stamp? -/
def isStamp : Ev → Bool
  | .stamp _ _ _ _ _ => true
  | _ => false

theorem evOps_no_stamp (s : Sys F) (e : Ev) (j : Nat) (h : isStamp e = false) : ¬ evOps s e j .stamp := by
  cases e with
  | client now pkt => intro h'; rcases h' with h' | h' | h' | h' | h' <;> cases h'
  | uplink now cid data =>
    rintro ⟨pt, -, h'⟩
    rcases h' with (⟨-, h'⟩ | ⟨-, h'⟩ | ⟨-, h' | h'⟩) | ⟨-, ⟨-, h'⟩ | ⟨-, h'⟩ | ⟨-, h'⟩ | ⟨-, h'⟩ | ⟨-, -, -, -, -, h'⟩⟩ <;>
      cases h'
  | flush now => intro h'; cases h'
  | hk now =>
    intro h'
    rcases h' with (h' | h' | h' | h' | h' | ⟨h', -⟩) | ⟨h', -⟩ <;> cases h'
  | setCfg cfg => exact id
  | crit d => exact id
  | failNext cid => exact id
  | failAfter cid k => exact id
  | failBind cid => exact id
  | stamp idx weak ld ccb cct => cases h
  | syncTimeout => intro h'; cases h'
  | reload now addrs outs => exact id

/-- **Every shell event other than `stamp` and `reload` leaves the verdict fields of EVERY link as they were**
(index by index; the link list keeps its length). -/
theorem step_verdicts (s : Sys F) (e : Ev) (hs : isStamp e = false) (hnr : e.isReload = false) :
    (step s e).1.links.map verdictsOf = s.links.map verdictsOf := by
  obtain ⟨hlen, hrun⟩ := step_run s e hnr
  apply List.ext_getElem?
  intro j
  rw [List.getElem?_map, List.getElem?_map]
  cases hj : s.links[j]? with
  | none =>
    have : (step s e).1.links[j]? = none := by
      rw [List.getElem?_eq_none_iff] at hj ⊢; omega
    rw [this]
  | some l =>
    obtain ⟨l', hl', hr⟩ := hrun j l hj
    rw [hl']
    simp only [Option.map_some]
    rw [verdicts_run hr (evOps_no_stamp s e j hs)]

/-! ## 4. What `tick_all` leaves in the controller -/

section ctl
open Srtla.LinkCc

/-- The entry of `id` after `tick_all`: present iff `id` is among the connections of the call, and then it is the
loop bodies of the connections with that id applied, in order, to the stored entry (the default state if none). -/
theorem tickAll_get (m : Ctl G) (conns : List (ConnIn G)) (now id : Nat) :
    (tickAll m conns now).get id =
      if conns.any (·.id == id) then
        some ((conns.filter (·.id == id)).foldl (fun s c => connStep s c now) ((m.get id).getD St.default))
      else none := by
  simp only [tickAll]
  rw [get_filter (tickLoop m now conns) (fun k => conns.any (·.id == k)) id, tickLoop_get]
  split <;> rfl

/-- **Entries after a tick = the conn ids of that tick** (`per_conn.retain`). -/
theorem tickAll_isSome_iff (m : Ctl G) (conns : List (ConnIn G)) (now id : Nat) :
    ((tickAll m conns now).get id).isSome = true ↔ ∃ c ∈ conns, c.id = id := by
  rw [tickAll_get]
  split
  · rename_i h
    simp only [Option.isSome_some, true_iff]
    obtain ⟨c, hc, hid⟩ := List.any_eq_true.mp h
    exact ⟨c, hc, by simpa using hid⟩
  · rename_i h
    simp only [Option.isSome_none, Bool.false_eq_true, false_iff]
    rintro ⟨c, hc, hid⟩
    exact h (List.any_eq_true.mpr ⟨c, hc, by simp [hid]⟩)

end ctl

end Srtla.Arm
