import Srtla.Lemmas.SysDirKeys
import Srtla.Lemmas.ReloadBasic
/-!
# The link set along a run WITH reloads, in closed form

The KEY of a link is the pair (conn id, address token).  No operation of the shell rewrites either
(`connId_run`, `addr_run`: induction over the per-link operation repertoire `LinkRun`), so every event that is
not a reload keeps the key of the link at every index; a reload maps the key list by a pure function
(`keysReload`: keep the keys whose address is still desired, in order, then one key per created link).
Hence the key list after ANY run is a pure function of the initial key list and the event list
(`run_keys`), with no hypothesis at all — in particular which conn ids name a PRESENT link at any moment of a
run with reloads is known in closed form.
-/
namespace Srtla.Sys
open Srtla Srtla.Gen Srtla.Conn Srtla.Select Srtla.Rtt Srtla.Link Srtla.SysDir Scalar

set_option linter.unusedSectionVars false

variable {F : Type} [Scalar F]

/-! ## The address token is never rewritten -/

theorem addr_recordAttempt (l : FLink F) (now : Nat) : (l.recordAttempt now).addr = l.addr := by
  unfold FLink.recordAttempt; split <;> rfl

theorem addr_takeBatch (l : FLink F) (now : Nat) : (l.takeBatch now).1.addr = l.addr := by
  unfold FLink.takeBatch; dsimp only; split <;> rfl

theorem addr_updatePhase (l : FLink F) (now : Nat) : (l.updatePhase now).addr = l.addr := by
  unfold FLink.updatePhase; dsimp only
  split
  · split <;> rfl
  · split <;> rfl
  · split <;> rfl
  · rfl

theorem addr_recordRttProbe (l : FLink F) : l.recordRttProbe.addr = l.addr := by
  unfold FLink.recordRttProbe
  split
  · split <;> rfl
  · rfl

theorem addr_handleKeepaliveResponse (l : FLink F) (data : Bytes) (now : Nat) :
    (l.handleKeepaliveResponse data now).1.addr = l.addr := by
  unfold FLink.handleKeepaliveResponse
  split
  · rfl
  · split
    · dsimp only; split <;> rfl
    · rfl

theorem addr_srtAck (l : FLink F) (x : Int) (now : Nat) : (l.srtAck x now).addr = l.addr := by
  unfold FLink.srtAck
  dsimp only
  split <;> rfl

theorem addr_performWindowRecovery (l : FLink F) (now : Nat) : (l.performWindowRecovery now).addr = l.addr := by
  unfold FLink.performWindowRecovery
  rfl

/-- The address token of a link never changes (by any sequence of per-link operations of the shell). -/
theorem addr_run {now : Nat} {classic : Bool} {A : Op → Prop} {l l' : FLink F}
    (h : LinkRun now classic A l l') : l'.addr = l.addr := by
  induction h with
  | refl => rfl
  | sent _ _ ih => exact ih
  | heard _ _ ih => exact ih
  | grace _ _ ih => exact ih
  | probeDue _ _ ih =>
    rw [← ih]; unfold FLink.stallProbeDue; dsimp only; split <;> rfl
  | queue pkt seq _ _ _ ih => exact ih
  | take _ _ ih => rw [← ih]; exact addr_takeBatch _ _
  | mark _ _ ih => exact ih
  | reconnect _ _ ih =>
    rw [← ih]
    exact addr_recordAttempt _ now
  | attemptFail _ _ ih =>
    rw [← ih]
    exact addr_recordAttempt _ now
  | reg3 _ _ ih => exact ih
  | kaSend _ _ ih => exact ih
  | recover _ _ ih => rw [← ih]; exact addr_performWindowRecovery _ _
  | tick _ _ ih =>
    rw [← ih]
    exact addr_updatePhase _ _
  | kaEcho data _ _ ih =>
    rw [← ih]
    unfold Uplink.kaLink
    split
    · exact (addr_recordRttProbe _).trans (addr_handleKeepaliveResponse _ _ _)
    · exact addr_handleKeepaliveResponse _ _ _
  | srtAck x _ _ ih => rw [← ih]; exact addr_srtAck _ _ _
  | sack seq _ _ ih => exact ih
  | gack _ _ ih => exact ih
  | nak seq _ _ ih => exact ih
  | select x _ _ ih => exact ih
  | stamp w ld ccb cct _ _ ih => exact ih
  | syncTimeout T _ _ ih => exact ih

/-! ## Keys -/

/-- (conn id, address token) of every link, in order. -/
def keysOf (ls : List (FLink F)) : List (Nat × Nat) := ls.map fun l => (l.core.connId, l.addr)

theorem keysOf_ids (ls : List (FLink F)) : (keysOf ls).map (·.1) = ids ls := by
  simp only [keysOf, ids, List.map_map]; rfl

/-- **An event that is not a reload keeps the key of the link at every index** — no hypothesis on the state. -/
theorem step_keys (s : Sys F) (e : Ev) (hnr : e.isReload = false) : keysOf (step s e).1.links = keysOf s.links := by
  obtain ⟨h1, h2⟩ := step_run s e hnr
  apply List.ext_getElem?
  intro i
  simp only [keysOf, List.getElem?_map]
  cases hl : s.links[i]? with
  | none =>
    have : (step s e).1.links[i]? = none := by
      rw [List.getElem?_eq_none_iff, h1]; exact List.getElem?_eq_none_iff.1 hl
    rw [this]
  | some l =>
    obtain ⟨l', g1, g2⟩ := h2 i l hl
    rw [g1]
    simp only [Option.map_some, connId_run g2, addr_run g2]

/-- The keys `create_connections_from_ips` adds: one per needed address whose attempt succeeded. -/
def createdKeys : List Nat → List (Option Nat) → List (Nat × Nat)
  | [], _ => []
  | a :: rest, outs =>
    match outs.head?.join with
    | some id => (id, a) :: createdKeys rest outs.tail
    | none => createdKeys rest outs.tail

/-- `apply_connection_changes` on the key list. -/
def keysReload (keys : List (Nat × Nat)) (addrs : List Nat) (outs : List (Option Nat)) : List (Nat × Nat) :=
  keys.filter (fun k => addrs.contains k.2) ++
    createdKeys ((dedupSeen [] addrs).filter fun a => !(keys.map (·.2)).contains a) outs

/-- The key list after one event. -/
def keysAfter (keys : List (Nat × Nat)) : Ev → List (Nat × Nat)
  | .reload _ addrs outs => keysReload keys addrs outs
  | _ => keys

/-- The key list after a run: a pure function of the initial keys and the events. -/
def keysRun (keys : List (Nat × Nat)) : List Ev → List (Nat × Nat)
  | [] => keys
  | e :: es => keysRun (keysAfter keys e) es

theorem keysOf_createConnections (now : Nat) (as : List Nat) (outs : List (Option Nat)) :
    keysOf (createConnections now as outs : List (FLink F)) = createdKeys as outs := by
  induction as generalizing outs with
  | nil => rfl
  | cons a rest ih =>
    unfold createConnections createdKeys
    cases h : outs.head?.join with
    | some id =>
      simp only [keysOf, List.map_cons]
      have := ih outs.tail
      simp only [keysOf] at this
      rw [this]; rfl
    | none => exact ih outs.tail

theorem reload_keys (s : Sys F) (now : Nat) (addrs : List Nat) (outs : List (Option Nat)) :
    keysOf (step s (.reload now addrs outs)).1.links = keysReload (keysOf s.links) addrs outs := by
  rw [reload_links]
  unfold keysReload
  have h1 : keysOf (retained s.links addrs) = (keysOf s.links).filter (fun k => addrs.contains k.2) := by
    unfold retained keysOf
    rw [List.filter_map]
    rfl
  have h2 : (keysOf s.links).map (·.2) = s.links.map (·.addr) := by
    simp only [keysOf, List.map_map]; rfl
  show keysOf (retained s.links addrs ++ createConnections now (neededAddrs s.links addrs) outs) = _
  unfold neededAddrs
  rw [h2, ← h1, ← keysOf_createConnections (F := F) now]
  simp only [keysOf, List.map_append]

/-- **One event, any event**: the key list afterwards is `keysAfter` of the key list before. -/
theorem step_keysAfter (s : Sys F) (e : Ev) : keysOf (step s e).1.links = keysAfter (keysOf s.links) e := by
  cases hnr : e.isReload with
  | false =>
    rw [step_keys s e hnr]
    cases e <;> first | rfl | cases hnr
  | true =>
    cases e with
    | reload now addrs outs => exact reload_keys s now addrs outs
    | _ => cases hnr

/-- **The link set along ANY run in closed form**: the keys (conn id, address) of the links after a run — reloads
included, no hypothesis — are `keysRun` of the initial keys. -/
theorem run_keys (s : Sys F) (evs : List Ev) : keysOf (run s evs).1.links = keysRun (keysOf s.links) evs := by
  induction evs generalizing s with
  | nil => rfl
  | cons e es ih =>
    simp only [run, keysRun]
    rw [ih, step_keysAfter]

theorem run_ids (s : Sys F) (evs : List Ev) : ids (run s evs).1.links = (keysRun (keysOf s.links) evs).map (·.1) := by
  rw [← run_keys, keysOf_ids]

end Srtla.Sys
